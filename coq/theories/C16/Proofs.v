(** C16: proofs about the pass-through model (rows). *)
From LMD Require Import Base.Str C16.Model.
From Coq Require Import List ZArith Bool Lia Permutation Sorted.
Import ListNotations.

(** *** generic list facts *)

Lemma mapM_map_Some {A B C} (f : B -> option C) (g : A -> B) (h : A -> C) (l : list A) :
  (forall x, In x l -> f (g x) = Some (h x)) -> mapM f (map g l) = Some (map h l).
Proof.
  induction l as [|x l IH]; intros H; cbn [map mapM].
  - reflexivity.
  - rewrite (H x (or_introl eq_refl)), IH by (intros y Hy; apply H; right; exact Hy).
    reflexivity.
Qed.

Lemma concat_opt_Some {A B} (F : A -> option (list B)) (G : A -> list B) (l : list A) :
  (forall x, In x l -> F x = Some (G x)) -> concat_opt (map F l) = Some (flat_map G l).
Proof.
  induction l as [|x l IH]; intros H; cbn [map concat_opt flat_map].
  - reflexivity.
  - rewrite (H x (or_introl eq_refl)), IH by (intros y Hy; apply H; right; exact Hy).
    reflexivity.
Qed.

Lemma map_flat_map {A B C} (f : B -> C) (g : A -> list B) (l : list A) :
  map f (flat_map g l) = flat_map (fun x => map f (g x)) l.
Proof.
  induction l as [|x l IH]; cbn [flat_map map]; [reflexivity|].
  rewrite map_app, IH; reflexivity.
Qed.

Lemma firstn_incl {A} (n : nat) (l : list A) : incl (firstn n l) l.
Proof.
  revert n; induction l as [|x l IH]; intros [|n]; cbn [firstn]; intros y Hy;
    try contradiction.
  destruct Hy as [->|Hy]; [left; reflexivity|right; exact (IH n y Hy)].
Qed.

Lemma skipn_incl {A} (n : nat) (l : list A) : incl (skipn n l) l.
Proof.
  revert l; induction n as [|n IH]; intros [|x l]; cbn [skipn]; intros y Hy;
    try assumption.
  right; exact (IH l y Hy).
Qed.

Lemma Sorted_skipn {A} (R : A -> A -> Prop) (n : nat) (l : list A) :
  Sorted R l -> Sorted R (skipn n l).
Proof.
  revert l; induction n as [|n IH]; intros [|x l] H; cbn [skipn]; try assumption.
  apply IH; inversion H; assumption.
Qed.

Lemma Sorted_firstn {A} (R : A -> A -> Prop) (n : nat) (l : list A) :
  Sorted R l -> Sorted R (firstn n l).
Proof.
  revert n; induction l as [|x l IH]; intros [|n] H; cbn [firstn]; try constructor.
  - apply IH; inversion H; assumption.
  - inversion H as [|? ? Hs Hd]; subst.
    destruct l as [|y l]; destruct n as [|n]; cbn [firstn]; constructor.
    inversion Hd; assumption.
Qed.

Lemma Sorted_map {A B} (R : B -> B -> Prop) (f : A -> B) (l : list A) :
  Sorted R (map f l) -> Sorted (fun a b => R (f a) (f b)) l.
Proof.
  induction l as [|x l IH]; intros H; cbn [map] in *; constructor.
  - apply IH; inversion H; assumption.
  - inversion H as [|? ? Hs Hd]; subst.
    destruct l as [|y l]; constructor; cbn [map] in Hd; inversion Hd; assumption.
Qed.

Lemma Sorted_weaken {A} (R S : A -> A -> Prop) (l : list A) :
  (forall a b, R a b -> S a b) -> Sorted R l -> Sorted S l.
Proof.
  intros HRS; induction 1 as [|x l Hs IH Hd]; constructor; [assumption|].
  destruct Hd; constructor; apply HRS; assumption.
Qed.

Lemma Sorted_all {A} (R : A -> A -> Prop) (l : list A) : (forall a b, R a b) -> Sorted R l.
Proof.
  intros H; induction l as [|x l IH]; constructor; [assumption|].
  destruct l; constructor; apply H.
Qed.

(** *** equality of resolved columns *)

Lemma vkind_eqb_eq a b : vkind_eqb a b = true <-> a = b.
Proof. destruct a, b; cbn; split; congruence. Qed.

Lemma ctype_eqb_eq a b : ctype_eqb a b = true <-> a = b.
Proof. destruct a, b; cbn; split; congruence. Qed.

Lemma rcol_eqb_eq a b : rcol_eqb a b = true <-> a = b.
Proof.
  destruct a as [n i t|k], b as [m j u|l]; cbn [rcol_eqb]; try (split; congruence).
  - rewrite !andb_true_iff, str_eqb_eq, Nat.eqb_eq, ctype_eqb_eq.
    split; [intros [[-> ->] ->]; reflexivity|intros H; inversion H; auto].
  - rewrite vkind_eqb_eq; split; congruence.
Qed.

Lemma find_idx_nth {B} (g : rcol -> B) (d : B) (c : rcol) (cols : list rcol) :
  In c cols -> nth (find_idx c cols) (map g cols) d = g c.
Proof.
  induction cols as [|x cols IH]; intros Hin; [contradiction|].
  cbn [find_idx map].
  destruct (rcol_eqb c x) eqn:E.
  - apply rcol_eqb_eq in E; subst; reflexivity.
  - cbn [nth]. apply IH. destruct Hin as [->|Hin]; [|assumption].
    assert (rcol_eqb c c = true) by (apply rcol_eqb_eq; reflexivity). congruence.
Qed.

(** *** the columns fetched from the backends *)

Lemma add_extra_fold_prefix (cs acc : list rcol) :
  exists e, fold_left add_extra cs acc = acc ++ e.
Proof.
  revert acc; induction cs as [|c cs IH]; intros acc; cbn [fold_left].
  - exists []; rewrite app_nil_r; reflexivity.
  - unfold add_extra at 2. destruct (existsb (rcol_eqb c) acc).
    + apply IH.
    + destruct (IH (acc ++ [c])) as [e He]. exists ([c] ++ e).
      rewrite He, app_assoc; reflexivity.
Qed.

Lemma add_extra_fold_in (cs acc : list rcol) (c : rcol) :
  In c acc \/ In c cs -> In c (fold_left add_extra cs acc).
Proof.
  revert acc; induction cs as [|x cs IH]; intros acc H; cbn [fold_left].
  - destruct H as [H|[]]; exact H.
  - apply IH. unfold add_extra.
    destruct (existsb (rcol_eqb x) acc) eqn:E.
    + destruct H as [H|[->|H]]; auto.
      left. apply existsb_exists in E as [y [Hy Hxy]]. apply rcol_eqb_eq in Hxy; subst; exact Hy.
    + destruct H as [H|[->|H]]; auto; left; apply in_or_app; auto.
      right; left; reflexivity.
Qed.

Lemma full_cols_prefix sch q : exists e, full_cols sch q = req_cols sch q ++ e.
Proof.
  unfold full_cols.
  destruct (add_extra_fold_prefix (map fst (sort_cols sch q)) (req_cols sch q)) as [e He].
  rewrite He.
  destruct (is_nil (bnames (req_cols sch q ++ e)) && is_nil (q_stats q)).
  - exists (e ++ first_backend sch); rewrite app_assoc; reflexivity.
  - exists e; reflexivity.
Qed.

Lemma full_cols_sort_in sch q c d : In (c, d) (sort_cols sch q) -> In c (full_cols sch q).
Proof.
  intros H. unfold full_cols.
  assert (Hin : In c (fold_left add_extra (map fst (sort_cols sch q)) (req_cols sch q))).
  { apply add_extra_fold_in; right. change c with (fst (c, d)). apply in_map; exact H. }
  destruct (is_nil _ && is_nil _); [apply in_or_app; left|]; exact Hin.
Qed.

Lemma full_cols_req_in sch q c : In c (req_cols sch q) -> In c (full_cols sch q).
Proof.
  intros H. destruct (full_cols_prefix sch q) as [e ->]. apply in_or_app; left; exact H.
Qed.

Lemma strip_full {B} (g : rcol -> B) sch q :
  firstn (length (req_cols sch q)) (map g (full_cols sch q)) = map g (req_cols sch q).
Proof.
  destruct (full_cols_prefix sch q) as [e ->].
  rewrite map_app, firstn_app, map_length, Nat.sub_diag, firstn_O, app_nil_r.
  rewrite <- (map_length g (req_cols sch q)). apply firstn_all.
Qed.

Lemma bnames_in n i t cols : In (RB n i t) cols -> In n (bnames cols).
Proof.
  intros H. unfold bnames. apply in_flat_map. exists (RB n i t); split; [exact H|left; reflexivity].
Qed.

(** *** insertion of the virtual values *)

Lemma insert_at_app (pre post : row) (v : cell) :
  insert_at (length pre) v (pre ++ post) = Some (pre ++ v :: post).
Proof.
  unfold insert_at.
  assert (Hle : Nat.leb (length pre) (length (pre ++ post)) = true)
    by (apply Nat.leb_le; rewrite app_length; lia).
  rewrite Hle, firstn_app, skipn_app, Nat.sub_diag, firstn_all, skipn_all.
  cbn [firstn skipn app]. rewrite app_nil_r; reflexivity.
Qed.

Definition count_backend (cols : list rcol) : nat := length (bidx cols).

Lemma count_backend_RB n i t cols : count_backend (RB n i t :: cols) = S (count_backend cols).
Proof. reflexivity. Qed.

Lemma count_backend_RV k cols : count_backend (RV k :: cols) = count_backend cols.
Proof. reflexivity. Qed.

(** the row the insertion loop has to produce from the backend's cells [bc] *)
Fixpoint weave (b : backend) (cols : list rcol) (bc : row) : row :=
  match cols with
  | [] => bc
  | RB _ _ _ :: r => match bc with x :: bc' => x :: weave b r bc' | [] => weave b r [] end
  | RV k :: r => vval b k :: weave b r bc
  end.

Lemma splice_weave b : forall cols pre bc,
  count_backend cols <= length bc ->
  splice b (vpos (length pre) cols) (pre ++ bc) = Some (pre ++ weave b cols bc).
Proof.
  induction cols as [|c cols IH]; intros pre bc Hlen.
  - reflexivity.
  - destruct c as [n i t|k]; cbn [vpos weave].
    + rewrite count_backend_RB in Hlen.
      destruct bc as [|x bc']; [cbn [length] in Hlen; lia|].
      specialize (IH (pre ++ [x]) bc').
      rewrite app_length, Nat.add_1_r, <- !app_assoc in IH. cbn [app] in IH.
      apply IH. cbn [length] in Hlen; lia.
    + cbn [splice]. rewrite insert_at_app.
      specialize (IH (pre ++ [vval b k]) bc).
      rewrite app_length, Nat.add_1_r, <- !app_assoc in IH. cbn [app] in IH.
      apply IH. exact Hlen.
Qed.

Lemma weave_project b raw : forall cols,
  weave b cols (project cols raw) = map (col_value b raw) cols.
Proof.
  induction cols as [|c cols IH]; [reflexivity|].
  destruct c as [n i t|k]; cbn [weave map col_value].
  - unfold project in *; cbn [bidx flat_map app map]. fold (bidx cols). rewrite IH; reflexivity.
  - unfold project in *; cbn [bidx flat_map app]. fold (bidx cols). rewrite IH; reflexivity.
Qed.

Lemma splice_project b raw cols :
  splice b (vpos 0 cols) (project cols raw) = Some (map (col_value b raw) cols).
Proof.
  pose proof (splice_weave b cols [] (project cols raw)) as H.
  cbn [length app] in H. rewrite H, weave_project; [reflexivity|].
  unfold count_backend, project; rewrite map_length; lia.
Qed.

Lemma insert_at_suffix i v l t :
  i <= length l -> insert_at i v (l ++ t) = option_map (fun x => x ++ t) (insert_at i v l).
Proof.
  intros Hi. unfold insert_at.
  assert (H1 : Nat.leb i (length (l ++ t)) = true) by (apply Nat.leb_le; rewrite app_length; lia).
  assert (H2 : Nat.leb i (length l) = true) by (apply Nat.leb_le; exact Hi).
  rewrite H1, H2. cbn [option_map].
  rewrite firstn_app, skipn_app.
  replace (i - length l) with 0 by lia. cbn [firstn skipn].
  rewrite app_nil_r, <- app_assoc. reflexivity.
Qed.

(** *** rows of one backend, merged rows *)

Definition origin := (backend * row)%type.

Definition full_row (cols : list rcol) (o : origin) : row := map (col_value (fst o) (snd o)) cols.

(** the rows the backends answer with, together with the backend they come from *)
Definition origins (q : request) (bs : list backend) : list origin :=
  flat_map (fun b => map (pair b) (limit_rows (q_limit q) (b_rows b))) (reachable q bs).

Lemma peer_rows_spec q cols b :
  peer_rows q cols b = Some (map (fun raw => map (col_value b raw) cols) (limit_rows (q_limit q) (b_rows b))).
Proof.
  unfold peer_rows, backend_answer. apply mapM_map_Some. intros raw _. apply splice_project.
Qed.

Lemma merged_spec sch q bs :
  merged sch q bs = Some (map (full_row (full_cols sch q)) (origins q bs)).
Proof.
  unfold merged, origins.
  rewrite (concat_opt_Some _ (fun b => map (fun raw => map (col_value b raw) (full_cols sch q))
                                         (limit_rows (q_limit q) (b_rows b))))
    by (intros b _; apply peer_rows_spec).
  rewrite map_flat_map. f_equal. apply flat_map_ext. intros b. rewrite map_map. reflexivity.
Qed.

Lemma origins_genuine q bs o :
  In o (origins q bs) -> In (fst o) (reachable q bs) /\ In (snd o) (b_rows (fst o)).
Proof.
  unfold origins. intros H. apply in_flat_map in H as [b [Hb Ho]].
  apply in_map_iff in Ho as [raw [<- Hraw]]. cbn [fst snd]. split; [exact Hb|].
  destruct (q_limit q) as [n|]; cbn [limit_rows] in Hraw; [exact (firstn_incl _ _ _ Hraw)|exact Hraw].
Qed.

Lemma origins_nolimit q bs :
  q_limit q = None -> origins q bs = flat_map (fun b => map (pair b) (b_rows b)) (reachable q bs).
Proof. intros H. unfold origins. rewrite H. reflexivity. Qed.

(** *** window *)

Lemma window_map {A B} (f : A -> B) q (l : list A) : window q (map f l) = map f (window q l).
Proof.
  unfold window. rewrite map_length.
  destruct (Nat.ltb 0 (q_offset q)); [destruct (Nat.ltb (length l) (q_offset q))|].
  - cbn [map length]. destruct (q_limit q) as [n|]; [|reflexivity]. destruct (Nat.ltb n 0); [rewrite !firstn_nil|]; reflexivity.
  - rewrite skipn_map, map_length. destruct (q_limit q) as [n|]; [|reflexivity].
    destruct (Nat.ltb n _); [apply firstn_map|reflexivity].
  - rewrite map_length. destruct (q_limit q) as [n|]; [|reflexivity].
    destruct (Nat.ltb n _); [apply firstn_map|reflexivity].
Qed.

Lemma window_incl {A} q (l : list A) : incl (window q l) l.
Proof.
  unfold window.
  set (l1 := if Nat.ltb 0 (q_offset q) then _ else l).
  assert (H1 : incl l1 l).
  { subst l1. destruct (Nat.ltb 0 (q_offset q)); [|apply incl_refl].
    destruct (Nat.ltb (length l) (q_offset q)); [intros x []|apply skipn_incl]. }
  destruct (q_limit q) as [n|]; [|exact H1].
  destruct (Nat.ltb n (length l1)); [|exact H1].
  intros x Hx. apply H1. exact (firstn_incl _ _ _ Hx).
Qed.

Lemma window_length {A} q (l : list A) n : q_limit q = Some n -> length (window q l) <= n.
Proof.
  intros H. unfold window. rewrite H.
  set (l1 := if Nat.ltb 0 (q_offset q) then _ else l).
  destruct (Nat.ltb n (length l1)) eqn:E.
  - rewrite firstn_length. lia.
  - apply Nat.ltb_ge in E. exact E.
Qed.

Lemma window_id {A} q (l : list A) : q_limit q = None -> q_offset q = 0 -> window q l = l.
Proof. intros H1 H2. unfold window. rewrite H1, H2. reflexivity. Qed.

Lemma window_sorted {A} (R : A -> A -> Prop) q (l : list A) : Sorted R l -> Sorted R (window q l).
Proof.
  intros H. unfold window.
  set (l1 := if Nat.ltb 0 (q_offset q) then _ else l).
  assert (H1 : Sorted R l1).
  { subst l1. destruct (Nat.ltb 0 (q_offset q)); [|exact H].
    destruct (Nat.ltb (length l) (q_offset q)); [constructor|apply Sorted_skipn; exact H]. }
  destruct (q_limit q) as [n|]; [|exact H1].
  destruct (Nat.ltb n (length l1)); [apply Sorted_firstn|]; exact H1.
Qed.

(** the window as the client describes it: skip Offset rows, then at most Limit rows *)
Lemma window_spec {A} q (l : list A) :
  window q l = limit_rows (q_limit q) (skipn (q_offset q) l).
Proof.
  unfold window.
  assert (H1 : (if Nat.ltb 0 (q_offset q)
                then (if Nat.ltb (length l) (q_offset q) then [] else skipn (q_offset q) l)
                else l) = skipn (q_offset q) l).
  { destruct (q_offset q) as [|o]; [reflexivity|]. change (Nat.ltb 0 (S o)) with true. cbn iota.
    destruct (Nat.ltb (length l) (S o)) eqn:E; [|reflexivity].
    apply Nat.ltb_lt in E. symmetry. apply skipn_all2. lia. }
  rewrite H1. destruct (q_limit q) as [n|]; [|reflexivity]. cbn [limit_rows].
  destruct (Nat.ltb n (length (skipn (q_offset q) l))) eqn:E; [reflexivity|].
  apply Nat.ltb_ge in E. symmetry. apply firstn_all2. exact E.
Qed.

(** *** comparison by the sort keys, on origins *)

(** Response.Less expressed on the values of the sort columns *)
Fixpoint spec_le (sc : list (rcol * bool)) (o1 o2 : origin) : bool :=
  match sc with
  | [] => true
  | (c, d) :: r =>
      match cmp_cells (is_num c) d (col_value (fst o1) (snd o1) c) (col_value (fst o2) (snd o2) c) with
      | Some x => x
      | None => spec_le r o1 o2
      end
  end.

Lemma row_le_spec (full : list rcol) (sc : list (rcol * bool)) (o1 o2 : origin) :
  (forall c d, In (c, d) sc -> In c full) ->
  row_le (map (fun cd => mkKey (find_idx (fst cd) full) (is_num (fst cd)) (snd cd)) sc)
         (full_row full o1) (full_row full o2) = spec_le sc o1 o2.
Proof.
  induction sc as [|[c d] sc IH]; intros Hin; [reflexivity|].
  cbn [map row_le spec_le fst snd k_idx k_num k_desc].
  unfold full_row at 1 2.
  rewrite !find_idx_nth by (apply (Hin c d); left; reflexivity).
  rewrite IH by (intros c' d' H; apply (Hin c' d'); right; exact H).
  reflexivity.
Qed.

Section WithSort.
  Variable sort : (row -> row -> bool) -> list row -> list row.
  Hypothesis sort_perm : forall le l, Permutation (sort le l) l.
  Hypothesis sort_sorted :
    forall keys l, Sorted (fun a b => row_le keys a b = true) (sort (row_le keys) l).

  (** the result as a list of origins: which backend row every result row is *)
  Lemma run_rows_origins sch q bs :
    exists os,
      run_rows sort sch q bs = Some (map (full_row (req_cols sch q)) (window q os)) /\
      Permutation os (origins q bs) /\
      Sorted (fun o1 o2 => spec_le (sort_cols sch q) o1 o2 = true) os.
  Proof.
    unfold run_rows. rewrite merged_spec.
    set (f := full_row (full_cols sch q)).
    assert (Hstrip : forall os, map (firstn (length (req_cols sch q))) (map f os)
                               = map (full_row (req_cols sch q)) os).
    { intros os. rewrite map_map. apply map_ext. intros o. apply strip_full. }
    destruct (is_nil (q_sort q)) eqn:Enil.
    - exists (origins q bs). rewrite Hstrip, window_map. split; [reflexivity|]. split; [apply Permutation_refl|].
      unfold sort_cols. destruct (q_sort q); [|discriminate]. apply Sorted_all. reflexivity.
    - pose proof (sort_perm (row_le (sort_keys sch q)) (map f (origins q bs))) as Hp.
      destruct (Permutation_map_inv _ _ Hp) as [os [Heq Hpo]].
      exists os. rewrite Heq, Hstrip, window_map. split; [reflexivity|]. split; [apply Permutation_sym; exact Hpo|].
      pose proof (sort_sorted (sort_keys sch q) (map f (origins q bs))) as Hs.
      rewrite Heq in Hs. apply Sorted_map in Hs.
      eapply Sorted_weaken; [|exact Hs].
      intros o1 o2 H. cbn beta in H. unfold f, sort_keys in H.
      rewrite row_le_spec in H; [exact H|].
      intros c d Hcd. exact (full_cols_sort_in sch q c d Hcd).
  Qed.

  Lemma thm_union_complete sch q bs :
    q_limit q = None -> q_offset q = 0 ->
    exists res, run_rows sort sch q bs = Some res /\
      Permutation res
        (flat_map (fun b => map (fun raw => map (col_value b raw) (req_cols sch q)) (b_rows b))
                  (reachable q bs)).
  Proof.
    intros Hl Ho. destruct (run_rows_origins sch q bs) as [os [Hrun [Hperm _]]].
    eexists; split; [exact Hrun|].
    rewrite (window_id q os Hl Ho).
    eapply Permutation_trans; [apply Permutation_map; exact Hperm|].
    rewrite (origins_nolimit q bs Hl), map_flat_map.
    erewrite flat_map_ext; [apply Permutation_refl|].
    intros b. rewrite map_map. reflexivity.
  Qed.

  Lemma thm_genuine_rows sch q bs :
    exists res, run_rows sort sch q bs = Some res /\
      (forall n, q_limit q = Some n -> length res <= n) /\
      Forall (fun r => exists b raw, In b (reachable q bs) /\ In raw (b_rows b) /\
                                     r = map (col_value b raw) (req_cols sch q)) res.
  Proof.
    destruct (run_rows_origins sch q bs) as [os [Hrun [Hperm _]]].
    eexists; split; [exact Hrun|]. split.
    - intros n Hn. rewrite map_length. apply window_length; exact Hn.
    - apply Forall_forall. intros r Hr. apply in_map_iff in Hr as [o [<- Ho]].
      apply window_incl in Ho.
      apply (Permutation_in _ Hperm) in Ho. apply origins_genuine in Ho as [Hb Hraw].
      exists (fst o), (snd o). repeat split; assumption.
  Qed.

  Lemma thm_sorted_by_keys sch q bs :
    exists os, run_rows sort sch q bs = Some (map (full_row (req_cols sch q)) os) /\
      Sorted (fun o1 o2 => spec_le (sort_cols sch q) o1 o2 = true) os /\
      Forall (fun o => In (fst o) (reachable q bs) /\ In (snd o) (b_rows (fst o))) os.
  Proof.
    destruct (run_rows_origins sch q bs) as [os [Hrun [Hperm Hs]]].
    exists (window q os). split; [exact Hrun|]. split; [apply window_sorted; exact Hs|].
    apply Forall_forall. intros o Ho. apply window_incl in Ho.
    apply (Permutation_in _ Hperm) in Ho. apply origins_genuine; exact Ho.
  Qed.

  (** with Limit and Offset the result is a window of the sorted answers *)
  Lemma thm_window sch q bs :
    exists os, run_rows sort sch q bs
               = Some (map (full_row (req_cols sch q)) (limit_rows (q_limit q) (skipn (q_offset q) os))) /\
      Permutation os (origins q bs) /\
      Sorted (fun o1 o2 => spec_le (sort_cols sch q) o1 o2 = true) os.
  Proof.
    destruct (run_rows_origins sch q bs) as [os [Hrun H]].
    exists os. rewrite <- window_spec. split; assumption.
  Qed.
End WithSort.

(** *** failed map, sub request *)

Lemma thm_failed_map q bs :
  (forall b, In b bs -> selected q b = true ->
     (b_up b = false -> In (b_key b) (failed_keys q bs)) /\
     (b_up b = true -> In b (reachable q bs))) /\
  (forall k, In k (failed_keys q bs) ->
     exists b, In b bs /\ b_key b = k /\ selected q b = true /\ b_up b = false).
Proof.
  split.
  - intros b Hb Hsel. split; intros Hup.
    + unfold failed_keys. apply in_map. apply filter_In. split; [exact Hb|]. rewrite Hsel, Hup; reflexivity.
    + unfold reachable. apply filter_In. split; [exact Hb|]. rewrite Hsel, Hup; reflexivity.
  - intros k Hk. unfold failed_keys in Hk. apply in_map_iff in Hk as [b [<- Hb]].
    apply filter_In in Hb as [Hb Hc]. apply andb_true_iff in Hc as [Hs Hu].
    exists b. repeat split; try assumption. destruct (b_up b); [discriminate|reflexivity].
Qed.

Lemma first_backend_names sch :
  (exists c, In c (all_cols sch 0) /\ is_backend c = true) -> bnames (first_backend sch) <> [].
Proof.
  intros [c [Hc Hb]]. unfold first_backend.
  assert (Hin : In c (filter is_backend (all_cols sch 0))) by (apply filter_In; split; assumption).
  destruct (filter is_backend (all_cols sch 0)) as [|x l] eqn:E; [contradiction|].
  assert (Hx : is_backend x = true).
  { assert (H : In x (filter is_backend (all_cols sch 0))) by (rewrite E; left; reflexivity).
    apply filter_In in H as [_ H]; exact H. }
  destruct x as [n i t|k]; [|discriminate]. cbn. discriminate.
Qed.

Lemma thm_sub_request sch q :
  let sq := sub_request sch q in
  sq_filter sq = q_filter q /\ sq_stats sq = q_stats_txt q /\ sq_limit sq = q_limit q /\ sq_auth sq = q_auth q /\
  (forall n i t, In (RB n i t) (req_cols sch q) -> In n (sq_cols sq)) /\
  (forall n i t d, In (RB n i t, d) (sort_cols sch q) -> In n (sq_cols sq)) /\
  (q_stats q = [] -> (exists c, In c (all_cols sch 0) /\ is_backend c = true) -> sq_cols sq <> []).
Proof.
  cbn zeta. unfold sub_request; cbn [sq_filter sq_stats sq_limit sq_auth sq_cols].
  repeat split.
  - intros n i t H. apply (bnames_in n i t). apply full_cols_req_in; exact H.
  - intros n i t d H. apply (bnames_in n i t). exact (full_cols_sort_in sch q _ d H).
  - intros Hst Hex. unfold full_cols. rewrite Hst. cbn [is_nil]. rewrite andb_true_r.
    set (cols := fold_left add_extra _ _).
    destruct (is_nil (bnames cols)) eqn:E.
    + unfold bnames. rewrite flat_map_app. intros Hnil. apply app_eq_nil in Hnil as [_ Hfb].
      exact (first_backend_names sch Hex Hfb).
    + intros Hnil. rewrite Hnil in E. discriminate.
Qed.

(** *** the assumptions on [sort] are satisfiable: insertion sort *)

Lemma str_ltb_total : forall a b, str_eqb a b = false -> str_ltb a b = false -> str_ltb b a = true.
Proof.
  induction a as [|x a IH]; intros [|y b] He Hl; cbn [str_eqb str_ltb] in *; try discriminate; try reflexivity.
  destruct (N.ltb_spec x y) as [Hxy|Hxy]; [discriminate|].
  destruct (N.eqb_spec x y) as [->|Hne].
  - cbn [andb] in He. rewrite N.ltb_irrefl, N.eqb_refl. apply IH; assumption.
  - assert (H : N.ltb y x = true) by (apply N.ltb_lt; lia). rewrite H. reflexivity.
Qed.

Lemma str_eqb_sym a b : str_eqb a b = str_eqb b a.
Proof.
  destruct (str_eqb_spec a b) as [->|Hne]; [symmetry; apply str_eqb_refl|].
  symmetry. apply str_eqb_neq. congruence.
Qed.

Lemma cmp_cells_total n d x y :
  match cmp_cells n d x y with
  | None => cmp_cells n d y x = None
  | Some false => cmp_cells n d y x = Some true
  | Some true => True
  end.
Proof.
  unfold cmp_cells. destruct n.
  - rewrite (Z.eqb_sym (num_of y)). destruct (Z.eqb_spec (num_of x) (num_of y)) as [|Hne]; [reflexivity|].
    destruct d.
    + destruct (Z.ltb_spec (num_of y) (num_of x)); [exact I|]. f_equal. apply Z.ltb_lt. lia.
    + destruct (Z.ltb_spec (num_of x) (num_of y)); [exact I|]. f_equal. apply Z.ltb_lt. lia.
  - rewrite (str_eqb_sym (str_of y)). destruct (str_eqb (str_of x) (str_of y)) eqn:E; [reflexivity|].
    destruct d.
    + destruct (str_ltb (str_of y) (str_of x)) eqn:L; [exact I|]. f_equal.
      apply str_ltb_total; [rewrite str_eqb_sym; exact E|exact L].
    + destruct (str_ltb (str_of x) (str_of y)) eqn:L; [exact I|]. f_equal.
      apply str_ltb_total; assumption.
Qed.

Lemma row_le_total keys a b : row_le keys a b = false -> row_le keys b a = true.
Proof.
  induction keys as [|k keys IH]; cbn [row_le]; [discriminate|].
  pose proof (cmp_cells_total (k_num k) (k_desc k) (nth (k_idx k) a CBad) (nth (k_idx k) b CBad)) as H.
  destruct (cmp_cells (k_num k) (k_desc k) (nth (k_idx k) a CBad) (nth (k_idx k) b CBad)) as [[|]|].
  - discriminate.
  - intros _. rewrite H. reflexivity.
  - rewrite H. exact IH.
Qed.

Lemma insert_sorted_perm le x l : Permutation (insert_sorted le x l) (x :: l).
Proof.
  induction l as [|y l IH]; cbn [insert_sorted]; [apply Permutation_refl|].
  destruct (le x y); [apply Permutation_refl|].
  eapply Permutation_trans; [apply perm_skip; exact IH|apply perm_swap].
Qed.

Lemma isort_perm le l : Permutation (isort le l) l.
Proof.
  induction l as [|x l IH]; cbn [isort fold_right]; [apply Permutation_refl|].
  eapply Permutation_trans; [apply insert_sorted_perm|apply perm_skip; exact IH].
Qed.

Lemma insert_sorted_sorted (le : row -> row -> bool) x l :
  (forall a b, le a b = false -> le b a = true) ->
  Sorted (fun a b => le a b = true) l -> Sorted (fun a b => le a b = true) (insert_sorted le x l).
Proof.
  intros Htot. induction 1 as [|y l Hs IH Hd]; cbn [insert_sorted].
  - constructor; constructor.
  - destruct (le x y) eqn:E.
    + constructor; [constructor; assumption|constructor; exact E].
    + constructor; [exact IH|].
      destruct l as [|z l]; cbn [insert_sorted].
      * constructor. apply Htot; exact E.
      * destruct (le x z); constructor; [apply Htot; exact E|inversion Hd; assumption].
Qed.

Lemma isort_sorted keys l : Sorted (fun a b => row_le keys a b = true) (isort (row_le keys) l).
Proof.
  induction l as [|x l IH]; cbn [isort fold_right]; [constructor|].
  apply insert_sorted_sorted; [apply row_le_total|exact IH].
Qed.
