(** C16: pass-through tables are forwarded and merged faithfully.
    Only statements, each closed by [exact]; proofs live in Proofs.v / StatsProofs.v.

    The model (Model.v) describes the CORRECT behaviour; where the pinned tree
    differs (D7, D7b, D7c, D7d, D8 in notes/C16.md) the correspondence stream reports it.

    [sch] is the log table as dumped from the code, [q] any request, [bs] any list of
    backends, each reachable or not, with arbitrary rows / Stats answers.  [sort] is
    Go's sort.Sort driven by Response.Less: any function that returns a permutation
    of its input which is sorted for the comparison it is given
    ([C16_sort_exists]: such a function exists).
    [col_value b raw c] is the value of column [c] for row [raw] of backend [b]:
    the backend's cell for a backend-side column, peer_key / peer_name of [b] (or the
    empty placeholder) for an LMD-side column. *)
From LMD Require Import Base.Str C16.Model C16.Proofs C16.StatsProofs.
From Coq Require Import List ZArith Bool Permutation Sorted.
Import ListNotations.

Definition sort_ok (sort : (row -> row -> bool) -> list row -> list row) : Prop :=
  (forall le l, Permutation (sort le l) l) /\
  (forall keys l, Sorted (fun a b => row_le keys a b = true) (sort (row_le keys) l)).

(** splice_correct: for every list of columns - any mix and order of backend-side and
    LMD-side columns, duplicates included - the insertion loop never indexes out of
    range and turns the backend's answer (its cells for the backend-side columns, in
    order) into exactly one cell per column, in column order. *)
Theorem C16_splice_correct :
  forall (b : backend) (raw : row) (cols : list rcol),
    splice b (vpos 0 cols) (project cols raw) = Some (map (col_value b raw) cols).
Proof. exact splice_project. Qed.

(** ... also for an answer with cells behind the columns (Stats rows: numbers) *)
Theorem C16_splice_any_answer :
  forall (b : backend) (cols : list rcol) (bc : row),
    count_backend cols <= length bc ->
    splice b (vpos 0 cols) bc = Some (weave b cols bc).
Proof. intros b cols bc H. exact (splice_weave b cols [] bc H). Qed.

(** union_complete: without Limit and Offset the response is a permutation of the rows
    of all selected reachable backends, every row with exactly the requested columns
    in request order - whether the sort keys are inside the column list or not. *)
Theorem C16_union_complete :
  forall sort, sort_ok sort ->
  forall (sch : schema) (q : request) (bs : list backend),
    q_limit q = None -> q_offset q = 0 ->
    exists res, run_rows sort sch q bs = Some res /\
      Permutation res
        (flat_map (fun b => map (fun raw => map (col_value b raw) (req_cols sch q)) (b_rows b))
                  (reachable q bs)).
Proof. intros sort [H1 H2]. exact (thm_union_complete sort H1 H2). Qed.

(** limit_weak: the daemon always answers; with [Limit: n] at most [n] rows; every row
    is a row of a selected reachable backend that satisfies the filter, with exactly
    the requested columns in request order. *)
Theorem C16_limit_weak :
  forall sort, sort_ok sort ->
  forall (sch : schema) (q : request) (bs : list backend),
    exists res, run_rows sort sch q bs = Some res /\
      (forall n, q_limit q = Some n -> length res <= n) /\
      Forall (fun r => exists b raw, In b (reachable q bs) /\ In raw (b_rows b) /\
                                     r = map (col_value b raw) (req_cols sch q)) res.
Proof. intros sort [H1 H2]. exact (thm_genuine_rows sort H1 H2). Qed.

(** sorted_by_keys: the response rows are the requested columns of a list of backend
    rows that is sorted by the values of the Sort columns (direction, numeric or
    string comparison by column type), inside or outside the column list. *)
Theorem C16_sorted_by_keys :
  forall sort, sort_ok sort ->
  forall (sch : schema) (q : request) (bs : list backend),
    exists os : list origin,
      run_rows sort sch q bs = Some (map (full_row (req_cols sch q)) os) /\
      Sorted (fun o1 o2 => spec_le (sort_cols sch q) o1 o2 = true) os /\
      Forall (fun o => In (fst o) (reachable q bs) /\ In (snd o) (b_rows (fst o))) os.
Proof. intros sort [H1 H2]. exact (thm_sorted_by_keys sort H1 H2). Qed.

(** Limit/Offset as the code does it: every backend is asked for at most Limit rows
    ([origins]), the answers are sorted, Offset rows are skipped, at most Limit kept. *)
Theorem C16_window :
  forall sort, sort_ok sort ->
  forall (sch : schema) (q : request) (bs : list backend),
    exists os : list origin,
      run_rows sort sch q bs
      = Some (map (full_row (req_cols sch q)) (limit_rows (q_limit q) (skipn (q_offset q) os))) /\
      Permutation os (origins q bs) /\
      Sorted (fun o1 o2 => spec_le (sort_cols sch q) o1 o2 = true) os.
Proof. intros sort [H1 H2]. exact (thm_window sort H1 H2). Qed.

(** the assumptions on [sort] can be met *)
Theorem C16_sort_exists : sort_ok isort.
Proof. exact (conj isort_perm isort_sorted). Qed.

(** stats_add_up: [ins] are the rows the reachable backends answered (group key with the
    LMD-side values inserted, one number per Stats header).  The result has exactly
    one row per group; for Stats header [j] of kind [k] its value is [final_spec k] of
    the numbers the backends reported for that group:
      counter, sum: their sum;  avg: the mean of the backends' averages (NOT the
      average over all rows);  min / max: the least / greatest reported number. *)
Theorem C16_stats_add_up :
  forall (sch : schema) (q : request) (bs : list backend) ins res,
    stats_inputs sch q bs = Some ins -> stats_rows sch q bs = Some res ->
    let ks := q_stats q in
    NoDup (map fst res) /\
    (forall kr, In kr ins -> wf_row ks kr = true -> In (fst kr) (map fst res)) /\
    (forall key finals, In (key, finals) res ->
       length finals = length ks /\
       forall j k, nth_error ks j = Some k ->
         (k = SCount -> Forall count_val (group_vals ks j key ins)) ->
         nth j finals (0, 1)%Z = final_spec k (group_vals ks j key ins)).
Proof. exact thm_stats_add_up. Qed.

(** ... where the merge is fed with every answered row of every reachable backend *)
Theorem C16_stats_inputs :
  forall (sch : schema) (q : request) (bs : list backend),
    (forall b, In b (reachable q bs) -> wf_answer (full_cols sch q) b) ->
    stats_inputs sch q bs
    = Some (flat_map (fun b => map (fun kr => (map cell_text (weave b (full_cols sch q) (fst kr)), snd kr)) (b_stats b))
                     (reachable q bs)).
Proof. exact thm_stats_inputs. Qed.

(** Stats without Columns: one row; every counter and sum is the sum of the numbers
    the reachable backends answered (two backends answering 5 and 7 give 12). *)
Theorem C16_stats_total :
  forall (sch : schema) (q : request) (bs : list backend),
    q_columns q = [] -> q_sort q = [] -> q_stats q <> [] ->
    (forall b, In b (reachable q bs) ->
       exists nums, b_stats b = [([], nums)] /\ length nums = length (q_stats q)) ->
    exists finals,
      stats_rows sch q bs = Some [([], finals)] /\
      length finals = length (q_stats q) /\
      forall j k, nth_error (q_stats q) j = Some k ->
        let vs := map (fun b => nth j (answer b) 0%Z) (reachable q bs) in
        (k = SCount -> Forall count_val vs) ->
        nth j finals (0, 1)%Z = final_spec k vs.
Proof. exact thm_stats_total. Qed.

(** failed_map: the failed map lists exactly the selected backends that are not
    reachable; every other selected backend takes part in the result. *)
Theorem C16_failed_map :
  forall (q : request) (bs : list backend),
    (forall b, In b bs -> selected q b = true ->
       (b_up b = false -> In (b_key b) (failed_keys q bs)) /\
       (b_up b = true -> In b (reachable q bs))) /\
    (forall k, In k (failed_keys q bs) ->
       exists b, In b bs /\ b_key b = k /\ selected q b = true /\ b_up b = false).
Proof. exact thm_failed_map. Qed.

(** the sub request carries the client's filter, Stats lines, Limit and AuthUser and
    names every backend-side column that is requested or sorted by; a query without
    Stats always names a column (a Livestatus query without Columns returns all). *)
Theorem C16_sub_request :
  forall (sch : schema) (q : request),
    let sq := sub_request sch q in
    sq_filter sq = q_filter q /\ sq_stats sq = q_stats_txt q /\ sq_limit sq = q_limit q /\ sq_auth sq = q_auth q /\
    (forall n i t, In (RB n i t) (req_cols sch q) -> In n (sq_cols sq)) /\
    (forall n i t d, In (RB n i t, d) (sort_cols sch q) -> In n (sq_cols sq)) /\
    (q_stats q = [] -> (exists c, In c (all_cols sch 0) /\ is_backend c = true) -> sq_cols sq <> []).
Proof. exact thm_sub_request. Qed.

(** non-vacuity: two reachable backends and one that is down;
    [Columns: peer_key time peer_key / Sort: type asc] (sort key outside the column
    list, LMD-side column twice), and [Stats: state = 0 / Stats: avg time] answered
    with 5, 2.0 and 7, 4.0 *)
Example C16_example :
  let sch := [(s "time", SBackend TNum); (s "type", SBackend TStr); (s "peer_key", SVirtual VKey)] in
  let a := mkBackend (s "ka") (s "A") true [[CNum 10; CStr (s "x")]; [CNum 30; CStr (s "b")]]
                     [([], [5000000; 2000000]%Z)] in
  let b := mkBackend (s "kb") (s "B") true [[CNum 20; CStr (s "a")]] [([], [7000000; 4000000]%Z)] in
  let c := mkBackend (s "kc") (s "C") false [[CNum 1; CStr (s "z")]] [] in
  let q := mkReq [s "peer_key"; s "time"; s "peer_key"] [(s "type", false)] None 0 [] [] [] [] [] in
  let qs := mkReq [] [] None 0 [SCount; SAvg] [] [] [] [] in
  run_rows isort sch q [a; b; c]
    = Some [[CStr (s "kb"); CNum 20; CStr (s "kb")]; [CStr (s "ka"); CNum 30; CStr (s "ka")];
            [CStr (s "ka"); CNum 10; CStr (s "ka")]] /\
  sq_cols (sub_request sch q) = [s "time"; s "type"] /\
  failed_keys q [a; b; c] = [s "kc"] /\
  stats_rows sch qs [a; b; c] = Some [([], [(12000000, 1); (6000000, 2)]%Z)].
Proof. vm_compute. repeat split. Qed.

Print Assumptions C16_splice_correct.
Print Assumptions C16_splice_any_answer.
Print Assumptions C16_union_complete.
Print Assumptions C16_limit_weak.
Print Assumptions C16_sorted_by_keys.
Print Assumptions C16_window.
Print Assumptions C16_sort_exists.
Print Assumptions C16_stats_add_up.
Print Assumptions C16_stats_inputs.
Print Assumptions C16_stats_total.
Print Assumptions C16_failed_map.
Print Assumptions C16_sub_request.
