(** C16: executable comparison of the model with what the harness observed: the
    client response (rows / stats rows, failed map, columns header, total_count) and
    the sub query every scripted backend received (parsed back by lmd's own parser). *)
From LMD Require Export C16.Model.
From Coq Require Import List ZArith Bool.
Import ListNotations.

Inductive subobs :=
| SubNone                 (* the backend received nothing *)
| SubBad                  (* more than one query / not parsable / unexpected headers *)
| SubQ (q : subq).

Inductive obs :=
| ObsCrash                (* the daemon process ended *)
| ObsError                (* the request was rejected / the response is no JSON *)
| ObsRows (rows : list row) (failed : option (list str)) (header : option (list str)) (total : option nat)
| ObsStats (rows : list (row * list Z)) (failed : option (list str)).

Record case := mkCase {
  c_sch : schema;
  c_req : request;
  c_backends : list backend;
  c_subs : list subobs;
  c_obs : obs }.

Definition list_eqb {A} (eqb : A -> A -> bool) :=
  fix go (a b : list A) : bool :=
    match a, b with
    | [], [] => true
    | x :: a', y :: b' => eqb x y && go a' b'
    | _, _ => false
    end.

Definition strs_eqb := list_eqb str_eqb.

Definition cell_eqb (a b : cell) : bool :=
  match a, b with
  | CNum x, CNum y => Z.eqb x y
  | CStr x, CStr y => str_eqb x y
  | CList x, CList y => strs_eqb x y
  | _, _ => false            (* CBad never agrees *)
  end.

Definition row_eqb := list_eqb cell_eqb.

Definition opt_nat_eqb (a b : option nat) : bool :=
  match a, b with
  | None, None => true
  | Some x, Some y => Nat.eqb x y
  | _, _ => false
  end.

Definition subq_eqb (a b : subq) : bool :=
  strs_eqb (sq_cols a) (sq_cols b) && strs_eqb (sq_filter a) (sq_filter b)
  && strs_eqb (sq_stats a) (sq_stats b) && opt_nat_eqb (sq_limit a) (sq_limit b)
  && str_eqb (sq_auth a) (sq_auth b).

(** every selected reachable backend received exactly the expected sub request,
    all others nothing *)
Definition sub_ok (sch : schema) (q : request) (b : backend) (o : subobs) : bool :=
  if selected q b && b_up b
  then match o with SubQ sq => subq_eqb sq (sub_request sch q) | _ => false end
  else match o with SubNone => true | _ => false end.

Fixpoint subs_ok (sch : schema) (q : request) (bs : list backend) (os : list subobs) : bool :=
  match bs, os with
  | [], [] => true
  | b :: bs', o :: os' => sub_ok sch q b o && subs_ok sch q bs' os'
  | _, _ => false
  end.

Definition set_eqb (a b : list str) : bool :=
  Nat.eqb (length a) (length b) && forallb (fun x => mem_str x b) a && forallb (fun x => mem_str x a) b.

Definition failed_ok (q : request) (bs : list backend) (f : option (list str)) : bool :=
  match f with None => true | Some keys => set_eqb keys (failed_keys q bs) end.

(** removes the first element equal to [x]; None if there is none *)
Fixpoint remove_first {A} (eqb : A -> A -> bool) (x : A) (l : list A) : option (list A) :=
  match l with
  | [] => None
  | y :: r => if eqb x y then Some r
              else match remove_first eqb x r with Some r' => Some (y :: r') | None => None end
  end.

Fixpoint sub_multiset {A} (eqb : A -> A -> bool) (a pool : list A) : bool :=
  match a with
  | [] => true
  | x :: a' => match remove_first eqb x pool with Some pool' => sub_multiset eqb a' pool' | None => false end
  end.

Definition key_cells (keys : list skey) (r : row) : row := map (fun k => nth (k_idx k) r CBad) keys.

(** same position in the order: both comparisons see the rows as equal *)
Definition same_rank (keys : list skey) (a b : row) : bool := row_le keys a b && row_le keys b a.

Fixpoint positions_ok (keys : list skey) (n : nat) (full : list row) (exp_full obs_rows : list row) : bool :=
  match exp_full, obs_rows with
  | [], [] => true
  | e :: es, o :: os =>
      existsb (fun f => row_eqb (firstn n f) o && same_rank keys f e) full && positions_ok keys n full es os
  | _, _ => false
  end.

Definition header_names (sch : schema) (q : request) : list str :=
  if is_nil (q_columns q) then map fst sch else q_columns q.

(** A response agrees with the model if it has the expected number of rows, every row
    is a row of the merged result (as multiset), the i-th row is (the requested part of)
    a merged row that sorts like the i-th expected row - the order among rows with equal
    keys and, without Sort, among backends is not determined -, and the failed map,
    the columns header and (without Limit) total_count agree. *)
Definition rows_ok (sch : schema) (q : request) (bs : list backend)
           (rows : list row) (failed : option (list str)) (header : option (list str)) (total : option nat) : bool :=
  match merged sch q bs with
  | None => false
  | Some full =>
      let n := length (req_cols sch q) in
      let keys := sort_keys sch q in
      let exp_full := window q (if is_nil (q_sort q) then full else isort (row_le keys) full) in
      Nat.eqb (length rows) (length exp_full)
      && sub_multiset row_eqb rows (map (firstn n) full)
      && (if is_nil (q_sort q) then true else positions_ok keys n full exp_full rows)
      && failed_ok q bs failed
      && match header with Some h => strs_eqb h (header_names sch q) | None => true end
      && match total, q_limit q with Some t, None => Nat.eqb t (length full) | _, _ => true end
  end.

(** |obs * den - num| <= den, i.e. within 10^-6 *)
Definition value_ok (e : Z * Z) (o : Z) : bool := Z.leb (Z.abs (o * snd e - fst e)) (snd e).

Definition stat_row_ok (e : gkey * list (Z * Z)) (o : row * list Z) : bool :=
  gkey_eqb (fst e) (map cell_text (fst o))
  && Nat.eqb (length (snd e)) (length (snd o))
  && forallb (fun p => value_ok (fst p) (snd p)) (combine (snd e) (snd o)).

(** removes the first observed row that agrees with the expected row [e] *)
Fixpoint take_match (e : gkey * list (Z * Z)) (os : list (row * list Z)) : option (list (row * list Z)) :=
  match os with
  | [] => None
  | o :: r => if stat_row_ok e o then Some r
              else match take_match e r with Some r' => Some (o :: r') | None => None end
  end.

Fixpoint stat_rows_match (es : list (gkey * list (Z * Z))) (os : list (row * list Z)) : bool :=
  match es with
  | [] => is_nil os
  | e :: es' => match take_match e os with Some os' => stat_rows_match es' os' | None => false end
  end.

(** Stats rows are compared as a set of groups (their order comes from a Go map) *)
Definition stats_ok (sch : schema) (q : request) (bs : list backend)
           (rows : list (row * list Z)) (failed : option (list str)) : bool :=
  match stats_rows sch q bs with
  | None => false
  | Some exp => stat_rows_match exp rows && failed_ok q bs failed
  end.

Definition check (c : case) : bool :=
  let sch := c_sch c in
  let q := c_req c in
  let bs := c_backends c in
  if negb (valid_request sch q) then true    (* outside the modelled fragment *)
  else
    match c_obs c with
    | ObsCrash | ObsError => false
    | ObsRows rows failed header total =>
        is_nil (q_stats q) && subs_ok sch q bs (c_subs c) && rows_ok sch q bs rows failed header total
    | ObsStats rows failed =>
        negb (is_nil (q_stats q)) && subs_ok sch q bs (c_subs c) && stats_ok sch q bs rows failed
    end.

Definition skipped (c : case) : bool := negb (valid_request (c_sch c) (c_req c)).

(** what the model expects (for the report): data rows in model order, Stats rows as
    key texts followed by the numerators *)
Definition expected (c : case) : list row :=
  if is_nil (q_stats (c_req c)) then
    match run_rows isort (c_sch c) (c_req c) (c_backends c) with Some r => r | None => [] end
  else
    match stats_rows (c_sch c) (c_req c) (c_backends c) with
    | Some r => map (fun kv => map CStr (fst kv) ++ map (fun nd => CNum (fst nd)) (snd kv)) r
    | None => []
    end.

Fixpoint mismatches_from (i : nat) (cs : list case) : list (nat * list row) :=
  match cs with
  | [] => []
  | c :: rest => (if check c then [] else [(i, expected c)]) ++ mismatches_from (S i) rest
  end.

Definition mismatches := mismatches_from 0.
Definition skipped_count (cs : list case) : nat := length (filter skipped cs).
