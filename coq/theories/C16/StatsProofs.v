(** C16: proofs about the Stats merge of pass-through queries. *)
From LMD Require Import Base.Str C16.Model C16.Proofs.
From Coq Require Import List ZArith Bool Lia.
Import ListNotations.

Definition zero_acc : acc := mkAcc 0 0.

(** *** group keys *)

Lemma gkey_eqb_eq a b : gkey_eqb a b = true <-> a = b.
Proof.
  revert b; induction a as [|x a IH]; intros [|y b]; cbn [gkey_eqb]; try (split; congruence).
  rewrite andb_true_iff, str_eqb_eq, IH. split; [intros [-> ->]; reflexivity|intros H; inversion H; auto].
Qed.

Lemma gkey_eqb_refl a : gkey_eqb a a = true.
Proof. apply gkey_eqb_eq; reflexivity. Qed.

Lemma gkey_eqb_sym a b : gkey_eqb a b = gkey_eqb b a.
Proof.
  destruct (gkey_eqb a b) eqn:E.
  - apply gkey_eqb_eq in E; subst. symmetry; apply gkey_eqb_refl.
  - destruct (gkey_eqb b a) eqn:E'; [|reflexivity]. apply gkey_eqb_eq in E'; subst.
    rewrite gkey_eqb_refl in E; discriminate.
Qed.

(** *** the association list *)

Lemma sm_get_set ks m k a k' :
  sm_get ks (sm_set m k a) k' = if gkey_eqb k' k then a else sm_get ks m k'.
Proof.
  induction m as [|[k0 a0] m IH]; cbn [sm_set sm_get].
  - reflexivity.
  - destruct (gkey_eqb k k0) eqn:E; cbn [sm_get].
    + apply gkey_eqb_eq in E; subst k0. destruct (gkey_eqb k' k); reflexivity.
    + destruct (gkey_eqb k' k0) eqn:E0.
      * apply gkey_eqb_eq in E0; subst k0. rewrite gkey_eqb_sym, E. reflexivity.
      * exact IH.
Qed.

Lemma sm_mem_set m k a k' : sm_mem (sm_set m k a) k' = gkey_eqb k' k || sm_mem m k'.
Proof.
  induction m as [|[k0 a0] m IH]; cbn [sm_set sm_mem].
  - rewrite orb_false_r; reflexivity.
  - destruct (gkey_eqb k k0) eqn:E; cbn [sm_mem].
    + apply gkey_eqb_eq in E; subst k0. destruct (gkey_eqb k' k); reflexivity.
    + rewrite IH. destruct (gkey_eqb k' k0), (gkey_eqb k' k); reflexivity.
Qed.

Lemma sm_mem_in m k : sm_mem m k = true <-> In k (map fst m).
Proof.
  induction m as [|[k0 a0] m IH]; cbn [sm_mem map fst In]; [split; [discriminate|contradiction]|].
  rewrite orb_true_iff, IH, gkey_eqb_eq. split; intros [H|H]; auto.
Qed.

Lemma sm_keys_set m k a :
  map fst (sm_set m k a) = if sm_mem m k then map fst m else map fst m ++ [k].
Proof.
  induction m as [|[k0 a0] m IH]; cbn [sm_set sm_mem map fst app]; [reflexivity|].
  destruct (gkey_eqb k k0) eqn:E; cbn [orb map fst]; [reflexivity|].
  rewrite IH. destruct (sm_mem m k); reflexivity.
Qed.

Lemma NoDup_snoc {A} (l : list A) (x : A) : NoDup l -> ~ In x l -> NoDup (l ++ [x]).
Proof.
  induction l as [|y l IH]; intros Hnd Hx; cbn [app].
  - constructor; [intros []|constructor].
  - inversion Hnd as [|? ? Hy Hl]; subst. constructor.
    + intros Hin. apply in_app_or in Hin as [Hin|[Hin|[]]]; [exact (Hy Hin)|].
      subst. apply Hx. left; reflexivity.
    + apply IH; [exact Hl|]. intros Hin. apply Hx. right; exact Hin.
Qed.

Lemma sm_set_nodup m k a : NoDup (map fst m) -> NoDup (map fst (sm_set m k a)).
Proof.
  intros H. rewrite sm_keys_set. destruct (sm_mem m k) eqn:E; [exact H|].
  apply NoDup_snoc; [exact H|]. intros Hin. apply sm_mem_in in Hin. congruence.
Qed.

Lemma sm_get_in ks m k a : NoDup (map fst m) -> In (k, a) m -> sm_get ks m k = a.
Proof.
  induction m as [|[k0 a0] m IH]; intros Hnd Hin; [contradiction|].
  cbn [sm_get]. cbn [map fst] in Hnd. inversion Hnd as [|? ? Hnot Hnd']; subst.
  destruct Hin as [Hin|Hin].
  - inversion Hin; subst. rewrite gkey_eqb_refl; reflexivity.
  - destruct (gkey_eqb k k0) eqn:E.
    + apply gkey_eqb_eq in E; subst k0. exfalso. apply Hnot.
      change k with (fst (k, a)). apply in_map; exact Hin.
    + apply IH; assumption.
Qed.

(** *** merging the answered rows *)

Definition wf_row (ks : list skind) (kr : gkey * list Z) : bool := Nat.eqb (length (snd kr)) (length ks).

(** the answered rows that belong to group [key] *)
Definition sel (ks : list skind) (key : gkey) (kr : gkey * list Z) : bool :=
  gkey_eqb key (fst kr) && wf_row ks kr.

Definition zip_step (ks : list skind) (accs : list acc) (kr : gkey * list Z) : list acc :=
  zip_apply ks accs (snd kr).

Lemma fold_get ks : forall ins m key,
  sm_get ks (fold_left (stats_step ks) ins m) key
  = fold_left (zip_step ks) (filter (sel ks key) ins) (sm_get ks m key).
Proof.
  induction ins as [|kr ins IH]; intros m key; cbn [fold_left filter]; [reflexivity|].
  rewrite IH. unfold stats_step.
  assert (Hs : sel ks key kr = gkey_eqb key (fst kr) && Nat.eqb (length (snd kr)) (length ks)) by reflexivity.
  rewrite Hs. clear Hs.
  destruct (Nat.eqb (length (snd kr)) (length ks)); cbn [andb].
  - rewrite sm_get_set. rewrite andb_true_r.
    destruct (gkey_eqb key (fst kr)) eqn:E; [|reflexivity].
    apply gkey_eqb_eq in E; subst key. reflexivity.
  - rewrite andb_false_r. reflexivity.
Qed.

Lemma fold_mem ks : forall ins m key,
  sm_mem (fold_left (stats_step ks) ins m) key = sm_mem m key || existsb (sel ks key) ins.
Proof.
  induction ins as [|kr ins IH]; intros m key; cbn [fold_left existsb]; [rewrite orb_false_r; reflexivity|].
  rewrite IH. unfold stats_step.
  assert (Hs : sel ks key kr = gkey_eqb key (fst kr) && Nat.eqb (length (snd kr)) (length ks)) by reflexivity.
  rewrite Hs. clear Hs.
  destruct (Nat.eqb (length (snd kr)) (length ks)); cbn [andb].
  - rewrite sm_mem_set, andb_true_r.
    destruct (gkey_eqb key (fst kr)), (sm_mem m key); reflexivity.
  - rewrite andb_false_r. reflexivity.
Qed.

Lemma fold_nodup ks : forall ins m,
  NoDup (map fst m) -> NoDup (map fst (fold_left (stats_step ks) ins m)).
Proof.
  induction ins as [|kr ins IH]; intros m H; cbn [fold_left]; [exact H|].
  apply IH. unfold stats_step. destruct (Nat.eqb _ _); [apply sm_set_nodup|]; exact H.
Qed.

(** *** one accumulator *)

Lemma hd_nth {A} (d : A) (l : list A) : hd d l = nth 0 l d.
Proof. destruct l; reflexivity. Qed.

Lemma nth_tl {A} (d : A) (l : list A) (j : nat) : nth j (tl l) d = nth (S j) l d.
Proof. destruct l; [destruct j|]; reflexivity. Qed.

Lemma zip_apply_length ks : forall accs vs, length (zip_apply ks accs vs) = length ks.
Proof. induction ks as [|k ks IH]; intros accs vs; cbn [zip_apply length]; [|rewrite IH]; reflexivity. Qed.

Lemma nth_zip_apply ks : forall accs vs j, j < length ks ->
  nth j (zip_apply ks accs vs) zero_acc
  = apply_value (nth j ks SCount) (nth j accs zero_acc) (nth j vs 0%Z).
Proof.
  induction ks as [|k ks IH]; intros accs vs j Hj; cbn [length] in Hj; [lia|].
  cbn [zip_apply]. destruct j as [|j]; cbn [nth].
  - rewrite !hd_nth. reflexivity.
  - rewrite IH by lia. rewrite !nth_tl. reflexivity.
Qed.

Lemma nth_fold_zip ks j : j < length ks -> forall vss accs,
  nth j (fold_left (zip_step ks) vss accs) zero_acc
  = fold_left (apply_value (nth j ks SCount)) (map (fun kr => nth j (snd kr) 0%Z) vss) (nth j accs zero_acc).
Proof.
  intros Hj. induction vss as [|kr vss IH]; intros accs; cbn [fold_left map]; [reflexivity|].
  rewrite IH. unfold zip_step. rewrite nth_zip_apply by exact Hj. reflexivity.
Qed.

Lemma fold_zip_length ks : forall vss accs,
  length accs = length ks -> length (fold_left (zip_step ks) vss accs) = length ks.
Proof.
  induction vss as [|kr vss IH]; intros accs H; cbn [fold_left]; [exact H|].
  apply IH. unfold zip_step. apply zip_apply_length.
Qed.

Lemma zeros_length ks : length (zeros ks) = length ks.
Proof. unfold zeros; apply map_length. Qed.

Lemma nth_zeros ks j : nth j (zeros ks) zero_acc = zero_acc.
Proof.
  unfold zeros. revert j; induction ks as [|k ks IH]; intros [|j]; cbn [map nth]; try reflexivity. apply IH.
Qed.

(** *** closed forms of the accumulators *)

Definition sumZ (l : list Z) : Z := fold_right Z.add 0%Z l.
Definition minZ (l : list Z) : Z := match l with [] => 0%Z | v :: r => fold_left Z.min r v end.
Definition maxZ (l : list Z) : Z := match l with [] => 0%Z | v :: r => fold_left Z.max r v end.

(** a backend's counter: a natural number (in 10^-6 units) *)
Definition count_val (v : Z) : Prop := exists n : nat, v = (Z.of_nat n * unit6)%Z.

Definition cnt_of (vs : list Z) : nat := fold_right (fun v n => Z.to_nat (v / unit6) + n) 0 vs.

Lemma fold_sum_avg k vs : k = SSum \/ k = SAvg -> forall a,
  fold_left (apply_value k) vs a = mkAcc (a_val a + sumZ vs) (a_cnt a + length vs).
Proof.
  intros Hk. induction vs as [|v vs IH]; intros [val cnt]; cbn [fold_left sumZ fold_right length a_val a_cnt].
  - f_equal; lia.
  - rewrite IH. destruct Hk as [-> | ->]; cbn [apply_value a_val a_cnt]; f_equal; fold (sumZ vs); lia.
Qed.

Lemma fold_count vs : forall a,
  fold_left (apply_value SCount) vs a = mkAcc (a_val a + sumZ vs) (a_cnt a + cnt_of vs).
Proof.
  induction vs as [|v vs IH]; intros [val cnt]; cbn [fold_left sumZ cnt_of fold_right a_val a_cnt].
  - f_equal; lia.
  - rewrite IH. cbn [apply_value a_val a_cnt]. fold (sumZ vs). fold (cnt_of vs). f_equal; lia.
Qed.

Lemma count_vals_sum vs : Forall count_val vs -> sumZ vs = (Z.of_nat (cnt_of vs) * unit6)%Z.
Proof.
  induction 1 as [|v vs [n ->] _ IH]; cbn [sumZ cnt_of fold_right]; [reflexivity|].
  fold (sumZ vs). fold (cnt_of vs). rewrite IH.
  rewrite Z.div_mul by (unfold unit6; lia). rewrite Nat2Z.id. lia.
Qed.

Lemma fold_min vs : forall m c,
  fold_left (apply_value SMin) vs (mkAcc m (S c)) = mkAcc (fold_left Z.min vs m) (S c + length vs).
Proof.
  induction vs as [|v vs IH]; intros m c; cbn [fold_left length]; [f_equal; lia|].
  cbn [apply_value a_val a_cnt Nat.eqb orb]. rewrite IH. f_equal; [|lia].
  f_equal. destruct (Z.ltb_spec v m); lia.
Qed.

Lemma fold_max vs : forall m c,
  fold_left (apply_value SMax) vs (mkAcc m (S c)) = mkAcc (fold_left Z.max vs m) (S c + length vs).
Proof.
  induction vs as [|v vs IH]; intros m c; cbn [fold_left length]; [f_equal; lia|].
  cbn [apply_value a_val a_cnt Nat.eqb orb]. rewrite IH. f_equal; [|lia].
  f_equal. destruct (Z.ltb_spec m v); lia.
Qed.

(** what the client gets for one Stats column of one group, as a fraction, from the
    numbers [vs] the backends reported for it:
      counter, sum : their sum;
      avg          : the mean of the backends' averages (every backend weighs the same,
                     however many rows it averaged over);
      min, max     : the least / greatest reported number (a backend without matching
                     rows reports 0, which takes part like any other number). *)
Definition final_spec (k : skind) (vs : list Z) : Z * Z :=
  match vs with
  | [] => (0, 1)%Z
  | _ => match k with
         | SCount | SSum => (sumZ vs, 1%Z)
         | SAvg => (sumZ vs, Z.of_nat (length vs))
         | SMin => (minZ vs, 1%Z)
         | SMax => (maxZ vs, 1%Z)
         end
  end.

Lemma final_fold k vs :
  (k = SCount -> Forall count_val vs) ->
  final_value k (fold_left (apply_value k) vs zero_acc) = final_spec k vs.
Proof.
  intros Hc. destruct vs as [|v vs]; [destruct k; reflexivity|].
  destruct k.
  - rewrite fold_count. unfold final_value, zero_acc; cbn [a_val a_cnt Nat.add].
    pose proof (count_vals_sum _ (Hc eq_refl)) as Hs.
    destruct (cnt_of (v :: vs)) eqn:E; cbn [final_spec].
    + rewrite Hs. reflexivity.
    + rewrite Z.add_0_l. reflexivity.
  - rewrite fold_sum_avg by (left; reflexivity). unfold final_value, zero_acc; cbn [a_val a_cnt Nat.add length final_spec].
    rewrite Z.add_0_l. reflexivity.
  - rewrite fold_sum_avg by (right; reflexivity). unfold final_value, zero_acc; cbn [a_val a_cnt Nat.add length final_spec].
    rewrite Z.add_0_l. reflexivity.
  - cbn [fold_left]. unfold zero_acc at 1. cbn [apply_value a_cnt Nat.eqb orb]. rewrite fold_min.
    unfold final_value; cbn [a_val a_cnt Nat.add final_spec minZ]. reflexivity.
  - cbn [fold_left]. unfold zero_acc at 1. cbn [apply_value a_cnt Nat.eqb orb]. rewrite fold_max.
    unfold final_value; cbn [a_val a_cnt Nat.add final_spec maxZ]. reflexivity.
Qed.

(** *** the Stats result *)

Definition group_vals (ks : list skind) (j : nat) (key : gkey) (ins : list (gkey * list Z)) : list Z :=
  map (fun kr => nth j (snd kr) 0%Z) (filter (sel ks key) ins).

Definition finals_of (ks : list skind) (accs : list acc) : list (Z * Z) :=
  map (fun p => final_value (fst p) (snd p)) (combine ks accs).

Lemma nth_finals ks accs j k :
  length accs = length ks -> nth_error ks j = Some k ->
  nth j (finals_of ks accs) (0, 1)%Z = final_value k (nth j accs zero_acc).
Proof.
  intros Hlen Hk. unfold finals_of.
  assert (Hj : j < length ks) by (apply nth_error_Some; congruence).
  change (0, 1)%Z with ((fun p : skind * acc => final_value (fst p) (snd p)) (SCount, zero_acc)).
  rewrite map_nth. rewrite combine_nth by (symmetry; exact Hlen). cbn [fst snd].
  rewrite (nth_error_nth _ _ SCount Hk). reflexivity.
Qed.

Lemma stats_merge_spec (ks : list skind) (ins : list (gkey * list Z)) (key : gkey) (j : nat) (k : skind) :
  nth_error ks j = Some k ->
  (k = SCount -> Forall count_val (group_vals ks j key ins)) ->
  let accs := sm_get ks (fold_left (stats_step ks) ins []) key in
  length accs = length ks /\
  nth j (finals_of ks accs) (0, 1)%Z = final_spec k (group_vals ks j key ins).
Proof.
  intros Hk Hc accs. subst accs. rewrite fold_get. cbn [sm_get].
  assert (Hj : j < length ks) by (apply nth_error_Some; congruence).
  assert (Hlen : length (fold_left (zip_step ks) (filter (sel ks key) ins) (zeros ks)) = length ks)
    by (apply fold_zip_length, zeros_length).
  split; [exact Hlen|].
  rewrite (nth_finals ks _ j k Hlen Hk).
  rewrite nth_fold_zip by exact Hj. rewrite nth_zeros.
  rewrite (nth_error_nth _ _ SCount Hk). fold (group_vals ks j key ins).
  apply final_fold. exact Hc.
Qed.

Lemma thm_stats_add_up sch q bs ins res :
  stats_inputs sch q bs = Some ins -> stats_rows sch q bs = Some res ->
  let ks := q_stats q in
  NoDup (map fst res) /\
  (forall kr, In kr ins -> wf_row ks kr = true -> In (fst kr) (map fst res)) /\
  (forall key finals, In (key, finals) res ->
     length finals = length ks /\
     forall j k, nth_error ks j = Some k ->
       (k = SCount -> Forall count_val (group_vals ks j key ins)) ->
       nth j finals (0, 1)%Z = final_spec k (group_vals ks j key ins)).
Proof.
  intros Hins Hres ks. unfold stats_rows in Hres. rewrite Hins in Hres.
  set (m := fold_left (stats_step (q_stats q)) ins []) in Hres.
  assert (Hnd : NoDup (map fst m)) by (apply fold_nodup; constructor).
  set (m' := if is_nil (q_columns q) && is_nil m then [([], zeros (q_stats q))] else m) in Hres.
  assert (Hnd' : NoDup (map fst m')).
  { subst m'. destruct (is_nil (q_columns q) && is_nil m); [|exact Hnd].
    cbn [map fst]. constructor; [intros []|constructor]. }
  assert (Hget : forall key accs, In (key, accs) m' -> accs = sm_get ks m key).
  { intros key accs Hin. subst m'. destruct (is_nil (q_columns q) && is_nil m) eqn:E.
    - destruct Hin as [Hin|[]]. inversion Hin; subst.
      apply andb_true_iff in E as [_ E]. destruct m; [reflexivity|discriminate].
    - symmetry. apply sm_get_in; assumption. }
  injection Hres as <-.
  assert (Hkeys : forall (A B C : Type) (f : A * B -> C) (l : list (A * B)),
             map fst (map (fun ka => (fst ka, f ka)) l) = map fst l).
  { intros A B C f l. rewrite map_map. apply map_ext. intros [k a]. reflexivity. }
  split; [rewrite Hkeys; exact Hnd'|]. split.
  - intros kr Hin Hwf. rewrite Hkeys.
    assert (Hmem : sm_mem m (fst kr) = true).
    { subst m. rewrite fold_mem. cbn [sm_mem orb]. apply existsb_exists. exists kr. split; [exact Hin|].
      unfold sel. apply andb_true_iff; split; [apply gkey_eqb_refl|exact Hwf]. }
    subst m'. destruct (is_nil (q_columns q) && is_nil m) eqn:E.
    + apply andb_true_iff in E as [_ E]. destruct m; [discriminate|discriminate].
    + apply sm_mem_in. exact Hmem.
  - intros key finals Hin. apply in_map_iff in Hin as [[key' accs] [Heq Hin]].
    cbn [fst snd] in Heq. inversion Heq; subst key' finals. clear Heq.
    rewrite (Hget key accs Hin).
    fold (finals_of (q_stats q) (sm_get ks m key)).
    split.
    + unfold finals_of. rewrite map_length, combine_length.
      subst m. rewrite fold_get. cbn [sm_get].
      rewrite fold_zip_length by apply zeros_length. fold ks. lia.
    + intros j k Hk Hc. subst m. apply (stats_merge_spec ks ins key j k Hk Hc).
Qed.

(** every group of the result comes from an answered row, or is the row of zeros of a
    query without Columns that nobody answered *)
Lemma thm_stats_keys sch q bs ins res key :
  stats_inputs sch q bs = Some ins -> stats_rows sch q bs = Some res ->
  In key (map fst res) ->
  (exists kr, In kr ins /\ wf_row (q_stats q) kr = true /\ fst kr = key) \/
  (key = [] /\ q_columns q = []).
Proof.
  intros Hins Hres Hin. unfold stats_rows in Hres. rewrite Hins in Hres.
  set (m := fold_left (stats_step (q_stats q)) ins []) in Hres.
  injection Hres as <-. rewrite map_map in Hin. cbn [fst] in Hin.
  destruct (is_nil (q_columns q) && is_nil m) eqn:E.
  - right. destruct Hin as [<-|[]]. split; [reflexivity|].
    apply andb_true_iff in E as [E _]. destruct (q_columns q); [reflexivity|discriminate].
  - left. change (In key (map fst m)) in Hin. apply sm_mem_in in Hin.
    subst m. rewrite fold_mem in Hin. cbn [sm_mem orb] in Hin.
    apply existsb_exists in Hin as [kr [Hkr Hsel]]. unfold sel in Hsel.
    apply andb_true_iff in Hsel as [Hk Hw]. apply gkey_eqb_eq in Hk.
    exists kr. repeat split; [exact Hkr|exact Hw|symmetry; exact Hk].
Qed.

(** *** what the merge is fed with *)

Lemma mapM_Some {A B} (f : A -> option B) (h : A -> B) (l : list A) :
  (forall x, In x l -> f x = Some (h x)) -> mapM f l = Some (map h l).
Proof.
  intros H. rewrite <- (map_id l) at 1. apply mapM_map_Some. exact H.
Qed.

(** a well-formed answer has one key cell per backend-side column of the sub request *)
Definition wf_answer (cols : list rcol) (b : backend) : Prop :=
  Forall (fun kr : row * list Z => count_backend cols <= length (fst kr)) (b_stats b).

Lemma peer_stats_spec cols b :
  wf_answer cols b ->
  peer_stats cols b = Some (map (fun kr => (map cell_text (weave b cols (fst kr)), snd kr)) (b_stats b)).
Proof.
  intros Hwf. unfold peer_stats. apply mapM_Some. intros kr Hin.
  pose proof (splice_weave b cols [] (fst kr)) as H. cbn [length app] in H.
  rewrite H; [reflexivity|]. exact (proj1 (Forall_forall _ _) Hwf kr Hin).
Qed.

Lemma thm_stats_inputs sch q bs :
  (forall b, In b (reachable q bs) -> wf_answer (full_cols sch q) b) ->
  stats_inputs sch q bs
  = Some (flat_map (fun b => map (fun kr => (map cell_text (weave b (full_cols sch q) (fst kr)), snd kr)) (b_stats b))
                   (reachable q bs)).
Proof.
  intros H. unfold stats_inputs. apply concat_opt_Some. intros b Hb. apply peer_stats_spec, H, Hb.
Qed.

(** *** Stats without Columns: one total per Stats header *)

Definition answer (b : backend) : list Z := match b_stats b with (_, n) :: _ => n | [] => [] end.

Lemma full_cols_stats_only sch q :
  q_columns q = [] -> q_sort q = [] -> q_stats q <> [] -> full_cols sch q = [].
Proof.
  intros Hc Hs Hst. unfold full_cols, sort_cols, req_cols. rewrite Hc, Hs.
  destruct (q_stats q); [contradiction|reflexivity].
Qed.

Lemma flat_map_single {A B} (f : A -> B) (l : list A) : flat_map (fun x => [f x]) l = map f l.
Proof. induction l as [|x l IH]; cbn [flat_map map app]; [|rewrite IH]; reflexivity. Qed.

Lemma flat_map_ext_in' {A B} (f g : A -> list B) (l : list A) :
  (forall x, In x l -> f x = g x) -> flat_map f l = flat_map g l.
Proof.
  induction l as [|x l IH]; intros H; cbn [flat_map]; [reflexivity|].
  rewrite (H x (or_introl eq_refl)), IH by (intros y Hy; apply H; right; exact Hy). reflexivity.
Qed.

Lemma thm_stats_total sch q bs :
  q_columns q = [] -> q_sort q = [] -> q_stats q <> [] ->
  (forall b, In b (reachable q bs) ->
     exists nums, b_stats b = [([], nums)] /\ length nums = length (q_stats q)) ->
  exists finals,
    stats_rows sch q bs = Some [([], finals)] /\
    length finals = length (q_stats q) /\
    forall j k, nth_error (q_stats q) j = Some k ->
      let vs := map (fun b => nth j (answer b) 0%Z) (reachable q bs) in
      (k = SCount -> Forall count_val vs) ->
      nth j finals (0, 1)%Z = final_spec k vs.
Proof.
  intros Hc Hs Hst Hans.
  pose proof (full_cols_stats_only sch q Hc Hs Hst) as Hfull.
  assert (Hins : stats_inputs sch q bs = Some (map (fun b => ([], answer b)) (reachable q bs))).
  { rewrite thm_stats_inputs.
    - f_equal. rewrite <- flat_map_single. apply flat_map_ext_in'. intros b Hb.
      destruct (Hans b Hb) as [nums [Hb1 _]]. unfold answer. rewrite Hb1, Hfull. reflexivity.
    - intros b Hb. rewrite Hfull. unfold wf_answer. apply Forall_forall. intros kr _. cbn. lia. }
  destruct (stats_rows sch q bs) as [res|] eqn:Hres.
  2:{ unfold stats_rows in Hres. rewrite Hins in Hres. discriminate. }
  destruct (thm_stats_add_up sch q bs _ res Hins Hres) as [Hnd [Hcomplete Hvals]].
  (* all keys are [] *)
  assert (Hkeys : forall key, In key (map fst res) -> key = []).
  { intros key Hk. destruct (thm_stats_keys sch q bs _ res key Hins Hres Hk) as [[kr [Hkr [_ <-]]]|[-> _]]; [|reflexivity].
    apply in_map_iff in Hkr as [b [<- _]]. reflexivity. }
  (* there is a row *)
  assert (Hne : res <> []).
  { unfold stats_rows in Hres. rewrite Hins in Hres. injection Hres as <-.
    rewrite Hc. cbn [is_nil andb].
    destruct (fold_left _ _ _) as [|x m]; cbn [is_nil]; discriminate. }
  destruct res as [|[key finals] res]; [contradiction|].
  assert (key = []) by (apply Hkeys; left; reflexivity). subst key.
  destruct res as [|[key2 f2] res].
  2:{ exfalso. assert (key2 = []) by (apply Hkeys; right; left; reflexivity). subst key2.
      cbn [map fst] in Hnd. inversion Hnd as [|? ? Hnot _]. apply Hnot. left; reflexivity. }
  exists finals. split; [reflexivity|].
  destruct (Hvals [] finals (or_introl eq_refl)) as [Hlen Hv]. split; [exact Hlen|].
  intros j k Hk vs Hcv.
  assert (Hgv : group_vals (q_stats q) j [] (map (fun b => ([], answer b)) (reachable q bs)) = vs).
  { subst vs. unfold group_vals.
    assert (Hall : forall l, (forall b, In b l -> In b (reachable q bs)) ->
              filter (sel (q_stats q) []) (map (fun b => ([], answer b)) l) = map (fun b => ([], answer b)) l).
    { induction l as [|b l IH]; intros Hl; [reflexivity|]. cbn [map filter].
      assert (Hsel : sel (q_stats q) [] ([], answer b) = true).
      { unfold sel, wf_row. cbn [fst snd gkey_eqb andb].
        destruct (Hans b (Hl b (or_introl eq_refl))) as [nums [Hb1 Hb2]]. unfold answer. rewrite Hb1.
        apply Nat.eqb_eq. exact Hb2. }
      rewrite Hsel, IH by (intros b' Hb'; apply Hl; right; exact Hb'). reflexivity. }
    rewrite Hall by auto. rewrite map_map. reflexivity. }
  rewrite <- Hgv. apply Hv; [exact Hk|]. rewrite Hgv. exact Hcv.
Qed.
