(** C17: a request serialises to an equivalent request (structural part). *)
From LMD Require Import QE.Engine QE.Render.
Open Scope N_scope.

(** the operator spelling of the serialiser parses back to an operator with the
    same matching behaviour: identical, or the regex spelling of a substring
    operator (whose text is quoted by the serialiser) *)
Definition op_roundtrip_ok (o : op) : bool :=
  match parse_op (op_text o) with
  | Some (o', _) =>
      match o, o' with
      | OCont, ORe | ONCont, ONRe | OContI, OReI | ONContI, ONReI => true
      | OEq, OEq | ONe, ONe | OEqI, OEqI | ONeI, ONeI | ORe, ORe | ONRe, ONRe | OReI, OReI | ONReI, ONReI
      | OLt, OLt | OLe, OLe | OGt, OGt | OGe, OGe | OGrpNot, OGrpNot => true
      | _, _ => false
      end
  | None => false
  end.

Definition all_ops : list op :=
  [OEq; ONe; OEqI; ONeI; ORe; ONRe; OReI; ONReI; OCont; ONCont; OContI; ONContI; OLt; OLe; OGt; OGe; OGrpNot].

Lemma all_ops_complete o : In o all_ops.
Proof. destruct o; cbn; tauto. Qed.

Lemma op_roundtrip o : op_roundtrip_ok o = true.
Proof.
  assert (H : forallb op_roundtrip_ok all_ops = true) by (vm_compute; reflexivity).
  rewrite forallb_forall in H. apply H, all_ops_complete.
Qed.

(** *** the postfix notation rebuilds the tree
    [run_stack] is the Filter/And/Or/Negate stack machine of the parser on
    abstract header items; rendering a tree in postfix order and running the
    machine pushes exactly that tree - for every tree, any depth, any negations. *)
Inductive item := ILeaf (l : leaf) | IGroup (g : gop) (n : nat) | INegate.

Fixpoint emit (f : filt) : list item :=
  match f with
  | FLeaf l n => ILeaf l :: (if n then [INegate] else [])
  | FGroup g fs n => flat_map emit fs ++ [IGroup g (length fs)] ++ (if n then [INegate] else [])
  end.

Definition step_item (stack : option (list filt)) (it : item) : option (list filt) :=
  match stack with
  | None => None
  | Some st =>
      match it with
      | ILeaf l => Some (st ++ [FLeaf l false])
      | IGroup g n =>
          match n with
          | O => Some st
          | _ => match pop_n n st with
                 | Some (rest, grp) => Some (rest ++ [FGroup g grp false])
                 | None => None
                 end
          end
      | INegate => match rev st with
                   | [] => None
                   | top :: rest => Some (rev (set_neg top :: rest))
                   end
      end
  end.

Definition run_stack (items : list item) (st : list filt) : option (list filt) :=
  fold_left step_item items (Some st).

(** a tree is well formed for the notation if every group has at least one
    member (the parser ignores `And: 0`) *)
Fixpoint wf_filt (f : filt) : Prop :=
  match f with
  | FLeaf _ _ => True
  | FGroup _ fs _ => fs <> [] /\ (fix all (l : list filt) : Prop := match l with [] => True | x :: r => wf_filt x /\ all r end) fs
  end.

From LMD Require Import QE.FilterProofs.

Lemma run_stack_app a b st :
  run_stack (a ++ b) st = match run_stack a st with Some st' => run_stack b st' | None => None end.
Proof.
  unfold run_stack. rewrite fold_left_app.
  destruct (fold_left step_item a (Some st)) as [st'|]; [reflexivity|].
  induction b as [|it b IH]; [reflexivity|]. cbn [fold_left step_item]. exact IH.
Qed.

Lemma pop_n_app {A} (a b : list A) : pop_n (length b) (a ++ b) = Some (a, b).
Proof.
  unfold pop_n. rewrite app_length.
  destruct (Nat.ltb_spec (length a + length b) (length b)) as [H|H]; [lia|].
  replace (length a + length b - length b)%nat with (length a) by lia.
  rewrite firstn_app, Nat.sub_diag, firstn_O, app_nil_r, firstn_all.
  rewrite skipn_app, Nat.sub_diag, skipn_all. reflexivity.
Qed.

Lemma negate_top_last st top :
  step_item (Some (st ++ [top])) INegate = Some (st ++ [set_neg top]).
Proof.
  cbn [step_item]. rewrite rev_app_distr. cbn [rev app].
  rewrite rev_involutive. reflexivity.
Qed.

Definition with_neg (f : filt) (n : bool) : filt :=
  match f with FLeaf l _ => FLeaf l n | FGroup g fs _ => FGroup g fs n end.

Lemma wf_all_Forall (fs : list filt) :
  (fix all (l : list filt) : Prop := match l with [] => True | x :: r => wf_filt x /\ all r end) fs <->
  Forall wf_filt fs.
Proof.
  induction fs as [|f fs IH]; [split; [constructor|trivial]|].
  split.
  - intros [H1 H2]. constructor; [exact H1|apply IH; exact H2].
  - intros H. inversion H as [|? ? H1 H2]; subst. split; [exact H1|apply IH; exact H2].
Qed.

(** rendering in postfix order and running the parser's stack machine pushes
    exactly the rendered tree *)
Theorem emit_run : forall f st, wf_filt f -> run_stack (emit f) st = Some (st ++ [f]).
Proof.
  intros f. induction f as [l n|g fs n IH] using filt_ind'; intros st Hwf.
  - cbn [emit]. destruct n.
    + unfold run_stack. cbn [fold_left].
      change (step_item (Some st) (ILeaf l)) with (Some (st ++ [FLeaf l false])).
      rewrite negate_top_last. reflexivity.
    + reflexivity.
  - cbn [emit]. destruct Hwf as [Hne Hall]. apply wf_all_Forall in Hall.
    assert (Hpush : forall st, run_stack (flat_map emit fs) st = Some (st ++ fs)).
    { clear Hne. induction fs as [|f fs IHfs]; intros st0.
      - cbn. rewrite app_nil_r. reflexivity.
      - inversion IH as [|? ? Hf Hfs]; subst. inversion Hall as [|? ? Hwf Hwfs]; subst.
        cbn [flat_map]. rewrite run_stack_app, (Hf st0 Hwf). rewrite (IHfs Hfs Hwfs).
        rewrite <- app_assoc. reflexivity. }
    rewrite run_stack_app, Hpush. rewrite run_stack_app.
    assert (Hgrp : run_stack [IGroup g (length fs)] (st ++ fs) = Some (st ++ [FGroup g fs false])).
    { unfold run_stack. cbn [fold_left]. unfold step_item.
      destruct (length fs) eqn:Hlen; [destruct fs; [congruence|discriminate]|].
      rewrite <- Hlen, pop_n_app. reflexivity. }
    rewrite Hgrp. destruct n.
    + unfold run_stack. cbn [fold_left]. rewrite negate_top_last. reflexivity.
    + reflexivity.
Qed.

(** hence a whole list of top level filters is rebuilt in order *)
Corollary emit_run_all : forall fs st, Forall wf_filt fs -> run_stack (flat_map emit fs) st = Some (st ++ fs).
Proof.
  induction fs as [|f fs IH]; intros st Hwf.
  - cbn. rewrite app_nil_r. reflexivity.
  - inversion Hwf as [|? ? Hf Hfs]; subst. cbn [flat_map].
    rewrite run_stack_app, (emit_run f st Hf), (IH _ Hfs), <- app_assoc. reflexivity.
Qed.
