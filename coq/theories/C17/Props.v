(** C17 — a request serialises to an equivalent request.
    Statements only; proofs in C17/Proofs.v.  The text level (Request.String()
    against the model's renderer, and parse . render . parse evaluated on
    generated stores in both parse modes) is the correspondence stream c17. *)
From LMD Require Import QE.Engine QE.Render C17.Proofs Gen.Schema.

(** every operator's serialised spelling parses back to the same operator, or -
    for the internal substring operators, whose text the serialiser quotes - to
    the regular expression operator of the same polarity and case sensitivity *)
Theorem C17_operator_roundtrip : forall o, op_roundtrip_ok o = true.
Proof. exact op_roundtrip. Qed.

(** Filter / And / Or / Negate (and the Stats spellings) are a postfix notation:
    serialising a filter tree and running the parser's stack machine on the
    result pushes exactly that tree - for every tree, any nesting depth, any
    combination of negations (every group must have a member: the parser
    ignores `And: 0`). *)
Theorem C17_tree_roundtrip :
  forall f st, wf_filt f -> run_stack (emit f) st = Some (st ++ [f]).
Proof. exact emit_run. Qed.

Theorem C17_forest_roundtrip :
  forall fs st, Forall wf_filt fs -> run_stack (flat_map emit fs) st = Some (st ++ fs).
Proof. exact emit_run_all. Qed.

(** non-vacuity: the serialised text of an optimised request parses again and selects the same rows *)
Example C17_example :
  let h n := [VStr n] in
  let bk := mkBackend (s "a") (s "a") 0 true [] [mkData (s "hosts") [s "name"] [h (s "ABC.x"); h (s "abc_x"); h (s "zzz")]] in
  match parse_request schema true
          [s "GET hosts"; s "Columns: name"; s "Filter: name ~~ Abc.X"; s "Filter: name like c."; s "Or: 2"; s "Negate:"] with
  | Ok rq =>
      render_request false rq =
        [s "GET hosts"; s "Columns: name"; s "Filter: name ~~ abc\.x"; s "Filter: name ~ c\."; s "Or: 2"; s "Negate:"] /\
      match parse_request schema false (render_request false rq) with
      | Ok rq' => map h_out (fst (data_result schema (mkCfg false true) [bk] rq'))
                  = map h_out (fst (data_result schema (mkCfg false true) [bk] rq))
                  /\ map h_out (fst (data_result schema (mkCfg false true) [bk] rq)) = [h (s "abc_x"); h (s "zzz")]
      | Err _ => False
      end
  | Err _ => False
  end.
Proof. vm_compute. repeat split. Qed.

Print Assumptions C17_operator_roundtrip.
Print Assumptions C17_tree_roundtrip.
Print Assumptions C17_forest_roundtrip.
