(** C17 — a request serialises to an equivalent request.
    Statements only; proofs in C17/Proofs.v.  The text level (Request.String()
    against the model's renderer, and parse . render . parse evaluated on
    generated stores in both parse modes) is the correspondence stream c17. *)
From LMD Require Import QE.Engine QE.Render C17.Proofs C17.TextProofs Gen.Schema.

(** every operator's serialised spelling parses back to the same operator, or -
    for the internal substring operators, whose text the serialiser quotes - to
    the regular expression operator of the same polarity and case sensitivity *)
Theorem C17_operator_roundtrip : forall o, op_roundtrip_ok o = true.
Proof. exact op_roundtrip. Qed.

(** Filter / And / Or / Negate (and the Stats spellings) are a postfix notation:
    serialising a filter tree and running the parser's stack machine on the
    result pushes exactly that tree - for every tree, any nesting depth, any
    combination of negations (every group must have a member: the parser
    ignores `And: 0`). *)
Theorem C17_tree_roundtrip :
  forall f st, wf_filt f -> run_stack (emit f) st = Some (st ++ [f]).
Proof. exact emit_run. Qed.

Theorem C17_forest_roundtrip :
  forall fs st, Forall wf_filt fs -> run_stack (flat_map emit fs) st = Some (st ++ fs).
Proof. exact emit_run_all. Qed.

(** Text level of the structural lines: numbers print and parse back; the
    `And:`/`Or:`/`Negate:` lines (and their Stats spellings) the serialiser writes
    are parsed by the real header parser exactly as the abstract stack machine of
    the tree theorem steps; Limit / Offset lines set the field. *)
Theorem C17_number_roundtrip : forall z, parse_int (show_Z z) = Some z.
Proof. exact parse_int_show_Z. Qed.

Theorem C17_group_line :
  forall opt r g n,
    parse_header opt r (gop_text g ++ s ": " ++ show_Z (Z.of_nat n)) =
    res_of_stack r (step_item (Some (rq_filter r)) (IGroup g n)).
Proof. exact group_line_parses. Qed.

Theorem C17_negate_line :
  forall opt r, parse_header opt r (s "Negate:") = res_of_stack r (step_item (Some (rq_filter r)) INegate).
Proof. exact negate_line_parses. Qed.

Theorem C17_stats_group_line :
  forall opt r g n st, (0 < n)%nat -> rq_stats r = map SCounter st ->
    parse_header opt r (s "Stats" ++ gop_text g ++ s ": " ++ show_Z (Z.of_nat n)) =
    res_of_stats_stack r (step_item (Some st) (IGroup g n)).
Proof. exact stats_group_line_machine. Qed.

Theorem C17_stats_negate_line :
  forall opt r st, rq_stats r = map SCounter st ->
    parse_header opt r (s "StatsNegate:") = res_of_stats_stack r (step_item (Some st) INegate).
Proof. exact stats_negate_line_machine. Qed.

Theorem C17_limit_line :
  forall opt r z, (0 <= z)%Z ->
    parse_header opt r (s "Limit: " ++ show_Z z) =
    Ok (mkReq (rq_table r) (rq_columns r) (rq_filter r) (rq_stats r) (rq_sort r) (Some z) (rq_offset r)
              (rq_backends r) (rq_format r) (rq_colheaders r) (rq_fixed16 r) (rq_keepalive r)
              (rq_authuser r) (rq_numfilter r)).
Proof. exact limit_line_parses. Qed.

(** non-vacuity: the serialised text of an optimised request parses again and selects the same rows *)
Example C17_example :
  let h n := [VStr n] in
  let bk := mkBackend (s "a") (s "a") 0 true [] [mkData (s "hosts") [s "name"] [h (s "ABC.x"); h (s "abc_x"); h (s "zzz")]] in
  match parse_request schema true
          [s "GET hosts"; s "Columns: name"; s "Filter: name ~~ Abc.X"; s "Filter: name like c."; s "Or: 2"; s "Negate:"] with
  | Ok rq =>
      render_request false rq =
        [s "GET hosts"; s "Columns: name"; s "Filter: name ~~ abc\.x"; s "Filter: name ~ c\."; s "Or: 2"; s "Negate:"] /\
      match parse_request schema false (render_request false rq) with
      | Ok rq' => map h_out (fst (data_result schema (mkCfg false true) [bk] rq'))
                  = map h_out (fst (data_result schema (mkCfg false true) [bk] rq))
                  /\ map h_out (fst (data_result schema (mkCfg false true) [bk] rq)) = [h (s "abc_x"); h (s "zzz")]
      | Err _ => False
      end
  | Err _ => False
  end.
Proof. vm_compute. repeat split. Qed.

Print Assumptions C17_operator_roundtrip.
Print Assumptions C17_tree_roundtrip.
Print Assumptions C17_forest_roundtrip.
Print Assumptions C17_number_roundtrip.
Print Assumptions C17_group_line.
Print Assumptions C17_negate_line.
Print Assumptions C17_stats_group_line.
Print Assumptions C17_stats_negate_line.
Print Assumptions C17_limit_line.
