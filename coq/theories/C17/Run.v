(** C17 stream: parse -> String() -> parse on the implementation, compared with
    the model's evaluation of the original request and with the model's renderer. *)
From LMD Require Export QE.Run QE.Render.
From LMD Require Import Gen.Schema.
Open Scope N_scope.

Record rcase := mkR {
  r_case : qcase;            (* original text, parse mode, what the implementation answered *)
  r_text : list str;         (* Request.String() of the parsed request, split into lines *)
  r_obs : obs }.             (* answer to that text parsed again (ParseDefault) *)

(** lines that carry the request's meaning (the GET line and the output format are compared by evaluation) *)
Definition meaningful (l : str) : bool :=
  negb (has_prefix (s "GET ") l || has_prefix (s "OutputFormat:") l || match l with [] => true | _ => false end).

Definition text_agrees (schema : list tschema) (c : rcase) : bool :=
  match parse_request schema (q_opt (r_case c)) (q_lines (r_case c)) with
  | Ok rq => list_eqb str_eqb (filter meaningful (render_request false rq)) (filter meaningful (r_text c))
  | Err _ => true
  end.

(** the model renders, parses its own text again and must answer the same *)
Definition model_roundtrip_ok (schema : list tschema) (c : rcase) : bool :=
  match parse_request schema (q_opt (r_case c)) (q_lines (r_case c)) with
  | Ok rq =>
      match parse_request schema false (render_request false rq) with
      | Ok rq' =>
          match compare schema (mkQ (q_cfg (r_case c)) (q_ds (r_case c)) false (render_request false rq) (r_obs c)) with
          | Differ => false | _ => true end
      | Err _ => false
      end
  | Err _ => true
  end.

Inductive rverdict := RAgree | RSkip | RDiffer (what : nat).   (* 1 original, 2 re-parsed answer, 3 text, 4 model round trip *)

Definition rcompare (schema : list tschema) (c : rcase) : rverdict :=
  match compare schema (r_case c) with
  | Skip => RSkip
  | Differ => RDiffer 1
  | Agree =>
      match q_obs (r_case c) with
      | OError _ => RAgree
      | _ =>
          (* the re-parsed text must give the answer of the original request *)
          match compare schema (mkQ (q_cfg (r_case c)) (q_ds (r_case c)) (q_opt (r_case c)) (q_lines (r_case c)) (r_obs c)) with
          | Differ => RDiffer 2
          | _ => if negb (text_agrees schema c) then RDiffer 3
                 else if negb (model_roundtrip_ok schema c) then RDiffer 4 else RAgree
          end
      end
  end.

Fixpoint rmismatches_from (i : nat) (cs : list rcase) : list (nat * nat) :=
  match cs with
  | [] => []
  | c :: rest => (match rcompare schema c with RDiffer w => [(i, w)] | _ => [] end) ++ rmismatches_from (S i) rest
  end.

Definition mismatches (cs : list rcase) := rmismatches_from 0 cs.
Definition skipped (cs : list rcase) : nat :=
  length (filter (fun c => match rcompare schema c with RSkip => true | _ => false end) cs).
