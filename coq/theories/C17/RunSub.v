(** C17, second stream: the cluster sub-request form.

    text --NewRequest(mode)--> req --buildDistributedRequestData--> JSON
         --parseRequestDataToRequest (reads filters with ParseOptimize)--> rt --> answer of the partner node

    The answer is compared with the model's answer to the request the sub-request
    has to mean ([sub_of]): the original request with the sort columns that are not
    among the requested ones appended, offset 0, limit + offset, wrapped_json, all
    backends. The harness writes that request as header lines derived from the
    original text ([s_meant]); the lines are cross-checked here against [sub_of] of
    the model's parse of the original, so a mistake of the derivation cannot hide
    (or fake) a difference. Stats requests answer with the raw accumulators
    (sum, count) per group key and Stats column ([stats_raw]). *)
From LMD Require Export QE.Run QE.Render.
From LMD Require Import Gen.Schema.
Open Scope N_scope.

Inductive subobs :=
| SubPlain (o : obs)                                                   (* data answer / error; OError 400 = original text rejected, no sub-request *)
| SubRaw (rows : list (list str * list (Z * Z))) (failed : list str).  (* per key, per Stats column: (sum in 1e-6 units, count) *)

Record scase := mkS {
  s_cfg : config; s_ds : dataset; s_opt : bool;
  s_lines : list str;        (* original request text *)
  s_meant : list str;        (* what the sub-request has to mean, derived from s_lines by the harness *)
  s_sub : subobs }.          (* what the sub-request answered *)

(** *** the request a sub-request stands for *)
Definition col_known (c : column) (l : list column) : bool := existsb (fun d => str_eqb (c_name d) (c_name c)) l.

(** distributedSortColumns: sort keys whose column is not requested travel behind the requested columns (once) *)
Fixpoint extra_sort (have : list column) (ks : list sortkey) : list str :=
  match ks with
  | [] => []
  | k :: rest => if col_known (sk_col k) have then extra_sort have rest
                 else sk_name k :: extra_sort (have ++ [sk_col k]) rest
  end.

Definition sub_of (rq : request) : request :=
  mkReq (rq_table rq)
        (rq_columns rq ++ match rq_stats rq with [] => extra_sort (request_columns rq) (rq_sort rq) | _ => [] end)
        (rq_filter rq) (rq_stats rq) (rq_sort rq)
        (match rq_limit rq with Some l => Some (l + rq_offset rq)%Z | None => None end)
        0%Z [] FmtWrapped false false false (rq_authuser rq) (rq_numfilter rq).

(** *** the documented host-name heuristic (as in C07): the partner node reads the filter text with the
    optimiser, a regex text with a dot between alphanumerics is plain text there. Only a request parsed
    WITHOUT the optimiser can carry such a text as a pattern (clients of a cluster node are always parsed
    with the optimiser); for those the sub-request means the optimised reading. *)
Definition dot_text (v : str) : bool :=
  let val := trim_suffix (s ".*") (trim_prefix (s ".*") v) in
  existsb (N.eqb 46) val && negb (has_regex_chars val).

Definition is_regex_op (o : op) : bool :=
  match o with ORe | ONRe | OReI | ONReI => true | _ => false end.

Fixpoint filt_dot (f : filt) : bool :=
  match f with
  | FLeaf l _ => is_regex_op (lf_op l) && dot_text (lf_str l)
  | FGroup _ fs _ => existsb filt_dot fs
  end.

Definition request_dot (rq : request) : bool :=
  existsb filt_dot (rq_filter rq)
  || existsb (fun st => match st with SCounter f => filt_dot f | SAgg _ _ => false end) (rq_stats rq).

(** *** raw statistics: the merged accumulators before finalStatsApply *)
Definition stats_raw (schema : list tschema) (cfg : config) (ds : dataset) (rq : request) : keyed (list acc) :=
  let bks := filter (contributes rq) (selected_backends ds rq) in
  let merged := fold_left (merge_keyed rq) (map (stats_backend schema cfg rq) bks) [] in
  match merged, rq_columns rq with
  | [], [] => [([], map (fun _ => acc0) (rq_stats rq))]
  | _, _ => merged
  end.

(** the model's Stats answer is the final value of exactly these accumulators *)
Lemma stats_result_of_raw schema cfg ds rq :
  stats_result schema cfg ds rq
  = map (fun kv => (fst kv, map2 (fun st a => final_stat (stat_kind st) a) (rq_stats rq) (snd kv))) (stats_raw schema cfg ds rq).
Proof. reflexivity. Qed.

(** one cell: the count is exact, the sum within the float tolerance of QE/Run.v; the value of a
    minimum / maximum over nothing is never read (Filter.ApplyValue looks at the count first) *)
Definition rawcell_ok (st : stat) (a : acc) (o : Z * Z) : bool :=
  Z.eqb (a_cnt a) (snd o)
  && match stat_kind st with
     | Some AgMin | Some AgMax => if Z.eqb (a_cnt a) 0 then true else statval_ok (SVal (a_val a)) (fst o)
     | _ => statval_ok (SVal (a_val a)) (fst o)
     end.

Fixpoint rawcells_ok (sts : list stat) (accs : list acc) (os : list (Z * Z)) : bool :=
  match sts, accs, os with
  | [], [], [] => true
  | st :: sts', a :: accs', o :: os' => rawcell_ok st a o && rawcells_ok sts' accs' os'
  | _, _, _ => false
  end.

Fixpoint raw_ok (sts : list stat) (expected : keyed (list acc)) (observed : list (list str * list (Z * Z))) : bool :=
  match expected with
  | [] => match observed with [] => true | _ => false end
  | (k, accs) :: rest =>
      match take_first (fun o => key_eqb (fst o) k && rawcells_ok sts accs (snd o)) observed with
      | Some observed' => raw_ok sts rest observed'
      | None => false
      end
  end.

(** *** verdict
    1 the original text is accepted by one side only, 2 the data answer differs, 3 the raw statistics differ,
    4 the derived lines are not the request [sub_of] (harness / model disagreement on the derivation),
    5 the answer has the wrong shape (data for a Stats request, raw pairs for a data request) *)
Inductive sverdict := SAgree | SSkip | SDiffer (what : nat).

Definition scompare (schema : list tschema) (c : scase) : sverdict :=
  match parse_request schema (s_opt c) (s_lines c) with
  | Err Unsupported => SSkip
  | Err BadRequest => match s_sub c with SubPlain (OError 400) => SAgree | _ => SDiffer 1 end
  | Ok rq =>
      if t_passthrough (rq_table rq) then SSkip else
      if (match rq_columns rq, rq_stats rq with [], [] => true | _, _ => false end) then SSkip else
      match s_sub c with
      | SubPlain (OError 400) => SDiffer 1
      | sub =>
          match parse_request schema (s_opt c) (s_meant c) with
          | Err _ => SDiffer 4
          | Ok rm =>
              if negb (list_eqb str_eqb (render_request false rm) (render_request false (sub_of rq))) then SDiffer 4 else
              let mode := s_opt c || request_dot rq in
              match sub with
              | SubPlain o =>
                  match rq_stats rq, o with
                  | _ :: _, OData _ _ _ => SDiffer 5
                  | _, _ =>
                      match compare schema (mkQ (s_cfg c) (s_ds c) mode (s_meant c) o) with
                      | Agree => SAgree | Skip => SSkip | Differ => SDiffer 2
                      end
                  end
              | SubRaw rows _ =>
                  match parse_request schema mode (s_meant c) with
                  | Err _ => SDiffer 4
                  | Ok re =>
                      match rq_stats re with
                      | [] => SDiffer 5
                      | sts => if raw_ok sts (stats_raw schema (s_cfg c) (s_ds c) re) rows then SAgree else SDiffer 3
                      end
                  end
              end
          end
      end
  end.

Fixpoint smismatches_from (i : nat) (cs : list scase) : list (nat * nat) :=
  match cs with
  | [] => []
  | c :: rest => (match scompare schema c with SDiffer w => [(i, w)] | _ => [] end) ++ smismatches_from (S i) rest
  end.

Definition mismatches (cs : list scase) := smismatches_from 0 cs.
Definition skipped (cs : list scase) : nat :=
  length (filter (fun c => match scompare schema c with SSkip => true | _ => false end) cs).

(** what the model expects (printed on demand when replaying a single case) *)
Definition model_answer (c : scase) : response :=
  match parse_request schema (s_opt c) (s_lines c) with
  | Ok rq => respond schema (s_cfg c) (s_ds c) (s_opt c || request_dot rq) (s_meant c)
  | Err _ => RError 400
  end.
Definition model_raw (c : scase) : keyed (list acc) :=
  match parse_request schema (s_opt c) (s_lines c) with
  | Ok rq => match parse_request schema (s_opt c || request_dot rq) (s_meant c) with
             | Ok re => stats_raw schema (s_cfg c) (s_ds c) re
             | Err _ => []
             end
  | Err _ => []
  end.
