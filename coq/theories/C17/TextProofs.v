(** C17, text level: the header lines the serialiser writes for groups,
    negations, Limit and Offset are read back by [parse_header] exactly as the
    abstract stack machine of C17/Proofs.v ([step_item]) says.

    The core is the integer round trip [parse_int (show_Z z) = Some z] for ALL
    integers (correctness of [pos_digits] and of its log2-based fuel). *)
From LMD Require Import QE.Engine QE.Render C17.Proofs.
Open Scope N_scope.

(** *** decimal digits *)
Lemma is_digit_range c : is_digit c = true <-> 48 <= c <= 57.
Proof. unfold is_digit. rewrite andb_true_iff, !N.leb_le. reflexivity. Qed.

Lemma pos_digits_step fuel n acc :
  pos_digits (S fuel) n acc =
  if N.eqb (n / 10) 0 then (48 + n mod 10) :: acc else pos_digits fuel (n / 10) ((48 + n mod 10) :: acc).
Proof. reflexivity. Qed.

(** with enough fuel [pos_digits] prepends a non-empty block of digits whose
    value is [n] *)
Lemma pos_digits_spec : forall fuel n acc, 0 < n -> n < 10 ^ N.of_nat fuel ->
  exists ds, pos_digits fuel n acc = ds ++ acc /\ ds <> [] /\
    (forall c, In c ds -> is_digit c = true) /\
    (forall a rest, digits_val a (ds ++ rest) =
                    digits_val (a * 10 ^ Z.of_nat (length ds) + Z.of_N n)%Z rest).
Proof.
  induction fuel as [|fuel IH]; intros n acc Hpos Hlt.
  - change (N.of_nat 0) with 0 in Hlt. rewrite N.pow_0_r in Hlt. lia.
  - rewrite pos_digits_step.
    rewrite Nat2N.inj_succ, N.pow_succ_r' in Hlt.
    pose proof (N.div_mod n 10 ltac:(lia)) as Hdm.
    pose proof (N.mod_lt n 10 ltac:(lia)) as Hr.
    set (q := n / 10) in *. set (r := n mod 10) in *.
    assert (Hdig : is_digit (48 + r) = true) by (apply is_digit_range; lia).
    assert (Hval : Z.of_N (48 + r - 48) = Z.of_N r) by (f_equal; lia).
    destruct (N.eqb_spec q 0) as [Hq|Hq].
    + exists [48 + r]. split; [reflexivity|]. split; [discriminate|]. split.
      * intros c [<-|[]]. exact Hdig.
      * intros a rest. cbn [app digits_val length]. rewrite Hdig, Hval.
        f_equal. change (Z.of_nat 1) with 1%Z. rewrite Z.pow_1_r. lia.
    + destruct (IH q ((48 + r) :: acc)) as [ds [Heq [Hne [Hds Hdv]]]]; [lia|lia|].
      exists (ds ++ [48 + r]). rewrite Heq. split; [rewrite <- app_assoc; reflexivity|].
      split; [destruct ds; discriminate|]. split.
      * intros c Hc. apply in_app_iff in Hc. destruct Hc as [Hc|[<-|[]]]; [apply Hds, Hc|exact Hdig].
      * intros a rest. rewrite <- app_assoc. cbn [app]. rewrite Hdv.
        cbn [digits_val]. rewrite Hdig, Hval. f_equal.
        rewrite app_length. cbn [length]. rewrite Nat2Z.inj_add. change (Z.of_nat 1) with 1%Z.
        rewrite Z.pow_add_r, Z.pow_1_r by lia.
        set (P := (10 ^ Z.of_nat (length ds))%Z). lia.
Qed.

(** the fuel [show_Z] uses is sufficient: a number has at most as many decimal
    digits as binary digits *)
Lemma log2_fuel_sufficient p :
  N.pos p < 10 ^ N.of_nat (S (N.to_nat (N.log2 (N.pos p)))).
Proof.
  rewrite Nat2N.inj_succ, N2Nat.id.
  destruct (N.log2_spec (N.pos p) ltac:(lia)) as [_ Hlt].
  eapply N.lt_le_trans; [exact Hlt|].
  apply N.pow_le_mono_l. lia.
Qed.

(** any fuel with [n < 10 ^ fuel] gives the same digits *)
Lemma pos_digits_fuel_irrelevant : forall f1 f2 n acc, 0 < n ->
  n < 10 ^ N.of_nat f1 -> n < 10 ^ N.of_nat f2 -> pos_digits f1 n acc = pos_digits f2 n acc.
Proof.
  induction f1 as [|f1 IH]; intros f2 n acc Hpos H1 H2.
  - change (N.of_nat 0) with 0 in H1. rewrite N.pow_0_r in H1. lia.
  - destruct f2 as [|f2].
    + change (N.of_nat 0) with 0 in H2. rewrite N.pow_0_r in H2. lia.
    + rewrite !pos_digits_step.
      rewrite Nat2N.inj_succ, N.pow_succ_r' in H1, H2.
      pose proof (N.div_mod n 10 ltac:(lia)) as Hdm.
      pose proof (N.mod_lt n 10 ltac:(lia)) as Hr.
      set (q := n / 10) in *. set (r := n mod 10) in *.
      destruct (N.eqb_spec q 0) as [Hq|Hq]; [reflexivity|].
      apply IH; lia.
Qed.

Definition pos_text (p : positive) : str :=
  pos_digits (S (N.to_nat (N.log2 (N.pos p)))) (N.pos p) [].

Lemma show_Z_pos p : show_Z (Z.pos p) = pos_text p.
Proof. reflexivity. Qed.

Lemma show_Z_neg p : show_Z (Z.neg p) = 45 :: pos_text p.
Proof. reflexivity. Qed.

Lemma pos_text_spec p :
  pos_text p <> [] /\ (forall c, In c (pos_text p) -> is_digit c = true) /\
  digits_val 0 (pos_text p) = Some (Z.pos p).
Proof.
  unfold pos_text.
  destruct (pos_digits_spec _ (N.pos p) [] ltac:(lia) (log2_fuel_sufficient p)) as [ds [Heq [Hne [Hds Hdv]]]].
  rewrite Heq, app_nil_r. split; [exact Hne|]. split; [exact Hds|].
  specialize (Hdv 0%Z []). rewrite app_nil_r in Hdv. rewrite Hdv. cbn [digits_val]. f_equal.
Qed.

(** a text starting with a digit has no sign *)
Lemma parse_int_digit d r : is_digit d = true ->
  parse_int (d :: r) = match digits_val 0 (d :: r) with Some v => Some v | None => None end.
Proof.
  intros Hd. apply is_digit_range in Hd.
  assert (H : d = 48 \/ d = 49 \/ d = 50 \/ d = 51 \/ d = 52 \/ d = 53 \/ d = 54 \/ d = 55 \/ d = 56 \/ d = 57) by lia.
  destruct H as [->|[->|[->|[->|[->|[->|[->|[->|[->| ->]]]]]]]]]; reflexivity.
Qed.

Lemma parse_int_minus r :
  parse_int (45 :: r) =
  match r with
  | [] => None
  | _ :: _ => match digits_val 0 r with Some v => Some (- v)%Z | None => None end
  end.
Proof. reflexivity. Qed.

(** the decimal rendering of every integer parses back to it *)
Theorem parse_int_show_Z : forall z, parse_int (show_Z z) = Some z.
Proof.
  intros [|p|p].
  - reflexivity.
  - rewrite show_Z_pos. destruct (pos_text_spec p) as [Hne [Hds Hdv]].
    destruct (pos_text p) as [|d ds]; [congruence|].
    rewrite parse_int_digit by (apply Hds; left; reflexivity).
    rewrite Hdv. reflexivity.
  - rewrite show_Z_neg, parse_int_minus. destruct (pos_text_spec p) as [Hne [Hds Hdv]].
    destruct (pos_text p) as [|d ds]; [congruence|].
    rewrite Hdv. reflexivity.
Qed.

(** *** the rendering as a header token: non-empty, digits and a sign only *)
Lemma show_Z_chars z c : In c (show_Z z) -> is_digit c = true \/ c = 45.
Proof.
  destruct z as [|p|p].
  - intros [<-|[]]. left; reflexivity.
  - rewrite show_Z_pos. intros Hc. left. apply (pos_text_spec p), Hc.
  - rewrite show_Z_neg. intros [<-|Hc]; [right; reflexivity|]. left. apply (pos_text_spec p), Hc.
Qed.

Lemma show_Z_nonempty z : show_Z z <> [].
Proof.
  destruct z as [|p|p]; [discriminate| |discriminate].
  rewrite show_Z_pos. apply (pos_text_spec p).
Qed.

Lemma digit_or_minus_no_space c : is_digit c = true \/ c = 45 -> is_space c = false /\ c <> 58.
Proof.
  intros [Hd| ->]; [|split; [reflexivity|discriminate]].
  apply is_digit_range in Hd. split; [|lia].
  unfold is_space.
  repeat match goal with |- context [N.eqb c ?k] => destruct (N.eqb_spec c k) as [He|_]; [lia|] end.
  reflexivity.
Qed.

(** no white space (and no colon) inside, and not empty *)
Theorem show_Z_no_space z :
  show_Z z <> [] /\ forall c, In c (show_Z z) -> is_space c = false /\ c <> 32 /\ c <> 58.
Proof.
  split; [apply show_Z_nonempty|].
  intros c Hc. destruct (digit_or_minus_no_space c (show_Z_chars z c Hc)) as [Hs H58].
  split; [exact Hs|]. split; [|exact H58].
  intros ->. discriminate.
Qed.

(** *** tokenisation of a header line *)
Lemma trim_left_sp_head c r : c <> 32 -> trim_left_sp (c :: r) = c :: r.
Proof.
  intros Hne. destruct c as [|p]; [reflexivity|].
  do 5 (destruct p as [p|p|]; try reflexivity).
  destruct p as [p|p|]; try reflexivity. congruence.
Qed.

Lemma trim_left_sp_show_Z z : trim_left_sp (show_Z z) = show_Z z.
Proof.
  destruct (show_Z_no_space z) as [Hne Hc].
  destruct (show_Z z) as [|c r]; [congruence|].
  apply trim_left_sp_head. apply (Hc c). left; reflexivity.
Qed.

Lemma trim_left_head c r : is_space c = false -> trim_left (c :: r) = c :: r.
Proof. intros H. cbn [trim_left]. rewrite H. reflexivity. Qed.

(** a line without white space at either end is left alone by [trim_space] *)
Lemma trim_space_id c x d :
  is_space c = false -> is_space d = false -> trim_space (c :: x ++ [d]) = c :: x ++ [d].
Proof.
  intros Hc Hd. unfold trim_space. rewrite (trim_left_head c _ Hc).
  unfold trim_right. change (c :: x ++ [d]) with ((c :: x) ++ [d]).
  rewrite rev_app_distr. cbn [rev app]. rewrite (trim_left_head d _ Hd).
  change (d :: rev x ++ [c]) with ([d] ++ rev (c :: x)).
  rewrite rev_app_distr, rev_involutive. reflexivity.
Qed.

Lemma show_Z_last z : exists y d, show_Z z = y ++ [d] /\ is_space d = false.
Proof.
  destruct (show_Z_no_space z) as [Hne Hc].
  destruct (exists_last Hne) as [y [d He]]. exists y, d. split; [exact He|].
  apply (Hc d). rewrite He. apply in_app_iff. right; left; reflexivity.
Qed.

Lemma trim_space_number_line c pre z :
  is_space c = false -> trim_space (c :: pre ++ show_Z z) = c :: pre ++ show_Z z.
Proof.
  intros Hc. destruct (show_Z_last z) as [y [d [He Hd]]]. rewrite He, app_assoc.
  apply trim_space_id; assumption.
Qed.

Lemma split1_app_sep sep a b :
  forallb (fun c => negb (N.eqb c sep)) a = true -> split1 sep (a ++ sep :: b) = (a, Some b).
Proof.
  induction a as [|c a IH]; intros Hall; cbn [app split1].
  - rewrite N.eqb_refl. reflexivity.
  - cbn [forallb] in Hall. apply andb_true_iff in Hall. destruct Hall as [Hc Ha].
    destruct (N.eqb c sep); [discriminate|]. rewrite (IH Ha). reflexivity.
Qed.

(** one step of the header loop on a line that needs no trimming *)
Lemma parse_headers_cons opt r line rest :
  line <> [] -> trim_space line = line ->
  parse_headers opt r (line :: rest) =
  match parse_header opt r line with Ok r' => parse_headers opt r' rest | Err e => Err e end.
Proof.
  intros Hne Ht. cbn [parse_headers]. rewrite Ht.
  destruct line; [congruence|reflexivity].
Qed.

(** evaluate the chain of header name comparisons for a closed header name *)
Ltac header_dispatch :=
  repeat match goal with
         | |- context [str_eqb (lower (s ?a)) (s ?b)] =>
             let v := eval vm_compute in (str_eqb (lower (s a)) (s b)) in
             change (str_eqb (lower (s a)) (s b)) with v; cbv iota
         end.

Ltac open_header name :=
  unfold parse_header;
  rewrite (split1_app_sep 58 (s name)) by reflexivity;
  cbv beta iota zeta.

Section Lines.
  Variables (opt : bool) (r : request) (d : str).
  Hypothesis Hd : trim_left_sp d = d.

  Lemma trim_args : trim_left_sp (32 :: d) = d.
  Proof. exact Hd. Qed.

  Lemma and_line :
    parse_header opt r (s "And" ++ 58 :: 32 :: d) =
    match group_filters GAnd d (rq_filter r) with Ok f => Ok (set_filter r f) | Err e => Err e end.
  Proof. open_header "And". rewrite trim_args. header_dispatch. reflexivity. Qed.

  Lemma or_line :
    parse_header opt r (s "Or" ++ 58 :: 32 :: d) =
    match group_filters GOr d (rq_filter r) with Ok f => Ok (set_filter r f) | Err e => Err e end.
  Proof. open_header "Or". rewrite trim_args. header_dispatch. reflexivity. Qed.

  Lemma statsand_line :
    parse_header opt r (s "StatsAnd" ++ 58 :: 32 :: d) =
    match group_stats opt (rq_table r) GAnd d (rq_stats r) with Ok st => Ok (set_stats r st) | Err e => Err e end.
  Proof. open_header "StatsAnd". rewrite trim_args. header_dispatch. reflexivity. Qed.

  Lemma statsor_line :
    parse_header opt r (s "StatsOr" ++ 58 :: 32 :: d) =
    match group_stats opt (rq_table r) GOr d (rq_stats r) with Ok st => Ok (set_stats r st) | Err e => Err e end.
  Proof. open_header "StatsOr". rewrite trim_args. header_dispatch. reflexivity. Qed.

  Lemma limit_line :
    parse_header opt r (s "Limit" ++ 58 :: 32 :: d) =
    match parse_int d with
    | Some z => if Z.ltb z 0 then Err BadRequest
                else Ok (mkReq (rq_table r) (rq_columns r) (rq_filter r) (rq_stats r) (rq_sort r) (Some z) (rq_offset r)
                               (rq_backends r) (rq_format r) (rq_colheaders r) (rq_fixed16 r) (rq_keepalive r)
                               (rq_authuser r) (rq_numfilter r))
    | None => Err BadRequest
    end.
  Proof. open_header "Limit". rewrite trim_args. header_dispatch. reflexivity. Qed.

  Lemma offset_line :
    parse_header opt r (s "Offset" ++ 58 :: 32 :: d) =
    match parse_int d with
    | Some z => if Z.ltb z 0 then Err BadRequest
                else Ok (mkReq (rq_table r) (rq_columns r) (rq_filter r) (rq_stats r) (rq_sort r) (rq_limit r) z
                               (rq_backends r) (rq_format r) (rq_colheaders r) (rq_fixed16 r) (rq_keepalive r)
                               (rq_authuser r) (rq_numfilter r))
    | None => Err BadRequest
    end.
  Proof. open_header "Offset". rewrite trim_args. header_dispatch. reflexivity. Qed.
End Lines.

Lemma negate_line opt r :
  parse_header opt r (s "Negate:") =
  match negate_top (fun f => Ok (set_neg f)) (rq_filter r) with Ok f => Ok (set_filter r f) | Err e => Err e end.
Proof.
  change (s "Negate:") with (s "Negate" ++ 58 :: []).
  open_header "Negate". header_dispatch. reflexivity.
Qed.

Lemma statsnegate_line opt r :
  parse_header opt r (s "StatsNegate:") =
  match negate_top (fun st => match st with SCounter f => Ok (SCounter (set_neg f)) | SAgg _ _ => Err Unsupported end)
                   (rq_stats r) with
  | Ok st => Ok (set_stats r st) | Err e => Err e end.
Proof.
  change (s "StatsNegate:") with (s "StatsNegate" ++ 58 :: []).
  open_header "StatsNegate". header_dispatch. reflexivity.
Qed.

(** *** And: / Or: / Negate: are the steps of the abstract stack machine *)
Definition res_of_stack (r : request) (st : option (list filt)) : res request :=
  match st with Some st' => Ok (set_filter r st') | None => Err BadRequest end.

Lemma group_filters_number g n st :
  group_filters g (show_Z (Z.of_nat n)) st =
  match step_item (Some st) (IGroup g n) with Some st' => Ok st' | None => Err BadRequest end.
Proof.
  unfold group_filters. rewrite parse_int_show_Z.
  destruct (Z.ltb_spec (Z.of_nat n) 0) as [Hneg|_]; [lia|].
  cbn [step_item]. destruct n as [|n]; [reflexivity|].
  destruct (Z.eqb_spec (Z.of_nat (S n)) 0) as [H0|_]; [lia|].
  rewrite Nat2Z.id. destruct (pop_n (S n) st) as [[rest grp]|]; reflexivity.
Qed.

(** the line [And: n] / [Or: n] (any n, any stack): what [step_item] does
    with [IGroup g n]; too few entries on the stack are a bad request *)
Theorem group_line_parses opt r g n :
  parse_header opt r (gop_text g ++ s ": " ++ show_Z (Z.of_nat n)) =
  res_of_stack r (step_item (Some (rq_filter r)) (IGroup g n)).
Proof.
  pose proof (trim_left_sp_show_Z (Z.of_nat n)) as Hd.
  destruct g.
  - change (gop_text GAnd ++ s ": " ++ show_Z (Z.of_nat n)) with (s "And" ++ 58 :: 32 :: show_Z (Z.of_nat n)).
    rewrite (and_line opt r _ Hd), group_filters_number.
    destruct (step_item (Some (rq_filter r)) (IGroup GAnd n)); reflexivity.
  - change (gop_text GOr ++ s ": " ++ show_Z (Z.of_nat n)) with (s "Or" ++ 58 :: 32 :: show_Z (Z.of_nat n)).
    rewrite (or_line opt r _ Hd), group_filters_number.
    destruct (step_item (Some (rq_filter r)) (IGroup GOr n)); reflexivity.
Qed.

(** explicit form: with at least [n > 0] entries the last [n] are grouped *)
Corollary group_line_groups opt r g n rest grp :
  (0 < n)%nat -> rq_filter r = rest ++ grp -> length grp = n ->
  parse_header opt r (gop_text g ++ s ": " ++ show_Z (Z.of_nat n)) =
  Ok (set_filter r (rest ++ [FGroup g grp false])).
Proof.
  intros Hn Hst Hlen. rewrite group_line_parses, Hst. cbn [step_item].
  destruct n as [|n]; [lia|]. rewrite <- Hlen, pop_n_app. reflexivity.
Qed.

Theorem negate_line_parses opt r :
  parse_header opt r (s "Negate:") = res_of_stack r (step_item (Some (rq_filter r)) INegate).
Proof.
  rewrite negate_line. unfold negate_top. cbn [step_item].
  destruct (rev (rq_filter r)); reflexivity.
Qed.

(** the lines [render_filt] writes for a group node *)
Corollary rendered_group_line_parses opt r g fs n :
  nth_error (render_filt false (FGroup g fs n)) (length (flat_map (render_filt false) fs)) =
    Some (gop_text g ++ s ": " ++ show_Z (Z.of_nat (length fs))) /\
  parse_header opt r (gop_text g ++ s ": " ++ show_Z (Z.of_nat (length fs))) =
    res_of_stack r (step_item (Some (rq_filter r)) (IGroup g (length fs))).
Proof.
  split; [|apply group_line_parses].
  cbn [render_filt]. rewrite nth_error_app2 by lia. rewrite Nat.sub_diag. reflexivity.
Qed.

(** the group and negate lines survive the line trimming of the header loop *)
Lemma group_line_trim g z :
  trim_space (gop_text g ++ s ": " ++ show_Z z) = gop_text g ++ s ": " ++ show_Z z.
Proof.
  destruct g.
  - exact (trim_space_number_line 65 (s "nd: ") z eq_refl).
  - exact (trim_space_number_line 79 (s "r: ") z eq_refl).
Qed.

Theorem group_line_in_headers opt r g n rest :
  parse_headers opt r ((gop_text g ++ s ": " ++ show_Z (Z.of_nat n)) :: rest) =
  match res_of_stack r (step_item (Some (rq_filter r)) (IGroup g n)) with
  | Ok r' => parse_headers opt r' rest
  | Err e => Err e
  end.
Proof.
  rewrite parse_headers_cons.
  - rewrite group_line_parses. reflexivity.
  - destruct g; discriminate.
  - apply group_line_trim.
Qed.

Theorem negate_line_in_headers opt r rest :
  parse_headers opt r (s "Negate:" :: rest) =
  match res_of_stack r (step_item (Some (rq_filter r)) INegate) with
  | Ok r' => parse_headers opt r' rest
  | Err e => Err e
  end.
Proof.
  rewrite parse_headers_cons.
  - rewrite negate_line_parses. reflexivity.
  - discriminate.
  - reflexivity.
Qed.

(** *** the same on the Stats stack *)
Lemma group_stats_number opt t g n stack : (0 < n)%nat ->
  group_stats opt t g (show_Z (Z.of_nat n)) stack =
  match pop_n n stack with
  | None => Err BadRequest
  | Some (rest, grp) =>
      match all_counters grp with
      | Some fs => Ok (rest ++ [SCounter (FGroup g fs false)])
      | None => Err Unsupported
      end
  end.
Proof.
  intros Hn. unfold group_stats. rewrite parse_int_show_Z.
  destruct (Z.of_nat n) as [|p|p] eqn:Hz; [lia| |lia].
  rewrite <- Hz.
  destruct (Z.ltb_spec (Z.of_nat n) 0) as [Hneg|_]; [lia|].
  rewrite Nat2Z.id. reflexivity.
Qed.

(** [StatsAnd: n] / [StatsOr: n], n > 0, any Stats stack *)
Theorem stats_group_line_parses opt r g n : (0 < n)%nat ->
  parse_header opt r (s "Stats" ++ gop_text g ++ s ": " ++ show_Z (Z.of_nat n)) =
  match pop_n n (rq_stats r) with
  | None => Err BadRequest
  | Some (rest, grp) =>
      match all_counters grp with
      | Some fs => Ok (set_stats r (rest ++ [SCounter (FGroup g fs false)]))
      | None => Err Unsupported
      end
  end.
Proof.
  intros Hn. pose proof (trim_left_sp_show_Z (Z.of_nat n)) as Hd.
  destruct g.
  - change (s "Stats" ++ gop_text GAnd ++ s ": " ++ show_Z (Z.of_nat n))
      with (s "StatsAnd" ++ 58 :: 32 :: show_Z (Z.of_nat n)).
    rewrite (statsand_line opt r _ Hd), (group_stats_number _ _ _ _ _ Hn).
    destruct (pop_n n (rq_stats r)) as [[rest grp]|]; [|reflexivity].
    destruct (all_counters grp); reflexivity.
  - change (s "Stats" ++ gop_text GOr ++ s ": " ++ show_Z (Z.of_nat n))
      with (s "StatsOr" ++ 58 :: 32 :: show_Z (Z.of_nat n)).
    rewrite (statsor_line opt r _ Hd), (group_stats_number _ _ _ _ _ Hn).
    destruct (pop_n n (rq_stats r)) as [[rest grp]|]; [|reflexivity].
    destruct (all_counters grp); reflexivity.
Qed.

Lemma all_counters_map l : all_counters (map SCounter l) = Some l.
Proof. induction l as [|f l IH]; [reflexivity|]. cbn [map all_counters counter_of]. rewrite IH. reflexivity. Qed.

Lemma pop_n_map {A B} (f : A -> B) n l :
  pop_n n (map f l) = match pop_n n l with Some (a, b) => Some (map f a, map f b) | None => None end.
Proof.
  unfold pop_n. rewrite map_length. destruct (Nat.ltb (length l) n); [reflexivity|].
  rewrite firstn_map, skipn_map. reflexivity.
Qed.

Definition res_of_stats_stack (r : request) (st : option (list filt)) : res request :=
  match st with Some st' => Ok (set_stats r (map SCounter st')) | None => Err BadRequest end.

(** on a Stats stack of counters the [StatsAnd:]/[StatsOr:] line is the same
    machine step, on the counters' filters *)
Theorem stats_group_line_machine opt r g n st : (0 < n)%nat ->
  rq_stats r = map SCounter st ->
  parse_header opt r (s "Stats" ++ gop_text g ++ s ": " ++ show_Z (Z.of_nat n)) =
  res_of_stats_stack r (step_item (Some st) (IGroup g n)).
Proof.
  intros Hn Hst. rewrite (stats_group_line_parses opt r g n Hn), Hst, pop_n_map.
  cbn [step_item]. destruct n as [|n]; [lia|].
  destruct (pop_n (S n) st) as [[rest grp]|]; [|reflexivity].
  rewrite all_counters_map. cbn [res_of_stats_stack]. rewrite map_app. reflexivity.
Qed.

Theorem stats_negate_line_machine opt r st :
  rq_stats r = map SCounter st ->
  parse_header opt r (s "StatsNegate:") = res_of_stats_stack r (step_item (Some st) INegate).
Proof.
  intros Hst. rewrite statsnegate_line, Hst. unfold negate_top. cbn [step_item].
  rewrite <- map_rev. destruct (rev st) as [|top rest]; [reflexivity|].
  cbn [map res_of_stats_stack]. rewrite map_rev. reflexivity.
Qed.

(** *** Limit: and Offset: *)
Theorem limit_line_parses opt r z : (0 <= z)%Z ->
  parse_header opt r (s "Limit: " ++ show_Z z) =
  Ok (mkReq (rq_table r) (rq_columns r) (rq_filter r) (rq_stats r) (rq_sort r) (Some z) (rq_offset r)
            (rq_backends r) (rq_format r) (rq_colheaders r) (rq_fixed16 r) (rq_keepalive r)
            (rq_authuser r) (rq_numfilter r)).
Proof.
  intros Hz. change (s "Limit: " ++ show_Z z) with (s "Limit" ++ 58 :: 32 :: show_Z z).
  rewrite (limit_line opt r _ (trim_left_sp_show_Z z)), parse_int_show_Z.
  destruct (Z.ltb_spec z 0) as [Hneg|_]; [lia|reflexivity].
Qed.

Theorem offset_line_parses opt r z : (0 <= z)%Z ->
  parse_header opt r (s "Offset: " ++ show_Z z) =
  Ok (mkReq (rq_table r) (rq_columns r) (rq_filter r) (rq_stats r) (rq_sort r) (rq_limit r) z
            (rq_backends r) (rq_format r) (rq_colheaders r) (rq_fixed16 r) (rq_keepalive r)
            (rq_authuser r) (rq_numfilter r)).
Proof.
  intros Hz. change (s "Offset: " ++ show_Z z) with (s "Offset" ++ 58 :: 32 :: show_Z z).
  rewrite (offset_line opt r _ (trim_left_sp_show_Z z)), parse_int_show_Z.
  destruct (Z.ltb_spec z 0) as [Hneg|_]; [lia|reflexivity].
Qed.

Corollary limit_line_sets_limit opt r z : (0 <= z)%Z ->
  exists r', parse_header opt r (s "Limit: " ++ show_Z z) = Ok r' /\ rq_limit r' = Some z /\
             rq_offset r' = rq_offset r /\ rq_filter r' = rq_filter r /\ rq_stats r' = rq_stats r.
Proof. intros Hz. eexists. split; [apply limit_line_parses, Hz|]. repeat split. Qed.

Corollary offset_line_sets_offset opt r z : (0 <= z)%Z ->
  exists r', parse_header opt r (s "Offset: " ++ show_Z z) = Ok r' /\ rq_offset r' = z /\
             rq_limit r' = rq_limit r /\ rq_filter r' = rq_filter r /\ rq_stats r' = rq_stats r.
Proof. intros Hz. eexists. split; [apply offset_line_parses, Hz|]. repeat split. Qed.

Print Assumptions parse_int_show_Z.
Print Assumptions show_Z_no_space.
Print Assumptions group_line_parses.
Print Assumptions negate_line_parses.
Print Assumptions group_line_in_headers.
Print Assumptions stats_group_line_parses.
Print Assumptions stats_group_line_machine.
Print Assumptions stats_negate_line_machine.
Print Assumptions limit_line_parses.
Print Assumptions offset_line_parses.
