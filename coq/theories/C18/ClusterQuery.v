(** * C18, second half: a query sent to a node of an lmd cluster (model)

    Go: request.go [BuildResponse] / [getDistributedResponse] / [getSubBackends] /
    [buildDistributedLocalRequest] / [buildDistributedRequestData] /
    [mergeDistributedResponse], response.go [Response.PostProcessing] /
    [CalculateFinalStats], filter.go [Filter.ApplyValue].

    Every node holds a part of the configured backends ([parts], in node order;
    a part may be empty).  The node that receives a request

    - answers 502 itself when the output format is json and every listed backend is unknown;
    - asks every node (itself included) that owns at least one requested backend
      ([sub_backends], in the node's backend order; a node without any is skipped)
      for the SAME request restricted to these backends, with Offset 0 and
      Limit := Limit + Offset (no Limit if the client sent none; [Limit: 0] gives Limit := Offset);
      partner nodes are asked in wrapped_json, the local part keeps the client's
      output format ([node_fmt]); the sub request is answered by the ordinary
      single node engine ([data_result], [failed_keys]; for Stats requests the raw
      accumulators [raw_stats] instead of the final numbers - SendStatsData);
    - data request: concatenates the partial row lists in node order, sorts the
      concatenation by the Sort keys of the request, applies Offset and Limit;
      total_count is the sum of the nodes' totals; Stats request: merges the
      accumulators per group key with [Filter.ApplyValue] and finalises like a
      single node; failed = unknown listed ids + the failed maps of the nodes.

    Abstractions (stated, not hidden):
    - a row travels as a [hit]: the output cells plus its sort keys.  The Go code
      appends the sort columns which are not requested to the columns of every sub
      request, sorts the merged rows by these cells ([Response.Less]) and strips
      them again; the model carries the keys next to the row and drops them at the
      end, i.e. it assumes that [Response.Less] on the transported cells is the
      comparison [RawResultSet.Less] = [cmp_keys] of the single node (this is what
      the lmd commits "sort merged results by columns of any type" .. "sort rows
      without referenced object like rows with an empty list" establish; the
      executable comparison C18/Run checks it on generated inputs);
    - the local part is modelled like a partner's sub request except for its output
      format (it additionally carries the unknown listed ids in its failed map,
      which the merge adds anyway);
    - the shortcut of [BuildResponse] (all listed backends belong to the receiving
      node: answered by [NewResponse] directly) is the single node engine on that
      node's part and not modelled separately;
    - group keys are lists of texts (Go: the texts joined by a separator), as in QE/Engine. *)
From LMD Require Export QE.Engine.
Local Open Scope nat_scope.
Local Open Scope list_scope.

(** *** the sub request of one node *)

(** is the backend id requested (no Backends header = all) *)
Definition requested (rq : request) (id : str) : bool :=
  match rq_backends rq with [] => true | ids => mem_str id ids end.

(** getSubBackends: the requested backends of one node, in the node's order *)
Definition sub_backends (node : dataset) (rq : request) : list str :=
  filter (requested rq) (map b_key node).

(** Limit of the sub requests: [req.Limit != nil] -> Limit + Offset, also for [Limit: 0]
    (lmd commit a624722; before it a [Limit: 0] request was sent without limit) *)
Definition node_limit (rq : request) : option Z :=
  match rq_limit rq with
  | Some l => Some (l + rq_offset rq)%Z
  | None => None
  end.

Definition node_request (fmt : ofmt) (subs : list str) (rq : request) : request :=
  mkReq (rq_table rq) (rq_columns rq) (rq_filter rq) (rq_stats rq) (rq_sort rq)
        (node_limit rq) 0%Z subs fmt false (rq_fixed16 rq) (rq_keepalive rq)
        (rq_authuser rq) (rq_numfilter rq).

(** *** what a node sends back *)
Record node_ans := mkNodeAns {
  na_hits : list hit;                    (* rows with their sort keys *)
  na_total : nat;                        (* total_count *)
  na_stats : keyed (list acc);           (* Stats request: (sum, count) per Stats column and group key *)
  na_failed : list str }.                (* keys of the failed map *)

(** the raw statistics of a node: exactly the table [stats_result] finalises
    (Response.MergeStats over the node's backends, the line of zeros of
    CalculateFinalStats for an empty result without group-by Columns) *)
Definition raw_stats (schema : list tschema) (cfg : config) (ds : dataset) (rq : request) : keyed (list acc) :=
  let bks := filter (contributes rq) (selected_backends ds rq) in
  let merged := fold_left (merge_keyed rq) (map (stats_backend schema cfg rq) bks) [] in
  match merged, rq_columns rq with
  | [], [] => [([], map (fun _ => acc0) (rq_stats rq))]
  | _, _ => merged
  end.

Definition finalize_stats (rq : request) (m : keyed (list acc)) : keyed (list statval) :=
  map (fun kv => (fst kv, map2 (fun st a => final_stat (stat_kind st) a) (rq_stats rq) (snd kv))) m.

(** tie to the engine: a single node finalises its own raw table *)
Lemma stats_result_raw schema cfg ds rq :
  stats_result schema cfg ds rq = finalize_stats rq (raw_stats schema cfg ds rq).
Proof. reflexivity. Qed.

Definition node_answer (schema : list tschema) (cfg : config) (fmt : ofmt) (node : dataset) (rq : request) : node_ans :=
  match sub_backends node rq with
  | [] => mkNodeAns [] 0 [] []                             (* no relevant backend: node skipped *)
  | subs =>
      let rq' := node_request fmt subs rq in
      let failed := nodup_str (failed_keys node rq') in
      match rq_stats rq with
      | [] => let '(hits, total) := data_result schema cfg node rq' in mkNodeAns hits total [] failed
      | _ => mkNodeAns [] 0 (raw_stats schema cfg node rq') failed
      end
  end.

(** *** the merge (mergeDistributedResponse) *)

(** Filter.ApplyValue(value, count) of a transported accumulator [b] on [a] *)
Definition apply_acc (k : option aggk) (a b : acc) : acc :=
  match k with
  | None => mkAcc (a_val a + a_cnt b * 1000) (a_cnt a + a_cnt b)
  | Some AgSum | Some AgAvg => mkAcc (a_val a + a_val b) (a_cnt a + a_cnt b)
  | Some AgMin => mkAcc (if Z.ltb 0 (a_cnt b) && (Z.eqb (a_cnt a) 0 || Z.ltb (a_val b) (a_val a))
                         then a_val b else a_val a) (a_cnt a + a_cnt b)
  | Some AgMax => mkAcc (if Z.ltb 0 (a_cnt b) && (Z.eqb (a_cnt a) 0 || Z.ltb (a_val a) (a_val b))
                         then a_val b else a_val a) (a_cnt a + a_cnt b)
  end%Z.

Definition apply_accs (rq : request) (old new : list acc) : list acc :=
  map2 (fun st ab => apply_acc (stat_kind st) (fst ab) (snd ab)) (rq_stats rq) (combine old new).

(** one transported line: create the group with fresh accumulators if it is new, then apply *)
Definition cluster_stats_step (rq : request) (m : keyed (list acc)) (kv : list str * list acc) : keyed (list acc) :=
  upsert (fst kv) (map (fun _ => acc0) (rq_stats rq)) (fun old => apply_accs rq old (snd kv)) m.

Definition cluster_stats_merge (rq : request) (tables : list (keyed (list acc))) : keyed (list acc) :=
  fold_left (fun m t => fold_left (cluster_stats_step rq) t m) tables [].

(** CalculateFinalStats on the receiving node *)
Definition cluster_stats (rq : request) (answers : list node_ans) : keyed (list statval) :=
  let merged := cluster_stats_merge rq (map na_stats answers) in
  let merged := match merged, rq_columns rq with
                | [], [] => [([], map (fun _ => acc0) (rq_stats rq))]
                | _, _ => merged
                end in
  finalize_stats rq merged.

(** rows: concatenate, (Response.PostProcessing) sort, offset, limit; the total is the
    sum of the nodes' totals (the number of merged rows if that is 0) *)
Definition cluster_total (answers : list node_ans) : nat :=
  let sum := fold_right Nat.add 0 (map na_total answers) in
  if Nat.eqb sum 0 then length (concat (map na_hits answers)) else sum.

Definition cluster_data (rq : request) (answers : list node_ans) : list hit * nat :=
  let merged := concat (map na_hits answers) in
  let total := cluster_total answers in
  if Z.ltb (Z.of_nat total) (rq_offset rq) then ([], total)
  else (window rq (sort_hits rq merged), total).

(** failed: BackendErrors of the request (every node knows all configured
    backends) and the failed maps of the sub results *)
Definition cluster_failed (all : dataset) (rq : request) (answers : list node_ans) : list str :=
  nodup_str (filter (fun id => negb (known all id)) (rq_backends rq) ++ concat (map na_failed answers)).

(** *** the cluster *)
Definition cluster_answers (schema : list tschema) (cfg : config) (fps : list (ofmt * dataset)) (rq : request)
  : list node_ans :=
  map (fun fp => node_answer schema cfg (fst fp) (snd fp) rq) fps.

Definition cluster_core (schema : list tschema) (cfg : config) (fps : list (ofmt * dataset)) (rq : request) : response :=
  let all := concat (map snd fps) in
  if (match rq_format rq with FmtJSON => true | FmtWrapped => false end) && all_unknown all rq then RError 502
  else
    let answers := cluster_answers schema cfg fps rq in
    let failed := cluster_failed all rq answers in
    match rq_stats rq with
    | [] => let '(hits, total) := cluster_data rq answers in
            RData (map h_out hits) (map h_keys hits) total failed
    | _ => RStats (cluster_stats rq answers) failed
    end.

(** output format of the sub request for node [i] when node [me] received the request *)
Definition node_fmt (me i : nat) (rq : request) : ofmt :=
  if Nat.eqb i me then rq_format rq else FmtWrapped.

Definition node_fmts (me n : nat) (rq : request) : list ofmt :=
  map (fun i => node_fmt me i rq) (seq 0 n).

(** [parts]: the backends of node 0, 1, ...; [me]: the node the client talks to *)
Definition cluster_respond (schema : list tschema) (cfg : config) (me : nat) (parts : list dataset) (rq : request)
  : response :=
  cluster_core schema cfg (combine (node_fmts me (length parts) rq) parts) rq.
