(** * C18, second half: the merged answer of a cluster equals the answer of one lmd
      holding all backends (proofs about C18/ClusterQuery.v)

    STATUS: see the summary at the end of the file. *)
From LMD Require Import QE.Engine QE.WindowProofs C01.Proofs C04.Proofs C05.Proofs C05.GroupByProofs
                        C18.ClusterQuery.
From Coq Require Import Sorting.Sorted Permutation.
Local Open Scope nat_scope.
Local Open Scope list_scope.

(** ** 1. Lists *)

(** [a] is a sub-multiset of [b]: every element of [a] is a distinct element of [b] *)
Definition subperm {A} (a b : list A) : Prop := exists r, Permutation (a ++ r) b.

Lemma subperm_refl {A} (a : list A) : subperm a a.
Proof. exists []. rewrite app_nil_r. reflexivity. Qed.

Lemma subperm_of_perm {A} (a b : list A) : Permutation a b -> subperm a b.
Proof. intros H. exists []. rewrite app_nil_r. exact H. Qed.

Lemma subperm_nil {A} (a : list A) : subperm [] a.
Proof. exists a. reflexivity. Qed.

Lemma subperm_trans {A} (a b c : list A) : subperm a b -> subperm b c -> subperm a c.
Proof.
  intros [r Hr] [t Ht]. exists (r ++ t). rewrite app_assoc.
  eapply Permutation_trans; [apply Permutation_app_tail; exact Hr|exact Ht].
Qed.

Lemma subperm_app {A} (a b c d : list A) : subperm a b -> subperm c d -> subperm (a ++ c) (b ++ d).
Proof.
  intros [r Hr] [t Ht]. exists (r ++ t).
  eapply Permutation_trans; [|apply Permutation_app; [exact Hr|exact Ht]].
  rewrite <- !app_assoc. apply Permutation_app_head.
  rewrite !app_assoc. apply Permutation_app_tail. apply Permutation_app_comm.
Qed.

Lemma subperm_concat {A} (ls ls' : list (list A)) :
  Forall2 subperm ls ls' -> subperm (concat ls) (concat ls').
Proof.
  induction 1 as [|l l' ls ls' Hl _ IH]; cbn [concat]; [apply subperm_refl|].
  apply subperm_app; assumption.
Qed.

Lemma subperm_firstn {A} n (l : list A) : subperm (firstn n l) l.
Proof. exists (skipn n l). rewrite firstn_skipn. reflexivity. Qed.

Lemma subperm_window {A} (rq : request) (l : list A) : subperm (window rq l) l.
Proof.
  destruct (window_segment rq l) as [pre [post [E _]]].
  exists (pre ++ post). set (w := window rq l) in *. rewrite E.
  apply Permutation_app_swap_app.
Qed.

Lemma subperm_In {A} (a b : list A) x : subperm a b -> In x a -> In x b.
Proof.
  intros [r Hr] Hx. apply (Permutation_in _ Hr). apply in_or_app. left; exact Hx.
Qed.

Lemma subperm_length {A} (a b : list A) : subperm a b -> length a <= length b.
Proof. intros [r Hr]. apply Permutation_length in Hr. rewrite app_length in Hr. lia. Qed.

Lemma subperm_NoDup {A} (a b : list A) : subperm a b -> NoDup b -> NoDup a.
Proof.
  intros [r Hr] Hb. apply Permutation_sym in Hr. apply (Permutation_NoDup Hr) in Hb.
  apply NoDup_app_parts in Hb. tauto.
Qed.

Lemma subperm_cut {A} lim (per : list (list A)) : subperm (concat (map (cut lim) per)) (concat per).
Proof.
  apply subperm_concat. induction per as [|h per IH]; cbn [map]; constructor; [|exact IH].
  destruct lim as [k|]; cbn [cut]; [apply subperm_firstn|apply subperm_refl].
Qed.

Lemma perm_filter {A} (f : A -> bool) (l l' : list A) :
  Permutation l l' -> Permutation (filter f l) (filter f l').
Proof.
  induction 1 as [|x l l' _ IH|x y l|l1 l2 l3 _ IH1 _ IH2]; cbn [filter].
  - constructor.
  - destruct (f x); [constructor|]; exact IH.
  - destruct (f x), (f y); try reflexivity. apply perm_swap.
  - eapply Permutation_trans; eassumption.
Qed.

Lemma perm_concat_map {A B} (g : A -> list B) (l l' : list A) :
  Permutation l l' -> Permutation (concat (map g l)) (concat (map g l')).
Proof. intros H. rewrite <- !flat_map_concat_map. apply Permutation_flat_map. exact H. Qed.

Lemma perm_concat_isort {A} (leb : A -> A -> bool) (bs : list (list A)) :
  Permutation (concat (map (isort leb) bs)) (concat bs).
Proof.
  induction bs as [|b bs IH]; cbn [map concat]; [constructor|].
  apply Permutation_app; [apply isort_perm|exact IH].
Qed.

Lemma filter_none {A} (p : A -> bool) (l : list A) :
  (forall x, In x l -> p x = false) -> filter p l = [].
Proof.
  induction l as [|x l IH]; intros H; cbn [filter]; [reflexivity|].
  rewrite (H x (or_introl eq_refl)). apply IH. intros y Hy. apply H. right; exact Hy.
Qed.

Lemma Forall2_concat {A B} (R : A -> B -> Prop) ls ls' :
  Forall2 (Forall2 R) ls ls' -> Forall2 R (concat ls) (concat ls').
Proof.
  induction 1 as [|l l' ls ls' Hl _ IH]; cbn [concat]; [constructor|].
  apply Forall2_app; assumption.
Qed.

Lemma Forall2_window {A} (R : A -> A -> Prop) (rq : request) s s' :
  Forall2 R s s' -> Forall2 R (window rq s) (window rq s').
Proof.
  intros H. unfold window. destruct (rq_limit rq).
  - apply Forall2_firstn, Forall2_skipn, H.
  - apply Forall2_skipn, H.
Qed.

Lemma Forall2_map_same {A B C} (R : B -> C -> Prop) (f : A -> B) (g : A -> C) (l : list A) :
  (forall x, In x l -> R (f x) (g x)) -> Forall2 R (map f l) (map g l).
Proof.
  induction l as [|x l IH]; intros H; cbn [map]; constructor.
  - apply H. left; reflexivity.
  - apply IH. intros y Hy. apply H. right; exact Hy.
Qed.

Lemma sum_map_ext_in {A} (f g : A -> nat) (l : list A) :
  (forall x, In x l -> f x = g x) ->
  fold_right Nat.add 0 (map f l) = fold_right Nat.add 0 (map g l).
Proof. intros H. rewrite (map_ext_in f g l H). reflexivity. Qed.

Lemma in_nodup_str x l : In x (nodup_str l) <-> In x l.
Proof.
  induction l as [|y l IH]; cbn [nodup_str]; [tauto|].
  destruct (mem_str y l) eqn:E.
  - rewrite IH. cbn [In]. split; [tauto|]. intros [<-|H]; [apply mem_str_In; exact E|exact H].
  - cbn [In]. rewrite IH. tauto.
Qed.

(** ** 2. Sorting position by position equivalent inputs; top-k of top-k's *)
Section ClusterSort.
  Context {A : Type} (leb : A -> A -> bool).
  Hypothesis leb_total : forall a b, leb a b = true \/ leb b a = true.
  Hypothesis leb_trans : forall a b c, leb a b = true -> leb b c = true -> leb a c = true.

  Lemma insert_eqv2 x x' s s' :
    eqv leb x x' -> eqv_list leb s s' -> eqv_list leb (insert leb x s) (insert leb x' s').
  Proof.
    intros Hx H. unfold eqv_list in *.
    induction H as [|y y' s s' Hy Hs IH]; cbn [insert].
    - constructor; [exact Hx|constructor].
    - rewrite (leb_eqv_l leb leb_trans x x' y Hx), (leb_eqv_r leb leb_trans x' y y' Hy).
      destruct (leb x' y').
      + constructor; [exact Hx|]. constructor; assumption.
      + constructor; assumption.
  Qed.

  Lemma isort_eqv_pointwise l l' :
    eqv_list leb l l' -> eqv_list leb (isort leb l) (isort leb l').
  Proof.
    unfold eqv_list. induction 1 as [|x x' l l' Hx Hl IH]; [constructor|].
    rewrite !isort_cons. apply insert_eqv2; assumption.
  Qed.

  (** every node sends (up to ties) the first [K] rows of its sorted rows: the
      first [K] rows of the sorted concatenation of the partial results are (up
      to ties) the first [K] rows of all rows sorted *)
  Theorem cluster_topk (K : nat) (bs hs : list (list A)) :
    Forall2 (fun h b => eqv_list leb h (firstn K (isort leb b))) hs bs ->
    eqv_list leb (firstn K (isort leb (concat hs))) (firstn K (isort leb (concat bs))).
  Proof.
    intros H.
    assert (eqv_list leb (concat hs) (concat (map (firstn K) (map (isort leb) bs)))) as H1.
    { apply Forall2_concat. induction H; cbn [map]; constructor; assumption. }
    eapply (eqv_list_trans leb leb_trans).
    { apply Forall2_firstn. apply isort_eqv_pointwise. exact H1. }
    eapply (eqv_list_trans leb leb_trans).
    { apply (topk_cut leb leb_total leb_trans).
      rewrite Forall_forall. intros b Hb. apply in_map_iff in Hb as [b0 [<- _]].
      apply (isort_sorted leb leb_total leb_trans). }
    apply Forall2_firstn. apply (isort_perm_eqv leb leb_total leb_trans).
    apply perm_concat_isort.
  Qed.
End ClusterSort.

(** ** 3. The sub request of a node *)

(** the sub request changes Limit, Offset, Backends and the output format only;
    everything the engine computes from the other fields is the same (by computation) *)
Lemma hits_of_node schema cfg fmt subs rq bk :
  hits_of schema cfg (node_request fmt subs rq) bk = hits_of schema cfg rq bk.
Proof. reflexivity. Qed.

Lemma sort_hits_node fmt subs rq l : sort_hits (node_request fmt subs rq) l = sort_hits rq l.
Proof. reflexivity. Qed.

Lemma hleb_node fmt subs rq : hleb (node_request fmt subs rq) = hleb rq.
Proof. reflexivity. Qed.

Lemma contributes_node fmt subs rq : contributes (node_request fmt subs rq) = contributes rq.
Proof. reflexivity. Qed.

Lemma default_sort_order_node fmt subs rq :
  default_sort_order (node_request fmt subs rq) = default_sort_order rq.
Proof. reflexivity. Qed.

Lemma stats_backend_node schema cfg fmt subs rq bk :
  stats_backend schema cfg (node_request fmt subs rq) bk = stats_backend schema cfg rq bk.
Proof. reflexivity. Qed.

Lemma merge_keyed_node fmt subs rq : merge_keyed (node_request fmt subs rq) = merge_keyed rq.
Proof. reflexivity. Qed.

Lemma hit_wf_node fmt subs rq h : hit_wf (node_request fmt subs rq) h <-> hit_wf rq h.
Proof. reflexivity. Qed.

Lemma window_node fmt subs rq {A} (l : list A) :
  window (node_request fmt subs rq) l =
  match node_limit rq with Some m => firstn (Z.to_nat m) l | None => l end.
Proof. reflexivity. Qed.

Lemma selected_backends_filter ds rq :
  selected_backends ds rq = filter (fun b => requested rq (b_key b)) ds.
Proof.
  unfold selected_backends, requested. destruct (rq_backends rq); [|reflexivity].
  symmetry. apply filter_all_true. reflexivity.
Qed.

Lemma sub_backends_In node rq b :
  In b node -> requested rq (b_key b) = true -> In (b_key b) (sub_backends node rq).
Proof.
  intros Hb Hr. unfold sub_backends. apply filter_In. split; [apply in_map; exact Hb|exact Hr].
Qed.

Lemma selected_skipped node rq : sub_backends node rq = [] -> selected_backends node rq = [].
Proof.
  intros E. rewrite selected_backends_filter. apply filter_none. intros b Hb.
  destruct (requested rq (b_key b)) eqn:Hr; [|reflexivity].
  pose proof (sub_backends_In node rq b Hb Hr) as H. rewrite E in H. destruct H.
Qed.

Lemma selected_node fmt node rq :
  sub_backends node rq <> [] ->
  selected_backends node (node_request fmt (sub_backends node rq) rq) = selected_backends node rq.
Proof.
  intros Hne. unfold selected_backends at 1. cbn [rq_backends node_request].
  destruct (sub_backends node rq) as [|id ids] eqn:E; [congruence|]. rewrite <- E.
  rewrite selected_backends_filter. apply List.filter_ext_in. intros b Hb.
  destruct (requested rq (b_key b)) eqn:Hr.
  - apply mem_str_In. apply sub_backends_In; assumption.
  - destruct (mem_str (b_key b) (sub_backends node rq)) eqn:M; [|reflexivity].
    apply mem_str_In in M. unfold sub_backends in M. apply filter_In in M as [_ M]. congruence.
Qed.

Definition nreq (fmt : ofmt) (node : dataset) (rq : request) : request :=
  node_request fmt (sub_backends node rq) rq.

Lemma bks_of_node fmt node rq :
  sub_backends node rq <> [] -> bks_of node (nreq fmt node rq) = bks_of node rq.
Proof.
  intros Hne. unfold bks_of, nreq. rewrite (selected_node fmt node rq Hne). reflexivity.
Qed.

Lemma per_of_node schema cfg fmt node rq :
  sub_backends node rq <> [] -> per_of schema cfg node (nreq fmt node rq) = per_of schema cfg node rq.
Proof.
  intros Hne. unfold per_of. rewrite (bks_of_node fmt node rq Hne). reflexivity.
Qed.

Lemma per_of_skipped schema cfg node rq : sub_backends node rq = [] -> per_of schema cfg node rq = [].
Proof.
  intros E. unfold per_of, bks_of. rewrite (selected_skipped node rq E). reflexivity.
Qed.

(** *** the datasets of the nodes against the whole dataset *)
Lemma bks_of_app a b rq : bks_of (a ++ b) rq = bks_of a rq ++ bks_of b rq.
Proof. unfold bks_of. rewrite !selected_backends_filter, !filter_app. reflexivity. Qed.

Lemma bks_of_perm ds ds' rq : Permutation ds ds' -> Permutation (bks_of ds rq) (bks_of ds' rq).
Proof.
  intros H. unfold bks_of. rewrite !selected_backends_filter. apply perm_filter, perm_filter, H.
Qed.

Lemma spec_hits_app schema cfg a b rq :
  spec_hits schema cfg (a ++ b) rq = spec_hits schema cfg a rq ++ spec_hits schema cfg b rq.
Proof.
  unfold spec_hits. fold (bks_of (a ++ b) rq) (bks_of a rq) (bks_of b rq).
  rewrite bks_of_app, map_app, concat_app. reflexivity.
Qed.

Lemma spec_hits_concat schema cfg (nodes : list dataset) rq :
  spec_hits schema cfg (concat nodes) rq = concat (map (fun node => spec_hits schema cfg node rq) nodes).
Proof.
  induction nodes as [|n nodes IH]; cbn [concat map].
  - unfold spec_hits. rewrite selected_backends_filter. reflexivity.
  - rewrite spec_hits_app, IH. reflexivity.
Qed.

Lemma spec_hits_perm schema cfg ds ds' rq :
  Permutation ds ds' -> Permutation (spec_hits schema cfg ds rq) (spec_hits schema cfg ds' rq).
Proof.
  intros H. unfold spec_hits. fold (bks_of ds rq) (bks_of ds' rq).
  apply perm_concat_map. apply bks_of_perm. exact H.
Qed.

Lemma spec_hits_per schema cfg ds rq : spec_hits schema cfg ds rq = concat (per_of schema cfg ds rq).
Proof. reflexivity. Qed.

Lemma spec_hits_wf schema cfg ds rq : Forall (hit_wf rq) (spec_hits schema cfg ds rq).
Proof. rewrite spec_hits_per. apply Forall_concat_all, per_of_wf. Qed.

(** ** 4. What a node answers to a data request *)
Lemma sort_hits_nil_list rq : sort_hits rq [] = [].
Proof. unfold sort_hits. destruct (rq_sort rq); reflexivity. Qed.

Lemma window_nil_list {A} rq : window rq (@nil A) = [].
Proof. unfold window. rewrite skipn_nil. destruct (rq_limit rq); [apply firstn_nil|reflexivity]. Qed.

Lemma node_answer_data schema cfg fmt node rq :
  rq_stats rq = [] ->
  na_hits (node_answer schema cfg fmt node rq) =
    window (nreq fmt node rq)
           (sort_hits rq (concat (map (cut (backend_limit (nreq fmt node rq))) (per_of schema cfg node rq)))) /\
  na_total (node_answer schema cfg fmt node rq) = impl_total (nreq fmt node rq) (per_of schema cfg node rq).
Proof.
  intros Hs. unfold node_answer.
  destruct (sub_backends node rq) as [|id ids] eqn:E.
  - rewrite (per_of_skipped schema cfg node rq E). cbn [na_hits na_total map concat].
    rewrite sort_hits_nil_list, window_nil_list. split; reflexivity.
  - rewrite <- E. fold (nreq fmt node rq). rewrite Hs.
    assert (sub_backends node rq <> []) as Hne by (rewrite E; discriminate).
    pose proof (data_result_unfold schema cfg node (nreq fmt node rq)) as U.
    destruct (data_result schema cfg node (nreq fmt node rq)) as [hits total].
    cbn [na_hits na_total].
    change (rq_offset (nreq fmt node rq)) with 0%Z in U.
    destruct (Z.ltb_spec (Z.of_nat (impl_total (nreq fmt node rq) (per_of schema cfg node (nreq fmt node rq)))) 0)
      as [Hlt|_]; [lia|].
    rewrite (per_of_node schema cfg fmt node rq Hne) in U.
    inversion U; subst. split; reflexivity.
Qed.

(** a node never reports fewer matches than rows *)
Lemma cut_total_le rq lim (per : list (list hit)) :
  length (concat (map (cut lim) per)) <=
  fold_right Nat.add 0 (map (fun h => backend_total rq lim (length h)) per).
Proof.
  induction per as [|h per IH]; cbn [map concat fold_right]; [cbn [length]; lia|].
  rewrite app_length.
  assert (length (cut lim h) <= backend_total rq lim (length h)) as Hh.
  { unfold cut, backend_total. destruct lim as [k|]; [|lia].
    rewrite firstn_length. destruct (rq_format rq); lia. }
  lia.
Qed.

Lemma node_answer_length_le_total schema cfg fmt node rq :
  rq_stats rq = [] ->
  length (na_hits (node_answer schema cfg fmt node rq)) <= na_total (node_answer schema cfg fmt node rq).
Proof.
  intros Hs. destruct (node_answer_data schema cfg fmt node rq Hs) as [-> ->].
  eapply Nat.le_trans; [apply subperm_length, subperm_window|].
  rewrite sort_hits_length. unfold impl_total. apply cut_total_le.
Qed.

(** *** the order of a request made total and transitive (ill-shaped keys, which the
    engine never produces, are put last) *)
Definition Lr (rq : request) : hit -> hit -> bool := rleb (hleb rq) (hit_wfb rq).

Lemma Lr_total rq a b : Lr rq a b = true \/ Lr rq b a = true.
Proof. apply rleb_total, hleb_total. Qed.

Lemma Lr_trans rq a b c : Lr rq a b = true -> Lr rq b c = true -> Lr rq a c = true.
Proof. apply rleb_trans, hleb_trans_on. Qed.

Lemma eqv_list_Lr rq l l' :
  Forall (hit_wf rq) l -> Forall (hit_wf rq) l' ->
  (eqv_list (Lr rq) l l' <-> eqv_list (hleb rq) l l').
Proof.
  intros Hl Hl'. apply hit_wf_allp in Hl, Hl'. unfold allp in *. unfold eqv_list.
  split; apply Forall2_impl_in with (P := fun a => hit_wfb rq a = true); try assumption;
    intros a b Ha Hb; unfold eqv, eqvb, Lr; rewrite !rleb_on by assumption; auto.
Qed.

Lemma sort_hits_Lr rq l :
  rq_sort rq <> [] -> Forall (hit_wf rq) l -> sort_hits rq l = isort (Lr rq) l.
Proof.
  intros E Hl. rewrite (sort_hits_cons rq l E). symmetry. apply isort_rleb, hit_wf_allp, Hl.
Qed.

Lemma wf_subperm rq (a b : list hit) : subperm a b -> Forall (hit_wf rq) b -> Forall (hit_wf rq) a.
Proof.
  intros Hs Hb. rewrite Forall_forall in *. intros x Hx. apply Hb. eapply subperm_In; eassumption.
Qed.

Lemma wf_perm rq (a b : list hit) : Permutation a b -> Forall (hit_wf rq) b -> Forall (hit_wf rq) a.
Proof. intros H. apply wf_subperm, subperm_of_perm, H. Qed.

Lemma unsorted_keys rq h : rq_sort rq = [] -> hit_wf rq h -> h_keys h = [].
Proof.
  unfold hit_wf, shape_of. intros -> H. cbn [map] in H. destruct (h_keys h); [reflexivity|discriminate].
Qed.

Lemma unsorted_keys_same rq (a b : list hit) :
  rq_sort rq = [] -> Forall (hit_wf rq) a -> Forall (hit_wf rq) b -> length a = length b ->
  map h_keys a = map h_keys b.
Proof.
  intros E. revert b. induction a as [|x a IH]; intros [|y b] Ha Hb Hlen; try discriminate; [reflexivity|].
  cbn [map]. rewrite (unsorted_keys rq x E (Forall_inv Ha)), (unsorted_keys rq y E (Forall_inv Hb)).
  f_equal. apply IH; [exact (Forall_inv_tail Ha)|exact (Forall_inv_tail Hb)|]. cbn [length] in Hlen. lia.
Qed.

(** *** one node: its rows are a sub-multiset of its matching rows, and (up to ties)
    the window of the sub request over the node's sorted matching rows *)
Lemma node_hits_subperm schema cfg fmt node rq :
  rq_stats rq = [] ->
  subperm (na_hits (node_answer schema cfg fmt node rq)) (spec_hits schema cfg node rq).
Proof.
  intros Hs. destruct (node_answer_data schema cfg fmt node rq Hs) as [-> _].
  eapply subperm_trans; [apply subperm_window|].
  eapply subperm_trans; [apply subperm_of_perm, sort_hits_perm|].
  rewrite spec_hits_per. apply subperm_cut.
Qed.

Lemma backends_sorted_node schema cfg fmt node rq :
  backends_sorted schema cfg node rq ->
  Forall (StronglySorted (lebP (hleb (nreq fmt node rq)))) (per_of schema cfg node rq).
Proof. intros H. apply (per_of_sorted schema cfg node rq H). Qed.

Lemma node_hits_window schema cfg fmt node rq :
  rq_stats rq = [] ->
  (backend_limit (nreq fmt node rq) <> None -> backends_sorted schema cfg node rq) ->
  eqv_list (hleb rq) (na_hits (node_answer schema cfg fmt node rq))
           (window (nreq fmt node rq) (sort_hits rq (spec_hits schema cfg node rq))) /\
  (rq_sort rq = [] ->
   na_hits (node_answer schema cfg fmt node rq) = window (nreq fmt node rq) (spec_hits schema cfg node rq)).
Proof.
  intros Hs Hsorted. destruct (node_answer_data schema cfg fmt node rq Hs) as [-> _].
  rewrite spec_hits_per.
  destruct (backend_limit (nreq fmt node rq)) as [k|] eqn:B.
  - split.
    + apply (cut_window_eqv (nreq fmt node rq) k (per_of schema cfg node rq) B).
      * cbn. lia.
      * apply (per_of_wf schema cfg node rq).
      * apply backends_sorted_node, Hsorted. discriminate.
    + intros E. rewrite <- (sort_hits_nil rq (concat (per_of schema cfg node rq)) E).
      apply (cut_window_unsorted_exact (nreq fmt node rq) k (per_of schema cfg node rq) B).
      * cbn. lia.
      * exact E.
  - rewrite map_cut_none. split.
    + apply Forall2_refl_on. intros x. apply eqv_refl, hleb_total.
    + intros E. rewrite (sort_hits_nil rq _ E). reflexivity.
Qed.

(** the reported total of a node is the number of its matching rows, or it is
    larger than the cut-off of the sub request *)
Lemma impl_total_cases rq0 (per : list (list hit)) :
  impl_total rq0 per = length (concat per) \/
  exists k, backend_limit rq0 = Some k /\ k < impl_total rq0 per.
Proof.
  destruct (backend_limit rq0) as [k|] eqn:B; [|left; apply impl_total_full; left; exact B].
  destruct (rq_format rq0) eqn:F; [|left; apply impl_total_full; right; exact F].
  unfold impl_total. rewrite B.
  assert (map (fun h => backend_total rq0 (Some k) (length h)) per =
          map (fun n => Nat.min n (S k)) (map (@length hit) per)) as E.
  { rewrite map_map. apply map_ext. intros h. unfold backend_total. rewrite F. reflexivity. }
  rewrite E.
  destruct (Nat.le_gt_cases (fold_right Nat.add 0 (map (fun n => Nat.min n (S k)) (map (@length hit) per))) k)
    as [Hle|Hgt].
  - left. rewrite (sum_min_small k _ Hle). rewrite length_concat_sum. reflexivity.
  - right. exists k. split; [reflexivity|exact Hgt].
Qed.

Lemma node_limit_some rq m :
  node_limit rq = Some m -> exists l, rq_limit rq = Some l /\ l <> 0%Z /\ m = (l + rq_offset rq)%Z.
Proof.
  unfold node_limit. destruct (rq_limit rq) as [l|]; [|discriminate].
  destruct (Z.eqb_spec l 0); [discriminate|]. intros [= <-]. exists l. repeat split; auto.
Qed.

Lemma node_backend_limit fmt node rq k :
  backend_limit (nreq fmt node rq) = Some k ->
  exists l, rq_limit rq = Some l /\ l <> 0%Z /\ default_sort_order rq = true /\
            (0 < l + rq_offset rq)%Z /\ k = Z.to_nat (l + rq_offset rq).
Proof.
  intros B. destruct (backend_limit_some _ _ B) as [m [Hm [Hd [Hpos Hk]]]].
  change (rq_limit (nreq fmt node rq)) with (node_limit rq) in Hm.
  change (rq_offset (nreq fmt node rq)) with 0%Z in Hpos, Hk.
  destruct (node_limit_some rq m Hm) as [l [Hl [Hl0 ->]]].
  exists l. repeat split; auto; [lia|]. f_equal. lia.
Qed.

Lemma node_total_cases schema cfg fmt node rq :
  rq_stats rq = [] -> (0 <= rq_offset rq)%Z ->
  (forall l, rq_limit rq = Some l -> (0 < l)%Z) ->
  na_total (node_answer schema cfg fmt node rq) = length (spec_hits schema cfg node rq) \/
  Z.to_nat (rq_offset rq) < na_total (node_answer schema cfg fmt node rq).
Proof.
  intros Hs Hoff Hlim. destruct (node_answer_data schema cfg fmt node rq Hs) as [_ ->].
  rewrite spec_hits_per.
  destruct (impl_total_cases (nreq fmt node rq) (per_of schema cfg node rq)) as [H|[k [B Hk]]];
    [left; exact H|right].
  destruct (node_backend_limit fmt node rq k B) as [l [Hl [_ [_ [_ ->]]]]].
  specialize (Hlim l Hl). lia.
Qed.

Lemma node_total_exact schema cfg fmt node rq :
  rq_stats rq = [] -> (fmt = FmtWrapped \/ backend_limit rq = None) -> (0 <= rq_offset rq)%Z ->
  na_total (node_answer schema cfg fmt node rq) = length (spec_hits schema cfg node rq).
Proof.
  intros Hs H Hoff. destruct (node_answer_data schema cfg fmt node rq Hs) as [_ ->].
  rewrite spec_hits_per. apply impl_total_full. destruct H as [->|Hn]; [right; reflexivity|left].
  destruct (backend_limit (nreq fmt node rq)) as [k|] eqn:B; [|reflexivity]. exfalso.
  destruct (node_backend_limit fmt node rq k B) as [l [Hl [Hl0 [Hd [Hpos _]]]]].
  unfold backend_limit in Hn. rewrite Hl, Hd in Hn. cbv zeta in Hn.
  destruct (Z.leb_spec (l + rq_offset rq) 0); [lia|discriminate].
Qed.
