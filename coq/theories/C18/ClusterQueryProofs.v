(** * C18, second half: the merged answer of a cluster equals the answer of one lmd
      holding all backends (proofs about C18/ClusterQuery.v)

    STATUS: every statement of this file is proved for ALL schemas, configurations,
    requests and partitions; there are no [_partial] and no [_refuted] theorems.
    The property level statements [C18_cluster_*] and [Print Assumptions] (all
    "Closed under the global context") are at the end of the file.

    1. lists        [subperm] (sub-multiset), permutation lemmas
    2. sorting      [isort_eqv_pointwise], [cluster_topk] (top-k of the nodes' top-k's)
    3./4. one node  the sub request changes Limit/Offset/Backends/format only
                    ([hits_of_node] .. by computation, [selected_node]); [node_answer_data],
                    [node_hits_window] (C06 applied to the node), [node_total_cases]
    5./6. data      [cluster_window_sorted], [cluster_window_unsorted], [cluster_early];
                    [cluster_data_vs_spec], [cluster_data_vs_single], [cluster_data_subperm],
                    [cluster_data_total], [cluster_data_unsorted_exact], [cluster_data_plain_perm]
    7. failed       [cluster_failed_spec], [all_unknown_perm]
    8. stats        [apply_acc_merge] (Filter.ApplyValue = merge of the engine on engine
                    accumulators), [acc_rows_perm], [cluster_merge_table],
                    [cluster_stats_exact], [stats_result_perm], [cluster_stats_vs_single]
    9.-11.          responses: [answers_like], [cluster_core_answers_like], [cluster_example],
                    the theorems about [cluster_respond] *)
From LMD Require Import QE.Engine QE.WindowProofs C01.Proofs C04.Proofs C05.Proofs C05.GroupByProofs
                        C18.ClusterQuery.
From Coq Require Import Sorting.Sorted Permutation.
Local Open Scope nat_scope.
Local Open Scope list_scope.

(** ** 1. Lists *)

(** [a] is a sub-multiset of [b]: every element of [a] is a distinct element of [b] *)
Definition subperm {A} (a b : list A) : Prop := exists r, Permutation (a ++ r) b.

Lemma subperm_refl {A} (a : list A) : subperm a a.
Proof. exists []. rewrite app_nil_r. reflexivity. Qed.

Lemma subperm_of_perm {A} (a b : list A) : Permutation a b -> subperm a b.
Proof. intros H. exists []. rewrite app_nil_r. exact H. Qed.

Lemma subperm_nil {A} (a : list A) : subperm [] a.
Proof. exists a. reflexivity. Qed.

Lemma subperm_trans {A} (a b c : list A) : subperm a b -> subperm b c -> subperm a c.
Proof.
  intros [r Hr] [t Ht]. exists (r ++ t). rewrite app_assoc.
  eapply Permutation_trans; [apply Permutation_app_tail; exact Hr|exact Ht].
Qed.

Lemma subperm_app {A} (a b c d : list A) : subperm a b -> subperm c d -> subperm (a ++ c) (b ++ d).
Proof.
  intros [r Hr] [t Ht]. exists (r ++ t).
  eapply Permutation_trans; [|apply Permutation_app; [exact Hr|exact Ht]].
  rewrite <- !app_assoc. apply Permutation_app_head.
  rewrite !app_assoc. apply Permutation_app_tail. apply Permutation_app_comm.
Qed.

Lemma subperm_concat {A} (ls ls' : list (list A)) :
  Forall2 subperm ls ls' -> subperm (concat ls) (concat ls').
Proof.
  induction 1 as [|l l' ls ls' Hl _ IH]; cbn [concat]; [apply subperm_refl|].
  apply subperm_app; assumption.
Qed.

Lemma subperm_firstn {A} n (l : list A) : subperm (firstn n l) l.
Proof. exists (skipn n l). rewrite firstn_skipn. reflexivity. Qed.

Lemma subperm_window {A} (rq : request) (l : list A) : subperm (window rq l) l.
Proof.
  destruct (window_segment rq l) as [pre [post [E _]]].
  exists (pre ++ post). set (w := window rq l) in *. rewrite E.
  apply Permutation_app_swap_app.
Qed.

Lemma subperm_In {A} (a b : list A) x : subperm a b -> In x a -> In x b.
Proof.
  intros [r Hr] Hx. apply (Permutation_in _ Hr). apply in_or_app. left; exact Hx.
Qed.

Lemma subperm_length {A} (a b : list A) : subperm a b -> length a <= length b.
Proof. intros [r Hr]. apply Permutation_length in Hr. rewrite app_length in Hr. lia. Qed.

Lemma subperm_NoDup {A} (a b : list A) : subperm a b -> NoDup b -> NoDup a.
Proof.
  intros [r Hr] Hb. apply Permutation_sym in Hr. apply (Permutation_NoDup Hr) in Hb.
  apply NoDup_app_parts in Hb. tauto.
Qed.

Lemma subperm_cut {A} lim (per : list (list A)) : subperm (concat (map (cut lim) per)) (concat per).
Proof.
  apply subperm_concat. induction per as [|h per IH]; cbn [map]; constructor; [|exact IH].
  destruct lim as [k|]; cbn [cut]; [apply subperm_firstn|apply subperm_refl].
Qed.

Lemma perm_filter {A} (f : A -> bool) (l l' : list A) :
  Permutation l l' -> Permutation (filter f l) (filter f l').
Proof.
  induction 1 as [|x l l' _ IH|x y l|l1 l2 l3 _ IH1 _ IH2]; cbn [filter].
  - constructor.
  - destruct (f x); [constructor|]; exact IH.
  - destruct (f x), (f y); try reflexivity. apply perm_swap.
  - eapply Permutation_trans; eassumption.
Qed.

Lemma perm_concat_map {A B} (g : A -> list B) (l l' : list A) :
  Permutation l l' -> Permutation (concat (map g l)) (concat (map g l')).
Proof. intros H. rewrite <- !flat_map_concat_map. apply Permutation_flat_map. exact H. Qed.

Lemma perm_concat_isort {A} (leb : A -> A -> bool) (bs : list (list A)) :
  Permutation (concat (map (isort leb) bs)) (concat bs).
Proof.
  induction bs as [|b bs IH]; cbn [map concat]; [constructor|].
  apply Permutation_app; [apply isort_perm|exact IH].
Qed.

Lemma filter_none {A} (p : A -> bool) (l : list A) :
  (forall x, In x l -> p x = false) -> filter p l = [].
Proof.
  induction l as [|x l IH]; intros H; cbn [filter]; [reflexivity|].
  rewrite (H x (or_introl eq_refl)). apply IH. intros y Hy. apply H. right; exact Hy.
Qed.

Lemma Forall2_concat {A B} (R : A -> B -> Prop) ls ls' :
  Forall2 (Forall2 R) ls ls' -> Forall2 R (concat ls) (concat ls').
Proof.
  induction 1 as [|l l' ls ls' Hl _ IH]; cbn [concat]; [constructor|].
  apply Forall2_app; assumption.
Qed.

Lemma Forall2_window {A} (R : A -> A -> Prop) (rq : request) s s' :
  Forall2 R s s' -> Forall2 R (window rq s) (window rq s').
Proof.
  intros H. unfold window. destruct (rq_limit rq).
  - apply Forall2_firstn, Forall2_skipn, H.
  - apply Forall2_skipn, H.
Qed.

Lemma Forall2_map_same {A B C} (R : B -> C -> Prop) (f : A -> B) (g : A -> C) (l : list A) :
  (forall x, In x l -> R (f x) (g x)) -> Forall2 R (map f l) (map g l).
Proof.
  induction l as [|x l IH]; intros H; cbn [map]; constructor.
  - apply H. left; reflexivity.
  - apply IH. intros y Hy. apply H. right; exact Hy.
Qed.

Lemma sum_map_ext_in {A} (f g : A -> nat) (l : list A) :
  (forall x, In x l -> f x = g x) ->
  fold_right Nat.add 0 (map f l) = fold_right Nat.add 0 (map g l).
Proof. intros H. rewrite (map_ext_in f g l H). reflexivity. Qed.

Lemma in_nodup_str x l : In x (nodup_str l) <-> In x l.
Proof.
  induction l as [|y l IH]; cbn [nodup_str]; [tauto|].
  destruct (mem_str y l) eqn:E.
  - rewrite IH. cbn [In]. split; [tauto|]. intros [<-|H]; [apply mem_str_In; exact E|exact H].
  - cbn [In]. rewrite IH. tauto.
Qed.

(** ** 2. Sorting position by position equivalent inputs; top-k of top-k's *)
Section ClusterSort.
  Context {A : Type} (leb : A -> A -> bool).
  Hypothesis leb_total : forall a b, leb a b = true \/ leb b a = true.
  Hypothesis leb_trans : forall a b c, leb a b = true -> leb b c = true -> leb a c = true.

  Lemma insert_eqv2 x x' s s' :
    eqv leb x x' -> eqv_list leb s s' -> eqv_list leb (insert leb x s) (insert leb x' s').
  Proof.
    intros Hx H. unfold eqv_list in *.
    induction H as [|y y' s s' Hy Hs IH]; cbn [insert].
    - constructor; [exact Hx|constructor].
    - rewrite (leb_eqv_l leb leb_trans x x' y Hx), (leb_eqv_r leb leb_trans x' y y' Hy).
      destruct (leb x' y').
      + constructor; [exact Hx|]. constructor; assumption.
      + constructor; assumption.
  Qed.

  Lemma isort_eqv_pointwise l l' :
    eqv_list leb l l' -> eqv_list leb (isort leb l) (isort leb l').
  Proof.
    unfold eqv_list. induction 1 as [|x x' l l' Hx Hl IH]; [constructor|].
    rewrite !isort_cons. apply insert_eqv2; assumption.
  Qed.

  (** every node sends (up to ties) the first [K] rows of its sorted rows: the
      first [K] rows of the sorted concatenation of the partial results are (up
      to ties) the first [K] rows of all rows sorted *)
  Theorem cluster_topk (K : nat) (bs hs : list (list A)) :
    Forall2 (fun h b => eqv_list leb h (firstn K (isort leb b))) hs bs ->
    eqv_list leb (firstn K (isort leb (concat hs))) (firstn K (isort leb (concat bs))).
  Proof.
    intros H.
    assert (eqv_list leb (concat hs) (concat (map (firstn K) (map (isort leb) bs)))) as H1.
    { apply Forall2_concat. induction H; cbn [map]; constructor; assumption. }
    eapply (eqv_list_trans leb leb_trans).
    { apply Forall2_firstn. apply isort_eqv_pointwise. exact H1. }
    eapply (eqv_list_trans leb leb_trans).
    { apply (topk_cut leb leb_total leb_trans).
      rewrite Forall_forall. intros b Hb. apply in_map_iff in Hb as [b0 [<- _]].
      apply (isort_sorted leb leb_total leb_trans). }
    apply Forall2_firstn. apply (isort_perm_eqv leb leb_total leb_trans).
    apply perm_concat_isort.
  Qed.
End ClusterSort.

(** ** 3. The sub request of a node *)

(** the sub request changes Limit, Offset, Backends and the output format only;
    everything the engine computes from the other fields is the same (by computation) *)
Lemma hits_of_node schema cfg fmt subs rq bk :
  hits_of schema cfg (node_request fmt subs rq) bk = hits_of schema cfg rq bk.
Proof. reflexivity. Qed.

Lemma sort_hits_node fmt subs rq l : sort_hits (node_request fmt subs rq) l = sort_hits rq l.
Proof. reflexivity. Qed.

Lemma hleb_node fmt subs rq : hleb (node_request fmt subs rq) = hleb rq.
Proof. reflexivity. Qed.

Lemma contributes_node fmt subs rq : contributes (node_request fmt subs rq) = contributes rq.
Proof. reflexivity. Qed.

Lemma default_sort_order_node fmt subs rq :
  default_sort_order (node_request fmt subs rq) = default_sort_order rq.
Proof. reflexivity. Qed.

Lemma stats_backend_node schema cfg fmt subs rq bk :
  stats_backend schema cfg (node_request fmt subs rq) bk = stats_backend schema cfg rq bk.
Proof. reflexivity. Qed.

Lemma merge_keyed_node fmt subs rq : merge_keyed (node_request fmt subs rq) = merge_keyed rq.
Proof. reflexivity. Qed.

Lemma hit_wf_node fmt subs rq h : hit_wf (node_request fmt subs rq) h <-> hit_wf rq h.
Proof. reflexivity. Qed.

Lemma window_node fmt subs rq {A} (l : list A) :
  window (node_request fmt subs rq) l =
  match node_limit rq with Some m => firstn (Z.to_nat m) l | None => l end.
Proof. reflexivity. Qed.

Lemma selected_backends_filter ds rq :
  selected_backends ds rq = filter (fun b => requested rq (b_key b)) ds.
Proof.
  unfold selected_backends, requested. destruct (rq_backends rq); [|reflexivity].
  symmetry. apply filter_all_true. reflexivity.
Qed.

Lemma sub_backends_In node rq b :
  In b node -> requested rq (b_key b) = true -> In (b_key b) (sub_backends node rq).
Proof.
  intros Hb Hr. unfold sub_backends. apply filter_In. split; [apply in_map; exact Hb|exact Hr].
Qed.

Lemma selected_skipped node rq : sub_backends node rq = [] -> selected_backends node rq = [].
Proof.
  intros E. rewrite selected_backends_filter. apply filter_none. intros b Hb.
  destruct (requested rq (b_key b)) eqn:Hr; [|reflexivity].
  pose proof (sub_backends_In node rq b Hb Hr) as H. rewrite E in H. destruct H.
Qed.

Lemma selected_node fmt node rq :
  sub_backends node rq <> [] ->
  selected_backends node (node_request fmt (sub_backends node rq) rq) = selected_backends node rq.
Proof.
  intros Hne. unfold selected_backends at 1. cbn [rq_backends node_request].
  destruct (sub_backends node rq) as [|id ids] eqn:E; [congruence|]. rewrite <- E.
  rewrite selected_backends_filter. apply List.filter_ext_in. intros b Hb.
  destruct (requested rq (b_key b)) eqn:Hr.
  - apply mem_str_In. apply sub_backends_In; assumption.
  - destruct (mem_str (b_key b) (sub_backends node rq)) eqn:M; [|reflexivity].
    apply mem_str_In in M. unfold sub_backends in M. apply filter_In in M as [_ M]. congruence.
Qed.

Definition nreq (fmt : ofmt) (node : dataset) (rq : request) : request :=
  node_request fmt (sub_backends node rq) rq.

Lemma bks_of_node fmt node rq :
  sub_backends node rq <> [] -> bks_of node (nreq fmt node rq) = bks_of node rq.
Proof.
  intros Hne. unfold bks_of, nreq. rewrite (selected_node fmt node rq Hne). reflexivity.
Qed.

Lemma per_of_node schema cfg fmt node rq :
  sub_backends node rq <> [] -> per_of schema cfg node (nreq fmt node rq) = per_of schema cfg node rq.
Proof.
  intros Hne. unfold per_of. rewrite (bks_of_node fmt node rq Hne). reflexivity.
Qed.

Lemma per_of_skipped schema cfg node rq : sub_backends node rq = [] -> per_of schema cfg node rq = [].
Proof.
  intros E. unfold per_of, bks_of. rewrite (selected_skipped node rq E). reflexivity.
Qed.

(** *** the datasets of the nodes against the whole dataset *)
Lemma bks_of_app a b rq : bks_of (a ++ b) rq = bks_of a rq ++ bks_of b rq.
Proof. unfold bks_of. rewrite !selected_backends_filter, !filter_app. reflexivity. Qed.

Lemma bks_of_perm ds ds' rq : Permutation ds ds' -> Permutation (bks_of ds rq) (bks_of ds' rq).
Proof.
  intros H. unfold bks_of. rewrite !selected_backends_filter. apply perm_filter, perm_filter, H.
Qed.

Lemma spec_hits_app schema cfg a b rq :
  spec_hits schema cfg (a ++ b) rq = spec_hits schema cfg a rq ++ spec_hits schema cfg b rq.
Proof.
  unfold spec_hits. fold (bks_of (a ++ b) rq) (bks_of a rq) (bks_of b rq).
  rewrite bks_of_app, map_app, concat_app. reflexivity.
Qed.

Lemma spec_hits_concat schema cfg (nodes : list dataset) rq :
  spec_hits schema cfg (concat nodes) rq = concat (map (fun node => spec_hits schema cfg node rq) nodes).
Proof.
  induction nodes as [|n nodes IH]; cbn [concat map].
  - unfold spec_hits. rewrite selected_backends_filter. reflexivity.
  - rewrite spec_hits_app, IH. reflexivity.
Qed.

Lemma spec_hits_perm schema cfg ds ds' rq :
  Permutation ds ds' -> Permutation (spec_hits schema cfg ds rq) (spec_hits schema cfg ds' rq).
Proof.
  intros H. unfold spec_hits. fold (bks_of ds rq) (bks_of ds' rq).
  apply perm_concat_map. apply bks_of_perm. exact H.
Qed.

Lemma spec_hits_per schema cfg ds rq : spec_hits schema cfg ds rq = concat (per_of schema cfg ds rq).
Proof. reflexivity. Qed.

Lemma spec_hits_wf schema cfg ds rq : Forall (hit_wf rq) (spec_hits schema cfg ds rq).
Proof. rewrite spec_hits_per. apply Forall_concat_all, per_of_wf. Qed.

(** ** 4. What a node answers to a data request *)
Lemma sort_hits_nil_list rq : sort_hits rq [] = [].
Proof. unfold sort_hits. destruct (rq_sort rq); reflexivity. Qed.

Lemma window_nil_list {A} rq : window rq (@nil A) = [].
Proof. unfold window. rewrite skipn_nil. destruct (rq_limit rq); [apply firstn_nil|reflexivity]. Qed.

Lemma node_answer_data schema cfg fmt node rq :
  rq_stats rq = [] ->
  na_hits (node_answer schema cfg fmt node rq) =
    window (nreq fmt node rq)
           (sort_hits rq (concat (map (cut (backend_limit (nreq fmt node rq))) (per_of schema cfg node rq)))) /\
  na_total (node_answer schema cfg fmt node rq) = impl_total (nreq fmt node rq) (per_of schema cfg node rq).
Proof.
  intros Hs. unfold node_answer.
  destruct (sub_backends node rq) as [|id ids] eqn:E.
  - rewrite (per_of_skipped schema cfg node rq E). cbn [na_hits na_total map concat].
    rewrite sort_hits_nil_list, window_nil_list. split; reflexivity.
  - rewrite <- E. fold (nreq fmt node rq). rewrite Hs.
    assert (sub_backends node rq <> []) as Hne by (rewrite E; discriminate).
    pose proof (data_result_unfold schema cfg node (nreq fmt node rq)) as U.
    destruct (data_result schema cfg node (nreq fmt node rq)) as [hits total].
    cbn [na_hits na_total].
    change (rq_offset (nreq fmt node rq)) with 0%Z in U.
    destruct (Z.ltb_spec (Z.of_nat (impl_total (nreq fmt node rq) (per_of schema cfg node (nreq fmt node rq)))) 0)
      as [Hlt|_]; [lia|].
    rewrite (per_of_node schema cfg fmt node rq Hne) in U.
    inversion U; subst. split; reflexivity.
Qed.

(** a node never reports fewer matches than rows *)
Lemma cut_total_le rq lim (per : list (list hit)) :
  length (concat (map (cut lim) per)) <=
  fold_right Nat.add 0 (map (fun h => backend_total rq lim (length h)) per).
Proof.
  induction per as [|h per IH]; cbn [map concat fold_right]; [cbn [length]; lia|].
  rewrite app_length.
  assert (length (cut lim h) <= backend_total rq lim (length h)) as Hh.
  { unfold cut, backend_total. destruct lim as [k|]; [|lia].
    rewrite firstn_length. destruct (rq_format rq); lia. }
  lia.
Qed.

Lemma node_answer_length_le_total schema cfg fmt node rq :
  rq_stats rq = [] ->
  length (na_hits (node_answer schema cfg fmt node rq)) <= na_total (node_answer schema cfg fmt node rq).
Proof.
  intros Hs. destruct (node_answer_data schema cfg fmt node rq Hs) as [-> ->].
  eapply Nat.le_trans; [apply subperm_length, subperm_window|].
  rewrite sort_hits_length. unfold impl_total. apply cut_total_le.
Qed.

(** *** the order of a request made total and transitive (ill-shaped keys, which the
    engine never produces, are put last) *)
Definition Lr (rq : request) : hit -> hit -> bool := rleb (hleb rq) (hit_wfb rq).

Lemma Lr_total rq a b : Lr rq a b = true \/ Lr rq b a = true.
Proof. apply rleb_total, hleb_total. Qed.

Lemma Lr_trans rq a b c : Lr rq a b = true -> Lr rq b c = true -> Lr rq a c = true.
Proof. apply rleb_trans, hleb_trans_on. Qed.

Lemma eqv_list_Lr rq l l' :
  Forall (hit_wf rq) l -> Forall (hit_wf rq) l' ->
  (eqv_list (Lr rq) l l' <-> eqv_list (hleb rq) l l').
Proof.
  intros Hl Hl'. apply hit_wf_allp in Hl, Hl'. unfold allp in *. unfold eqv_list.
  split; apply Forall2_impl_in with (P := fun a => hit_wfb rq a = true); try assumption;
    intros a b Ha Hb; unfold eqv, eqvb, Lr; rewrite !rleb_on by assumption; auto.
Qed.

Lemma sort_hits_Lr rq l :
  rq_sort rq <> [] -> Forall (hit_wf rq) l -> sort_hits rq l = isort (Lr rq) l.
Proof.
  intros E Hl. rewrite (sort_hits_cons rq l E). symmetry. apply isort_rleb, hit_wf_allp, Hl.
Qed.

Lemma wf_subperm rq (a b : list hit) : subperm a b -> Forall (hit_wf rq) b -> Forall (hit_wf rq) a.
Proof.
  intros Hs Hb. rewrite Forall_forall in *. intros x Hx. apply Hb. eapply subperm_In; eassumption.
Qed.

Lemma wf_perm rq (a b : list hit) : Permutation a b -> Forall (hit_wf rq) b -> Forall (hit_wf rq) a.
Proof. intros H. apply wf_subperm, subperm_of_perm, H. Qed.

Lemma unsorted_keys rq h : rq_sort rq = [] -> hit_wf rq h -> h_keys h = [].
Proof.
  unfold hit_wf, shape_of. intros -> H. cbn [map] in H. destruct (h_keys h); [reflexivity|discriminate].
Qed.

Lemma unsorted_keys_same rq (a b : list hit) :
  rq_sort rq = [] -> Forall (hit_wf rq) a -> Forall (hit_wf rq) b -> length a = length b ->
  map h_keys a = map h_keys b.
Proof.
  intros E. revert b. induction a as [|x a IH]; intros [|y b] Ha Hb Hlen; try discriminate; [reflexivity|].
  cbn [map]. rewrite (unsorted_keys rq x E (Forall_inv Ha)), (unsorted_keys rq y E (Forall_inv Hb)).
  f_equal. apply IH; [exact (Forall_inv_tail Ha)|exact (Forall_inv_tail Hb)|]. cbn [length] in Hlen. lia.
Qed.

(** *** one node: its rows are a sub-multiset of its matching rows, and (up to ties)
    the window of the sub request over the node's sorted matching rows *)
Lemma node_hits_subperm schema cfg fmt node rq :
  rq_stats rq = [] ->
  subperm (na_hits (node_answer schema cfg fmt node rq)) (spec_hits schema cfg node rq).
Proof.
  intros Hs. destruct (node_answer_data schema cfg fmt node rq Hs) as [-> _].
  eapply subperm_trans; [apply subperm_window|].
  eapply subperm_trans; [apply subperm_of_perm, sort_hits_perm|].
  rewrite spec_hits_per. apply subperm_cut.
Qed.

Lemma backends_sorted_node schema cfg fmt node rq :
  backends_sorted schema cfg node rq ->
  Forall (StronglySorted (lebP (hleb (nreq fmt node rq)))) (per_of schema cfg node rq).
Proof. intros H. apply (per_of_sorted schema cfg node rq H). Qed.

Lemma node_hits_window schema cfg fmt node rq :
  rq_stats rq = [] ->
  (backend_limit (nreq fmt node rq) <> None -> backends_sorted schema cfg node rq) ->
  eqv_list (hleb rq) (na_hits (node_answer schema cfg fmt node rq))
           (window (nreq fmt node rq) (sort_hits rq (spec_hits schema cfg node rq))) /\
  (rq_sort rq = [] ->
   na_hits (node_answer schema cfg fmt node rq) = window (nreq fmt node rq) (spec_hits schema cfg node rq)).
Proof.
  intros Hs Hsorted. destruct (node_answer_data schema cfg fmt node rq Hs) as [-> _].
  rewrite spec_hits_per.
  destruct (backend_limit (nreq fmt node rq)) as [k|] eqn:B.
  - split.
    + apply (cut_window_eqv (nreq fmt node rq) k (per_of schema cfg node rq) B).
      * cbn. lia.
      * apply (per_of_wf schema cfg node rq).
      * apply backends_sorted_node, Hsorted. discriminate.
    + intros E. rewrite <- (sort_hits_nil rq (concat (per_of schema cfg node rq)) E).
      apply (cut_window_unsorted_exact (nreq fmt node rq) k (per_of schema cfg node rq) B).
      * cbn. lia.
      * exact E.
  - rewrite map_cut_none. split.
    + apply Forall2_refl_on. intros x. apply eqv_refl, hleb_total.
    + intros E. rewrite (sort_hits_nil rq _ E). reflexivity.
Qed.

(** the reported total of a node is the number of its matching rows, or it is
    larger than the cut-off of the sub request *)
Lemma impl_total_cases rq0 (per : list (list hit)) :
  impl_total rq0 per = length (concat per) \/
  exists k, backend_limit rq0 = Some k /\ k < impl_total rq0 per.
Proof.
  destruct (backend_limit rq0) as [k|] eqn:B; [|left; apply impl_total_full; left; exact B].
  destruct (rq_format rq0) eqn:F; [|left; apply impl_total_full; right; exact F].
  unfold impl_total. rewrite B.
  assert (map (fun h => backend_total rq0 (Some k) (length h)) per =
          map (fun n => Nat.min n (S k)) (map (@length hit) per)) as E.
  { rewrite map_map. apply map_ext. intros h. unfold backend_total. rewrite F. reflexivity. }
  rewrite E.
  destruct (Nat.le_gt_cases (fold_right Nat.add 0 (map (fun n => Nat.min n (S k)) (map (@length hit) per))) k)
    as [Hle|Hgt].
  - left. rewrite (sum_min_small k _ Hle). rewrite length_concat_sum. reflexivity.
  - right. exists k. split; [reflexivity|exact Hgt].
Qed.

Lemma node_limit_some rq m :
  node_limit rq = Some m -> exists l, rq_limit rq = Some l /\ m = (l + rq_offset rq)%Z.
Proof.
  unfold node_limit. destruct (rq_limit rq) as [l|]; [|discriminate].
  intros [= <-]. exists l. split; reflexivity.
Qed.

Lemma node_backend_limit fmt node rq k :
  backend_limit (nreq fmt node rq) = Some k ->
  exists l, rq_limit rq = Some l /\ default_sort_order rq = true /\
            (0 < l + rq_offset rq)%Z /\ k = Z.to_nat (l + rq_offset rq).
Proof.
  intros B. destruct (backend_limit_some _ _ B) as [m [Hm [Hd [Hpos Hk]]]].
  change (rq_limit (nreq fmt node rq)) with (node_limit rq) in Hm.
  change (rq_offset (nreq fmt node rq)) with 0%Z in Hpos, Hk.
  destruct (node_limit_some rq m Hm) as [l [Hl ->]].
  exists l. repeat split; auto; [lia|]. f_equal. lia.
Qed.

Lemma node_total_cases schema cfg fmt node rq :
  rq_stats rq = [] -> (0 <= rq_offset rq)%Z ->
  (forall l, rq_limit rq = Some l -> (0 < l)%Z) ->
  na_total (node_answer schema cfg fmt node rq) = length (spec_hits schema cfg node rq) \/
  Z.to_nat (rq_offset rq) < na_total (node_answer schema cfg fmt node rq).
Proof.
  intros Hs Hoff Hlim. destruct (node_answer_data schema cfg fmt node rq Hs) as [_ ->].
  rewrite spec_hits_per.
  destruct (impl_total_cases (nreq fmt node rq) (per_of schema cfg node rq)) as [H|[k [B Hk]]];
    [left; exact H|right].
  destruct (node_backend_limit fmt node rq k B) as [l [Hl [_ [_ ->]]]].
  specialize (Hlim l Hl). lia.
Qed.

Lemma node_total_exact schema cfg fmt node rq :
  rq_stats rq = [] -> (fmt = FmtWrapped \/ backend_limit rq = None) ->
  na_total (node_answer schema cfg fmt node rq) = length (spec_hits schema cfg node rq).
Proof.
  intros Hs H. destruct (node_answer_data schema cfg fmt node rq Hs) as [_ ->].
  rewrite spec_hits_per. apply impl_total_full. destruct H as [->|Hn]; [right; reflexivity|left].
  destruct (backend_limit (nreq fmt node rq)) as [k|] eqn:B; [|reflexivity]. exfalso.
  destruct (node_backend_limit fmt node rq k B) as [l [Hl [Hd [Hpos _]]]].
  unfold backend_limit in Hn. rewrite Hl, Hd in Hn. cbv zeta in Hn.
  destruct (Z.leb_spec (l + rq_offset rq) 0); [lia|discriminate].
Qed.

Lemma node_hits_unsorted schema cfg fmt node rq :
  rq_stats rq = [] -> rq_sort rq = [] ->
  na_hits (node_answer schema cfg fmt node rq) = window (nreq fmt node rq) (spec_hits schema cfg node rq).
Proof.
  intros Hs E. destruct (node_answer_data schema cfg fmt node rq Hs) as [-> _].
  rewrite spec_hits_per.
  destruct (backend_limit (nreq fmt node rq)) as [k|] eqn:B.
  - rewrite <- (sort_hits_nil rq (concat (per_of schema cfg node rq)) E).
    apply (cut_window_unsorted_exact (nreq fmt node rq) k (per_of schema cfg node rq) B).
    + cbn. lia.
    + exact E.
  - rewrite map_cut_none. rewrite (sort_hits_nil rq _ E). reflexivity.
Qed.

Lemma node_hits_Lr schema cfg fmt node rq :
  rq_stats rq = [] -> rq_sort rq <> [] ->
  (backend_limit (nreq fmt node rq) <> None -> backends_sorted schema cfg node rq) ->
  eqv_list (Lr rq) (na_hits (node_answer schema cfg fmt node rq))
           (window (nreq fmt node rq) (isort (Lr rq) (spec_hits schema cfg node rq))).
Proof.
  intros Hs E Hsorted.
  pose proof (spec_hits_wf schema cfg node rq) as Hwf.
  rewrite <- (sort_hits_Lr rq _ E Hwf).
  apply eqv_list_Lr.
  - eapply wf_subperm; [apply node_hits_subperm; exact Hs|exact Hwf].
  - eapply wf_subperm; [apply subperm_window|]. eapply wf_perm; [apply sort_hits_perm|exact Hwf].
  - apply (node_hits_window schema cfg fmt node rq Hs Hsorted).
Qed.

Lemma sum_le_pointwise {X} (a b : X -> nat) (xs : list X) :
  (forall x, In x xs -> a x <= b x) ->
  fold_right Nat.add 0 (map a xs) <= fold_right Nat.add 0 (map b xs).
Proof.
  induction xs as [|x xs IH]; intros H; cbn [map fold_right]; [lia|].
  pose proof (H x (or_introl eq_refl)). assert (forall y, In y xs -> a y <= b y) as H' by (intros y Hy; apply H; right; exact Hy).
  specialize (IH H'). lia.
Qed.

Lemma sum_exact_or_big {X} (t n : X -> nat) (o : nat) (xs : list X) :
  (forall x, In x xs -> t x = n x \/ o < t x) ->
  fold_right Nat.add 0 (map t xs) <= o ->
  fold_right Nat.add 0 (map t xs) = fold_right Nat.add 0 (map n xs).
Proof.
  induction xs as [|x xs IH]; intros H Hle; cbn [map fold_right] in *; [reflexivity|].
  destruct (H x (or_introl eq_refl)) as [E|E]; [|lia].
  rewrite IH; [lia| |lia]. intros y Hy. apply H. right; exact Hy.
Qed.


(** ** 5. The merged rows of a data request *)
Section ClusterData.
  Variables (schema : list tschema) (cfg : config) (fps : list (ofmt * dataset)) (ds : dataset) (rq : request).
  Hypothesis Hstats : rq_stats rq = [].

  Let nodes : list dataset := map snd fps.
  Let answers : list node_ans := cluster_answers schema cfg fps rq.
  Let merged : list hit := concat (map na_hits answers).

  Lemma merged_subperm : subperm merged (spec_hits schema cfg (concat nodes) rq).
  Proof.
    rewrite spec_hits_concat. apply subperm_concat.
    unfold answers, cluster_answers, nodes. rewrite !map_map.
    apply Forall2_map_same. intros [f node] _. cbn [fst snd]. apply node_hits_subperm, Hstats.
  Qed.

  Lemma merged_wf : Forall (hit_wf rq) merged.
  Proof. eapply wf_subperm; [apply merged_subperm|apply spec_hits_wf]. Qed.

  Lemma cluster_total_sum :
    cluster_total answers = fold_right Nat.add 0 (map na_total answers).
  Proof.
    unfold cluster_total. destruct (Nat.eqb_spec (fold_right Nat.add 0 (map na_total answers)) 0) as [E|_];
      [|reflexivity].
    rewrite E. fold merged.
    assert (length merged <= fold_right Nat.add 0 (map na_total answers)) as H; [|lia].
    unfold merged. rewrite length_concat_sum, map_map. apply sum_le_pointwise.
    intros a Ha. unfold answers, cluster_answers in Ha. apply in_map_iff in Ha as [[f node] [<- _]].
    apply (node_answer_length_le_total schema cfg f node rq Hstats).
  Qed.

  Lemma sum_nodes_spec :
    fold_right Nat.add 0 (map (fun fp => length (spec_hits schema cfg (snd fp) rq)) fps) =
    length (spec_hits schema cfg (concat nodes) rq).
  Proof.
    rewrite spec_hits_concat, length_concat_sum. unfold nodes. rewrite !map_map. reflexivity.
  Qed.

  Lemma cluster_total_exact :
    (Forall (fun fp => fst fp = FmtWrapped) fps \/ backend_limit rq = None) ->
    cluster_total answers = length (spec_hits schema cfg (concat nodes) rq).
  Proof.
    intros H. rewrite cluster_total_sum, <- sum_nodes_spec.
    unfold answers, cluster_answers. rewrite map_map. apply sum_map_ext_in.
    intros [f node] Hin. cbn [fst snd]. apply (node_total_exact schema cfg f node rq Hstats).
    destruct H as [H|H]; [left|right; exact H].
    rewrite Forall_forall in H. exact (H (f, node) Hin).
  Qed.

  (** when the merge answers "offset beyond the result", the window over all
      matching rows is empty as well (although the local total can be truncated) *)
  Lemma cluster_early {A} (l : list A) :
    (0 <= rq_offset rq)%Z ->
    (Z.of_nat (cluster_total answers) < rq_offset rq)%Z ->
    length l = length (spec_hits schema cfg (concat nodes) rq) -> window rq l = [].
  Proof.
    intros Hoff Hlt Hlen.
    destruct (rq_limit rq) as [lim|] eqn:Hl.
    - destruct (Z.le_gt_cases lim 0) as [H0|H0]; [apply (window_nil_limit rq l lim Hl H0)|].
      apply window_nil_short. rewrite Hlen, <- sum_nodes_spec.
      rewrite cluster_total_sum in Hlt. unfold answers, cluster_answers in Hlt. rewrite map_map in Hlt.
      rewrite <- (sum_exact_or_big (fun fp => na_total (node_answer schema cfg (fst fp) (snd fp) rq))
                                   (fun fp => length (spec_hits schema cfg (snd fp) rq))
                                   (Z.to_nat (rq_offset rq)) fps); [lia| |lia].
      intros [f node] _. cbn [fst snd]. apply (node_total_cases schema cfg f node rq Hstats Hoff).
      intros l0 E. rewrite Hl in E. injection E as <-. lia.
    - apply window_nil_short. rewrite Hlen, <- sum_nodes_spec.
      rewrite cluster_total_sum in Hlt. unfold answers, cluster_answers in Hlt. rewrite map_map in Hlt.
      rewrite <- (sum_exact_or_big (fun fp => na_total (node_answer schema cfg (fst fp) (snd fp) rq))
                                   (fun fp => length (spec_hits schema cfg (snd fp) rq))
                                   (Z.to_nat (rq_offset rq)) fps); [lia| |lia].
      intros [f node] _. cbn [fst snd]. apply (node_total_cases schema cfg f node rq Hstats Hoff).
      intros l0 E. rewrite Hl in E. discriminate.
  Qed.

  (** *** unsorted *)
  Definition nwin {A} (l : list A) : list A :=
    match node_limit rq with Some m => firstn (Z.to_nat m) l | None => l end.

  Lemma merged_unsorted :
    rq_sort rq = [] ->
    merged = concat (map (fun node => nwin (spec_hits schema cfg node rq)) nodes).
  Proof.
    intros E. unfold merged, answers, cluster_answers, nodes. rewrite !map_map. f_equal.
    apply map_ext. intros [f node]. cbn [fst snd].
    rewrite (node_hits_unsorted schema cfg f node rq Hstats E). reflexivity.
  Qed.

  Lemma cluster_window_unsorted :
    rq_sort rq = [] -> (0 <= rq_offset rq)%Z ->
    window rq (sort_hits rq merged) = window rq (spec_hits schema cfg (concat nodes) rq).
  Proof.
    intros E Hoff. rewrite (sort_hits_nil rq _ E), (merged_unsorted E), spec_hits_concat.
    unfold nwin, node_limit. destruct (rq_limit rq) as [l|] eqn:Hl.
    - destruct (Z.le_gt_cases l 0) as [H0|H0]; [rewrite !(window_nil_limit rq _ l Hl H0); reflexivity|].
      rewrite <- (map_map (fun node => spec_hits schema cfg node rq) (firstn (Z.to_nat (l + rq_offset rq)))).
      apply (window_cut_exact rq l _ _ Hl). lia.
    - reflexivity.
  Qed.

  (** *** sorted *)
  Hypothesis Hperm : Permutation (concat nodes) ds.

  Lemma backends_sorted_part node :
    In node nodes -> backends_sorted schema cfg ds rq -> backends_sorted schema cfg node rq.
  Proof.
    intros Hn H bk Hbk. apply H. unfold bks_of in *.
    apply contributing_spec in Hbk as [Hin Hrest]. apply contributing_spec. split; [|exact Hrest].
    apply (Permutation_in _ Hperm). apply in_concat. exists node. split; assumption.
  Qed.

  Hypothesis Hsorted : backend_limit rq <> None -> backends_sorted schema cfg ds rq.

  Lemma node_sorted f node :
    In (f, node) fps -> backend_limit (nreq f node rq) <> None -> backends_sorted schema cfg node rq.
  Proof.
    intros Hin B. apply backends_sorted_part.
    - unfold nodes. apply in_map_iff. exists (f, node). split; [reflexivity|exact Hin].
    - apply Hsorted. destruct (backend_limit (nreq f node rq)) as [k|] eqn:Bk; [|congruence].
      destruct (node_backend_limit f node rq k Bk) as [l [Hl [Hd [Hpos _]]]].
      unfold backend_limit. rewrite Hl, Hd. cbv zeta.
      destruct (Z.leb_spec (l + rq_offset rq) 0); [lia|discriminate].
  Qed.

  Lemma cluster_window_sorted :
    rq_sort rq <> [] -> (0 <= rq_offset rq)%Z ->
    eqv_list (Lr rq) (window rq (sort_hits rq merged))
                     (window rq (sort_hits rq (spec_hits schema cfg ds rq))).
  Proof.
    intros E Hoff.
    rewrite (sort_hits_Lr rq merged E merged_wf).
    rewrite (sort_hits_Lr rq _ E (spec_hits_wf schema cfg ds rq)).
    assert (Permutation (concat (map (fun node => spec_hits schema cfg node rq) nodes))
                        (spec_hits schema cfg ds rq)) as Hp.
    { rewrite <- spec_hits_concat. apply spec_hits_perm, Hperm. }
    destruct (rq_limit rq) as [l|] eqn:Hl.
    - destruct (Z.le_gt_cases l 0) as [H0|H0]; [rewrite !(window_nil_limit rq _ l Hl H0); constructor|].
      apply (window_Forall2_of_firstn _ rq l (Z.to_nat (l + rq_offset rq)) _ _ Hl); [lia|].
      eapply (eqv_list_trans (Lr rq) (Lr_trans rq)).
      + apply (cluster_topk (Lr rq) (Lr_total rq) (Lr_trans rq) _
                 (map (fun node => spec_hits schema cfg node rq) nodes)).
        unfold answers, cluster_answers, nodes. rewrite !map_map.
        apply Forall2_map_same. intros [f node] Hin. cbn [fst snd].
        pose proof (node_hits_Lr schema cfg f node rq Hstats E (node_sorted f node Hin)) as H.
        unfold nreq in H. rewrite window_node in H. unfold node_limit in H. rewrite Hl in H.
        exact H.
      + apply Forall2_firstn. apply (isort_perm_eqv (Lr rq) (Lr_total rq) (Lr_trans rq)). exact Hp.
    - apply Forall2_window.
      eapply (eqv_list_trans (Lr rq) (Lr_trans rq)).
      + apply (isort_eqv_pointwise (Lr rq) (Lr_trans rq)).
        instantiate (1 := concat (map (isort (Lr rq)) (map (fun node => spec_hits schema cfg node rq) nodes))).
        apply Forall2_concat.
        unfold answers, cluster_answers, nodes. rewrite !map_map.
        apply Forall2_map_same. intros [f node] Hin. cbn [fst snd].
        pose proof (node_hits_Lr schema cfg f node rq Hstats E (node_sorted f node Hin)) as H.
        unfold nreq in H. rewrite window_node in H. unfold node_limit in H. rewrite Hl in H. exact H.
      + apply (isort_perm_eqv (Lr rq) (Lr_total rq) (Lr_trans rq)).
        eapply Permutation_trans; [apply perm_concat_isort|exact Hp].
  Qed.
End ClusterData.

(** ** 6. Data requests: the cluster against the specification and the single node *)

Lemma spec_window_wf schema cfg ds rq :
  Forall (hit_wf rq) (window rq (sort_hits rq (spec_hits schema cfg ds rq))).
Proof.
  eapply wf_subperm; [apply subperm_window|]. eapply wf_perm; [apply sort_hits_perm|apply spec_hits_wf].
Qed.

(** the rows of the merged answer are distinct matching rows of the dataset *)
Theorem cluster_data_subperm schema cfg fps ds rq :
  rq_stats rq = [] -> Permutation (concat (map snd fps)) ds ->
  subperm (fst (cluster_data rq (cluster_answers schema cfg fps rq))) (spec_hits schema cfg ds rq).
Proof.
  intros Hs Hp. unfold cluster_data. destruct (Z.ltb _ _); cbn [fst]; [apply subperm_nil|].
  eapply subperm_trans; [apply subperm_window|].
  eapply subperm_trans; [apply subperm_of_perm, sort_hits_perm|].
  eapply subperm_trans; [apply (merged_subperm schema cfg fps rq Hs)|].
  apply subperm_of_perm, spec_hits_perm, Hp.
Qed.

(** same sort keys at every position and same number of rows as the window
    [Offset, Offset+Limit) of all matching rows sorted *)
Theorem cluster_data_vs_spec schema cfg fps ds rq :
  rq_stats rq = [] -> Permutation (concat (map snd fps)) ds -> (0 <= rq_offset rq)%Z ->
  (backend_limit rq <> None -> backends_sorted schema cfg ds rq) ->
  map h_keys (fst (cluster_data rq (cluster_answers schema cfg fps rq))) =
    map h_keys (fst (data_result_spec schema cfg ds rq)) /\
  length (fst (cluster_data rq (cluster_answers schema cfg fps rq))) =
    length (fst (data_result_spec schema cfg ds rq)).
Proof.
  intros Hs Hp Hoff Hsorted.
  pose proof (cluster_data_subperm schema cfg fps ds rq Hs Hp) as Hsub.
  pose proof (Permutation_length (spec_hits_perm schema cfg _ _ rq Hp)) as Hlen.
  change (fst (data_result_spec schema cfg ds rq))
    with (window rq (sort_hits rq (spec_hits schema cfg ds rq))).
  revert Hsub. unfold cluster_data.
  destruct (Z.ltb_spec (Z.of_nat (cluster_total (cluster_answers schema cfg fps rq))) (rq_offset rq))
    as [Hlt|Hge]; cbn [fst]; intros Hsub.
  - rewrite (cluster_early schema cfg fps rq Hs (sort_hits rq (spec_hits schema cfg ds rq)) Hoff Hlt).
    + split; reflexivity.
    + rewrite sort_hits_length. symmetry. exact Hlen.
  - destruct (sort_dec rq) as [E|E].
    + rewrite (cluster_window_unsorted schema cfg fps rq Hs E Hoff) in *.
      rewrite (sort_hits_nil rq _ E).
      assert (length (window rq (spec_hits schema cfg (concat (map snd fps)) rq)) =
              length (window rq (spec_hits schema cfg ds rq))) as Hl.
      { rewrite !window_length, Hlen. reflexivity. }
      split; [|exact Hl].
      apply (unsorted_keys_same rq _ _ E); [|
        eapply wf_subperm; [apply subperm_window|apply spec_hits_wf]|exact Hl].
      eapply wf_subperm; [apply subperm_window|apply spec_hits_wf].
    + pose proof (cluster_window_sorted schema cfg fps ds rq Hs Hp Hsorted E Hoff) as H.
      apply eqv_list_Lr in H.
      * split; [|apply (eqv_list_length _ _ _ H)].
        apply (eqv_list_keys rq); [| |exact H].
        -- eapply wf_subperm; [exact Hsub|apply spec_hits_wf].
        -- apply spec_window_wf.
      * eapply wf_subperm; [exact Hsub|apply spec_hits_wf].
      * apply spec_window_wf.
Qed.

(** ... hence as the single node [data_result] (which has the early cut-off) *)
Theorem cluster_data_vs_single schema cfg fps ds rq :
  rq_stats rq = [] -> Permutation (concat (map snd fps)) ds -> (0 <= rq_offset rq)%Z ->
  (backend_limit rq <> None -> backends_sorted schema cfg ds rq) ->
  map h_keys (fst (cluster_data rq (cluster_answers schema cfg fps rq))) =
    map h_keys (fst (data_result schema cfg ds rq)) /\
  length (fst (cluster_data rq (cluster_answers schema cfg fps rq))) =
    length (fst (data_result schema cfg ds rq)).
Proof.
  intros Hs Hp Hoff Hsorted.
  destruct (cluster_data_vs_spec schema cfg fps ds rq Hs Hp Hoff Hsorted) as [Hk Hl].
  destruct (backend_limit rq) as [k|] eqn:B.
  - destruct (C06_window_default_order schema cfg ds rq k B Hoff) as [Hk' Hl'].
    + apply Hsorted. discriminate.
    + rewrite Hk', Hl'. split; assumption.
  - rewrite (C06_window_no_cut schema cfg ds rq B). split; assumption.
Qed.

(** total_count *)
Theorem cluster_data_total schema cfg fps ds rq :
  rq_stats rq = [] -> Permutation (concat (map snd fps)) ds ->
  (Forall (fun fp => fst fp = FmtWrapped) fps \/ backend_limit rq = None) ->
  snd (cluster_data rq (cluster_answers schema cfg fps rq)) = length (spec_hits schema cfg ds rq).
Proof.
  intros Hs Hp H.
  assert (snd (cluster_data rq (cluster_answers schema cfg fps rq)) =
          cluster_total (cluster_answers schema cfg fps rq)) as ->.
  { unfold cluster_data. destruct (Z.ltb _ _); reflexivity. }
  rewrite (cluster_total_exact schema cfg fps rq Hs H).
  apply Permutation_length, spec_hits_perm, Hp.
Qed.

(** without Sort header: exactly the rows a single lmd with the backends in
    node order ([concat parts]) answers, for every Limit and Offset *)
Theorem cluster_data_unsorted_exact schema cfg fps rq :
  rq_stats rq = [] -> rq_sort rq = [] -> (0 <= rq_offset rq)%Z ->
  fst (cluster_data rq (cluster_answers schema cfg fps rq)) =
  fst (data_result schema cfg (concat (map snd fps)) rq).
Proof.
  intros Hs E Hoff.
  assert (fst (data_result schema cfg (concat (map snd fps)) rq) =
          window rq (spec_hits schema cfg (concat (map snd fps)) rq)) as ->.
  { destruct (backend_limit rq) as [k|] eqn:B.
    - rewrite (C06_window_unsorted_exact schema cfg _ rq k B Hoff E).
      rewrite data_result_spec_unfold. cbn [fst]. rewrite (sort_hits_nil rq _ E). reflexivity.
    - rewrite (C06_window_no_cut schema cfg _ rq B).
      rewrite data_result_spec_unfold. cbn [fst]. rewrite (sort_hits_nil rq _ E). reflexivity. }
  unfold cluster_data.
  destruct (Z.ltb_spec (Z.of_nat (cluster_total (cluster_answers schema cfg fps rq))) (rq_offset rq))
    as [Hlt|Hge]; cbn [fst].
  - symmetry. apply (cluster_early schema cfg fps rq Hs _ Hoff Hlt). reflexivity.
  - apply (cluster_window_unsorted schema cfg fps rq Hs E Hoff).
Qed.

(** no Sort, no Limit, no Offset: the same multiset of rows as the single node *)
Theorem cluster_data_plain_perm schema cfg fps ds rq :
  rq_stats rq = [] -> Permutation (concat (map snd fps)) ds ->
  rq_sort rq = [] -> rq_limit rq = None -> rq_offset rq = 0%Z ->
  Permutation (fst (cluster_data rq (cluster_answers schema cfg fps rq)))
              (fst (data_result schema cfg ds rq)).
Proof.
  intros Hs Hp E Hl Ho.
  assert (forall d, fst (data_result schema cfg d rq) = spec_hits schema cfg d rq) as Hplain.
  { intros d. rewrite C06_window_no_cut by (unfold backend_limit; rewrite Hl; reflexivity).
    rewrite data_result_spec_unfold. cbn [fst]. rewrite (sort_hits_nil rq _ E).
    unfold window. rewrite Hl, Ho. reflexivity. }
  rewrite (cluster_data_unsorted_exact schema cfg fps rq Hs E) by lia.
  rewrite !Hplain. apply spec_hits_perm, Hp.
Qed.

(** ** 7. The failed map and the 502 answer *)
Lemma known_perm ds ds' id : Permutation ds ds' -> known ds id = known ds' id.
Proof.
  intros Hp. destruct (known ds id) eqn:K, (known ds' id) eqn:K'; try reflexivity.
  - apply known_spec in K as [b [Hb He]]. rewrite <- K'. symmetry. apply known_spec.
    exists b. split; [apply (Permutation_in _ Hp); exact Hb|exact He].
  - apply known_spec in K' as [b [Hb He]]. rewrite <- K. apply known_spec.
    exists b. split; [apply (Permutation_in _ (Permutation_sym Hp)); exact Hb|exact He].
Qed.

Lemma all_unknown_perm ds ds' rq : Permutation ds ds' -> all_unknown ds rq = all_unknown ds' rq.
Proof.
  intros Hp. unfold all_unknown. destruct (rq_backends rq) as [|i0 ids]; [reflexivity|].
  rewrite (List.filter_ext (fun id => negb (known ds id)) (fun id => negb (known ds' id)));
    [reflexivity|]. intros id. rewrite (known_perm ds ds' id Hp). reflexivity.
Qed.

Lemma node_failed_spec schema cfg fmt node rq id :
  In id (na_failed (node_answer schema cfg fmt node rq)) <->
  is_sites_table (rq_table rq) = false /\
  exists b, In b (selected_backends node rq) /\ b_avail b = false /\ b_key b = id.
Proof.
  unfold node_answer. destruct (sub_backends node rq) as [|i0 ids] eqn:E.
  - cbn [na_failed In]. rewrite (selected_skipped node rq E). split; [tauto|].
    intros [_ [b [[] _]]].
  - rewrite <- E. fold (nreq fmt node rq).
    assert (sub_backends node rq <> []) as Hne by (rewrite E; discriminate).
    assert (In id (nodup_str (failed_keys node (nreq fmt node rq))) <->
            is_sites_table (rq_table rq) = false /\
            exists b, In b (selected_backends node rq) /\ b_avail b = false /\ b_key b = id) as H.
    { rewrite in_nodup_str, failed_keys_spec.
      change (rq_table (nreq fmt node rq)) with (rq_table rq).
      change (rq_backends (nreq fmt node rq)) with (sub_backends node rq).
      unfold nreq. rewrite (selected_node fmt node rq Hne).
      split; [|intros H; right; exact H].
      intros [[Hin Hno]|H]; [exfalso|exact H].
      apply Hno. unfold sub_backends in Hin. apply filter_In in Hin as [Hin _].
      apply in_map_iff in Hin as [b [Hk Hb]]. exists b. split; assumption. }
    destruct (rq_stats rq); [destruct (data_result schema cfg node (nreq fmt node rq))|];
      cbn [na_failed]; exact H.
Qed.

(** the merged failed map has the keys of the single node's *)
Theorem cluster_failed_spec schema cfg fps ds rq id :
  Permutation (concat (map snd fps)) ds ->
  (In id (cluster_failed (concat (map snd fps)) rq (cluster_answers schema cfg fps rq)) <->
   In id (nodup_str (failed_keys ds rq))).
Proof.
  intros Hp. unfold cluster_failed. rewrite !in_nodup_str, in_app_iff, failed_keys_spec.
  rewrite filter_In, negb_true_iff, (known_perm _ _ id Hp).
  assert (forall b, In b ds <-> exists fp, In fp fps /\ In b (snd fp)) as Hds.
  { intros b. split.
    - intros Hb. apply (Permutation_in _ (Permutation_sym Hp)) in Hb.
      apply in_concat in Hb as [node [Hn Hb]]. apply in_map_iff in Hn as [fp [<- Hfp]].
      exists fp. split; assumption.
    - intros [fp [Hfp Hb]]. apply (Permutation_in _ Hp). apply in_concat.
      exists (snd fp). split; [apply in_map; exact Hfp|exact Hb]. }
  split.
  - intros [[Hin Hk]|Hin].
    + left. split; [exact Hin|]. intros Hex. apply known_spec in Hex. congruence.
    + right. apply in_concat in Hin as [l [Hl Hin]].
      apply in_map_iff in Hl as [a [<- Ha]]. unfold cluster_answers in Ha.
      apply in_map_iff in Ha as [[f node] [<- Hfp]]. cbn [fst snd] in Hin.
      apply node_failed_spec in Hin as [Hsites [b [Hb [Hav Hk]]]].
      split; [exact Hsites|]. exists b. split; [|split; assumption].
      apply selected_backends_spec in Hb as [Hb Hr]. apply selected_backends_spec.
      split; [|exact Hr]. apply Hds. exists (f, node). split; assumption.
  - intros [[Hin Hno]|[Hsites [b [Hb [Hav Hk]]]]].
    + left. split; [exact Hin|]. destruct (known ds id) eqn:K; [|reflexivity].
      apply known_spec in K. contradiction.
    + right. apply selected_backends_spec in Hb as [Hb Hr].
      apply Hds in Hb as [[f node] [Hfp Hb]]. cbn [snd] in Hb.
      apply in_concat. exists (na_failed (node_answer schema cfg f node rq)). split.
      * apply in_map_iff. exists (node_answer schema cfg f node rq). split; [reflexivity|].
        unfold cluster_answers. apply in_map_iff. exists (f, node). split; [reflexivity|exact Hfp].
      * apply node_failed_spec. split; [exact Hsites|]. exists b. split; [|split; assumption].
        apply selected_backends_spec. split; assumption.
Qed.

(** ** 8. Stats requests *)

(** *** accumulators as the engine produces them *)
Definition acc_ok (k : option aggk) (a : acc) : Prop :=
  (0 <= a_cnt a)%Z /\ (a_cnt a = 0%Z -> a_val a = 0%Z) /\ (k = None -> a_val a = (a_cnt a * 1000)%Z).

Lemma acc0_ok k : acc_ok k acc0.
Proof. unfold acc_ok, acc0. cbn [a_cnt a_val]. repeat split; intros; lia. Qed.

Lemma acc_rows_ok st xs : acc_ok (stat_kind st) (acc_rows st xs).
Proof.
  destruct st as [f|k c]; cbn [stat_kind].
  - rewrite acc_counter. cbv zeta. unfold acc_ok. cbn [a_cnt a_val]. repeat split; intros; lia.
  - destruct xs as [|x xs]; [apply acc0_ok|].
    destruct k.
    + rewrite acc_sum by auto. unfold acc_ok. cbn [a_cnt a_val length].
      repeat split; intros; try discriminate; lia.
    + rewrite acc_sum by auto. unfold acc_ok. cbn [a_cnt a_val length].
      repeat split; intros; try discriminate; lia.
    + rewrite acc_min. unfold acc_ok. cbn [a_cnt a_val length].
      repeat split; intros; try discriminate; lia.
    + rewrite acc_max. unfold acc_ok. cbn [a_cnt a_val length].
      repeat split; intros; try discriminate; lia.
Qed.

Ltac acc_cases :=
  repeat match goal with
         | |- context [Z.eqb ?x ?y] => destruct (Z.eqb_spec x y)
         | |- context [Z.ltb ?x ?y] => destruct (Z.ltb_spec x y)
         end.

Lemma merge_acc_ok k a b : acc_ok k a -> acc_ok k b -> acc_ok k (merge_acc k a b).
Proof.
  destruct a as [va ca], b as [vb cb]. unfold acc_ok. cbn [a_val a_cnt].
  intros (A1 & A2 & A3) (B1 & B2 & B3).
  destruct k as [[| | |]|]; cbn [merge_acc a_val a_cnt]; acc_cases; cbn [a_val a_cnt];
    repeat split; intros; try discriminate; try lia.
  specialize (A3 eq_refl). specialize (B3 eq_refl). lia.
Qed.

(** Filter.ApplyValue of a transported accumulator is the merge of the engine *)
Lemma apply_acc_merge k a b : acc_ok k a -> acc_ok k b -> apply_acc k a b = merge_acc k a b.
Proof.
  destruct a as [va ca], b as [vb cb]. unfold acc_ok. cbn [a_val a_cnt].
  intros (A1 & A2 & A3) (B1 & B2 & B3).
  destruct k as [[| | |]|]; cbn [apply_acc merge_acc a_val a_cnt]; try reflexivity.
  - acc_cases; cbn [andb orb]; f_equal; lia.
  - acc_cases; cbn [andb orb]; f_equal; lia.
  - specialize (B3 eq_refl). f_equal; lia.
Qed.

Lemma apply_acc0 k b : acc_ok k b -> apply_acc k acc0 b = b.
Proof.
  destruct b as [vb cb]. unfold acc_ok, acc0. cbn [a_val a_cnt]. intros (B1 & B2 & B3).
  destruct k as [[| | |]|]; cbn [apply_acc a_val a_cnt]; acc_cases; cbn [andb orb]; f_equal; try lia.
  specialize (B3 eq_refl). lia.
Qed.

Lemma merge_acc_comm k a b : acc_ok k a -> acc_ok k b -> merge_acc k a b = merge_acc k b a.
Proof.
  destruct a as [va ca], b as [vb cb]. unfold acc_ok. cbn [a_val a_cnt].
  intros (A1 & A2 & A3) (B1 & B2 & B3).
  destruct k as [[| | |]|]; cbn [merge_acc a_val a_cnt]; acc_cases; f_equal; lia.
Qed.

(** the accumulator of a row list does not depend on the order of the rows *)
Lemma acc_rows_perm st xs ys : Permutation xs ys -> acc_rows st xs = acc_rows st ys.
Proof.
  induction 1 as [|x l l' _ IH|x y l|l1 l2 l3 _ IH1 _ IH2].
  - reflexivity.
  - change (x :: l) with ([x] ++ l). change (x :: l') with ([x] ++ l').
    rewrite <- !split_invariant, IH. reflexivity.
  - change (y :: x :: l) with ([y; x] ++ l). change (x :: y :: l) with ([x; y] ++ l).
    rewrite <- !split_invariant. f_equal.
    change [y; x] with ([y] ++ [x]). change [x; y] with ([x] ++ [y]).
    rewrite <- !split_invariant. apply merge_acc_comm; apply acc_rows_ok.
  - congruence.
Qed.

Definition accs_ok (rq : request) (l : list acc) : Prop :=
  Forall2 (fun st a => acc_ok (stat_kind st) a) (rq_stats rq) l.

Lemma map_accs_ok rq (f : stat -> acc) :
  (forall st, acc_ok (stat_kind st) (f st)) -> accs_ok rq (map f (rq_stats rq)).
Proof.
  intros H. unfold accs_ok. induction (rq_stats rq) as [|st l IH]; cbn [map]; constructor; auto.
Qed.

Lemma group_accs_ok rq xs k : accs_ok rq (group_accs rq xs k).
Proof. apply map_accs_ok. intros st. apply acc_rows_ok. Qed.

Lemma apply_accs_merge rq a b : accs_ok rq a -> accs_ok rq b -> apply_accs rq a b = merge_accs rq a b.
Proof.
  unfold accs_ok, apply_accs, merge_accs. generalize (rq_stats rq) as stats. intros stats Ha.
  revert b. induction Ha as [|st x stats a Hx _ IH]; intros b Hb; inversion Hb; subst;
    cbn [combine map2 fst snd]; [reflexivity|].
  f_equal; [apply apply_acc_merge; assumption|apply IH; assumption].
Qed.

Lemma merge_accs_ok rq a b : accs_ok rq a -> accs_ok rq b -> accs_ok rq (merge_accs rq a b).
Proof.
  unfold accs_ok, merge_accs. generalize (rq_stats rq) as stats. intros stats Ha.
  revert b. induction Ha as [|st x stats a Hx _ IH]; intros b Hb; inversion Hb; subst;
    cbn [combine map2 fst snd]; constructor.
  - apply merge_acc_ok; assumption.
  - apply IH; assumption.
Qed.

Lemma apply_accs_acc0 rq b :
  accs_ok rq b -> apply_accs rq (map (fun _ => acc0) (rq_stats rq)) b = b.
Proof.
  unfold accs_ok, apply_accs. generalize (rq_stats rq) as stats. intros stats Hb.
  induction Hb as [|st x stats b Hx _ IH]; cbn [map combine map2 fst snd]; [reflexivity|].
  f_equal; [apply apply_acc0; assumption|exact IH].
Qed.

(** *** one transported line on a table with distinct keys = the merge step of the engine *)
Lemma cluster_step_tab rq ks (g : key -> list acc) k a :
  NoDup ks -> accs_ok rq a -> (forall k', accs_ok rq (g k')) ->
  cluster_stats_step rq (tab ks g) (k, a) = merge_step rq (tab ks g) (k, a).
Proof.
  intros Hnd Ha Hg. unfold cluster_stats_step, merge_step. cbn [fst snd].
  destruct (memk k ks) eqn:M.
  - apply memk_In in M. destruct (find_tab_in k ks g M) as [v ->].
    rewrite !upsert_tab_in by assumption. apply tab_ext. intros k' _.
    destruct (key_eqb k k'); [apply apply_accs_merge; auto|reflexivity].
  - apply memk_false in M. rewrite (find_tab_notin k ks g M).
    rewrite upsert_tab_notin by assumption. rewrite apply_accs_acc0 by assumption. reflexivity.
Qed.

Lemma cluster_fold_tab rq ks2 (g2 : key -> list acc) :
  NoDup ks2 -> (forall k, accs_ok rq (g2 k)) ->
  forall ks g, NoDup ks -> (forall k, accs_ok rq (g k)) ->
  fold_left (cluster_stats_step rq) (tab ks2 g2) (tab ks g) = merge_keyed rq (tab ks g) (tab ks2 g2).
Proof.
  intros Hnd2 Hg2. induction ks2 as [|k ks2 IH]; intros ks g Hnd Hg; [reflexivity|].
  inversion Hnd2 as [|? ? Hni Hnd2']; subst.
  rewrite merge_keyed_fold. unfold tab at 1 3. cbn [map fold_left].
  change (map (fun k0 => (k0, g2 k0)) ks2) with (tab ks2 g2).
  rewrite cluster_step_tab by auto. rewrite merge_step_tab by assumption.
  rewrite (IH Hnd2'); [rewrite merge_keyed_fold; try rewrite merge_step_tab by assumption; reflexivity|apply NoDup_add_key; exact Hnd|].
  intros k'. destruct (key_eqb k k'); [|apply Hg]. destruct (memk k ks); [|apply Hg2].
  apply merge_accs_ok; auto.
Qed.

(** merging the tables of two row lists whose key lists cover the keys of the rows *)
Lemma merge_tab_groups rq ks ks2 xs ys :
  NoDup ks -> NoDup ks2 ->
  (forall x, In x xs -> In (ctx_key rq x) ks) -> (forall y, In y ys -> In (ctx_key rq y) ks2) ->
  merge_keyed rq (tab ks (group_accs rq xs)) (tab ks2 (group_accs rq ys)) =
  tab (fold_left add_key ks2 ks) (group_accs rq (xs ++ ys)).
Proof.
  intros Hnd Hnd2 Hx Hy. rewrite merge_tab by assumption. apply tab_ext. intros k' _.
  replace (group_accs rq (xs ++ ys) k') with
    (map (fun st => acc_rows st (with_key rq k' xs ++ with_key rq k' ys)) (rq_stats rq))
    by (unfold group_accs; rewrite with_key_app; reflexivity).
  destruct (memk k' ks2) eqn:M2.
  - destruct (memk k' ks) eqn:M1.
    + unfold group_accs. rewrite merge_accs_maps. apply map_ext. intros st. apply split_invariant.
    + apply memk_false in M1. rewrite (with_key_absent rq k' xs); [reflexivity|].
      intros H. apply in_map_iff in H as [x [<- Hin]]. apply M1, Hx, Hin.
  - apply memk_false in M2. rewrite (with_key_absent rq k' ys); [rewrite app_nil_r; reflexivity|].
    intros H. apply in_map_iff in H as [y [<- Hin]]. apply M2, Hy, Hin.
Qed.

Lemma in_fold_add_key k l ks : In k (fold_left add_key l ks) <-> In k ks \/ In k l.
Proof. rewrite <- !memk_In, memk_fold, orb_true_iff. reflexivity. Qed.

(** the merge of the receiving node over tables of that form *)
Lemma cluster_merge_tabs rq (l : list (list key * list rowctx)) :
  Forall (fun p => NoDup (fst p) /\ forall x, In x (snd p) -> In (ctx_key rq x) (fst p)) l ->
  forall ks xs, NoDup ks -> (forall x, In x xs -> In (ctx_key rq x) ks) ->
  fold_left (fun m t => fold_left (cluster_stats_step rq) t m)
            (map (fun p => tab (fst p) (group_accs rq (snd p))) l) (tab ks (group_accs rq xs)) =
  tab (fold_left add_key (concat (map fst l)) ks) (group_accs rq (xs ++ concat (map snd l))).
Proof.
  induction 1 as [|[ks2 ys] l [Hnd2 Hy] _ IH]; intros ks xs Hnd Hx; cbn [map concat fold_left fst snd].
  - rewrite app_nil_r. reflexivity.
  - cbn [fst snd] in *.
    rewrite cluster_fold_tab; [|assumption|intros; apply group_accs_ok|assumption|intros; apply group_accs_ok].
    rewrite merge_tab_groups by assumption.
    rewrite IH.
    + rewrite fold_left_app, app_assoc. reflexivity.
    + apply NoDup_fold. exact Hnd.
    + intros x Hin. apply in_fold_add_key. apply in_app_iff in Hin as [Hin|Hin]; [left; apply Hx|right; apply Hy]; exact Hin.
Qed.

(** *** the raw table of a dataset, in closed form *)
Definition tkeys (rq : request) (xs : list rowctx) : list key :=
  match rq_columns rq with [] => [[]] | _ => first_keys (map (ctx_key rq) xs) end.

Definition stats_table (rq : request) (xs : list rowctx) : keyed (list acc) :=
  tab (tkeys rq xs) (group_accs rq xs).

Lemma all_nil_first_keys (l : list key) :
  (forall k, In k l -> k = []) -> l <> [] -> first_keys l = [[]].
Proof.
  intros Hall Hne. pose proof (first_keys_NoDup l) as Hnd.
  assert (forall k, In k (first_keys l) -> k = []) as H by (intros k Hk; apply Hall, first_keys_In, Hk).
  assert (In [] (first_keys l)) as H0.
  { destruct l as [|k l]; [congruence|]. apply first_keys_In. left. apply Hall. left; reflexivity. }
  destruct (first_keys l) as [|a [|b r]]; [destruct H0| |].
  - rewrite (H a (or_introl eq_refl)). reflexivity.
  - exfalso. inversion Hnd as [|? ? Hni _]; subst. apply Hni.
    rewrite (H a (or_introl eq_refl)), <- (H b (or_intror (or_introl eq_refl))). left; reflexivity.
Qed.

Lemma ctx_key_nocols rq x : request_columns rq = [] -> ctx_key rq x = [].
Proof. unfold ctx_key, stats_key. intros ->. reflexivity. Qed.

Lemma raw_stats_table schema cfg ds rq :
  rq_stats rq <> [] -> raw_stats schema cfg ds rq = stats_table rq (all_ctxs schema cfg ds rq).
Proof.
  intros Hs. unfold raw_stats. cbv zeta.
  set (bks := filter (contributes rq) (selected_backends ds rq)).
  assert (Hm : map (stats_backend schema cfg rq) bks = map (grouped rq) (map (ctxs_of schema cfg rq) bks)).
  { rewrite map_map. apply map_ext. intros bk. apply stats_backend_grouped. }
  rewrite Hm, merge_all_grouped_nil.
  change (concat (map (ctxs_of schema cfg rq) bks)) with (all_ctxs schema cfg ds rq).
  set (all := all_ctxs schema cfg ds rq).
  unfold stats_table, tkeys. destruct (rq_columns rq) as [|c cs] eqn:Hc.
  - pose proof (request_columns_nokey rq Hc Hs) as Hk.
    destruct all as [|x all'].
    + reflexivity.
    + unfold grouped. rewrite (all_nil_first_keys (map (ctx_key rq) (x :: all'))).
      * reflexivity.
      * intros k Hin. apply in_map_iff in Hin as [y [<- _]]. apply ctx_key_nocols, Hk.
      * discriminate.
  - change (tab (first_keys (map (ctx_key rq) all)) (group_accs rq all)) with (grouped rq all).
    destruct (grouped rq all); reflexivity.
Qed.

Lemma all_ctxs_app schema cfg a b rq :
  all_ctxs schema cfg (a ++ b) rq = all_ctxs schema cfg a rq ++ all_ctxs schema cfg b rq.
Proof.
  unfold all_ctxs. fold (bks_of (a ++ b) rq) (bks_of a rq) (bks_of b rq).
  rewrite bks_of_app, map_app, concat_app. reflexivity.
Qed.

Lemma all_ctxs_concat schema cfg (nodes : list dataset) rq :
  all_ctxs schema cfg (concat nodes) rq = concat (map (fun node => all_ctxs schema cfg node rq) nodes).
Proof.
  induction nodes as [|n nodes IH]; cbn [concat map].
  - unfold all_ctxs. rewrite selected_backends_filter. reflexivity.
  - rewrite all_ctxs_app, IH. reflexivity.
Qed.

Lemma all_ctxs_perm schema cfg ds ds' rq :
  Permutation ds ds' -> Permutation (all_ctxs schema cfg ds rq) (all_ctxs schema cfg ds' rq).
Proof.
  intros H. unfold all_ctxs. fold (bks_of ds rq) (bks_of ds' rq).
  apply perm_concat_map. apply bks_of_perm. exact H.
Qed.

Lemma all_ctxs_skipped schema cfg node rq : sub_backends node rq = [] -> all_ctxs schema cfg node rq = [].
Proof. intros E. unfold all_ctxs. rewrite (selected_skipped node rq E). reflexivity. Qed.

(** *** what a node sends for a Stats request *)
Definition node_keys (schema : list tschema) (cfg : config) (node : dataset) (rq : request) : list key :=
  match sub_backends node rq with
  | [] => []
  | _ => tkeys rq (all_ctxs schema cfg node rq)
  end.

Lemma raw_stats_node schema cfg fmt node rq :
  sub_backends node rq <> [] ->
  raw_stats schema cfg node (nreq fmt node rq) = raw_stats schema cfg node rq.
Proof.
  intros H. unfold raw_stats, nreq. rewrite (selected_node fmt node rq H). reflexivity.
Qed.

Lemma node_stats_tab schema cfg fmt node rq :
  rq_stats rq <> [] ->
  na_stats (node_answer schema cfg fmt node rq) =
  tab (node_keys schema cfg node rq) (group_accs rq (all_ctxs schema cfg node rq)).
Proof.
  intros Hs. unfold node_answer, node_keys.
  destruct (sub_backends node rq) as [|i0 ids] eqn:E; [reflexivity|].
  rewrite <- E. fold (nreq fmt node rq).
  assert (sub_backends node rq <> []) as Hne by (rewrite E; discriminate).
  pose proof (raw_stats_table schema cfg node rq Hs) as Ht.
  destruct (rq_stats rq) as [|st sts]; [congruence|]. cbn [na_stats].
  rewrite (raw_stats_node schema cfg fmt node rq Hne). exact Ht.
Qed.

Lemma node_keys_ok schema cfg node rq :
  rq_stats rq <> [] ->
  NoDup (node_keys schema cfg node rq) /\
  forall x, In x (all_ctxs schema cfg node rq) -> In (ctx_key rq x) (node_keys schema cfg node rq).
Proof.
  intros Hs. unfold node_keys. destruct (sub_backends node rq) as [|i0 ids] eqn:E.
  - rewrite (all_ctxs_skipped schema cfg node rq E). split; [constructor|intros x []].
  - unfold tkeys. destruct (rq_columns rq) as [|c cs] eqn:Hc.
    + split; [constructor; [intros []|constructor]|].
      intros x _. rewrite (ctx_key_nocols rq x (request_columns_nokey rq Hc Hs)). left; reflexivity.
    + split; [apply first_keys_NoDup|]. intros x Hx. apply first_keys_In. apply in_map. exact Hx.
Qed.

Lemma first_keys_idem (l : list key) : first_keys (first_keys l) = first_keys l.
Proof. exact (fold_add_first_keys l []). Qed.

Lemma first_keys_concat_first_keys (ls : list (list key)) :
  first_keys (concat (map first_keys ls)) = first_keys (concat ls).
Proof.
  induction ls as [|a ls IH]; cbn [map concat]; [reflexivity|].
  rewrite !first_keys_app, first_keys_idem, IH. reflexivity.
Qed.

(** the table on the receiving node after all sub results are merged *)
Lemma cluster_merge_table schema cfg fps rq :
  rq_stats rq <> [] ->
  cluster_stats_merge rq (map na_stats (cluster_answers schema cfg fps rq)) =
  tab (first_keys (concat (map (fun fp => node_keys schema cfg (snd fp) rq) fps)))
      (group_accs rq (all_ctxs schema cfg (concat (map snd fps)) rq)).
Proof.
  intros Hs. unfold cluster_stats_merge, cluster_answers.
  assert (map na_stats (map (fun fp => node_answer schema cfg (fst fp) (snd fp) rq) fps) =
          map (fun p => tab (fst p) (group_accs rq (snd p)))
              (map (fun fp => (node_keys schema cfg (snd fp) rq, all_ctxs schema cfg (snd fp) rq)) fps)) as ->.
  { rewrite !map_map. apply map_ext. intros [f node]. cbn [fst snd]. apply node_stats_tab, Hs. }
  change (@nil (list str * list acc)) with (tab [] (group_accs rq [])).
  rewrite cluster_merge_tabs.
  - rewrite !map_map. cbn [fst snd app]. rewrite all_ctxs_concat, map_map. reflexivity.
  - rewrite Forall_forall. intros p Hp. apply in_map_iff in Hp as [[f node] [<- _]]. cbn [fst snd].
    apply node_keys_ok, Hs.
  - constructor.
  - intros x [].
Qed.

(** THE STATS THEOREM: the cluster answers a Stats request exactly like one lmd
    that holds the backends in node order *)
Theorem cluster_stats_exact schema cfg fps rq :
  rq_stats rq <> [] ->
  cluster_stats rq (cluster_answers schema cfg fps rq) =
  stats_result schema cfg (concat (map snd fps)) rq.
Proof.
  intros Hs. rewrite stats_result_raw, (raw_stats_table schema cfg _ rq Hs).
  unfold cluster_stats. rewrite (cluster_merge_table schema cfg fps rq Hs). f_equal.
  set (XS := all_ctxs schema cfg (concat (map snd fps)) rq).
  set (KL := concat (map (fun fp => node_keys schema cfg (snd fp) rq) fps)).
  unfold stats_table, tkeys. destruct (rq_columns rq) as [|c cs] eqn:Hc.
  - assert (forall k, In k KL -> k = []) as Hall.
    { intros k Hk. unfold KL in Hk. apply in_concat in Hk as [l [Hl Hk]].
      apply in_map_iff in Hl as [[f node] [<- _]]. cbn [snd] in Hk. unfold node_keys, tkeys in Hk.
      rewrite Hc in Hk. destruct (sub_backends node rq); [destruct Hk|].
      destruct Hk as [<-|[]]. reflexivity. }
    destruct KL as [|k0 KL'] eqn:EK.
    + assert (XS = []) as ->; [|reflexivity].
      unfold XS. rewrite all_ctxs_concat, map_map.
      assert (forall fp, In fp fps -> all_ctxs schema cfg (snd fp) rq = []) as Hnil.
      { intros [f node] Hin. cbn [snd]. apply all_ctxs_skipped.
        destruct (sub_backends node rq) as [|i0 ids] eqn:E; [reflexivity|exfalso].
        assert (In [] KL) as Hk; [|rewrite EK in Hk; destruct Hk].
        unfold KL. apply in_concat. exists (node_keys schema cfg node rq). split.
        - apply in_map_iff. exists (f, node). split; [reflexivity|exact Hin].
        - unfold node_keys, tkeys. rewrite E, Hc. left; reflexivity. }
      clear - Hnil. induction fps as [|fp rest IH]; cbn [map concat]; [reflexivity|].
      rewrite (Hnil fp (or_introl eq_refl)), IH; [reflexivity|].
      intros fp' H. apply Hnil. right; exact H.
    + rewrite (all_nil_first_keys (k0 :: KL') Hall) by discriminate. reflexivity.
  - assert (first_keys KL = first_keys (map (ctx_key rq) XS)) as ->.
    { set (LS := map (fun fp : ofmt * dataset => map (ctx_key rq) (all_ctxs schema cfg (snd fp) rq)) fps).
      assert (KL = concat (map first_keys LS)) as ->.
      { unfold KL, LS. rewrite map_map. f_equal. apply map_ext. intros [f node]. cbn [snd].
        unfold node_keys, tkeys. rewrite Hc.
        destruct (sub_backends node rq) as [|i0 ids] eqn:E; [|reflexivity].
        rewrite (all_ctxs_skipped schema cfg node rq E). reflexivity. }
      assert (map (ctx_key rq) XS = concat LS) as ->.
      { unfold XS, LS. rewrite all_ctxs_concat, concat_map, !map_map. reflexivity. }
      apply first_keys_concat_first_keys. }
    destruct (tab (first_keys (map (ctx_key rq) XS)) (group_accs rq XS)); reflexivity.
Qed.

(** *** the single node on a permuted dataset *)
Lemma group_accs_perm rq xs ys k : Permutation xs ys -> group_accs rq xs k = group_accs rq ys k.
Proof.
  intros H. unfold group_accs. apply map_ext. intros st. apply acc_rows_perm.
  unfold with_key. apply perm_filter, H.
Qed.

Lemma finalize_tab rq ks (g : key -> list acc) :
  finalize_stats rq (tab ks g) =
  map (fun k => (k, map2 (fun st a => final_stat (stat_kind st) a) (rq_stats rq) (g k))) ks.
Proof. unfold finalize_stats, tab. rewrite map_map. reflexivity. Qed.

Theorem stats_result_perm schema cfg ds ds' rq :
  rq_stats rq <> [] -> Permutation ds ds' ->
  Permutation (stats_result schema cfg ds rq) (stats_result schema cfg ds' rq) /\
  (rq_columns rq = [] -> stats_result schema cfg ds rq = stats_result schema cfg ds' rq).
Proof.
  intros Hs Hp. rewrite !stats_result_raw, !(raw_stats_table schema cfg _ rq Hs).
  pose proof (all_ctxs_perm schema cfg ds ds' rq Hp) as Hx.
  set (xs := all_ctxs schema cfg ds rq) in *. set (xs' := all_ctxs schema cfg ds' rq) in *.
  unfold stats_table. rewrite !finalize_tab.
  rewrite (map_ext _ _ (fun k => f_equal (fun v => (k, map2 (fun st a => final_stat (stat_kind st) a) (rq_stats rq) v))
                                       (group_accs_perm rq xs xs' k Hx))).
  unfold tkeys. destruct (rq_columns rq) as [|c cs].
  - split; reflexivity.
  - split; [|discriminate]. apply Permutation_map. apply NoDup_Permutation; try apply first_keys_NoDup.
    intros k. rewrite !first_keys_In. split; apply Permutation_in, Permutation_map;
      [exact Hx|apply Permutation_sym; exact Hx].
Qed.

(** a Stats request: the lines of the cluster are the lines of the single node
    (the engine keeps group lines in order of first occurrence, lmd sorts them by
    key text afterwards: equality up to the order of the lines; one line = equal) *)
Theorem cluster_stats_vs_single schema cfg fps ds rq :
  rq_stats rq <> [] -> Permutation (concat (map snd fps)) ds ->
  Permutation (cluster_stats rq (cluster_answers schema cfg fps rq)) (stats_result schema cfg ds rq) /\
  (rq_columns rq = [] ->
   cluster_stats rq (cluster_answers schema cfg fps rq) = stats_result schema cfg ds rq).
Proof.
  intros Hs Hp. rewrite (cluster_stats_exact schema cfg fps rq Hs).
  apply stats_result_perm; assumption.
Qed.

(** ** 9. The responses *)
Definition is_json (rq : request) : bool :=
  match rq_format rq with FmtJSON => true | FmtWrapped => false end.

Lemma respond_req_cases schema cfg ds rq :
  respond_req schema cfg ds rq =
  if is_json rq && all_unknown ds rq then RError 502
  else match rq_stats rq with
       | [] => RData (map h_out (fst (data_result schema cfg ds rq)))
                     (map h_keys (fst (data_result schema cfg ds rq)))
                     (snd (data_result schema cfg ds rq)) (nodup_str (failed_keys ds rq))
       | _ => RStats (stats_result schema cfg ds rq) (nodup_str (failed_keys ds rq))
       end.
Proof.
  unfold respond_req, is_json. destruct (_ && _); [reflexivity|].
  destruct (rq_stats rq); [|reflexivity]. destruct (data_result schema cfg ds rq). reflexivity.
Qed.

Lemma cluster_core_cases schema cfg fps rq :
  cluster_core schema cfg fps rq =
  if is_json rq && all_unknown (concat (map snd fps)) rq then RError 502
  else let answers := cluster_answers schema cfg fps rq in
       let failed := cluster_failed (concat (map snd fps)) rq answers in
       match rq_stats rq with
       | [] => RData (map h_out (fst (cluster_data rq answers))) (map h_keys (fst (cluster_data rq answers)))
                     (snd (cluster_data rq answers)) failed
       | _ => RStats (cluster_stats rq answers) failed
       end.
Proof.
  unfold cluster_core, is_json. destruct (_ && _); [reflexivity|]. cbv zeta.
  destruct (rq_stats rq); [|reflexivity].
  destruct (cluster_data rq (cluster_answers schema cfg fps rq)). reflexivity.
Qed.

Definition same_set (a b : list str) : Prop := forall id, In id a <-> In id b.

(** [cluster] answers like [single], where [pool] are the matching rows of the dataset:
    - same error code; or
    - data: the same sort keys at every position, the same number of rows, the rows
      are distinct rows of [pool] carrying these keys (ties of the order may be
      resolved differently - the notion of QE/Run.v [rows_ok]), the same failed backends; or
    - stats: the same lines up to their order, the same failed backends *)
Definition answers_like (pool : list hit) (single cluster : response) : Prop :=
  match single, cluster with
  | RError a, RError b => b = a
  | RData rows keys _ failed, RData rows' keys' _ failed' =>
      keys' = keys /\ length rows' = length rows /\
      (exists hs, subperm hs pool /\ rows' = map h_out hs /\ keys' = map h_keys hs) /\
      same_set failed' failed
  | RStats lines failed, RStats lines' failed' => Permutation lines' lines /\ same_set failed' failed
  | _, _ => False
  end.

Definition resp_rows (r : response) : list (list value) := match r with RData rows _ _ _ => rows | _ => [] end.
Definition resp_keys (r : response) : list (list keyval) := match r with RData _ keys _ _ => keys | _ => [] end.
Definition resp_total (r : response) : option nat := match r with RData _ _ t _ => Some t | _ => None end.
Definition resp_lines (r : response) : keyed (list statval) := match r with RStats l _ => l | _ => [] end.

Theorem cluster_core_answers_like schema cfg (fps : list (ofmt * dataset)) (ds : dataset) rq :
  Permutation (concat (map snd fps)) ds -> (0 <= rq_offset rq)%Z ->
  (backend_limit rq <> None -> backends_sorted schema cfg ds rq) ->
  answers_like (spec_hits schema cfg ds rq) (respond_req schema cfg ds rq) (cluster_core schema cfg fps rq).
Proof.
  intros Hp Hoff Hsorted. rewrite respond_req_cases, cluster_core_cases.
  assert (all_unknown (concat (map snd fps)) rq = all_unknown ds rq) as Hu by (apply all_unknown_perm, Hp).
  rewrite Hu. destruct (is_json rq && all_unknown ds rq); [reflexivity|].
  cbv zeta. destruct (rq_stats rq) as [|st sts] eqn:Hs; cbn [answers_like].
  - destruct (cluster_data_vs_single schema cfg fps ds rq Hs Hp Hoff Hsorted) as [Hk Hl].
    split; [exact Hk|]. split; [rewrite !map_length; exact Hl|]. split.
    + exists (fst (cluster_data rq (cluster_answers schema cfg fps rq))).
      split; [apply (cluster_data_subperm schema cfg fps ds rq Hs Hp)|]. split; reflexivity.
    + intros id. apply cluster_failed_spec, Hp.
  - assert (rq_stats rq <> []) as Hne by (rewrite Hs; discriminate).
    split; [apply (cluster_stats_vs_single schema cfg fps ds rq Hne Hp)|].
    intros id. apply cluster_failed_spec, Hp.
Qed.

(** *** from [cluster_core] to [cluster_respond] *)
Lemma map_snd_combine {A B} (l1 : list A) (l2 : list B) :
  length l1 = length l2 -> map snd (combine l1 l2) = l2.
Proof.
  revert l2. induction l1 as [|a l1 IH]; intros [|b l2] H; try discriminate; [reflexivity|].
  cbn [combine map snd]. f_equal. apply IH. cbn [length] in H. lia.
Qed.

Lemma cluster_parts me (parts : list dataset) rq :
  map snd (combine (node_fmts me (length parts) rq) parts) = parts.
Proof. apply map_snd_combine. unfold node_fmts. rewrite map_length, seq_length. reflexivity. Qed.

Lemma cluster_fmts_wrapped me (parts : list dataset) rq :
  rq_format rq = FmtWrapped ->
  Forall (fun fp => fst fp = FmtWrapped) (combine (node_fmts me (length parts) rq) parts).
Proof.
  intros Hf. rewrite Forall_forall. intros [f node] Hin. apply in_combine_l in Hin.
  unfold node_fmts in Hin. apply in_map_iff in Hin as [i [<- _]]. cbn [fst].
  unfold node_fmt. rewrite Hf. destruct (Nat.eqb i me); reflexivity.
Qed.

(** ** 10. Non-vacuity *)
From LMD Require Import Gen.Schema.

(** three backends on two nodes.  Sort + Limit 2 + Offset 2: the answer is rows 3 and 4
    of all seven rows sorted (c1, a1).  Applying the Offset on every node instead
    (each node answering the client's request itself) would return a1, d1 and
    nothing: c1 is lost.  The grouped Stats request gives the same lines; with the
    nodes in another order the same lines in another order. *)
Example cluster_example :
  let h n st := [VStr n; VInt st] in
  let bk k rows := mkBackend k k 0%N true [] [mkData (s "hosts") [s "name"; s "state"] rows] in
  let A := bk (s "a") [h (s "a1") 0%Z; h (s "c1") 1%Z; h (s "e1") 0%Z] in
  let B := bk (s "b") [h (s "b1") 1%Z; h (s "d1") 0%Z] in
  let C := bk (s "c") [h (s "a2") 2%Z; h (s "f1") 0%Z] in
  let cfg := mkCfg false true in
  match parse_request schema true
          [s "GET hosts"; s "Columns: name"; s "Sort: state desc"; s "Sort: name asc"; s "Limit: 2"; s "Offset: 2";
           s "OutputFormat: wrapped_json"],
        parse_request schema true
          [s "GET hosts"; s "Columns: state"; s "Stats: state >= 0"; s "Stats: max state"; s "Stats: avg state";
           s "OutputFormat: wrapped_json"] with
  | Ok rq, Ok rqs =>
      let expected := RData [[VStr (s "c1")]; [VStr (s "a1")]]
                            [[KNum 1000%Z; KStr (s "c1")]; [KNum 0%Z; KStr (s "a1")]] 7%nat [] in
      respond_req schema cfg [A; B; C] rq = expected /\
      cluster_respond schema cfg 0%nat [[A; B]; [C]] rq = expected /\
      cluster_respond schema cfg 1%nat [[C]; []; [B; A]] rq = expected /\
      resp_rows (respond_req schema cfg [A; B] rq) ++ resp_rows (respond_req schema cfg [C] rq)
        = [[VStr (s "a1")]; [VStr (s "d1")]] /\
      let lines := [([s "0"], [SVal 4000%Z; SVal 0%Z; SAvg 0%Z 4%Z]);
                    ([s "1"], [SVal 2000%Z; SVal 1000%Z; SAvg 2000%Z 2%Z]);
                    ([s "2"], [SVal 1000%Z; SVal 2000%Z; SAvg 2000%Z 1%Z])] in
      respond_req schema cfg [A; B; C] rqs = RStats lines [] /\
      cluster_respond schema cfg 0%nat [[A; B]; [C]] rqs = RStats lines [] /\
      resp_lines (cluster_respond schema cfg 1%nat [[C]; []; [B; A]] rqs) =
        [([s "2"], [SVal 1000%Z; SVal 2000%Z; SAvg 2000%Z 1%Z]);
         ([s "0"], [SVal 4000%Z; SVal 0%Z; SAvg 0%Z 4%Z]);
         ([s "1"], [SVal 2000%Z; SVal 1000%Z; SAvg 2000%Z 2%Z])]
  | _, _ => False
  end.
Proof. vm_compute. repeat split. Qed.

Local Open Scope nat_scope.

(** ** 11. [cluster_respond] *)
Definition fps_of (me : nat) (parts : list dataset) (rq : request) : list (ofmt * dataset) :=
  combine (node_fmts me (length parts) rq) parts.

Lemma cluster_respond_cases schema cfg me (parts : list dataset) rq :
  cluster_respond schema cfg me parts rq =
  if is_json rq && all_unknown (concat parts) rq then RError 502
  else let answers := cluster_answers schema cfg (fps_of me parts rq) rq in
       let failed := cluster_failed (concat parts) rq answers in
       match rq_stats rq with
       | [] => RData (map h_out (fst (cluster_data rq answers))) (map h_keys (fst (cluster_data rq answers)))
                     (snd (cluster_data rq answers)) failed
       | _ => RStats (cluster_stats rq answers) failed
       end.
Proof.
  unfold cluster_respond. rewrite cluster_core_cases. fold (fps_of me parts rq).
  unfold fps_of. rewrite (cluster_parts me parts rq). reflexivity.
Qed.

Theorem cluster_answers_like_single schema cfg me (parts : list dataset) (ds : dataset) rq :
  Permutation (concat parts) ds -> (0 <= rq_offset rq)%Z ->
  (backend_limit rq <> None -> backends_sorted schema cfg ds rq) ->
  answers_like (spec_hits schema cfg ds rq) (respond_req schema cfg ds rq)
               (cluster_respond schema cfg me parts rq).
Proof.
  intros Hp Hoff Hsorted. unfold cluster_respond. apply cluster_core_answers_like; [|exact Hoff|exact Hsorted].
  rewrite cluster_parts. exact Hp.
Qed.

Theorem cluster_total_count schema cfg me (parts : list dataset) (ds : dataset) rq :
  rq_stats rq = [] -> Permutation (concat parts) ds ->
  (rq_format rq = FmtWrapped \/ backend_limit rq = None) ->
  resp_total (cluster_respond schema cfg me parts rq) = resp_total (respond_req schema cfg ds rq).
Proof.
  intros Hs Hp H. rewrite respond_req_cases, cluster_respond_cases.
  rewrite (all_unknown_perm _ _ rq Hp). destruct (is_json rq && all_unknown ds rq); [reflexivity|].
  cbv zeta. rewrite Hs. cbn [resp_total]. f_equal.
  rewrite (cluster_data_total schema cfg (fps_of me parts rq) ds rq Hs).
  - rewrite C06_total by tauto. reflexivity.
  - unfold fps_of. rewrite cluster_parts. exact Hp.
  - destruct H as [H|H]; [left; apply cluster_fmts_wrapped, H|right; exact H].
Qed.

Theorem cluster_stats_node_order schema cfg me (parts : list dataset) rq :
  rq_stats rq <> [] ->
  resp_lines (cluster_respond schema cfg me parts rq) =
  resp_lines (respond_req schema cfg (concat parts) rq).
Proof.
  intros Hs. rewrite respond_req_cases, cluster_respond_cases.
  destruct (is_json rq && all_unknown (concat parts) rq); [reflexivity|]. cbv zeta.
  pose proof (cluster_stats_exact schema cfg (fps_of me parts rq) rq Hs) as H.
  unfold fps_of in H at 2. rewrite cluster_parts in H.
  destruct (rq_stats rq); [congruence|]. cbn [resp_lines]. exact H.
Qed.

Theorem cluster_stats_lines schema cfg me (parts : list dataset) (ds : dataset) rq :
  rq_stats rq <> [] -> Permutation (concat parts) ds ->
  Permutation (resp_lines (cluster_respond schema cfg me parts rq))
              (resp_lines (respond_req schema cfg ds rq)) /\
  (rq_columns rq = [] ->
   resp_lines (cluster_respond schema cfg me parts rq) = resp_lines (respond_req schema cfg ds rq)).
Proof.
  intros Hs Hp. rewrite (cluster_stats_node_order schema cfg me parts rq Hs).
  rewrite !respond_req_cases. rewrite (all_unknown_perm _ _ rq Hp).
  destruct (is_json rq && all_unknown ds rq); [split; reflexivity|].
  pose proof (stats_result_perm schema cfg (concat parts) ds rq Hs Hp) as H.
  destruct (rq_stats rq); [congruence|]. cbn [resp_lines]. exact H.
Qed.

Theorem cluster_data_unsorted schema cfg me (parts : list dataset) rq :
  rq_stats rq = [] -> rq_sort rq = [] -> (0 <= rq_offset rq)%Z ->
  resp_rows (cluster_respond schema cfg me parts rq) =
  resp_rows (respond_req schema cfg (concat parts) rq).
Proof.
  intros Hs E Hoff. rewrite respond_req_cases, cluster_respond_cases.
  destruct (is_json rq && all_unknown (concat parts) rq); [reflexivity|]. cbv zeta.
  rewrite Hs. cbn [resp_rows].
  rewrite (cluster_data_unsorted_exact schema cfg (fps_of me parts rq) rq Hs E Hoff).
  unfold fps_of. rewrite cluster_parts. reflexivity.
Qed.

Theorem cluster_data_plain schema cfg me (parts : list dataset) (ds : dataset) rq :
  rq_stats rq = [] -> Permutation (concat parts) ds ->
  rq_sort rq = [] -> rq_limit rq = None -> rq_offset rq = 0%Z ->
  Permutation (resp_rows (cluster_respond schema cfg me parts rq))
              (resp_rows (respond_req schema cfg ds rq)).
Proof.
  intros Hs Hp E Hl Ho. rewrite respond_req_cases, cluster_respond_cases.
  rewrite (all_unknown_perm _ _ rq Hp). destruct (is_json rq && all_unknown ds rq); [reflexivity|].
  cbv zeta. rewrite Hs. cbn [resp_rows]. apply Permutation_map.
  apply (cluster_data_plain_perm schema cfg (fps_of me parts rq) ds rq Hs); try assumption.
  unfold fps_of. rewrite cluster_parts. exact Hp.
Qed.

(** the merged rows are in the order of the Sort headers *)
Theorem cluster_data_sorted schema cfg (fps : list (ofmt * dataset)) rq :
  rq_stats rq = [] -> rq_sort rq <> [] ->
  StronglySorted (lebP (hleb rq)) (fst (cluster_data rq (cluster_answers schema cfg fps rq))).
Proof.
  intros Hs E. unfold cluster_data. destruct (Z.ltb _ _); cbn [fst]; [constructor|].
  apply window_sorted. rewrite (sort_hits_cons rq _ E).
  apply isort_sorted_on with (pb := hit_wfb rq);
    [apply hleb_total|apply hleb_trans_on|apply hit_wf_allp].
  apply (merged_wf schema cfg fps rq Hs).
Qed.
