(** C18 (membership half): model of [Nodes.checkNodeAvailability] /
    [sendPing] / [getOnlineNodes] of pkg/lmd/nodes.go — which nodes count as
    online after a ping round, restart detection through the identifier a
    node answers with, and the decision to redistribute.

    One ping round gets one [reply] per configured node (in [nodeAddresses]
    order).  [NoReply] stands for every outcome in which [SendQuery] returns
    an error (connection refused, non-200 status, undecodable body) or the
    node does not answer within the heartbeat timeout; [Garbage] is a 200
    reply whose JSON is not an object. *)
From LMD Require Export Base.Str C18.Model.

Inductive reply :=
| NoReply
| Garbage
| Pong (ident : str) (version_ok : bool).

(** per node address: the identifier learnt so far ([] = never seen) *)
Record mstate := {
  ids : list str;            (* NodeAddress.id per node *)
  me : option nat;           (* index of thisNode, None while initializing *)
  onl : list bool;           (* onlineNodes as flags (getOnlineNodes) *)
  node : nstate }.           (* assignedBackends / running peers *)

(** the callback of sendPing for one node: new id, isOnline, forceRedistribute, identified-as-me *)
Definition ping_one (ownid : str) (init : bool) (nid : str) (r : reply) : str * bool * bool * bool :=
  match r with
  | NoReply | Garbage => (nid, false, false, false)
  | Pong ident vok =>
      let restarted := nonempty nid && negb (str_eqb nid ident) in
      let force := restarted || negb vok in
      if str_eqb ident ownid then (ident, init, force, init)
      else (ident, vok, force, false)
  end.

Fixpoint ping_all (ownid : str) (init : bool) (own : option nat) (i : nat)
         (nids : list str) (rs : list reply) : list (str * bool * bool * bool) :=
  match nids, rs with
  | nid :: nids', r :: rs' =>
      (if (negb init && match own with Some o => Nat.eqb o i | None => false end)
       then (nid, true, false, false)            (* thisNode is not pinged, it is online *)
       else ping_one ownid init nid r)
      :: ping_all ownid init own (S i) nids' rs'
  | _, _ => []
  end.

Fixpoint find_me (i : nat) (l : list (str * bool * bool * bool)) : option nat :=
  match l with
  | [] => None
  | (_, _, _, true) :: _ => Some i
  | _ :: r => find_me (S i) r
  end.

Fixpoint bools_eqb (a b : list bool) : bool :=
  match a, b with
  | [], [] => true
  | x :: a', y :: b' => Bool.eqb x y && bools_eqb a' b'
  | _, _ => false
  end.

Definition round (ownid : str) (backends : list str) (s : mstate) (rs : list reply) : mstate :=
  let init := match me s with None => true | Some _ => false end in
  let res := ping_all ownid init (me s) 0 (ids s) rs in
  let ids' := map (fun x => fst (fst (fst x))) res in
  let flags := map (fun x => snd (fst (fst x))) res in
  let force := existsb (fun x => snd (fst x)) res in
  let me' := match me s with Some o => Some o | None => find_me 0 res end in
  let need := force || negb (bools_eqb flags (onl s)) in
  match me' with
  | None => s   (* nodes.go panics: "timeout while initializing nodes"; excluded by the theorems *)
  | Some o =>
      if need then {| ids := ids'; me := me'; onl := flags; node := step o backends (node s) flags |}
      else {| ids := ids'; me := me'; onl := onl s; node := node s |}
  end.

Definition minit (n : nat) : mstate :=
  {| ids := repeat [] n; me := None; onl := repeat false n; node := init_state |}.

Definition mrun (ownid : str) (backends : list str) (n : nat) (hist : list (list reply)) : mstate :=
  fold_left (round ownid backends) hist (minit n).

(** specification: node [i] is reachable in a round iff it is this node or it
    answered the ping with a foreign identifier and the right version *)
Definition reachable1 (ownid : str) (own i : nat) (r : reply) : bool :=
  Nat.eqb own i ||
  match r with
  | Pong ident vok => vok && negb (str_eqb ident ownid)
  | _ => false
  end.

Fixpoint reachable_from (ownid : str) (own i : nat) (rs : list reply) : list bool :=
  match rs with
  | [] => []
  | r :: rs' => reachable1 ownid own i r :: reachable_from ownid own (S i) rs'
  end.

Definition reachable ownid own rs := reachable_from ownid own 0 rs.

(** a well-formed round for an identified node [own]: one reply per node and
    no foreign node answers with our identifier ... *)
Definition wf_round (n : nat) (rs : list reply) : Prop := length rs = n.

(** ... and the first round identifies us: exactly node [own] answers with
    our identifier *)
Fixpoint init_round_from (ownid : str) (own i : nat) (rs : list reply) : bool :=
  match rs with
  | [] => true
  | r :: rs' =>
      (match r with
       | Pong ident _ => Bool.eqb (str_eqb ident ownid) (Nat.eqb own i)
       | _ => negb (Nat.eqb own i)
       end) && init_round_from ownid own (S i) rs'
  end.
Definition init_round ownid own rs := init_round_from ownid own 0 rs.
