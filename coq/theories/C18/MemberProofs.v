(** Proofs about the membership model (C18/Member.v). *)
From Coq Require Import Lia Bool.
From LMD Require Import Base.Str C18.Model C18.Proofs C18.Member.

Lemma bools_eqb_eq a : forall b, bools_eqb a b = true -> a = b.
Proof.
  induction a as [|x a IH]; intros [|y b] H; cbn in H; try discriminate; [reflexivity|].
  apply andb_true_iff in H as [H1 H2]. apply eqb_prop in H1. f_equal; auto.
Qed.

(** flags of a round of an identified node = the reachable specification *)
Lemma flags_noninit ownid own : forall nids rs i,
  length nids = length rs ->
  map (fun x => snd (fst (fst x))) (ping_all ownid false (Some own) i nids rs)
  = reachable_from ownid own i rs.
Proof.
  induction nids as [|nid nids IH]; intros [|r rs] i Hl; cbn in Hl; try discriminate; [reflexivity|].
  cbn [ping_all reachable_from map]. f_equal; [|apply IH; lia].
  unfold reachable1. cbn [negb andb]. destruct (Nat.eqb own i); [reflexivity|].
  cbn [orb]. destruct r as [| |ident vok]; cbn; try reflexivity.
  destruct (str_eqb ident ownid); cbn; [rewrite andb_false_r|rewrite andb_true_r]; reflexivity.
Qed.

Lemma flags_init ownid own : forall nids rs i,
  length nids = length rs -> init_round_from ownid own i rs = true ->
  map (fun x => snd (fst (fst x))) (ping_all ownid true None i nids rs)
  = reachable_from ownid own i rs.
Proof.
  induction nids as [|nid nids IH]; intros [|r rs] i Hl Hi; cbn in Hl; try discriminate; [reflexivity|].
  cbn [init_round_from] in Hi. apply andb_true_iff in Hi as [Hr Hi].
  cbn [ping_all reachable_from map]. f_equal; [|apply IH; [lia|exact Hi]].
  unfold reachable1. cbn [negb andb].
  destruct r as [| |ident vok]; cbn.
  - apply negb_true_iff in Hr. rewrite Hr. reflexivity.
  - apply negb_true_iff in Hr. rewrite Hr. reflexivity.
  - apply eqb_prop in Hr. rewrite <- Hr.
    destruct (str_eqb ident ownid); cbn; [reflexivity|rewrite andb_true_r; reflexivity].
Qed.

Lemma find_me_init ownid own : forall nids rs i,
  length nids = length rs -> init_round_from ownid own i rs = true ->
  i <= own < i + length rs ->
  find_me i (ping_all ownid true None i nids rs) = Some own.
Proof.
  induction nids as [|nid nids IH]; intros [|r rs] i Hl Hi Hown; cbn in Hl; try discriminate.
  - cbn in Hown. lia.
  - cbn [init_round_from] in Hi. apply andb_true_iff in Hi as [Hr Hi].
    cbn [ping_all negb andb find_me]. cbn [length] in Hown.
    destruct (Nat.eqb_spec own i) as [->|Hne].
    + destruct r as [| |ident vok]; cbn in Hr; try discriminate.
      apply eqb_prop in Hr. cbn. rewrite Hr. reflexivity.
    + assert (Hnot : snd (ping_one ownid true nid r) = false).
      { destruct r as [| |ident vok]; cbn; try reflexivity.
        apply eqb_prop in Hr. rewrite Hr. reflexivity. }
      destruct (ping_one ownid true nid r) as [[[a b] c] d]. cbn in Hnot. subst d.
      apply IH; [lia|exact Hi|lia].
Qed.

Lemma reachable_from_length ownid own rs : forall i, length (reachable_from ownid own i rs) = length rs.
Proof. induction rs as [|r rs IH]; intros i; cbn; [reflexivity|rewrite IH; reflexivity]. Qed.

Lemma reachable_from_own ownid own rs : forall i, i <= own < i + length rs ->
  nth (own - i) (reachable_from ownid own i rs) false = true.
Proof.
  induction rs as [|r rs IH]; intros i H; cbn in H; [lia|].
  cbn [reachable_from]. destruct (Nat.eqb_spec own i) as [->|Hne].
  - rewrite Nat.sub_diag. cbn. unfold reachable1. rewrite Nat.eqb_refl. reflexivity.
  - replace (own - i) with (S (own - S i)) by lia. cbn [nth]. apply IH. lia.
Qed.

Lemma count_true_pos_nth l i : nth i l false = true -> 0 < count_true l.
Proof.
  revert i; induction l as [|b l IH]; intros [|i] H; cbn in H; try discriminate.
  - subst b. unfold count_true. cbn. lia.
  - rewrite count_true_cons. specialize (IH _ H). lia.
Qed.

Lemma reachable_pos ownid own rs : own < length rs -> 0 < count_true (reachable ownid own rs).
Proof.
  intros H. apply (count_true_pos_nth _ own). unfold reachable.
  pose proof (reachable_from_own ownid own rs 0 ltac:(lia)) as Hr.
  rewrite Nat.sub_0_r in Hr. exact Hr.
Qed.

Lemma count_true_repeat_false n : count_true (repeat false n) = 0.
Proof. induction n as [|n IH]; [reflexivity|]. cbn [repeat]. rewrite count_true_cons, IH. reflexivity. Qed.

(** invariant after at least one round *)
Definition minv (own n : nat) (backends : list str) (s : mstate) : Prop :=
  me s = Some own /\ length (ids s) = n /\
  mine (node s) = nth own (assign (onl s) backends) [] /\
  node_inv backends (node s).

Lemma ping_all_ids_length ownid init o : forall nids rs i, length nids = length rs ->
  length (map (fun x => fst (fst (fst x))) (ping_all ownid init o i nids rs)) = length nids.
Proof.
  induction nids as [|nid nids IH]; intros [|r rs] i Hl; cbn in Hl; try discriminate; [reflexivity|].
  cbn [ping_all map length]. rewrite IH by lia. reflexivity.
Qed.

Lemma round_first ownid own n backends rs :
  NoDup backends -> Forall (fun b => nonempty b = true) backends ->
  own < n -> length rs = n -> init_round ownid own rs = true ->
  let s := round ownid backends (minit n) rs in
  minv own n backends s /\ onl s = reachable ownid own rs.
Proof.
  intros Hnd Hne Hown Hl Hi. unfold round. cbn [me minit ids onl node].
  assert (Hlen : length (repeat (@nil N) n) = length rs) by (rewrite repeat_length; lia).
  rewrite (find_me_init ownid own _ rs 0 Hlen Hi) by lia.
  rewrite (flags_init ownid own _ rs 0 Hlen Hi). fold (reachable ownid own rs).
  assert (Hneed : negb (bools_eqb (reachable ownid own rs) (repeat false n)) = true).
  { apply negb_true_iff. destruct (bools_eqb _ _) eqn:E; [|reflexivity].
    apply bools_eqb_eq in E. pose proof (reachable_pos ownid own rs ltac:(lia)) as Hp.
    rewrite E, count_true_repeat_false in Hp. lia. }
  rewrite Hneed, orb_true_r. cbn [me ids onl node].
  split; [|reflexivity]. unfold minv; cbn [me ids onl node].
  split; [reflexivity|]. split; [rewrite ping_all_ids_length, repeat_length; [reflexivity|exact Hlen]|].
  split; [reflexivity|]. apply step_inv; try assumption; [apply reachable_pos; lia|apply init_inv].
Qed.

Lemma round_next ownid own n backends s rs :
  NoDup backends -> Forall (fun b => nonempty b = true) backends ->
  own < n -> length rs = n -> minv own n backends s ->
  let s' := round ownid backends s rs in
  minv own n backends s' /\ onl s' = reachable ownid own rs.
Proof.
  intros Hnd Hne Hown Hl (Hme & Hids & Hmine & Hinv). unfold round. rewrite Hme.
  assert (Hlen : length (ids s) = length rs) by lia.
  rewrite (flags_noninit ownid own _ rs 0 Hlen). fold (reachable ownid own rs).
  destruct (existsb _ _ || negb (bools_eqb (reachable ownid own rs) (onl s))) eqn:Hneed; cbn [me ids onl node].
  - split; [|reflexivity]. unfold minv; cbn [me ids onl node]. split; [reflexivity|]. split; [rewrite ping_all_ids_length; lia|].
    split; [reflexivity|]. apply step_inv; try assumption. apply reachable_pos; lia.
  - apply orb_false_iff in Hneed as [_ Hneed]. apply negb_false_iff, bools_eqb_eq in Hneed.
    split; [|symmetry; exact Hneed]. unfold minv; cbn [me ids onl node]. split; [reflexivity|]. split; [rewrite ping_all_ids_length; lia|].
    split; assumption.
Qed.

Lemma last_cons_indep {A} (x : A) l d d' : last (x :: l) d = last (x :: l) d'.
Proof. revert x; induction l as [|y l IH]; intros x; [reflexivity|]. cbn [last] in *. apply IH. Qed.

Lemma Forall_last {A} (P : A -> Prop) l : forall x, Forall P (x :: l) -> P (last l x).
Proof.
  induction l as [|y l IH]; intros x H; [exact (Forall_inv H)|].
  assert (E : last (y :: l) x = last l y) by (destruct l as [|z l]; [reflexivity|change (last (z :: l) x = last (z :: l) y); apply last_cons_indep]).
  rewrite E. apply IH. exact (Forall_inv_tail H).
Qed.

(** every history: a first round that identifies this node, then any rounds *)
Lemma mrun_inv ownid own n backends r0 hist :
  NoDup backends -> Forall (fun b => nonempty b = true) backends ->
  own < n -> init_round ownid own r0 = true ->
  Forall (fun rs => length rs = n) (r0 :: hist) ->
  let s := mrun ownid backends n (r0 :: hist) in
  minv own n backends s /\ onl s = reachable ownid own (last hist r0).
Proof.
  intros Hnd Hne Hown Hi Hall. pose proof (Forall_inv Hall) as Hl0. pose proof (Forall_inv_tail Hall) as Hrest. cbn beta in Hl0.
  unfold mrun. cbn [fold_left].
  pose proof (round_first ownid own n backends r0 Hnd Hne Hown Hl0 Hi) as H0. cbn zeta in H0.
  revert H0. generalize (round ownid backends (minit n) r0) as s0. generalize r0 as r.
  clear Hi Hl0 Hall. induction Hrest as [|rs hist Hl _ IH]; intros r s0 H0.
  - cbn. exact H0.
  - cbn [fold_left]. destruct H0 as [H0 _].
    pose proof (round_next ownid own n backends s0 rs Hnd Hne Hown Hl H0) as H1. cbn zeta in H1.
    specialize (IH rs _ H1). destruct hist as [|l hist]; [exact IH|].
    change (last (rs :: l :: hist) r) with (last (l :: hist) r).
    rewrite (last_cons_indep l hist r rs). exact IH.
Qed.

(** restart detection: a known node that answers with another identifier forces a redistribution,
    and the new identifier is recorded *)
Lemma ping_one_restart ownid nid ident vok :
  nonempty nid = true -> nid <> ident ->
  ping_one ownid false nid (Pong ident vok) =
    (ident, if str_eqb ident ownid then false else vok, true, false).
Proof.
  intros Hn Hd. unfold ping_one. rewrite Hn. apply str_eqb_neq in Hd. rewrite Hd. cbn.
  destruct (str_eqb ident ownid); reflexivity.
Qed.
