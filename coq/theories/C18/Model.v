(** C18 (assignment half): model of [Nodes.redistribute] / [updateBackends] /
    [IsOurBackend] of pkg/lmd/nodes.go.

    [online] has one flag per configured node (in [nodeAddresses] order),
    [backends] are the configured connection ids in configuration order. *)
From LMD Require Export Base.Str.

Definition count_true (l : list bool) : nat := length (filter (fun b => b) l).

(** number of backends handed to the next online node, [rem] nodes still get
    one extra (nodes.go: numberPerNode / remainder) *)
Definition share (base rem : nat) : nat := base + (if Nat.ltb 0 rem then 1 else 0).

Fixpoint deal (online : list bool) (base rem : nat) (bs : list str) : list (list str) :=
  match online with
  | [] => []
  | false :: r => [] :: deal r base rem bs
  | true :: r =>
      let k := share base rem in
      firstn k bs :: deal r base (pred rem) (skipn k bs)
  end.

(** the branch [numberAvailableNodes >= numberBackends]: one backend per
    online node while there are backends left *)
Fixpoint deal_one (online : list bool) (bs : list str) : list (list str) :=
  match online with
  | [] => []
  | false :: r => [] :: deal_one r bs
  | true :: r => firstn 1 bs :: deal_one r (skipn 1 bs)
  end.

Definition nonempty (s : str) : bool := match s with [] => false | _ => true end.

Definition assign (online : list bool) (backends : list str) : list (list str) :=
  let avail := count_true online in
  let nb := length backends in
  map (filter nonempty)
    (if Nat.leb nb avail then deal_one online backends
     else deal online (nb / avail) (nb mod avail) backends).

(** One node's view over a history of membership changes: [mine] is
    [assignedBackends], [running] the set of peers whose update loop runs. *)
Record nstate := { mine : list str; running : list str }.

Definition step (own : nat) (backends : list str) (s : nstate) (online : list bool) : nstate :=
  let ours := nth own (assign online backends) [] in
  let add := filter (fun b => mem_str b ours && negb (mem_str b (mine s))) backends in
  let rmv := filter (fun b => mem_str b (mine s) && negb (mem_str b ours)) backends in
  {| mine := ours;
     running := filter (fun b => negb (mem_str b rmv)) (running s) ++ add |}.

Definition init_state : nstate := {| mine := []; running := [] |}.

Definition run (own : nat) (backends : list str) (hist : list (list bool)) : nstate :=
  fold_left (step own backends) hist init_state.

Definition is_our_backend (s : nstate) (b : str) : bool := mem_str b (mine s).
