(** Proofs about the assignment model (C18). *)
From LMD Require Import Base.Str C18.Model.
From Coq Require Import Arith Permutation.

Lemma firstn_add_skipn {A} (k m : nat) (l : list A) :
  firstn k l ++ firstn m (skipn k l) = firstn (k + m) l.
Proof.
  revert l; induction k as [|k IH]; intros l; [reflexivity|].
  destruct l as [|x l]; cbn [firstn skipn Nat.add app].
  - rewrite firstn_nil; reflexivity.
  - rewrite IH; reflexivity.
Qed.

Lemma count_true_cons b l : count_true (b :: l) = (if b then 1 else 0) + count_true l.
Proof. unfold count_true; destruct b; reflexivity. Qed.

Lemma share_le base rem : base <= share base rem <= base + 1.
Proof. unfold share; destruct (Nat.ltb 0 rem); lia. Qed.

Lemma share_eq base rem : share base rem = base + Nat.min rem 1.
Proof. unfold share; destruct (Nat.ltb_spec 0 rem); lia. Qed.

(** total number of backends handed out by [deal] *)
Definition dealt (avail base rem : nat) : nat := avail * base + Nat.min rem avail.

Lemma deal_concat online : forall base rem bs,
  concat (deal online base rem bs) = firstn (dealt (count_true online) base rem) bs.
Proof.
  induction online as [|o online IH]; intros base rem bs; cbn [deal concat].
  - unfold dealt; cbn [count_true filter length Nat.mul]. rewrite Nat.min_0_r; reflexivity.
  - destruct o; rewrite count_true_cons; cbn [concat app].
    + rewrite IH, firstn_add_skipn. f_equal.
      unfold dealt; rewrite share_eq. nia.
    + rewrite IH; reflexivity.
Qed.

Lemma deal_one_concat online : forall bs,
  concat (deal_one online bs) = firstn (count_true online) bs.
Proof.
  induction online as [|o online IH]; intros bs; cbn [deal_one concat].
  - reflexivity.
  - destruct o; rewrite count_true_cons; cbn [concat].
    + rewrite IH, firstn_add_skipn; reflexivity.
    + cbn [app]. rewrite IH; reflexivity.
Qed.

Lemma deal_length online : forall base rem bs, length (deal online base rem bs) = length online.
Proof.
  induction online as [|o online IH]; intros base rem bs; [reflexivity|].
  destruct o; cbn [deal length]; rewrite IH; reflexivity.
Qed.

Lemma deal_one_length online : forall bs, length (deal_one online bs) = length online.
Proof.
  induction online as [|o online IH]; intros bs; [reflexivity|].
  destruct o; cbn [deal_one length]; rewrite IH; reflexivity.
Qed.

Lemma concat_map_filter {A} (f : A -> bool) (ls : list (list A)) :
  concat (map (filter f) ls) = filter f (concat ls).
Proof.
  induction ls as [|l ls IH]; [reflexivity|].
  cbn [map concat]; rewrite filter_app, IH; reflexivity.
Qed.

Lemma filter_all {A} (f : A -> bool) (l : list A) :
  Forall (fun x => f x = true) l -> filter f l = l.
Proof.
  induction 1 as [|x l Hx _ IH]; [reflexivity|].
  cbn [filter]; rewrite Hx, IH; reflexivity.
Qed.

Lemma assign_length online bs : length (assign online bs) = length online.
Proof.
  unfold assign; rewrite map_length.
  destruct (Nat.leb _ _); [apply deal_one_length|apply deal_length].
Qed.

Lemma dealt_exact nb avail : 0 < avail -> dealt avail (nb / avail) (nb mod avail) = nb.
Proof.
  intros Hpos; unfold dealt.
  pose proof (Nat.mod_upper_bound nb avail ltac:(lia)) as Hlt.
  rewrite Nat.min_l by lia.
  pose proof (Nat.div_mod nb avail ltac:(lia)); nia.
Qed.

(** every configured backend is handed to exactly one node, in order *)
Lemma assign_concat online bs :
  0 < count_true online ->
  Forall (fun b => nonempty b = true) bs ->
  concat (assign online bs) = bs.
Proof.
  intros Hpos Hne; unfold assign; rewrite concat_map_filter.
  destruct (Nat.leb_spec (length bs) (count_true online)) as [Hle|Hgt].
  - rewrite deal_one_concat, firstn_all2 by assumption. apply filter_all; assumption.
  - rewrite deal_concat, dealt_exact by assumption.
    rewrite firstn_all. apply filter_all; assumption.
Qed.

(** offline nodes get nothing *)
Lemma deal_offline online : forall base rem bs i,
  nth i online false = false -> nth i (deal online base rem bs) [] = [].
Proof.
  induction online as [|o online IH]; intros base rem bs i Hoff.
  - destruct i; reflexivity.
  - destruct i as [|i]; cbn [nth] in Hoff.
    + subst o; reflexivity.
    + destruct o; cbn [deal nth]; apply IH; assumption.
Qed.

Lemma deal_one_offline online : forall bs i,
  nth i online false = false -> nth i (deal_one online bs) [] = [].
Proof.
  induction online as [|o online IH]; intros bs i Hoff.
  - destruct i; reflexivity.
  - destruct i as [|i]; cbn [nth] in Hoff.
    + subst o; reflexivity.
    + destruct o; cbn [deal_one nth]; apply IH; assumption.
Qed.

Lemma nth_map_filter_nil {A} (f : A -> bool) (ls : list (list A)) i :
  nth i ls [] = [] -> nth i (map (filter f) ls) [] = [].
Proof.
  revert i; induction ls as [|l ls IH]; intros [|i] H; cbn [map nth] in *;
    try reflexivity.
  - subst l; reflexivity.
  - apply IH; assumption.
Qed.

Lemma assign_offline online bs i :
  nth i online false = false -> nth i (assign online bs) [] = [].
Proof.
  intros Hoff; unfold assign; apply nth_map_filter_nil.
  destruct (Nat.leb _ _); [apply deal_one_offline|apply deal_offline]; assumption.
Qed.

(** evenness: shape of the online nodes' shares *)
Lemma deal_shape online : forall base rem bs i,
  dealt (count_true online) base rem <= length bs ->
  nth i online false = true ->
  base <= length (nth i (deal online base rem bs) []) <= base + 1.
Proof.
  induction online as [|o online IH]; intros base rem bs i Hlen Hon.
  - destruct i; discriminate.
  - rewrite count_true_cons in Hlen.
    destruct i as [|i]; cbn [nth] in Hon.
    + subst o; cbn [deal nth]. rewrite firstn_length.
      pose proof (share_le base rem). unfold dealt in Hlen.
      rewrite share_eq in *. nia.
    + destruct o; cbn [deal nth].
      * apply IH; [|assumption]. rewrite skipn_length.
        unfold dealt in *; rewrite share_eq. nia.
      * apply IH; assumption.
Qed.

Lemma deal_one_shape online : forall bs i,
  length (nth i (deal_one online bs) []) <= 1.
Proof.
  induction online as [|o online IH]; intros bs i.
  - destruct i; cbn; lia.
  - destruct i as [|i]; destruct o; cbn [deal_one nth].
    + rewrite firstn_length; lia.
    + cbn; lia.
    + apply IH.
    + apply IH.
Qed.

Lemma nth_map_filter_all (f : str -> bool) (ls : list (list str)) i :
  Forall (fun b => f b = true) (concat ls) ->
  nth i (map (filter f) ls) [] = nth i ls [].
Proof.
  revert i; induction ls as [|l ls IH]; intros i H; [destruct i; reflexivity|].
  cbn [concat] in H. apply Forall_app in H as [Hl Hls].
  destruct i as [|i]; cbn [map nth]; [apply filter_all; assumption|apply IH; assumption].
Qed.

Lemma Forall_firstn {A} (P : A -> Prop) n (l : list A) : Forall P l -> Forall P (firstn n l).
Proof.
  revert l; induction n as [|n IH]; intros l H; [constructor|].
  destruct H as [|x l Hx Hl]; [constructor|]. cbn [firstn]; constructor; auto.
Qed.

Lemma assign_even online bs i j :
  Forall (fun b => nonempty b = true) bs ->
  nth i online false = true -> nth j online false = true ->
  length (nth i (assign online bs) []) <= length (nth j (assign online bs) []) + 1.
Proof.
  intros Hne Hi Hj; unfold assign.
  assert (Hpos : 0 < count_true online).
  { clear -Hi. revert i Hi; induction online as [|o online IH]; intros [|i] Hi;
      try discriminate; rewrite count_true_cons.
    - cbn [nth] in Hi; subst o; lia.
    - cbn [nth] in Hi. specialize (IH _ Hi); lia. }
  destruct (Nat.leb_spec (length bs) (count_true online)) as [Hle|Hgt].
  - rewrite !nth_map_filter_all.
    + pose proof (deal_one_shape online bs i); lia.
    + rewrite deal_one_concat; apply Forall_firstn; assumption.
    + rewrite deal_one_concat; apply Forall_firstn; assumption.
  - rewrite !nth_map_filter_all.
    + pose proof (dealt_exact (length bs) (count_true online) Hpos) as Hd.
      pose proof (deal_shape online (length bs / count_true online)
                   (length bs mod count_true online) bs i ltac:(lia) Hi).
      pose proof (deal_shape online (length bs / count_true online)
                   (length bs mod count_true online) bs j ltac:(lia) Hj).
      lia.
    + rewrite deal_concat; apply Forall_firstn; assumption.
    + rewrite deal_concat; apply Forall_firstn; assumption.
Qed.

(** *** histories of membership changes *)

Lemma In_nth_concat {A} (ls : list (list A)) i x :
  In x (nth i ls []) -> In x (concat ls).
Proof.
  revert i; induction ls as [|l ls IH]; intros [|i] H; cbn [nth] in H; try contradiction.
  - cbn [concat]; apply in_or_app; left; assumption.
  - cbn [concat]; apply in_or_app; right; eapply IH; eassumption.
Qed.

Lemma NoDup_app_l {A} (l1 l2 : list A) : NoDup (l1 ++ l2) -> NoDup l1.
Proof.
  induction l1 as [|x l1 IH]; intros H; [constructor|].
  cbn [app] in H; inversion H as [|? ? Hx H']; subst; constructor.
  - intros Hin; apply Hx, in_or_app; left; assumption.
  - apply IH; assumption.
Qed.

Lemma NoDup_app_r {A} (l1 l2 : list A) : NoDup (l1 ++ l2) -> NoDup l2.
Proof.
  induction l1 as [|x l1 IH]; intros H; [assumption|].
  cbn [app] in H; inversion H; subst; apply IH; assumption.
Qed.

Lemma NoDup_nth_concat {A} (ls : list (list A)) i :
  NoDup (concat ls) -> NoDup (nth i ls []).
Proof.
  revert i; induction ls as [|l ls IH]; intros [|i] H; cbn [nth]; try constructor.
  - cbn [concat] in H. apply NoDup_app_l in H; assumption.
  - cbn [concat] in H. apply NoDup_app_r in H. apply IH; assumption.
Qed.

(** invariant of one node's bookkeeping *)
Definition node_inv (backends : list str) (s : nstate) : Prop :=
  NoDup (running s) /\ (forall b, In b (running s) <-> In b (mine s)) /\
  (forall b, In b (mine s) -> In b backends).

Lemma init_inv backends : node_inv backends init_state.
Proof. repeat split; cbn; try constructor; try tauto. Qed.

Lemma NoDup_app_disj {A} (l1 l2 : list A) :
  NoDup l1 -> NoDup l2 -> (forall x, In x l1 -> In x l2 -> False) -> NoDup (l1 ++ l2).
Proof.
  induction l1 as [|x l1 IH]; intros H1 H2 Hd; [assumption|].
  inversion H1 as [|? ? Hx H1']; subst. cbn [app]; constructor.
  - intros Hin; apply in_app_or in Hin as [Hin|Hin]; [contradiction|].
    apply (Hd x); [left; reflexivity|assumption].
  - apply IH; [assumption|assumption|]. intros y Hy1 Hy2; apply (Hd y); [right|]; assumption.
Qed.

Lemma step_running_iff own backends s online b :
  (forall b, In b (running s) <-> In b (mine s)) ->
  (forall b, In b (mine s) -> In b backends) ->
  (forall b, In b (nth own (assign online backends) []) -> In b backends) ->
  (In b (running (step own backends s online)) <-> In b (mine (step own backends s online))).
Proof.
  intros Hrm Hsub Hosub. unfold step; cbn [mine running].
  set (ours := nth own (assign online backends) []) in *.
  rewrite in_app_iff, !filter_In, negb_true_iff.
  rewrite andb_true_iff, negb_true_iff, mem_str_In.
  split.
  - intros [[Hr Hnr]|[Hb [Ho _]]]; [|assumption].
    destruct (mem_str b ours) eqn:Ho; [apply mem_str_In; assumption|exfalso].
    apply Hrm in Hr. assert (Hin : mem_str b (filter (fun b0 => mem_str b0 (mine s) && negb (mem_str b0 ours)) backends) = true).
    { apply mem_str_In, filter_In; split; [apply Hsub; assumption|].
      rewrite Ho. apply andb_true_iff; split; [apply mem_str_In; assumption|reflexivity]. }
    congruence.
  - intros Ho. destruct (mem_str b (mine s)) eqn:Hm.
    + left. split; [apply Hrm, mem_str_In; assumption|].
      destruct (mem_str b (filter _ backends)) eqn:Hf; [|reflexivity].
      apply mem_str_In, filter_In in Hf as [_ Hf]. apply andb_true_iff in Hf as [_ Hf].
      apply negb_true_iff in Hf. apply mem_str_In in Ho. congruence.
    + right. split; [apply Hosub; assumption|]. split; [assumption|reflexivity].
Qed.

Lemma step_inv own backends s online :
  NoDup backends -> Forall (fun b => nonempty b = true) backends ->
  0 < count_true online ->
  node_inv backends s -> node_inv backends (step own backends s online).
Proof.
  intros Hnd Hne Hpos (Hrnd & Hrm & Hsub).
  pose proof (assign_concat online backends Hpos Hne) as Hcat.
  assert (Hours_sub : forall b, In b (nth own (assign online backends) []) -> In b backends).
  { intros b Hb. rewrite <- Hcat. eapply In_nth_concat; exact Hb. }
  split; [|split].
  - unfold step; cbn [running]. apply NoDup_app_disj.
    + apply NoDup_filter; assumption.
    + apply NoDup_filter; assumption.
    + intros x Hx1 Hx2. apply filter_In in Hx1 as [Hx1 _]. apply filter_In in Hx2 as [_ Hx2].
      apply Hrm, mem_str_In in Hx1. apply andb_true_iff in Hx2 as [_ Hx2].
      apply negb_true_iff in Hx2. congruence.
  - intros b; apply step_running_iff; assumption.
  - exact Hours_sub.
Qed.

Lemma run_inv own backends hist :
  NoDup backends -> Forall (fun b => nonempty b = true) backends ->
  Forall (fun online => 0 < count_true online) hist ->
  node_inv backends (run own backends hist).
Proof.
  intros Hnd Hne Hh. unfold run.
  assert (Hgen : forall s, node_inv backends s -> node_inv backends (fold_left (step own backends) hist s)).
  { induction Hh as [|o hist Ho _ IH]; intros s Hs; [exact Hs|].
    cbn [fold_left]. apply IH. apply step_inv; assumption. }
  apply Hgen, init_inv.
Qed.

(** after any history the node holds exactly what the last membership assigns *)
Lemma run_mine own backends hist online :
  mine (run own backends (hist ++ [online])) = nth own (assign online backends) [].
Proof. unfold run; rewrite fold_left_app; reflexivity. Qed.

(** exactly one holder *)
Lemma concat_In_nth {A} (ls : list (list A)) x :
  In x (concat ls) -> exists i, i < length ls /\ In x (nth i ls []).
Proof.
  induction ls as [|l ls IH]; cbn [concat]; intros H; [contradiction|].
  apply in_app_or in H as [H|H].
  - exists 0; cbn; split; [lia|assumption].
  - destruct (IH H) as [i [Hi Hx]]. exists (S i); cbn; split; [lia|assumption].
Qed.

Lemma NoDup_concat_unique {A} (ls : list (list A)) x i j :
  NoDup (concat ls) -> In x (nth i ls []) -> In x (nth j ls []) -> i = j.
Proof.
  revert i j; induction ls as [|l ls IH]; intros i j Hnd Hi Hj.
  - destruct i; contradiction.
  - cbn [concat] in Hnd.
    assert (Hdisj : forall y, In y l -> In y (concat ls) -> False).
    { clear -Hnd. induction l as [|z l IHl]; intros y Hy Hc; [contradiction|].
      cbn [app] in Hnd; inversion Hnd as [|? ? Hz Hnd']; subst.
      destruct Hy as [->|Hy]; [apply Hz, in_or_app; right; assumption|].
      eapply IHl; eassumption. }
    destruct i as [|i], j as [|j]; cbn [nth] in Hi, Hj; try reflexivity.
    + exfalso; apply (Hdisj x Hi). eapply In_nth_concat; eassumption.
    + exfalso; apply (Hdisj x Hj). eapply In_nth_concat; eassumption.
    + f_equal; apply IH; [apply NoDup_app_r in Hnd|..]; assumption.
Qed.

Lemma assign_exactly_one online bs b :
  0 < count_true online -> NoDup bs -> Forall (fun b => nonempty b = true) bs ->
  In b bs ->
  exists i, i < length online /\ nth i online false = true /\
            In b (nth i (assign online bs) []) /\
            forall j, In b (nth j (assign online bs) []) -> j = i.
Proof.
  intros Hpos Hnd Hne Hb.
  pose proof (assign_concat online bs Hpos Hne) as Hcat.
  rewrite <- Hcat in Hb. destruct (concat_In_nth _ _ Hb) as [i [Hi Hin]].
  rewrite assign_length in Hi. exists i; split; [assumption|]. split; [|split; [assumption|]].
  - destruct (nth i online false) eqn:Ho; [reflexivity|].
    rewrite (assign_offline online bs i Ho) in Hin; contradiction.
  - intros j Hj. eapply NoDup_concat_unique; [rewrite Hcat; exact Hnd|eassumption|eassumption].
Qed.
