(** C18, assignment half: cluster nodes partition the backends.
    Only statements, each closed by [exact]; proofs live in Proofs.v. *)
From LMD Require Import Base.Str C18.Model C18.Proofs.

(** For every set of reachable nodes (at least one) each configured backend is
    assigned to exactly one reachable node: the per-node lists, concatenated in
    node order, are the configured backends, offline nodes hold nothing. *)
Theorem C18_assign_partition :
  forall (online : list bool) (backends : list str),
    0 < count_true online ->
    Forall (fun b => nonempty b = true) backends ->
    length (assign online backends) = length online /\
    concat (assign online backends) = backends /\
    (forall i, nth i online false = false -> nth i (assign online backends) [] = []).
Proof.
  intros online backends Hpos Hne.
  exact (conj (assign_length online backends)
          (conj (assign_concat online backends Hpos Hne)
                (fun i => assign_offline online backends i))).
Qed.

Theorem C18_assign_exactly_one :
  forall (online : list bool) (backends : list str) (b : str),
    0 < count_true online -> NoDup backends ->
    Forall (fun b => nonempty b = true) backends -> In b backends ->
    exists i, i < length online /\ nth i online false = true /\
              In b (nth i (assign online backends) []) /\
              forall j, In b (nth j (assign online backends) []) -> j = i.
Proof. exact assign_exactly_one. Qed.

(** ... as evenly as the counts allow: two reachable nodes differ by at most one. *)
Theorem C18_assign_even :
  forall (online : list bool) (backends : list str) (i j : nat),
    Forall (fun b => nonempty b = true) backends ->
    nth i online false = true -> nth j online false = true ->
    length (nth i (assign online backends) []) <= length (nth j (assign online backends) []) + 1.
Proof. exact assign_even. Qed.

(** ... and recomputed when nodes join, leave or restart: after every history
    of membership sets a node runs exactly the peers the last membership
    assigns to it. *)
Theorem C18_assign_recomputed :
  forall (own : nat) (backends : list str) (hist : list (list bool)) (online : list bool),
    NoDup backends -> Forall (fun b => nonempty b = true) backends ->
    Forall (fun o => 0 < count_true o) (hist ++ [online]) ->
    let s := run own backends (hist ++ [online]) in
    mine s = nth own (assign online backends) [] /\
    NoDup (running s) /\ (forall b, In b (running s) <-> In b (mine s)).
Proof.
  intros own backends hist online Hnd Hne Hh s.
  pose proof (run_inv own backends (hist ++ [online]) Hnd Hne Hh) as [H1 [H2 _]].
  exact (conj (run_mine own backends hist online) (conj H1 H2)).
Qed.

(** non-vacuity: 7 backends on 3 nodes, all online, then node 2 leaves *)
Example C18_example :
  let bs := map (fun n => [n]) [97;98;99;100;101;102;103]%N in
  map (@length _) (assign [true;true;true] bs) = [3;2;2] /\
  map (@length _) (assign [true;false;true] bs) = [4;0;3] /\
  running (run 2 bs [[true;true;true];[true;false;true]]) = [[102];[103];[101]]%N.
Proof. vm_compute. repeat split. Qed.

Print Assumptions C18_assign_partition.
Print Assumptions C18_assign_exactly_one.
Print Assumptions C18_assign_even.
Print Assumptions C18_assign_recomputed.

(** * Query half: the cluster merge (model C18/ClusterQuery.v, proofs C18/ClusterQueryProofs.v) *)
From LMD Require Import QE.Engine QE.WindowProofs C01.Proofs C04.Proofs C05.Proofs C05.GroupByProofs C18.ClusterQuery C18.ClusterQueryProofs.
From Coq Require Import Sorting.Sorted Permutation.

(** * ======================================================================
    * PROPERTY LEVEL STATEMENTS (to be copied into C18/Props.v)
    * ======================================================================

    [cluster_respond schema cfg me parts rq]: the answer of the cluster whose node
    [i] holds the backends [nth i parts []] when node [me] receives the request;
    [respond_req schema cfg ds rq]: the answer of one lmd holding [ds].
    Hypotheses used: [Permutation (concat parts) ds] (every backend on exactly one
    node, any node order); [0 <= rq_offset rq] (the parser rejects negative offsets);
    [backend_limit rq <> None -> backends_sorted schema cfg ds rq] (only when the
    request has a Limit and asks for the table's default order: every backend keeps
    its rows in that order - the precondition of the early cut-off of C06, which
    both the single node and every cluster node apply). *)

(** A query sent to any node is answered like a single lmd holding all backends:
    same error; data: the same sort keys at every position and the same number of
    rows as the single node's window (Sort/Limit/Offset, any partition), every row
    a distinct matching row of the dataset carrying these keys (ties may be
    resolved differently), the same failed backends; stats: the same lines up to
    their order, the same failed backends. *)
Theorem C18_cluster_answers_like_single :
  forall schema cfg me (parts : list dataset) (ds : dataset) rq,
    Permutation (concat parts) ds -> (0 <= rq_offset rq)%Z ->
    (backend_limit rq <> None -> backends_sorted schema cfg ds rq) ->
    answers_like (spec_hits schema cfg ds rq) (respond_req schema cfg ds rq)
                 (cluster_respond schema cfg me parts rq).
Proof. exact cluster_answers_like_single. Qed.

(** total_count is the number of all matching rows, as on the single node
    (wrapped_json, or no early cut-off) *)
Theorem C18_cluster_total_count :
  forall schema cfg me (parts : list dataset) (ds : dataset) rq,
    rq_stats rq = [] -> Permutation (concat parts) ds ->
    (rq_format rq = FmtWrapped \/ backend_limit rq = None) ->
    resp_total (cluster_respond schema cfg me parts rq) = resp_total (respond_req schema cfg ds rq).
Proof. exact cluster_total_count. Qed.

(** Stats: EXACTLY the lines (values and order) of one lmd holding the backends in
    node order - no hypothesis at all (split invariance of the accumulators) ... *)
Theorem C18_cluster_stats_node_order :
  forall schema cfg me (parts : list dataset) rq,
    rq_stats rq <> [] ->
    resp_lines (cluster_respond schema cfg me parts rq) =
    resp_lines (respond_req schema cfg (concat parts) rq).
Proof. exact cluster_stats_node_order. Qed.

(** ... hence for any partition the lines of the single node up to their order
    (the engine lists group lines in order of first occurrence, lmd sorts them by
    key afterwards), and equal without group-by Columns (one line) *)
Theorem C18_cluster_stats_lines :
  forall schema cfg me (parts : list dataset) (ds : dataset) rq,
    rq_stats rq <> [] -> Permutation (concat parts) ds ->
    Permutation (resp_lines (cluster_respond schema cfg me parts rq))
                (resp_lines (respond_req schema cfg ds rq)) /\
    (rq_columns rq = [] ->
     resp_lines (cluster_respond schema cfg me parts rq) = resp_lines (respond_req schema cfg ds rq)).
Proof. exact cluster_stats_lines. Qed.

(** Data without Sort: exactly the rows (and their order) one lmd with the backends
    in node order returns, for every Limit and Offset ... *)
Theorem C18_cluster_data_unsorted :
  forall schema cfg me (parts : list dataset) rq,
    rq_stats rq = [] -> rq_sort rq = [] -> (0 <= rq_offset rq)%Z ->
    resp_rows (cluster_respond schema cfg me parts rq) =
    resp_rows (respond_req schema cfg (concat parts) rq).
Proof. exact cluster_data_unsorted. Qed.

(** ... and without Sort, Limit and Offset the same multiset of rows as the single
    node for any partition (the single node lists them in backend order, the
    cluster in node order) *)
Theorem C18_cluster_data_plain :
  forall schema cfg me (parts : list dataset) (ds : dataset) rq,
    rq_stats rq = [] -> Permutation (concat parts) ds ->
    rq_sort rq = [] -> rq_limit rq = None -> rq_offset rq = 0%Z ->
    Permutation (resp_rows (cluster_respond schema cfg me parts rq))
                (resp_rows (respond_req schema cfg ds rq)).
Proof. exact cluster_data_plain. Qed.

(** the merged rows against the specification of C06 (the window of all matching
    rows sorted), and the heart of it: top-k of the nodes' top-k's *)
Theorem C18_cluster_window_is_spec_window :
  forall schema cfg (fps : list (ofmt * dataset)) (ds : dataset) rq,
    rq_stats rq = [] -> Permutation (concat (map snd fps)) ds -> (0 <= rq_offset rq)%Z ->
    (backend_limit rq <> None -> backends_sorted schema cfg ds rq) ->
    map h_keys (fst (cluster_data rq (cluster_answers schema cfg fps rq))) =
      map h_keys (fst (data_result_spec schema cfg ds rq)) /\
    length (fst (cluster_data rq (cluster_answers schema cfg fps rq))) =
      length (fst (data_result_spec schema cfg ds rq)).
Proof. exact cluster_data_vs_spec. Qed.

Theorem C18_cluster_topk :
  forall {A} (leb : A -> A -> bool),
    (forall a b, leb a b = true \/ leb b a = true) ->
    (forall a b c, leb a b = true -> leb b c = true -> leb a c = true) ->
    forall (K : nat) (bs hs : list (list A)),
      Forall2 (fun h b => eqv_list leb h (firstn K (isort leb b))) hs bs ->
      eqv_list leb (firstn K (isort leb (concat hs))) (firstn K (isort leb (concat bs))).
Proof. intros A leb Ht Htr. exact (cluster_topk leb Ht Htr). Qed.

(** Filter.ApplyValue on transported accumulators is the engine's merge *)
Theorem C18_cluster_apply_value :
  forall st (xs ys : list rowctx),
    apply_acc (stat_kind st) (acc_rows st xs) (acc_rows st ys) = acc_rows st (xs ++ ys).
Proof.
  intros st xs ys. rewrite apply_acc_merge by apply acc_rows_ok. apply split_invariant.
Qed.

(** the merged rows are sorted by the Sort headers *)
Theorem C18_cluster_sorted :
  forall schema cfg (fps : list (ofmt * dataset)) rq,
    rq_stats rq = [] -> rq_sort rq <> [] ->
    StronglySorted (lebP (hleb rq)) (fst (cluster_data rq (cluster_answers schema cfg fps rq))).
Proof. exact cluster_data_sorted. Qed.

(** non-vacuity *)
Definition C18_cluster_example := cluster_example.

Print Assumptions C18_cluster_answers_like_single.
Print Assumptions C18_cluster_total_count.
Print Assumptions C18_cluster_stats_node_order.
Print Assumptions C18_cluster_stats_lines.
Print Assumptions C18_cluster_data_unsorted.
Print Assumptions C18_cluster_data_plain.
Print Assumptions C18_cluster_window_is_spec_window.
Print Assumptions C18_cluster_topk.
Print Assumptions C18_cluster_apply_value.
Print Assumptions C18_cluster_sorted.
Print Assumptions C18_cluster_example.
