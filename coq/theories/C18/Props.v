(** C18, assignment half: cluster nodes partition the backends.
    Only statements, each closed by [exact]; proofs live in Proofs.v. *)
From LMD Require Import Base.Str C18.Model C18.Proofs.

(** For every set of reachable nodes (at least one) each configured backend is
    assigned to exactly one reachable node: the per-node lists, concatenated in
    node order, are the configured backends, offline nodes hold nothing. *)
Theorem C18_assign_partition :
  forall (online : list bool) (backends : list str),
    0 < count_true online ->
    Forall (fun b => nonempty b = true) backends ->
    length (assign online backends) = length online /\
    concat (assign online backends) = backends /\
    (forall i, nth i online false = false -> nth i (assign online backends) [] = []).
Proof.
  intros online backends Hpos Hne.
  exact (conj (assign_length online backends)
          (conj (assign_concat online backends Hpos Hne)
                (fun i => assign_offline online backends i))).
Qed.

Theorem C18_assign_exactly_one :
  forall (online : list bool) (backends : list str) (b : str),
    0 < count_true online -> NoDup backends ->
    Forall (fun b => nonempty b = true) backends -> In b backends ->
    exists i, i < length online /\ nth i online false = true /\
              In b (nth i (assign online backends) []) /\
              forall j, In b (nth j (assign online backends) []) -> j = i.
Proof. exact assign_exactly_one. Qed.

(** ... as evenly as the counts allow: two reachable nodes differ by at most one. *)
Theorem C18_assign_even :
  forall (online : list bool) (backends : list str) (i j : nat),
    Forall (fun b => nonempty b = true) backends ->
    nth i online false = true -> nth j online false = true ->
    length (nth i (assign online backends) []) <= length (nth j (assign online backends) []) + 1.
Proof. exact assign_even. Qed.

(** ... and recomputed when nodes join, leave or restart: after every history
    of membership sets a node runs exactly the peers the last membership
    assigns to it. *)
Theorem C18_assign_recomputed :
  forall (own : nat) (backends : list str) (hist : list (list bool)) (online : list bool),
    NoDup backends -> Forall (fun b => nonempty b = true) backends ->
    Forall (fun o => 0 < count_true o) (hist ++ [online]) ->
    let s := run own backends (hist ++ [online]) in
    mine s = nth own (assign online backends) [] /\
    NoDup (running s) /\ (forall b, In b (running s) <-> In b (mine s)).
Proof.
  intros own backends hist online Hnd Hne Hh s.
  pose proof (run_inv own backends (hist ++ [online]) Hnd Hne Hh) as [H1 [H2 _]].
  exact (conj (run_mine own backends hist online) (conj H1 H2)).
Qed.

(** non-vacuity: 7 backends on 3 nodes, all online, then node 2 leaves *)
Example C18_example :
  let bs := map (fun n => [n]) [97;98;99;100;101;102;103]%N in
  map (@length _) (assign [true;true;true] bs) = [3;2;2] /\
  map (@length _) (assign [true;false;true] bs) = [4;0;3] /\
  running (run 2 bs [[true;true;true];[true;false;true]]) = [[102];[103];[101]]%N.
Proof. vm_compute. repeat split. Qed.

Print Assumptions C18_assign_partition.
Print Assumptions C18_assign_exactly_one.
Print Assumptions C18_assign_even.
Print Assumptions C18_assign_recomputed.
