(** C18, assignment half: cluster nodes partition the backends.
    Only statements, each closed by [exact]; proofs live in Proofs.v. *)
From LMD Require Import Base.Str C18.Model C18.Proofs.

(** For every set of reachable nodes (at least one) each configured backend is
    assigned to exactly one reachable node: the per-node lists, concatenated in
    node order, are the configured backends, offline nodes hold nothing. *)
Theorem C18_assign_partition :
  forall (online : list bool) (backends : list str),
    0 < count_true online ->
    Forall (fun b => nonempty b = true) backends ->
    length (assign online backends) = length online /\
    concat (assign online backends) = backends /\
    (forall i, nth i online false = false -> nth i (assign online backends) [] = []).
Proof.
  intros online backends Hpos Hne.
  exact (conj (assign_length online backends)
          (conj (assign_concat online backends Hpos Hne)
                (fun i => assign_offline online backends i))).
Qed.

Theorem C18_assign_exactly_one :
  forall (online : list bool) (backends : list str) (b : str),
    0 < count_true online -> NoDup backends ->
    Forall (fun b => nonempty b = true) backends -> In b backends ->
    exists i, i < length online /\ nth i online false = true /\
              In b (nth i (assign online backends) []) /\
              forall j, In b (nth j (assign online backends) []) -> j = i.
Proof. exact assign_exactly_one. Qed.

(** ... as evenly as the counts allow: two reachable nodes differ by at most one. *)
Theorem C18_assign_even :
  forall (online : list bool) (backends : list str) (i j : nat),
    Forall (fun b => nonempty b = true) backends ->
    nth i online false = true -> nth j online false = true ->
    length (nth i (assign online backends) []) <= length (nth j (assign online backends) []) + 1.
Proof. exact assign_even. Qed.

(** ... and recomputed when nodes join, leave or restart: after every history
    of membership sets a node runs exactly the peers the last membership
    assigns to it. *)
Theorem C18_assign_recomputed :
  forall (own : nat) (backends : list str) (hist : list (list bool)) (online : list bool),
    NoDup backends -> Forall (fun b => nonempty b = true) backends ->
    Forall (fun o => 0 < count_true o) (hist ++ [online]) ->
    let s := run own backends (hist ++ [online]) in
    mine s = nth own (assign online backends) [] /\
    NoDup (running s) /\ (forall b, In b (running s) <-> In b (mine s)).
Proof.
  intros own backends hist online Hnd Hne Hh s.
  pose proof (run_inv own backends (hist ++ [online]) Hnd Hne Hh) as [H1 [H2 _]].
  exact (conj (run_mine own backends hist online) (conj H1 H2)).
Qed.

(** non-vacuity: 7 backends on 3 nodes, all online, then node 2 leaves *)
Example C18_example :
  let bs := map (fun n => [n]) [97;98;99;100;101;102;103]%N in
  map (@length _) (assign [true;true;true] bs) = [3;2;2] /\
  map (@length _) (assign [true;false;true] bs) = [4;0;3] /\
  running (run 2 bs [[true;true;true];[true;false;true]]) = [[102];[103];[101]]%N.
Proof. vm_compute. repeat split. Qed.

Print Assumptions C18_assign_partition.
Print Assumptions C18_assign_exactly_one.
Print Assumptions C18_assign_even.
Print Assumptions C18_assign_recomputed.

(** * Membership half: which nodes count as reachable (model C18/Member.v of
      checkNodeAvailability / sendPing / getOnlineNodes, proofs C18/MemberProofs.v)

    For every history of ping rounds - a first round in which exactly this node
    answers with our own identifier, then arbitrary replies (no reply / error,
    non-object reply, a pong with any identifier and a right or wrong version,
    hence joins, leaves, restarts and swaps in any order) - the online flags
    after the last round are exactly the reachable nodes of that round (this
    node, and every node that answered with a foreign identifier and the right
    version), this node holds exactly the backends the assignment gives it for
    that set, and it runs exactly those peers. *)
From LMD Require Import C18.Member C18.MemberProofs.

Theorem C18_membership_follows_last_round :
  forall (ownid : str) (own n : nat) (backends : list str) (r0 : list reply) (hist : list (list reply)),
    NoDup backends -> Forall (fun b => nonempty b = true) backends ->
    own < n -> init_round ownid own r0 = true ->
    Forall (fun rs => length rs = n) (r0 :: hist) ->
    let s := mrun ownid backends n (r0 :: hist) in
    let up := reachable ownid own (last hist r0) in
    me s = Some own /\ onl s = up /\
    mine (node s) = nth own (assign up backends) [] /\
    NoDup (running (node s)) /\ (forall b, In b (running (node s)) <-> In b (mine (node s))).
Proof.
  intros ownid own n backends r0 hist Hnd Hne Hown Hi Hall s up.
  pose proof (mrun_inv ownid own n backends r0 hist Hnd Hne Hown Hi Hall) as [[H1 [_ [H3 [H4 [H5 _]]]]] H6].
  fold s in H1, H3, H4, H5, H6. fold up in H6. rewrite H6 in H3.
  exact (conj H1 (conj H6 (conj H3 (conj H4 H5)))).
Qed.

(** ... together with the partition theorem: after every such history each
    backend is held by exactly one node that was reachable in the last round *)
Theorem C18_membership_exactly_one_reachable :
  forall (ownid : str) (own n : nat) (backends : list str) (r0 : list reply) (hist : list (list reply)) (b : str),
    NoDup backends -> Forall (fun b => nonempty b = true) backends ->
    own < n -> init_round ownid own r0 = true ->
    Forall (fun rs => length rs = n) (r0 :: hist) -> In b backends ->
    let s := mrun ownid backends n (r0 :: hist) in
    exists i, nth i (reachable ownid own (last hist r0)) false = true /\
              In b (nth i (assign (onl s) backends) []) /\
              forall j, In b (nth j (assign (onl s) backends) []) -> j = i.
Proof.
  intros ownid own n backends r0 hist b Hnd Hne Hown Hi Hall Hb s.
  pose proof (mrun_inv ownid own n backends r0 hist Hnd Hne Hown Hi Hall) as [_ H6].
  fold s in H6. rewrite H6.
  pose proof (Forall_last (fun rs => length rs = n) hist r0 Hall) as Hlast. cbn beta in Hlast.
  destruct (assign_exactly_one (reachable ownid own (last hist r0)) backends b
              (reachable_pos ownid own _ ltac:(rewrite Hlast; exact Hown)) Hnd Hne Hb) as [i [_ [Hi1 [Hi2 Hi3]]]].
  exists i. exact (conj Hi1 (conj Hi2 Hi3)).
Qed.

(** a restarted partner (same address, another identifier) is recorded and forces a redistribution *)
Theorem C18_restart_detected :
  forall ownid nid ident vok, nonempty nid = true -> nid <> ident ->
    ping_one ownid false nid (Pong ident vok) = (ident, if str_eqb ident ownid then false else vok, true, false).
Proof. exact ping_one_restart. Qed.

(** non-vacuity: 3 nodes, we are node 0; node 1 up, then node 1 leaves and node 2 joins in the
    same round (same number of nodes online), then node 2 restarts with a new identifier *)
Example C18_membership_example :
  let bs := map (fun n => [n]) [97;98;99]%N in
  let me := [109]%N in
  let h := [[Pong me true; Pong [65]%N true; NoReply];
            [NoReply; NoReply; Pong [66]%N true];
            [NoReply; Garbage; Pong [67]%N true]] in
  init_round me 0 (hd [] h) = true /\
  onl (mrun me bs 3 (firstn 1 h)) = [true; true; false] /\
  onl (mrun me bs 3 (firstn 2 h)) = [true; false; true] /\
  ids (mrun me bs 3 h) = [me; [65]; [67]]%N /\
  mine (node (mrun me bs 3 h)) = [[97]; [98]]%N.
Proof. vm_compute. repeat split. Qed.

Print Assumptions C18_membership_follows_last_round.
Print Assumptions C18_membership_exactly_one_reachable.
Print Assumptions C18_restart_detected.
Print Assumptions C18_membership_example.

(** * Query half: the cluster merge (model C18/ClusterQuery.v, proofs C18/ClusterQueryProofs.v) *)
From LMD Require Import QE.Engine QE.WindowProofs C01.Proofs C04.Proofs C05.Proofs C05.GroupByProofs C18.ClusterQuery C18.ClusterQueryProofs.
From Coq Require Import Sorting.Sorted Permutation.

(** * ======================================================================
    * PROPERTY LEVEL STATEMENTS (to be copied into C18/Props.v)
    * ======================================================================

    [cluster_respond schema cfg me parts rq]: the answer of the cluster whose node
    [i] holds the backends [nth i parts []] when node [me] receives the request;
    [respond_req schema cfg ds rq]: the answer of one lmd holding [ds].
    Hypotheses used: [Permutation (concat parts) ds] (every backend on exactly one
    node, any node order); [0 <= rq_offset rq] (the parser rejects negative offsets);
    [backend_limit rq <> None -> backends_sorted schema cfg ds rq] (only when the
    request has a Limit and asks for the table's default order: every backend keeps
    its rows in that order - the precondition of the early cut-off of C06, which
    both the single node and every cluster node apply). *)

(** A query sent to any node is answered like a single lmd holding all backends:
    same error; data: the same sort keys at every position and the same number of
    rows as the single node's window (Sort/Limit/Offset, any partition), every row
    a distinct matching row of the dataset carrying these keys (ties may be
    resolved differently), the same failed backends; stats: the same lines up to
    their order, the same failed backends. *)
Theorem C18_cluster_answers_like_single :
  forall schema cfg me (parts : list dataset) (ds : dataset) rq,
    Permutation (concat parts) ds -> (0 <= rq_offset rq)%Z ->
    (backend_limit rq <> None -> backends_sorted schema cfg ds rq) ->
    answers_like (spec_hits schema cfg ds rq) (respond_req schema cfg ds rq)
                 (cluster_respond schema cfg me parts rq).
Proof. exact cluster_answers_like_single. Qed.

(** total_count is the number of all matching rows, as on the single node
    (wrapped_json, or no early cut-off) *)
Theorem C18_cluster_total_count :
  forall schema cfg me (parts : list dataset) (ds : dataset) rq,
    rq_stats rq = [] -> Permutation (concat parts) ds ->
    (rq_format rq = FmtWrapped \/ backend_limit rq = None) ->
    resp_total (cluster_respond schema cfg me parts rq) = resp_total (respond_req schema cfg ds rq).
Proof. exact cluster_total_count. Qed.

(** Stats: EXACTLY the lines (values and order) of one lmd holding the backends in
    node order - no hypothesis at all (split invariance of the accumulators) ... *)
Theorem C18_cluster_stats_node_order :
  forall schema cfg me (parts : list dataset) rq,
    rq_stats rq <> [] ->
    resp_lines (cluster_respond schema cfg me parts rq) =
    resp_lines (respond_req schema cfg (concat parts) rq).
Proof. exact cluster_stats_node_order. Qed.

(** ... hence for any partition the lines of the single node up to their order
    (the engine lists group lines in order of first occurrence, lmd sorts them by
    key afterwards), and equal without group-by Columns (one line) *)
Theorem C18_cluster_stats_lines :
  forall schema cfg me (parts : list dataset) (ds : dataset) rq,
    rq_stats rq <> [] -> Permutation (concat parts) ds ->
    Permutation (resp_lines (cluster_respond schema cfg me parts rq))
                (resp_lines (respond_req schema cfg ds rq)) /\
    (rq_columns rq = [] ->
     resp_lines (cluster_respond schema cfg me parts rq) = resp_lines (respond_req schema cfg ds rq)).
Proof. exact cluster_stats_lines. Qed.

(** Data without Sort: exactly the rows (and their order) one lmd with the backends
    in node order returns, for every Limit and Offset ... *)
Theorem C18_cluster_data_unsorted :
  forall schema cfg me (parts : list dataset) rq,
    rq_stats rq = [] -> rq_sort rq = [] -> (0 <= rq_offset rq)%Z ->
    resp_rows (cluster_respond schema cfg me parts rq) =
    resp_rows (respond_req schema cfg (concat parts) rq).
Proof. exact cluster_data_unsorted. Qed.

(** ... and without Sort, Limit and Offset the same multiset of rows as the single
    node for any partition (the single node lists them in backend order, the
    cluster in node order) *)
Theorem C18_cluster_data_plain :
  forall schema cfg me (parts : list dataset) (ds : dataset) rq,
    rq_stats rq = [] -> Permutation (concat parts) ds ->
    rq_sort rq = [] -> rq_limit rq = None -> rq_offset rq = 0%Z ->
    Permutation (resp_rows (cluster_respond schema cfg me parts rq))
                (resp_rows (respond_req schema cfg ds rq)).
Proof. exact cluster_data_plain. Qed.

(** the merged rows against the specification of C06 (the window of all matching
    rows sorted), and the heart of it: top-k of the nodes' top-k's *)
Theorem C18_cluster_window_is_spec_window :
  forall schema cfg (fps : list (ofmt * dataset)) (ds : dataset) rq,
    rq_stats rq = [] -> Permutation (concat (map snd fps)) ds -> (0 <= rq_offset rq)%Z ->
    (backend_limit rq <> None -> backends_sorted schema cfg ds rq) ->
    map h_keys (fst (cluster_data rq (cluster_answers schema cfg fps rq))) =
      map h_keys (fst (data_result_spec schema cfg ds rq)) /\
    length (fst (cluster_data rq (cluster_answers schema cfg fps rq))) =
      length (fst (data_result_spec schema cfg ds rq)).
Proof. exact cluster_data_vs_spec. Qed.

Theorem C18_cluster_topk :
  forall {A} (leb : A -> A -> bool),
    (forall a b, leb a b = true \/ leb b a = true) ->
    (forall a b c, leb a b = true -> leb b c = true -> leb a c = true) ->
    forall (K : nat) (bs hs : list (list A)),
      Forall2 (fun h b => eqv_list leb h (firstn K (isort leb b))) hs bs ->
      eqv_list leb (firstn K (isort leb (concat hs))) (firstn K (isort leb (concat bs))).
Proof. intros A leb Ht Htr. exact (cluster_topk leb Ht Htr). Qed.

(** Filter.ApplyValue on transported accumulators is the engine's merge *)
Theorem C18_cluster_apply_value :
  forall st (xs ys : list rowctx),
    apply_acc (stat_kind st) (acc_rows st xs) (acc_rows st ys) = acc_rows st (xs ++ ys).
Proof.
  intros st xs ys. rewrite apply_acc_merge by apply acc_rows_ok. apply split_invariant.
Qed.

(** the merged rows are sorted by the Sort headers *)
Theorem C18_cluster_sorted :
  forall schema cfg (fps : list (ofmt * dataset)) rq,
    rq_stats rq = [] -> rq_sort rq <> [] ->
    StronglySorted (lebP (hleb rq)) (fst (cluster_data rq (cluster_answers schema cfg fps rq))).
Proof. exact cluster_data_sorted. Qed.

(** non-vacuity *)
Definition C18_cluster_example := cluster_example.

Print Assumptions C18_cluster_answers_like_single.
Print Assumptions C18_cluster_total_count.
Print Assumptions C18_cluster_stats_node_order.
Print Assumptions C18_cluster_stats_lines.
Print Assumptions C18_cluster_data_unsorted.
Print Assumptions C18_cluster_data_plain.
Print Assumptions C18_cluster_window_is_spec_window.
Print Assumptions C18_cluster_topk.
Print Assumptions C18_cluster_apply_value.
Print Assumptions C18_cluster_sorted.
Print Assumptions C18_cluster_example.
