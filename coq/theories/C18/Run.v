(** Executable comparison of the model with observations of the
    implementation (written by the harness into a cases file). *)
From LMD Require Export Base.Str C18.Model.

(** one observation per membership change: nodeBackends per node, the
    backends IsOurBackend accepts, the peers whose update loop runs *)
Definition obs := (list (list str) * list str * list str)%type.

Record case := mkCase {
  c_own : nat; c_backends : list str; c_hist : list (list bool); c_obs : list obs }.

Definition list_eqb {A} (eqb : A -> A -> bool) :=
  fix go (a b : list A) : bool :=
    match a, b with
    | [], [] => true
    | x :: a', y :: b' => eqb x y && go a' b'
    | _, _ => false
    end.

Definition set_eqb (a b : list str) : bool :=
  forallb (fun x => mem_str x b) a && forallb (fun x => mem_str x a) b.

Definition obs_eqb (a b : obs) : bool :=
  let '(p1, m1, r1) := a in
  let '(p2, m2, r2) := b in
  list_eqb (list_eqb str_eqb) p1 p2 && set_eqb m1 m2 && set_eqb r1 r2
  && Nat.eqb (length r1) (length r2).

Fixpoint expected_from (own : nat) (bs : list str) (s : nstate) (hist : list (list bool)) : list obs :=
  match hist with
  | [] => []
  | online :: rest =>
      let s' := step own bs s online in
      (assign online bs, filter (is_our_backend s') bs, running s') :: expected_from own bs s' rest
  end.

Definition expected (c : case) : list obs := expected_from (c_own c) (c_backends c) init_state (c_hist c).

Definition check (c : case) : bool := list_eqb obs_eqb (expected c) (c_obs c).

Fixpoint mismatches_from (i : nat) (cs : list case) : list (nat * list obs) :=
  match cs with
  | [] => []
  | c :: rest => (if check c then [] else [(i, expected c)]) ++ mismatches_from (S i) rest
  end.

Definition mismatches := mismatches_from 0.
