(** Executable comparison of the membership model with observations of the
    real [Nodes.checkNodeAvailability] driven against scripted partner nodes
    (cases file written by the harness, stream `member`). *)
From LMD Require Export Base.Str C18.Model C18.Member C18.Run.

(** per round: getOnlineNodes flags, NodeAddress.id per node, the backends IsOurBackend accepts *)
Definition mobs := (list bool * list str * list str)%type.

Record mcase := mkMCase {
  m_ownid : str; m_backends : list str; m_nodes : nat;
  m_hist : list (list reply); m_obs : list mobs }.

Definition mobs_eqb (a b : mobs) : bool :=
  let '(f1, i1, m1) := a in
  let '(f2, i2, m2) := b in
  bools_eqb f1 f2 && list_eqb str_eqb i1 i2 && set_eqb m1 m2 && Nat.eqb (length m1) (length m2).

Fixpoint mexpected_from (ownid : str) (bs : list str) (s : mstate) (hist : list (list reply)) : list mobs :=
  match hist with
  | [] => []
  | rs :: rest =>
      let s' := round ownid bs s rs in
      (onl s', ids s', filter (is_our_backend (node s')) bs) :: mexpected_from ownid bs s' rest
  end.

Definition mexpected (c : mcase) : list mobs :=
  mexpected_from (m_ownid c) (m_backends c) (minit (m_nodes c)) (m_hist c).

Definition mcheck (c : mcase) : bool := list_eqb mobs_eqb (mexpected c) (m_obs c).

Fixpoint mmismatches_from (i : nat) (cs : list mcase) : list (nat * list mobs) :=
  match cs with
  | [] => []
  | c :: rest => (if mcheck c then [] else [(i, mexpected c)]) ++ mmismatches_from (S i) rest
  end.

Definition mmismatches := mmismatches_from 0.
