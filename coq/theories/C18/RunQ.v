(** C18 cluster stream: the answer of node 0 of a real in-process cluster is compared
    with the model's answer of ONE lmd holding all backends (QE/Run.v [compare], the
    statement of the property) and with the model of the cluster merge
    (C18/ClusterQuery.v [cluster_respond], which C18_cluster_answers_like_single proves
    to answer like the single lmd): the second comparison ties the merge model to
    request.go getDistributedResponse / mergeDistributedResponse. *)
From LMD Require Export QE.Run C18.ClusterQuery.
From LMD Require Import Gen.Schema.
Open Scope N_scope.

Record ccase := mkCC { cc_case : qcase; cc_parts : list (list str) }.   (* backend keys per node, node 0 first *)

(** the backends of one node, in the node's order *)
Definition part_of (ds : dataset) (keys : list str) : dataset :=
  flat_map (fun k => filter (fun b => str_eqb (b_key b) k) ds) keys.

Definition compare_cluster (c : ccase) : nat :=      (* 0 agree/skip, 1 differs from the single lmd, 2 from the merge model *)
  let qc := cc_case c in
  match compare schema qc with
  | Differ => 1%nat
  | Skip => 0%nat
  | Agree =>
      match parse_request schema (q_opt qc) (q_lines qc) with
      | Ok rq =>
          let parts := map (part_of (q_ds qc)) (cc_parts c) in
          match cluster_respond schema (q_cfg qc) 0 parts rq, q_obs qc with
          | RError a, OError b => if N.eqb a b then 0%nat else 2%nat
          | RData rows keys total failed, OData orows ototal ofailed =>
              let pool := spec_hits schema (q_cfg qc) (q_ds qc) rq in
              (* rows_ok reads the keys of the expected hits only *)
              let expd := map (fun k => mkHit k []) keys in
              if rows_ok pool expd orows
                 && match ototal with Some t => Nat.eqb t total | None => true end
                 && match ototal with Some _ => set_eqb failed ofailed | None => true end
              then 0%nat else 2%nat
          | RStats rows failed, OStats orows ofailed => if stats_ok rows orows then 0%nat else 2%nat
          | _, _ => 2%nat
          end
      | Err _ => 0%nat
      end
  end.

Fixpoint cmismatches_from (i : nat) (cs : list ccase) : list (nat * nat) :=
  match cs with
  | [] => []
  | c :: rest => (match compare_cluster c with O => [] | w => [(i, w)] end) ++ cmismatches_from (S i) rest
  end.

Definition mismatches (cs : list ccase) := cmismatches_from 0 cs.
Definition skipped (cs : list ccase) := QE.Run.skipped (map cc_case cs).
