(** C19: export followed by import reproduces the cache.

    Transcribes, of pkg/lmd:
      exporter.go  exportPeers (which tables), exportableColumns / isExportColumn,
                   addTable (a GET with ColumnHeaders through the normal query path)
      importer.go  importReadFile (first row = column names), importData
                   (InsertData over the named columns, no sort), SetReferences
      datarow.go   WriteJSONColumn (the cell encoding), UpdateValues (only local
                   columns of the file are stored)

    The store is C02's (the query engine's [backend]); cells travel as the JSON
    values of C02 ([raw]) and come back through C02's [coerce]. tar/gzip and the
    jsoniter / djson codecs are outside the model (trusted, exercised by the stream). *)
From LMD Require Export C02.Model.
Open Scope Z_scope.

(** ** which columns the exporter writes (exporter.go:266-290) *)
Definition has_lc_suffix (n : str) : bool := match has_suffix_lc n with Some _ => true | None => false end.

Definition exportedb (flags : N) (t : tschema) (c : column) : bool :=
  has_flag flags (c_opt c) &&
  (str_eqb (t_name t) (s "status") ||
   match c_store c with
   | SLocal => negb (has_lc_suffix (c_name c)) && negb (str_eqb (c_name c) (s "custom_variables"))
   | _ => false
   end).

Definition export_cols (flags : N) (t : tschema) : list column := filter (exportedb flags t) (t_cols t).

(** ** JSON cell encoding (DataRow.WriteJSONColumn) *)
Definition enc (v : value) : raw :=
  match v with
  | VStr x => RAtom (AStr x)
  | VInt z => RAtom (ANum (z * 1000))
  | VFloat m => RAtom (ANum m)
  | VStrList l => RList (map AStr l)
  | VIntList l => RList (map (fun z => ANum (z * 1000)) l)
  | VPairs l => RList2 (map (fun p => [AStr (fst p); AStr (snd p)]) l)
  | VRows l => RList2 (map (map AStr) l)
  end.

(** one exported file: table name, header row, data rows *)
Record file := mkFile { f_table : str; f_header : list str; f_rows : list (list raw) }.

Definition export_table (schema : list tschema) (bk : backend) (t : tschema) : option file :=
  match find_data bk (t_name t) with
  | Some td =>
      let cols := export_cols (b_flags bk) t in
      Some (mkFile (t_name t) (map c_name cols)
              (map (fun r => map (fun c => enc (get_col schema bk t td r c)) cols) (td_rows td)))
  | None => None
  end.

Fixpoint somes {A} (l : list (option A)) : list A :=
  match l with [] => [] | Some x :: r => x :: somes r | None :: r => somes r end.

(** a snapshot of one backend: its identity (backends.json) and one file per cached table *)
Record snapshot := mkSnap { sn_key : str; sn_name : str; sn_flags : N; sn_files : list file }.

Definition export (schema : list tschema) (bk : backend) : snapshot :=
  mkSnap (b_key bk) (b_name bk) (b_flags bk)
    (somes (map (export_table schema bk) (filter stored schema))).

(** ** import *)
Definition import_row (cols : list (option column)) (row : list raw) : list value :=
  somes (map (fun p => match fst p with
                       | Some c => match c_store c with SLocal => Some (coerce (c_type c) (snd p)) | _ => None end
                       | None => None
                       end) (combine cols (norm_row row))).

Definition import_file (schema : list tschema) (f : file) : option tdata :=
  match find (fun t => str_eqb (t_name t) (f_table f)) schema with
  | Some t =>
      let cols := map (find_col t) (f_header f) in
      if forallb (fun c => match c with Some _ => true | None => false end) cols then   (* "unknown column" otherwise *)
        Some (mkData (t_name t)
                (map c_name (filter (fun c => match c_store c with SLocal => true | _ => false end) (somes cols)))
                (map (import_row cols) (f_rows f)))
      else None
  | None => None
  end.

Definition import (schema : list tschema) (sn : snapshot) : backend :=
  mkBackend (sn_key sn) (sn_name sn) (sn_flags sn) true [] (somes (map (import_file schema) (sn_files sn))).

(** ** well-formed stores: what [C02.Model.load] and [import] produce *)
Definition clean_str (x : str) : bool := forallb (fun c => negb (bad_byte c)) x.

Definition well_typed (t : dtype) (v : value) : bool :=
  match t, v with
  | (TStr | TStrLarge), VStr x => clean_str x
  | TInt, VInt z => Z.leb (-128) z && Z.leb z 127
  | TInt64, VInt _ => true
  | TFloat, VFloat _ => true
  | TStrList, VStrList l => forallb clean_str l
  | TInt64List, VIntList _ => true
  | TSvcMemberList, VPairs l => forallb (fun p => clean_str (fst p) && clean_str (snd p)) l
  | TIfaceList, VRows l => forallb (forallb clean_str) l
  | _, _ => false
  end.

(** the table's columns are exactly the exported local columns (any order, no
    duplicates), every row has one well-typed cell per column, and nothing the
    exporter writes for the row carries an unescaped control byte *)
Definition is_local (c : column) : bool := match c_store c with SLocal => true | _ => false end.

Definition table_wfb (schema : list tschema) (bk : backend) (t : tschema) (td : tdata) : bool :=
  let ecols := export_cols (b_flags bk) t in
  let lcols := filter is_local ecols in
  str_eqb (td_table td) (t_name t) &&
  forallb (fun n => mem_str n (map c_name lcols)) (td_cols td) &&
  forallb (fun r => Nat.eqb (length r) (length (td_cols td)) &&
                    forallb (fun c => match cell td r (c_name c) with
                                      | Some v => well_typed (c_type c) v
                                      | None => false
                                      end) lcols &&
                    forallb (fun c => negb (raw_dirty (enc (get_col schema bk t td r c)))) ecols) (td_rows td).

Definition store_wfb (schema : list tschema) (bk : backend) : bool :=
  Nat.eqb (length (b_tables bk)) (length (filter stored schema)) &&
  forallb (fun p => table_wfb schema bk (fst p) (snd p)) (combine (filter stored schema) (b_tables bk)).

(** what the theorems need of the (generated) schema: distinct table names,
    distinct column names per cached table *)
Fixpoint nodupb (l : list str) : bool :=
  match l with [] => true | x :: r => negb (mem_str x r) && nodupb r end.

Definition schema_okb (schema : list tschema) : bool :=
  nodupb (map t_name schema) && forallb (fun t => nodupb (map c_name (t_cols t))) (filter stored schema).
