(** C19: proofs. Part 1: the JSON cell encoding round trip and one table. *)
From LMD Require Import C19.Model C02.Proofs.
From Coq Require Import Permutation.
Open Scope Z_scope.

(** ** strings without raw bytes pass the decoder unchanged *)
Lemma lossy_clean x : clean_str x = true -> lossy x = x.
Proof.
  unfold clean_str, lossy. induction x as [|c x IH]; cbn [forallb map]; [reflexivity|].
  intros H; apply andb_true_iff in H as [Hc Hx]. apply negb_true_iff in Hc. rewrite Hc, IH by exact Hx. reflexivity.
Qed.

Lemma clean_not_dirty x : clean_str x = true -> existsb raw_ctl x = false.
Proof.
  unfold clean_str. induction x as [|c x IH]; cbn [forallb existsb]; [reflexivity|].
  intros H; apply andb_true_iff in H as [Hc Hx]. apply negb_true_iff in Hc.
  unfold raw_ctl. unfold bad_byte in Hc. rewrite Hc. cbn [andb orb]. apply IH; exact Hx.
Qed.

Lemma map_lossy_clean l : forallb clean_str l = true -> map lossy l = l.
Proof.
  induction l as [|x l IH]; cbn [forallb map]; [reflexivity|].
  intros H; apply andb_true_iff in H as [Hx Hl]. rewrite lossy_clean, IH by assumption. reflexivity.
Qed.

(** ** the cell encoding round trip: what WriteJSONColumn writes comes back
    through the decoder and the typed coercion as the same value *)
Lemma enc_roundtrip t v : well_typed t v = true -> coerce t (raw_map lossy (enc v)) = v.
Proof.
  destruct t, v as [x|z|m|l|l|l|l]; cbn [well_typed]; try discriminate; intros H;
    cbn [enc raw_map atom_map coerce atom_str atom_int].
  - rewrite lossy_clean by exact H. reflexivity.
  - f_equal. rewrite !map_map. rewrite <- (map_id l) at 2. apply map_ext_in. intros x Hx.
    cbn [atom_map atom_str]. apply lossy_clean. rewrite forallb_forall in H. apply H; exact Hx.
  - rewrite Z.quot_mul by lia. unfold int8. rewrite H. reflexivity.
  - rewrite Z.quot_mul by lia. reflexivity.
  - rewrite !map_map. cbn [atom_map atom_int]. f_equal.
    rewrite <- (map_id l) at 2. apply map_ext. intros z. apply Z.quot_mul. lia.
  - reflexivity.
  - f_equal. rewrite !map_map. rewrite <- (map_id l) at 2. apply map_ext_in. intros [a b] Hin.
    rewrite forallb_forall in H. specialize (H _ Hin). cbn [fst snd] in *. apply andb_true_iff in H as [Ha Hb].
    cbn [map atom_map pair_of atom_str]. rewrite !lossy_clean by assumption. reflexivity.
  - f_equal. rewrite !map_map. rewrite <- (map_id l) at 2. apply map_ext_in. intros r Hin.
    rewrite forallb_forall in H. specialize (H _ Hin). rewrite !map_map. cbn [atom_map atom_text].
    rewrite <- (map_id r) at 2. apply map_ext_in. intros x Hx.
    rewrite forallb_forall in H. rewrite lossy_clean by (apply H; exact Hx). reflexivity.
  - rewrite lossy_clean by exact H. reflexivity.
Qed.

Lemma norm_row_not_dirty row : forallb (fun x => negb (raw_dirty x)) row = true -> norm_row row = map (raw_map lossy) row.
Proof.
  intros H. unfold norm_row.
  assert (E : existsb raw_dirty row = false).
  { induction row as [|x row IH]; cbn [existsb forallb] in *; [reflexivity|].
    apply andb_true_iff in H as [Hx Hr]. apply negb_true_iff in Hx. rewrite Hx. apply IH; exact Hr. }
  rewrite E. reflexivity.
Qed.

(** ** columns by name in a table with distinct column names *)
Lemma find_col_self (t : tschema) c : NoDup (map c_name (t_cols t)) -> In c (t_cols t) -> find_col t (c_name c) = Some c.
Proof.
  unfold find_col. intros Hnd Hin.
  exact (find_some_unique c_name (fun a b => str_eqb a b) (t_cols t) c (fun a b => conj (proj1 (str_eqb_eq a b)) (proj2 (str_eqb_eq a b))) Hnd Hin).
Qed.

Lemma map_find_col t cols : NoDup (map c_name (t_cols t)) -> (forall c, In c cols -> In c (t_cols t)) ->
  map (find_col t) (map c_name cols) = map Some cols.
Proof.
  intros Hnd Hsub. rewrite map_map. apply map_ext_in. intros c Hc. apply find_col_self; auto.
Qed.

Lemma somes_map_some {A} (l : list A) : somes (map Some l) = l.
Proof. induction l as [|x l IH]; cbn [map somes]; [reflexivity|rewrite IH; reflexivity]. Qed.

Lemma forallb_map_some {A} (l : list A) : forallb (fun c => match c with Some _ => true | None => false end) (map Some l) = true.
Proof. induction l; cbn; auto. Qed.

(** one imported row: the coerced cells of the local columns *)
Lemma import_row_spec (cols : list column) (g : column -> raw) :
  import_row (map Some cols) (map g cols) =
  map (fun c => coerce (c_type c) (raw_map (if existsb raw_dirty (map g cols) then repair else lossy) (g c))) (filter is_local cols).
Proof.
  unfold import_row, norm_row. set (f := if existsb raw_dirty (map g cols) then repair else lossy). clearbody f.
  induction cols as [|c cols IH]; cbn [map combine somes filter fst snd]; [reflexivity|].
  unfold is_local at 1. destruct (c_store c); cbn [somes map]; rewrite IH; reflexivity.
Qed.

(** ** one table: export then import keeps every cell *)
Section Table.
  Variables (schema : list tschema) (bk : backend) (t : tschema) (td : tdata).
  Hypothesis Hnd : NoDup (map c_name (t_cols t)).
  Hypothesis Hwf : table_wfb schema bk t td = true.

  Let ecols := export_cols (b_flags bk) t.
  Let lcols := filter is_local ecols.

  Definition exported_row (r : list value) : list raw := map (fun c => enc (get_col schema bk t td r c)) ecols.
  Definition imported_row (r : list value) : list value :=
    import_row (map (find_col t) (map c_name ecols)) (exported_row r).
  Definition imported_table : tdata :=
    mkData (t_name t) (map c_name lcols) (map imported_row (td_rows td)).

  Lemma wf_parts :
    td_table td = t_name t /\
    (forall n, In n (td_cols td) -> In n (map c_name lcols)) /\
    (forall r, In r (td_rows td) ->
       length r = length (td_cols td) /\
       (forall c, In c lcols -> exists v, cell td r (c_name c) = Some v /\ well_typed (c_type c) v = true) /\
       forallb (fun x => negb (raw_dirty x)) (exported_row r) = true).
  Proof.
    unfold table_wfb in Hwf. fold ecols in Hwf. fold lcols in Hwf.
    apply andb_true_iff in Hwf as [H H3]. apply andb_true_iff in H as [H1 H2].
    split; [apply str_eqb_eq; exact H1|]. split.
    - intros n Hn. rewrite forallb_forall in H2. apply mem_str_In, H2, Hn.
    - intros r Hr. rewrite forallb_forall in H3. specialize (H3 _ Hr).
      apply andb_true_iff in H3 as [H3 H6]. apply andb_true_iff in H3 as [H4 H5].
      split; [apply Nat.eqb_eq; exact H4|]. split.
      + intros c Hc. rewrite forallb_forall in H5. specialize (H5 _ Hc).
        destruct (cell td r (c_name c)) as [v|]; [exists v; auto|discriminate].
      + unfold exported_row. rewrite forallb_forall in *. intros x Hx.
        apply in_map_iff in Hx as [c [<- Hc]]. apply H6; exact Hc.
  Qed.

  Lemma ecols_sub c : In c ecols -> In c (t_cols t) /\ has_flag (b_flags bk) (c_opt c) = true.
  Proof.
    unfold ecols, export_cols. intros H. apply filter_In in H as [H1 H2]. split; [exact H1|].
    unfold exportedb in H2. apply andb_true_iff in H2 as [H2 _]. exact H2.
  Qed.

  Lemma lcols_local c : In c lcols -> In c ecols /\ c_store c = SLocal.
  Proof.
    unfold lcols. intros H. apply filter_In in H as [H1 H2]. split; [exact H1|].
    unfold is_local in H2. destruct (c_store c); congruence.
  Qed.

  (** the imported row holds, for every exported local column, the cell of the exporting store *)
  Lemma imported_row_spec r : In r (td_rows td) ->
    imported_row r = map (fun c => match cell td r (c_name c) with Some v => v | None => VStr [] end) lcols.
  Proof.
    intros Hr. destruct wf_parts as (_ & _ & Hrows). destruct (Hrows r Hr) as (_ & Hcells & Hclean).
    unfold imported_row. rewrite (map_find_col t ecols Hnd) by (intros c Hc; apply (ecols_sub c Hc)).
    unfold exported_row in *. rewrite import_row_spec.
    assert (E : existsb raw_dirty (map (fun c => enc (get_col schema bk t td r c)) ecols) = false).
    { clear -Hclean. induction ecols as [|c l IH]; cbn [map existsb forallb] in *; [reflexivity|].
      apply andb_true_iff in Hclean as [H1 H2]. apply negb_true_iff in H1. rewrite H1. apply IH; exact H2. }
    rewrite E. fold lcols. apply map_ext_in. intros c Hc.
    destruct (lcols_local c Hc) as [Hce Hs]. destruct (ecols_sub c Hce) as [_ Hf].
    destruct (Hcells c Hc) as [v [Hv Hwt]]. rewrite Hv.
    assert (Hg : get_col schema bk t td r c = v).
    { unfold get_col, get_out. rewrite Hs, Hf. cbn [negb]. unfold get_own. rewrite Hs. unfold get_local. rewrite Hv. reflexivity. }
    rewrite Hg. apply enc_roundtrip; exact Hwt.
  Qed.

  Lemma lcols_nodup : NoDup (map c_name lcols).
  Proof. unfold lcols, ecols, export_cols. apply NoDup_filter_map, NoDup_filter_map; exact Hnd. Qed.

  (** every cell (by column name) reads the same in the imported table *)
  Lemma imported_cell r n : In r (td_rows td) -> cell imported_table (imported_row r) n = cell td r n.
  Proof.
    intros Hr. destruct wf_parts as (_ & Hsub & Hrows). destruct (Hrows r Hr) as (Hlen & Hcells & _).
    rewrite (imported_row_spec r Hr). unfold cell at 1. cbn [imported_table td_cols].
    destruct (index_of n (map c_name lcols)) as [j|] eqn:Ej.
    - pose proof (index_of_lt _ _ _ Ej) as Hlt. rewrite map_length in Hlt.
      destruct (nth_error lcols j) as [c|] eqn:Ec; [|apply nth_error_None in Ec; lia].
      rewrite (map_nth_error _ _ _ Ec).
      assert (Hn : c_name c = n).
      { pose proof (index_of_nth lcols j c lcols_nodup Ec) as Hi.
        destruct (str_eqb_spec (c_name c) n) as [E|N]; [exact E|exfalso].
        clear -Ej Ec N. revert j Ej Ec. induction lcols as [|d l IH]; intros j Ej Ec; [destruct j; discriminate|].
        cbn [map index_of] in Ej. destruct (str_eqb_spec (c_name d) n) as [E|Nd].
        - inversion Ej; subst j. cbn [nth_error] in Ec. inversion Ec; subst. contradiction.
        - destruct (index_of n (map c_name l)) as [k|] eqn:Ek; [|discriminate]. inversion Ej; subst j.
          cbn [nth_error] in Ec. apply (IH k eq_refl Ec). }
      destruct (Hcells c (nth_error_In _ _ Ec)) as [v [Hv _]]. rewrite <- Hn, Hv. reflexivity.
    - apply index_of_none in Ej. unfold cell.
      destruct (index_of n (td_cols td)) as [i|] eqn:Ei; [|reflexivity].
      exfalso. apply Ej, Hsub. destruct (index_of n (td_cols td)) eqn:E2; [|discriminate].
      apply Decidable.not_not; [unfold Decidable.decidable; destruct (in_dec str_eq_dec n (td_cols td)); auto|].
      intros Hnot. apply index_of_none in Hnot. congruence.
  Qed.
End Table.
