(** C19: proofs. Part 2: what a client reads depends on a store only through
    its cells by column name; export then import keeps them. *)
From LMD Require Import C19.Model C02.Proofs C19.Proofs.
From Coq Require Import Permutation.
Open Scope Z_scope.

Definition cells_eq (td td' : tdata) (r r' : list value) : Prop := forall n, cell td r n = cell td' r' n.
Definition sim_td (td td' : tdata) : Prop :=
  td_table td = td_table td' /\ Forall2 (cells_eq td td') (td_rows td) (td_rows td').
Definition sim (bk bk' : backend) : Prop :=
  b_key bk = b_key bk' /\ b_name bk = b_name bk' /\ b_flags bk = b_flags bk' /\
  Forall2 sim_td (b_tables bk) (b_tables bk').

Definition orel {A B} (R : A -> B -> Prop) (x : option A) (y : option B) : Prop :=
  match x, y with Some a, Some b => R a b | None, None => True | _, _ => False end.

Lemma Forall2_find {A B} (R : A -> B -> Prop) (p : A -> bool) (q : B -> bool) l l' :
  Forall2 R l l' -> (forall a b, R a b -> p a = q b) -> orel R (find p l) (find q l').
Proof.
  intros HF Hpq. induction HF as [|a b l l' Hab _ IH]; cbn [find orel]; [exact I|].
  rewrite <- (Hpq a b Hab). destruct (p a); [exact Hab|exact IH].
Qed.

Lemma sim_find_data bk bk' n : sim bk bk' -> orel sim_td (find_data bk n) (find_data bk' n).
Proof.
  intros (_ & _ & _ & HF). unfold find_data. apply Forall2_find; [exact HF|].
  intros a b [Hn _]. rewrite Hn. reflexivity.
Qed.

Section Rows.
  Variables (td td' : tdata) (r r' : list value).
  Hypothesis Hc : cells_eq td td' r r'.

  Lemma key_of_eq cols : key_of td r cols = key_of td' r' cols.
  Proof. unfold key_of. apply map_ext. intros c. rewrite (Hc c). reflexivity. Qed.

  Lemma cell_str_eq n : cell_str td r n = cell_str td' r' n.
  Proof. unfold cell_str. rewrite (Hc n). reflexivity. Qed.

  Lemma cell_int_eq n : cell_int td r n = cell_int td' r' n.
  Proof. unfold cell_int. rewrite (Hc n). reflexivity. Qed.

  Lemma get_local_eq c : get_local td r c = get_local td' r' c.
  Proof.
    unfold get_local. rewrite (Hc (c_name c)). destruct (cell td' r' (c_name c)); [reflexivity|].
    destruct (has_suffix_lc (c_name c)) as [base|]; [|reflexivity]. rewrite (Hc base). reflexivity.
  Qed.

  Lemma get_virtual_eq bk bk' c : b_key bk = b_key bk' -> b_name bk = b_name bk' ->
    get_virtual bk td r c = get_virtual bk' td' r' c.
  Proof.
    intros Hk Hn. unfold get_virtual. rewrite Hk, Hn.
    rewrite (Hc (s "custom_variable_names")), (Hc (s "custom_variable_values")), (Hc (s "long_plugin_output")),
            (Hc (s "state")), (Hc (s "num_services")). reflexivity.
  Qed.

  Lemma get_own_eq bk bk' c : b_key bk = b_key bk' -> b_name bk = b_name bk' ->
    get_own bk td r c = get_own bk' td' r' c.
  Proof.
    intros Hk Hn. unfold get_own. destruct (c_store c); [apply get_local_eq|reflexivity|apply get_virtual_eq; assumption].
  Qed.
End Rows.

Definition ref_rel (x y : tschema * tdata * list value) : Prop :=
  let '(rt, rtd, rr) := x in let '(rt', rtd', rr') := y in
  rt = rt' /\ sim_td rtd rtd' /\ cells_eq rtd rtd' rr rr'.

Lemma find_ref_eq schema bk bk' t td td' r r' n :
  sim bk bk' -> cells_eq td td' r r' ->
  orel ref_rel (find_ref schema bk t td r n) (find_ref schema bk' t td' r' n).
Proof.
  intros Hs Hc. unfold find_ref.
  destruct (find (fun x => str_eqb (fst x) n) (t_refs t)) as [[rn keycols]|]; [|exact I].
  destruct (find_table schema n) as [rt|]; [|exact I].
  pose proof (sim_find_data bk bk' n Hs) as Hfd.
  destruct (find_data bk n) as [rtd|], (find_data bk' n) as [rtd'|]; cbn [orel] in Hfd; try contradiction; [|exact I].
  rewrite (key_of_eq td td' r r' Hc keycols).
  destruct Hfd as [Hn HF].
  pose proof (Forall2_find (cells_eq rtd rtd')
                (fun rr => if list_eq_dec (list_eq_dec N.eq_dec) (key_of rtd rr (t_pk rt)) (key_of td' r' keycols) then true else false)
                (fun rr => if list_eq_dec (list_eq_dec N.eq_dec) (key_of rtd' rr (t_pk rt)) (key_of td' r' keycols) then true else false)
                _ _ HF) as Hfind.
  assert (Hpq : forall a b, cells_eq rtd rtd' a b ->
            (if list_eq_dec (list_eq_dec N.eq_dec) (key_of rtd a (t_pk rt)) (key_of td' r' keycols) then true else false) =
            (if list_eq_dec (list_eq_dec N.eq_dec) (key_of rtd' b (t_pk rt)) (key_of td' r' keycols) then true else false)).
  { intros a b Hab. rewrite (key_of_eq rtd rtd' a b Hab). reflexivity. }
  specialize (Hfind Hpq).
  destruct (find _ (td_rows rtd)) as [rr|], (find _ (td_rows rtd')) as [rr'|]; cbn [orel] in *; try contradiction; [|exact I].
  repeat split; assumption.
Qed.

Lemma get_out_eq schema bk bk' t td td' r r' c :
  sim bk bk' -> cells_eq td td' r r' -> get_out schema bk t td r c = get_out schema bk' t td' r' c.
Proof.
  intros Hs Hc. pose proof Hs as (Hk & Hn & Hf & _). unfold get_out. rewrite Hf.
  destruct (negb (has_flag (b_flags bk') (c_opt c))); [reflexivity|].
  destruct (c_store c) eqn:Es; try (unfold get_own; rewrite Es; first [apply get_local_eq; exact Hc | apply get_virtual_eq; assumption]).
  destruct (c_ref c) as [[rtn rcn]|].
  - pose proof (find_ref_eq schema bk bk' t td td' r r' rtn Hs Hc) as Hfr.
    destruct (find_ref schema bk t td r rtn) as [[[rt rtd] rr]|], (find_ref schema bk' t td' r' rtn) as [[[rt' rtd'] rr']|];
      cbn [orel ref_rel] in Hfr; try contradiction; [|reflexivity].
    destruct Hfr as (<- & _ & Hcc). destruct (find_col rt rcn) as [rc|]; [|reflexivity].
    destruct (negb (has_flag (b_flags bk') (c_opt rc))); [reflexivity|]. apply get_own_eq; assumption.
  - unfold get_own. rewrite Es. reflexivity.
Qed.

Lemma members_eq bk bk' t td td' r r' :
  sim bk bk' -> cells_eq td td' r r' -> members_with_state bk t td r = members_with_state bk' t td' r'.
Proof.
  intros Hs Hc. unfold members_with_state. rewrite (Hc (s "members")).
  destruct (str_eqb (t_name t) (s "hostgroups")).
  - pose proof (sim_find_data bk bk' (s "hosts") Hs) as Hfd.
    destruct (find_data bk (s "hosts")) as [h|], (find_data bk' (s "hosts")) as [h'|]; cbn [orel] in Hfd; try contradiction; [|reflexivity].
    destruct Hfd as [_ HF]. f_equal. apply map_ext. intros m.
    pose proof (Forall2_find (cells_eq h h') (fun hr => str_eqb (cell_str h hr (s "name")) m)
                  (fun hr => str_eqb (cell_str h' hr (s "name")) m) _ _ HF) as Hfind.
    assert (Hpq : forall a b, cells_eq h h' a b -> str_eqb (cell_str h a (s "name")) m = str_eqb (cell_str h' b (s "name")) m).
    { intros a b Hab. rewrite (cell_str_eq h h' a b Hab). reflexivity. }
    specialize (Hfind Hpq).
    destruct (find _ (td_rows h)) as [a|], (find _ (td_rows h')) as [b|]; cbn [orel] in Hfind; try contradiction; [|reflexivity].
    rewrite !(cell_int_eq h h' a b Hfind). reflexivity.
  - pose proof (sim_find_data bk bk' (s "services") Hs) as Hfd.
    destruct (find_data bk (s "services")) as [h|], (find_data bk' (s "services")) as [h'|]; cbn [orel] in Hfd; try contradiction; [|reflexivity].
    destruct Hfd as [_ HF]. f_equal. apply map_ext. intros m.
    pose proof (Forall2_find (cells_eq h h')
                  (fun sr => str_eqb (cell_str h sr (s "host_name")) (fst m) && str_eqb (cell_str h sr (s "description")) (snd m))
                  (fun sr => str_eqb (cell_str h' sr (s "host_name")) (fst m) && str_eqb (cell_str h' sr (s "description")) (snd m)) _ _ HF) as Hfind.
    assert (Hpq : forall a b, cells_eq h h' a b ->
              str_eqb (cell_str h a (s "host_name")) (fst m) && str_eqb (cell_str h a (s "description")) (snd m) =
              str_eqb (cell_str h' b (s "host_name")) (fst m) && str_eqb (cell_str h' b (s "description")) (snd m)).
    { intros a b Hab. rewrite !(cell_str_eq h h' a b Hab). reflexivity. }
    specialize (Hfind Hpq).
    destruct (find _ (td_rows h)) as [a|], (find _ (td_rows h')) as [b|]; cbn [orel] in Hfind; try contradiction; [|reflexivity].
    rewrite !(cell_int_eq h h' a b Hfind). reflexivity.
Qed.

Lemma program_start_eq bk bk' : sim bk bk' -> program_start bk = program_start bk'.
Proof.
  intros Hs. unfold program_start. pose proof (sim_find_data bk bk' (s "status") Hs) as Hfd.
  destruct (find_data bk (s "status")) as [h|], (find_data bk' (s "status")) as [h'|]; cbn [orel] in Hfd; try contradiction; [|reflexivity].
  destruct Hfd as [_ HF]. destruct HF as [|a b l l' Hab _]; [reflexivity|]. apply cell_int_eq; exact Hab.
Qed.

(** a client reads the same value from two stores that agree cell by cell *)
Lemma get_col_eq schema bk bk' t td td' r r' c :
  sim bk bk' -> cells_eq td td' r r' -> get_col schema bk t td r c = get_col schema bk' t td' r' c.
Proof.
  intros Hs Hc. unfold get_col. destruct (c_store c); try (apply get_out_eq; assumption).
  destruct (str_eqb (c_name c) (s "members_with_state")); [apply members_eq; assumption|].
  destruct (str_eqb (c_name c) (s "last_state_change_order")); [|apply get_out_eq; assumption].
  rewrite (cell_int_eq td td' r r' Hc), (program_start_eq bk bk' Hs). reflexivity.
Qed.

Lemma query_table_eq schema bk bk' t cols : sim bk bk' -> query_table schema bk t cols = query_table schema bk' t cols.
Proof.
  intros Hs. unfold query_table. pose proof (sim_find_data bk bk' (t_name t) Hs) as Hfd.
  destruct (find_data bk (t_name t)) as [td|], (find_data bk' (t_name t)) as [td'|]; cbn [orel] in Hfd; try contradiction; [|reflexivity].
  destruct Hfd as [_ HF]. induction HF as [|r r' l l' Hrr _ IH]; cbn [map]; [reflexivity|].
  rewrite IH. f_equal. apply map_ext. intros c. apply get_col_eq; assumption.
Qed.

Lemma query_all_eq schema bk bk' : sim bk bk' -> query_all schema bk = query_all schema bk'.
Proof.
  intros Hs. unfold query_all. apply map_ext. intros t. rewrite (query_table_eq schema bk bk' t _ Hs). reflexivity.
Qed.

(** ** the whole backend *)
Lemma nodupb_NoDup l : nodupb l = true -> NoDup l.
Proof.
  induction l as [|x l IH]; cbn [nodupb]; intros H; [constructor|].
  apply andb_true_iff in H as [Hx Hl]. constructor; [|apply IH; exact Hl].
  intros Hin. apply mem_str_In in Hin. rewrite Hin in Hx. discriminate.
Qed.

Lemma somes_map_in {A B} (f : A -> option B) (g : A -> B) l :
  (forall a, In a l -> f a = Some (g a)) -> somes (map f l) = map g l.
Proof.
  induction l as [|a l IH]; intros H; cbn [map somes]; [reflexivity|].
  rewrite (H a (or_introl eq_refl)). rewrite IH; [reflexivity|]. intros b Hb. apply H. right; exact Hb.
Qed.

Lemma find_table_by_name (schema : list tschema) t :
  NoDup (map t_name schema) -> In t schema -> find (fun u => str_eqb (t_name u) (t_name t)) schema = Some t.
Proof.
  intros Hnd Hin.
  exact (find_some_unique t_name (fun a b => str_eqb a b) schema t (fun a b => conj (proj1 (str_eqb_eq a b)) (proj2 (str_eqb_eq a b))) Hnd Hin).
Qed.

Lemma find_data_pairs (ts : list tschema) : forall (tds : list tdata) t td,
  NoDup (map t_name ts) -> length tds = length ts ->
  (forall p, In p (combine ts tds) -> td_table (snd p) = t_name (fst p)) ->
  In (t, td) (combine ts tds) ->
  find (fun x => str_eqb (td_table x) (t_name t)) tds = Some td.
Proof.
  induction ts as [|u ts IH]; intros [|ud tds] t td Hnd Hlen Hnames Hin; cbn [combine] in *; try contradiction; try discriminate.
  cbn [map] in Hnd; inversion Hnd as [|? ? Hu Hnd']; subst. cbn [find].
  pose proof (Hnames (u, ud) (or_introl eq_refl)) as Hud; cbn [fst snd] in Hud.
  destruct Hin as [E|Hin].
  - inversion E; subst. rewrite Hud, str_eqb_refl. reflexivity.
  - destruct (str_eqb_spec (td_table ud) (t_name t)) as [E|_].
    + exfalso; apply Hu. rewrite <- Hud, E. apply in_map. eapply in_combine_l; exact Hin.
    + apply IH; [exact Hnd'|cbn [length] in Hlen; lia| |exact Hin].
      intros p Hp. apply Hnames. right; exact Hp.
Qed.

Lemma fst_combine {A B} (l1 : list A) : forall (l2 : list B), length l1 = length l2 -> map fst (combine l1 l2) = l1.
Proof.
  induction l1 as [|a l1 IH]; intros [|b l2] H; cbn [combine map length] in *; try discriminate; [reflexivity|].
  rewrite IH by lia. reflexivity.
Qed.

Lemma snd_combine {A B} (l1 : list A) : forall (l2 : list B), length l1 = length l2 -> map snd (combine l1 l2) = l2.
Proof.
  induction l1 as [|a l1 IH]; intros [|b l2] H; cbn [combine map length] in *; try discriminate; [reflexivity|].
  rewrite IH by lia. reflexivity.
Qed.

Lemma export_import_sim schema bk :
  schema_okb schema = true -> store_wfb schema bk = true -> sim bk (import schema (export schema bk)).
Proof.
  intros Hok Hwf. unfold schema_okb in Hok. apply andb_true_iff in Hok as [Hn1 Hn2].
  apply nodupb_NoDup in Hn1. rewrite forallb_forall in Hn2.
  unfold store_wfb in Hwf. apply andb_true_iff in Hwf as [Hlen Hall]. apply Nat.eqb_eq in Hlen.
  rewrite forallb_forall in Hall.
  set (ts := filter stored schema) in *.
  assert (Hnts : NoDup (map t_name ts)) by (apply NoDup_filter_map; exact Hn1).
  assert (Hnames : forall p, In p (combine ts (b_tables bk)) -> td_table (snd p) = t_name (fst p)).
  { intros p Hp. specialize (Hall p Hp). unfold table_wfb in Hall.
    apply andb_true_iff in Hall as [Hall _]. apply andb_true_iff in Hall as [Hall _]. apply str_eqb_eq; exact Hall. }
  (* the exported files and the imported tables, pair by pair *)
  set (pairs := combine ts (b_tables bk)).
  assert (Hts : ts = map fst pairs) by (unfold pairs; rewrite fst_combine; [reflexivity|lia]).
  assert (Htds : b_tables bk = map snd pairs) by (unfold pairs; rewrite snd_combine; [reflexivity|lia]).
  set (file_of := fun p : tschema * tdata =>
         mkFile (t_name (fst p)) (map c_name (export_cols (b_flags bk) (fst p)))
                (map (exported_row schema bk (fst p) (snd p)) (td_rows (snd p)))).
  assert (Hexp : sn_files (export schema bk) = map file_of pairs).
  { unfold export; cbn [sn_files]. fold ts. rewrite Hts, map_map. apply somes_map_in. intros p Hp.
    unfold export_table. destruct p as [t td]; cbn [fst snd].
    unfold find_data. rewrite (find_data_pairs ts (b_tables bk) t td Hnts Hlen Hnames Hp). reflexivity. }
  assert (Himp : b_tables (import schema (export schema bk)) =
                 map (fun p => imported_table schema bk (fst p) (snd p)) pairs).
  { unfold import; cbn [b_tables]. rewrite Hexp, map_map. apply somes_map_in. intros p Hp.
    destruct p as [t td]. unfold import_file, file_of; cbn [fst snd f_table f_header f_rows].
    assert (Ht : In t ts) by (eapply in_combine_l; exact Hp).
    assert (Hts' : In t schema) by (unfold ts in Ht; apply filter_In in Ht as [Ht _]; exact Ht).
    rewrite (find_table_by_name schema t Hn1 Hts').
    pose proof (nodupb_NoDup _ (Hn2 t Ht)) as Hnc.
    assert (Hsub : forall c, In c (export_cols (b_flags bk) t) -> In c (t_cols t)).
    { intros c Hc. unfold export_cols in Hc. apply filter_In in Hc as [Hc _]. exact Hc. }
    rewrite (map_find_col t _ Hnc Hsub), forallb_map_some, somes_map_some.
    unfold imported_table, is_local. rewrite map_map. f_equal. f_equal. apply map_ext. intros r.
    unfold imported_row. rewrite (map_find_col t _ Hnc Hsub). reflexivity. }
  unfold sim. repeat split; try reflexivity.
  rewrite Himp, Htds. clear Himp Hexp.
  assert (Hp : forall p, In p pairs -> sim_td (snd p) (imported_table schema bk (fst p) (snd p))).
  { intros [t td] Hp; cbn [fst snd]. pose proof (Hall _ Hp) as Hwft; cbn [fst snd] in Hwft.
    assert (Ht : In t ts) by (eapply in_combine_l; exact Hp).
    pose proof (nodupb_NoDup _ (Hn2 t Ht)) as Hnc.
    split; [cbn [imported_table td_table]; apply (Hnames _ Hp)|].
    cbn [imported_table td_rows].
    assert (Hgen : forall rows, (forall r, In r rows -> In r (td_rows td)) ->
              Forall2 (cells_eq td (imported_table schema bk t td)) rows (map (imported_row schema bk t td) rows)).
    { induction rows as [|r rows IH]; intros Hin; cbn [map]; constructor.
      - intros n. symmetry. apply imported_cell; [exact Hnc|exact Hwft|apply Hin; left; reflexivity].
      - apply IH. intros x Hx. apply Hin. right; exact Hx. }
    apply Hgen. auto. }
  clear -Hp. induction pairs as [|p l IH]; cbn [map]; constructor.
  - apply Hp. left; reflexivity.
  - apply IH. intros q Hq. apply Hp. right; exact Hq.
Qed.
