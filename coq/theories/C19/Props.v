(** C19: export followed by import reproduces the cache.
    Only statements, each closed by [exact] / [apply] of a lemma (proofs in
    Proofs.v, Proofs2.v) or by computation over the GENERATED files
    Gen/Schema.v (Objects.Tables) and Gen/Export.v (the graph of
    Exporter.isExportColumn), which are rewritten from the code on every run.

    [export schema bk] is the snapshot the exporter writes for one backend
    (per cached table the header row of exportable columns and the rows as the
    normal query path renders them), [import schema sn] the store the importer
    builds from it (cells back through the decoder and the typed coercions of
    C02, only local columns kept, rows in file order). [query_table] /
    [get_col] is what a client reads (C02.Model). *)
From LMD Require Import C19.Model C19.Proofs C19.Proofs2 C19.Run.
From LMD Require Import Gen.Schema Gen.Export.
Open Scope N_scope.

Definition all_flags : N := 4294967295.

(** *** generated obligation 1: the model's export rule IS isExportColumn *)
Definition triple_eqb (a b : str * bool * bool) : bool :=
  str_eqb (fst (fst a)) (fst (fst b)) && Bool.eqb (snd (fst a)) (snd (fst b)) && Bool.eqb (snd a) (snd b).

Definition export_rule_ok : bool :=
  forallb (fun t =>
    match find (fun e => str_eqb (fst e) (t_name t)) export_graph with
    | Some e => list_eqb triple_eqb (map (fun c => (c_name c, exportedb all_flags t c, exportedb 0 t c)) (t_cols t)) (snd e)
    | None => false
    end) schema.

Theorem C19_export_rule : export_rule_ok = true.
Proof. vm_compute. reflexivity. Qed.

(** *** generated obligation 2: every column a query can observe on a cached
    table is exported, or recomputed by the importing instance from exported
    columns. Not observable (state of the answering lmd process, not cached
    backend data): the instance columns below. A NEW virtual column, a change
    of isExportColumn or of a column's storage makes this fail. *)
Definition instance_col (n : str) : bool :=
  mem_str n [s "lmd_last_cache_update"; s "localtime"; s "peer_section"; s "peer_addr"; s "peer_status"; s "peer_bytes_send";
             s "peer_bytes_received"; s "peer_queries"; s "peer_last_error"; s "peer_last_update"; s "peer_last_online";
             s "peer_response_time"; s "configtool"; s "thruk"].

(** inputs of the virtual columns: (table, column); table [] = the row's own table *)
Definition virtual_inputs (n : str) : option (list (str * str)) :=
  if str_eqb n (s "peer_key") || str_eqb n (s "peer_name") then Some []                  (* backends.json *)
  else if str_eqb n (s "custom_variables") then Some [([], s "custom_variable_names"); ([], s "custom_variable_values")]
  else if str_eqb n (s "has_long_plugin_output") then Some [([], s "long_plugin_output")]
  else if str_eqb n (s "state_order") then Some [([], s "state")]
  else if str_eqb n (s "total_services") then Some [([], s "num_services")]
  else if str_eqb n (s "last_state_change_order") then Some [([], s "last_state_change"); (s "status", s "program_start")]
  else if str_eqb n (s "members_with_state") then
    Some [([], s "members"); (s "hosts", s "state"); (s "hosts", s "has_been_checked"); (s "services", s "state"); (s "services", s "has_been_checked")]
  else if str_eqb n (s "services_with_state") || str_eqb n (s "services_with_info") then
    Some [([], s "services"); (s "services", s "state"); (s "services", s "has_been_checked"); (s "services", s "plugin_output")]
  else if str_eqb n (s "comments_with_info") then
    Some [([], s "comments"); (s "comments", s "author"); (s "comments", s "comment"); (s "comments", s "entry_time");
          (s "comments", s "entry_type"); (s "comments", s "expires"); (s "comments", s "expire_time")]
  else if str_eqb n (s "downtimes_with_info") then
    Some [([], s "downtimes"); (s "downtimes", s "author"); (s "downtimes", s "comment"); (s "downtimes", s "entry_time");
          (s "downtimes", s "start_time"); (s "downtimes", s "end_time"); (s "downtimes", s "fixed"); (s "downtimes", s "duration");
          (s "downtimes", s "triggered_by")]
  else None.

Definition col_exported (tn cn : str) : bool :=
  match find_table schema tn with
  | Some t => match find_col t cn with Some c => exportedb all_flags t c | None => false end
  | None => false
  end.

Definition own_ok (t : tschema) (c : column) : bool :=
  exportedb all_flags t c ||
  match c_store c with
  | SLocal => match has_suffix_lc (c_name c) with
              | Some base => col_exported (t_name t) base      (* setLowerCaseCache *)
              | None => false
              end
  | SVirtual => match virtual_inputs (c_name c) with
                | Some ins => forallb (fun i => col_exported (match fst i with [] => t_name t | tn => tn end) (snd i)) ins
                | None => false
                end
  | SRef => false
  end.

Definition observable_ok (t : tschema) (c : column) : bool :=
  instance_col (c_name c) ||
  match c_store c, c_ref c with
  | SRef, Some (rtn, rcn) =>
      match find (fun x => str_eqb (fst x) rtn) (t_refs t), find_table schema rtn with
      | Some (_, keycols), Some rt =>
          forallb (col_exported (t_name t)) keycols &&
          match find_col rt rcn with Some rc => instance_col (c_name rc) || own_ok rt rc | None => false end
      | _, _ => false
      end
  | SRef, None => false
  | _, _ => own_ok t c
  end.

Definition unobservable (t : tschema) : list str :=
  map c_name (filter (fun c => negb (observable_ok t c)) (t_cols t)).

Theorem C19_observable_exported_or_recomputed :
  forallb (fun t => forallb (observable_ok t) (t_cols t)) (filter stored schema) = true.
Proof. vm_compute. reflexivity. Qed.

(** *** obligations of the round trip theorem on the generated schema *)
Theorem C19_schema_obligations : schema_okb schema = true.
Proof. vm_compute. reflexivity. Qed.

(** the JSON cell encoding round trip: every well typed cell comes back unchanged *)
Theorem C19_cell_roundtrip :
  forall (t : dtype) (v : value), well_typed t v = true -> coerce t (raw_map lossy (enc v)) = v.
Proof. exact enc_roundtrip. Qed.

(** C19_roundtrip: for every well-formed store (what InitAllTables or an import
    builds: [store_wfb], checked by the stream on every loaded store) the
    importing instance answers exactly like the exporting one: same backend
    identity and flags, and for EVERY table and EVERY list of columns - local,
    lower case shadows, references, virtual - the same rows with the same
    values in the same order *)
Theorem C19_roundtrip :
  forall (sch : list tschema) (bk : backend),
    schema_okb sch = true -> store_wfb sch bk = true ->
    let bk' := import sch (export sch bk) in
    b_key bk' = b_key bk /\ b_name bk' = b_name bk /\ b_flags bk' = b_flags bk /\
    (forall t cols, query_table sch bk' t cols = query_table sch bk t cols) /\
    query_all sch bk' = query_all sch bk.
Proof.
  intros sch bk Hs Hw bk'. pose proof (export_import_sim sch bk Hs Hw) as Hsim.
  repeat split.
  - intros t cols. symmetry. apply query_table_eq; exact Hsim.
  - symmetry. apply query_all_eq; exact Hsim.
Qed.

(** ... because it agrees with the exporting store cell by cell (by column
    name), and a client's view depends on a store only through those *)
Theorem C19_roundtrip_cells :
  forall (sch : list tschema) (bk : backend),
    schema_okb sch = true -> store_wfb sch bk = true -> sim bk (import sch (export sch bk)).
Proof. exact export_import_sim. Qed.

Theorem C19_view_depends_on_cells :
  forall sch bk bk' t td td' r r' c,
    sim bk bk' -> cells_eq td td' r r' -> get_col sch bk t td r c = get_col sch bk' t td' r' c.
Proof. exact get_col_eq. Qed.

(** non-vacuity: a loaded store (two hosts out of order, a comment) is well
    formed, exports the expected header, and reads the same after the round trip *)
Example C19_example :
  let fl := 128 in
  let hc := initial_cols fl t_hosts in
  let cc := initial_cols fl t_comments in
  let sc := initial_cols fl t_status in
  let N1 (z : Z) := RAtom (ANum (z * 1000)%Z) in
  let S1 x := RAtom (AStr (s x)) in
  let rs := [mkReply (s "status") [row_of sc [(s "program_start", N1 1700000000%Z)]];
             mkReply (s "hosts") [row_of hc [(s "name", S1 "zeta"); (s "state", N1 2%Z); (s "alias", S1 "Z")];
                                  row_of hc [(s "name", S1 "Alpha"); (s "contacts", RList [AStr (s "a")])]];
             mkReply (s "comments") [row_of cc [(s "id", N1 7%Z); (s "host_name", S1 "Alpha"); (s "author", S1 "me")]]] in
  match load isort schema (s "k") (s "n") fl rs with
  | Loaded bk =>
      store_wfb schema bk = true /\
      let bk' := import schema (export schema bk) in
      query_table schema bk' t_hosts (qcolumns t_hosts [s "name"; s "name_lc"; s "comments"; s "last_state_change_order"; s "obsess"; s "realm"])
      = [[VStr (s "Alpha"); VStr (s "alpha"); VIntList [7%Z]; VInt 1700000000; VInt 0; VStr []];
         [VStr (s "zeta"); VStr (s "zeta"); VIntList []; VInt 1700000000; VInt 0; VStr []]] /\
      query_table schema bk' t_comments (qcolumns t_comments [s "id"; s "host_alias"; s "host_state"; s "service_state"])
      = [[VInt 7; VStr []; VInt 0; VInt (-1)]] /\
      query_all schema bk' = query_all schema bk
  | Failed _ => False
  end.
Proof. vm_compute. repeat split. Qed.

Print Assumptions C19_export_rule.
Print Assumptions C19_observable_exported_or_recomputed.
Print Assumptions C19_schema_obligations.
Print Assumptions C19_cell_roundtrip.
Print Assumptions C19_roundtrip.
Print Assumptions C19_roundtrip_cells.
Print Assumptions C19_view_depends_on_cells.
