(** C19: executable comparison. Per backend of a case the harness reports what
    the exporting daemon's peer was delivered during InitAllTables (as in C02),
    the header rows of the tarball the real Exporter wrote, and the answers of
    the IMPORTING daemon to a GET with all modelled columns on every cached
    table; per case whether the exporting and the importing daemon answered all
    generated queries identically. *)
From LMD Require Export C19.Model C02.Run.
From LMD Require Import Gen.Schema.
Open Scope N_scope.

Record bcase := mkB {
  bc_key : str; bc_name : str;
  bc_flags : N;                          (* flags the flavour should produce *)
  bc_oflagsA : N; bc_oflagsB : N;        (* Peer.flags of the exporting / importing daemon *)
  bc_tables : list tcase;                (* delivered rows (A) and read back answers (B) *)
  bc_headers : list (str * list str) }.  (* table, header row of sites/<id>/<table>.json *)

Record scase := mkS { sc_err : bool; sc_backends : list bcase; sc_agree : list bool }.

Definition as_c02 (b : bcase) : case := mkCase (bc_key b) (bc_name b) (bc_flags b) (bc_flags b) 0 (bc_tables b).

Definition header_of (b : bcase) (t : tschema) : option (list str) :=
  match find (fun p => str_eqb (fst p) (t_name t)) (bc_headers b) with Some p => Some (snd p) | None => None end.

(** verdict codes: 0 agree; 1 export/import failed; 2 the two daemons answered a query
    differently; 3 flags not preserved; 4 the exporting store is not what C02's model
    loads / not well-formed; 5 header rows differ from the model's export; 6 the
    importing daemon's answers differ from the model's imported store *)
Definition check_backend (b : bcase) : N :=
  if negb (N.eqb (bc_flags b) (bc_oflagsA b) && N.eqb (bc_flags b) (bc_oflagsB b)) then 3 else
  match load isort schema (bc_key b) (bc_name b) (bc_flags b) (replies_of (as_c02 b)) with
  | Failed _ => 4
  | Loaded bkA =>
      if negb (store_wfb schema bkA) then 4 else
      let tabs := filter stored schema in
      if negb (forallb (fun t => match header_of b t with
                                 | Some h => list_eqb str_eqb h (map c_name (export_cols (bc_flags b) t))
                                 | None => false
                                 end) tabs) then 5 else
      let bkB := import schema (export schema bkA) in
      if negb (forallb (fun t => match find_tcase (as_c02 b) t with
                                 | Some tc => list_eqb (list_eqb value_eqb) (expected_rows bkB t tc)
                                                (map (dense_obs (qcolumns t (tc_qcols tc))) (tc_obs tc))
                                 | None => false
                                 end) tabs) then 6 else 0
  end.

Definition check (c : scase) : N :=
  if sc_err c then 1 else
  if negb (forallb (fun b => b) (sc_agree c)) then 2 else
  match filter (fun e => negb (N.eqb e 0)) (map check_backend (sc_backends c)) with
  | e :: _ => e
  | [] => 0
  end.

Fixpoint mismatches_from (i : nat) (cs : list scase) : list (nat * N) :=
  match cs with
  | [] => []
  | c :: rest => (match check c with 0 => [] | e => [(i, e)] end) ++ mismatches_from (S i) rest
  end.

Definition mismatches := mismatches_from 0.
