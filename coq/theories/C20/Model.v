(** C20: model of a configuration reload (pkg/lmd/main.go: mainLoop,
    initializeListeners, initializePeers, PeerMapRemove; config.go:
    Connection.Equals; nodes.go: Nodes.Initialize starting paused peers).

    Definitions only.  Two layers:
    - the implementation model [reload] transcribes the Go loops (removal
      pass, keep / stop+recreate with the mutation of the old map, rebuild of
      map and order, duplicate id check inside the loop, NewPeer's fatal exit
      for a connection without source, listeners close pass / open pass);
    - the specification layer [spec_build], [spec_listeners] says in one line
      per object what a reload has to produce.
    Proofs.v shows that they coincide for every state and every valid
    configuration and derives the properties from the specification layer.

    The model describes the CORRECT behaviour: a connection whose definition
    changed gets a new peer object (pinned tree: defect D6, the stopped old
    object is put back, see notes/C20.md). *)
From LMD Require Export Base.Str.
Local Open Scope N_scope.

(** * Configuration *)

(** One [[Connections]] block.  [c_misc] holds the remaining scalar settings
    (auth, remote_name, noconfigtool, tlsskipverify, ...) in a fixed order;
    [Connection.Equals] compares the TOML rendering of all fields, i.e. it is
    structural equality of this record. *)
Record conn := mkConn {
  c_id : str; c_name : str; c_source : list str; c_fallback : list str;
  c_section : str; c_flags : list str; c_misc : list str }.

Record config := mkConfig { g_listen : list str; g_conns : list conn }.

Fixpoint strs_eqb (a b : list str) : bool :=
  match a, b with
  | [], [] => true
  | x :: a', y :: b' => str_eqb x y && strs_eqb a' b'
  | _, _ => false
  end.

Definition conn_eqb (a b : conn) : bool :=
  str_eqb (c_id a) (c_id b) && str_eqb (c_name a) (c_name b) &&
  strs_eqb (c_source a) (c_source b) && strs_eqb (c_fallback a) (c_fallback b) &&
  str_eqb (c_section a) (c_section b) && strs_eqb (c_flags a) (c_flags b) &&
  strs_eqb (c_misc a) (c_misc b).

Definition ids (cs : list conn) : list str := map c_id cs.

(** * Daemon state *)

(** A peer object: [p_obj] is the identity of the Go object (allocation
    counter), [p_cache] an opaque token standing for everything the object
    has cached from its backend, [p_running] says that its update loop runs. *)
Record peer := mkPeer { p_obj : N; p_def : conn; p_cache : N; p_running : bool }.

Definition new_peer (n : N) (c : conn) : peer := mkPeer n c 0 false.
Definition start (p : peer) : peer := mkPeer (p_obj p) (p_def p) (p_cache p) true.
Definition set_cache (p : peer) (t : N) : peer := mkPeer (p_obj p) (p_def p) t (p_running p).

Record dstate := mkState {
  d_map : list (str * peer);     (* Daemon.PeerMap *)
  d_order : list str;            (* Daemon.PeerMapOrder *)
  d_listeners : list (str * N);  (* Daemon.Listeners: address -> listener object *)
  d_next : N;                    (* next object identity *)
  d_stopped : list N;            (* peer objects that were stopped and dropped *)
  d_closed : list N;             (* listener objects that were closed *)
  d_dead : bool }.               (* the process has exited (cleanFatalf / Fatalf) *)

Definition init_state : dstate := mkState [] [] [] 1 [] [] false.

(** * Maps with string keys (Go maps; iteration order never matters below) *)

Section Assoc.
  Context {V : Type}.

  Fixpoint lookup (k : str) (m : list (str * V)) : option V :=
    match m with
    | [] => None
    | (k', v) :: r => if str_eqb k k' then Some v else lookup k r
    end.

  Definition remove (k : str) (m : list (str * V)) : list (str * V) :=
    filter (fun kv => negb (str_eqb k (fst kv))) m.

  Definition insert (k : str) (v : V) (m : list (str * V)) : list (str * V) :=
    remove k m ++ [(k, v)].

  Definition keys (m : list (str * V)) : list str := map fst m.
End Assoc.

Fixpoint remove_first (k : str) (l : list str) : list str :=
  match l with
  | [] => []
  | x :: r => if str_eqb k x then r else x :: remove_first k r
  end.

Definition is_nil {A} (l : list A) : bool := match l with [] => true | _ => false end.

(** * initializeListeners *)

(** close every listener that is no longer configured *)
Definition close_pass (ls : list (str * N)) (listen : list str) : list (str * N) * list N :=
  (filter (fun kv => mem_str (fst kv) listen) ls,
   map snd (filter (fun kv => negb (mem_str (fst kv) listen)) ls)).

(** keep the open ones, open the others *)
Fixpoint open_pass (old : list (str * N)) (listen : list str) (new : list (str * N)) (n : N)
  : list (str * N) * N :=
  match listen with
  | [] => (new, n)
  | a :: r =>
      match lookup a old with
      | Some l => open_pass old r (insert a l new) n
      | None => open_pass old r (insert a n new) (n + 1)
      end
  end.

Definition init_listeners (st : dstate) (cfg : config) : dstate :=
  let '(kept, closed) := close_pass (d_listeners st) (g_listen cfg) in
  let '(new, n) := open_pass kept (g_listen cfg) [] (d_next st) in
  mkState (d_map st) (d_order st) new n (d_stopped st) (d_closed st ++ closed) (d_dead st).

(** * initializePeers *)

(** "Get rid of obsolete peers": Stop, drop the cache, PeerMapRemove *)
Definition removal_pass (m : list (str * peer)) (order : list str) (cids : list str)
  : list (str * peer) * list str * list N :=
  (filter (fun kv => mem_str (fst kv) cids) m,
   filter (fun k => mem_str k cids) order,
   map (fun kv => p_obj (snd kv)) (filter (fun kv => negb (mem_str (fst kv) cids)) m)).

(** "Create/set Peer objects": one iteration per configured connection.
    [old]/[oldorder] are Daemon.PeerMap/PeerMapOrder (mutated by
    PeerMapRemove in the not-Equals branch), [newm]/[neworder] are
    PeerMapNew/PeerMapOrderNew, [backends] the ids seen so far.  [None] = the
    process exits. *)
Fixpoint peers_loop (conns : list conn) (old : list (str * peer)) (oldorder : list str)
    (newm : list (str * peer)) (neworder backends : list str) (n : N) (stopped : list N)
  : option (list (str * peer) * list str * N * list N) :=
  match conns with
  | [] => Some (newm, neworder, n, stopped)
  | c :: r =>
      let '(kept, old', oldorder', stopped') :=
        match lookup (c_id c) old with
        | Some v =>
            if conn_eqb c (p_def v) then (Some v, old, oldorder, stopped)
            else (None, remove (c_id c) old, remove_first (c_id c) oldorder, stopped ++ [p_obj v])
        | None => (None, old, oldorder, stopped)
        end in
      let created :=
        match kept with
        | Some v => Some (v, n)
        | None => if is_nil (c_source c) then None (* NewPeer: peer requires at least one source *)
                  else Some (new_peer n c, n + 1)
        end in
      match created with
      | None => None
      | Some (p, n') =>
          if mem_str (c_id c) backends then None (* Duplicate id in connection list *)
          else peers_loop r old' oldorder' (insert (c_id c) p newm) (neworder ++ [c_id c])
                 (backends ++ [c_id c]) n' stopped'
      end
  end.

(** Nodes.Initialize (single mode): start every paused peer of the map *)
Definition start_all (m : list (str * peer)) : list (str * peer) :=
  map (fun kv => (fst kv, start (snd kv))) m.

Definition die (st : dstate) : dstate :=
  mkState (d_map st) (d_order st) (d_listeners st) (d_next st) (d_stopped st) (d_closed st) true.

Definition init_peers (st : dstate) (cfg : config) : dstate :=
  let '(m1, o1, gone) := removal_pass (d_map st) (d_order st) (ids (g_conns cfg)) in
  match peers_loop (g_conns cfg) m1 o1 [] [] [] (d_next st) (d_stopped st ++ gone) with
  | None => die st
  | Some (m, o, n, stopped) =>
      mkState (start_all m) o (d_listeners st) n stopped (d_closed st) (d_dead st)
  end.

(** * One run of mainLoop after SIGHUP (or at start) *)
Definition reload (st : dstate) (cfg : config) : dstate :=
  if d_dead st then st
  else if is_nil (g_listen cfg) then die st                 (* no listeners defined *)
  else
    let st1 := init_listeners st cfg in
    if is_nil (g_conns cfg) then die st1                    (* no connections defined *)
    else init_peers st1 cfg.

(** * Histories: reloads interleaved with backend synchronisation *)

(** [Sync id t]: the update loop of backend [id] replaces what it has cached *)
Inductive event := Reload (cfg : config) | Sync (id : str) (t : N).

Definition sync (st : dstate) (id : str) (t : N) : dstate :=
  mkState (map (fun kv => if str_eqb id (fst kv) then (fst kv, set_cache (snd kv) t) else kv) (d_map st))
          (d_order st) (d_listeners st) (d_next st) (d_stopped st) (d_closed st) (d_dead st).

Definition step (st : dstate) (e : event) : dstate :=
  match e with
  | Reload cfg => reload st cfg
  | Sync id t => sync st id t
  end.

Definition run (st : dstate) (h : list event) : dstate := fold_left step h st.

(** * Specification layer *)

(** what a reload has to make of one configured connection *)
Definition spec_peer (old : list (str * peer)) (n : N) (c : conn) : peer * N :=
  match lookup (c_id c) old with
  | Some v => if conn_eqb c (p_def v) then (v, n) else (new_peer n c, n + 1)
  | None => (new_peer n c, n + 1)
  end.

Fixpoint spec_build (old : list (str * peer)) (n : N) (conns : list conn) : list (str * peer) * N :=
  match conns with
  | [] => ([], n)
  | c :: r =>
      let '(p, n') := spec_peer old n c in
      let '(l, n'') := spec_build old n' r in
      ((c_id c, p) :: l, n'')
  end.

(** the objects a reload stops because their definition changed *)
Fixpoint spec_changed (old : list (str * peer)) (conns : list conn) : list N :=
  match conns with
  | [] => []
  | c :: r =>
      match lookup (c_id c) old with
      | Some v => if conn_eqb c (p_def v) then spec_changed old r else p_obj v :: spec_changed old r
      | None => spec_changed old r
      end
  end.

Fixpoint spec_listeners (old : list (str * N)) (n : N) (listen : list str) : list (str * N) * N :=
  match listen with
  | [] => ([], n)
  | a :: r =>
      match lookup a old with
      | Some l => let '(ls, n') := spec_listeners old n r in ((a, l) :: ls, n')
      | None => let '(ls, n') := spec_listeners old (n + 1) r in ((a, n) :: ls, n')
      end
  end.

(** a configuration the daemon accepts *)
Definition cfg_ok (cfg : config) : Prop :=
  g_listen cfg <> [] /\ NoDup (g_listen cfg) /\
  g_conns cfg <> [] /\ NoDup (ids (g_conns cfg)) /\
  Forall (fun c => c_source c <> []) (g_conns cfg).

Fixpoint nodup_strs (l : list str) : bool :=
  match l with
  | [] => true
  | x :: r => negb (mem_str x r) && nodup_strs r
  end.

Definition cfg_okb (cfg : config) : bool :=
  negb (is_nil (g_listen cfg)) && nodup_strs (g_listen cfg) &&
  negb (is_nil (g_conns cfg)) && nodup_strs (ids (g_conns cfg)) &&
  forallb (fun c => negb (is_nil (c_source c))) (g_conns cfg).
