(** C20: proofs about the reload model.  The implementation model [reload]
    coincides with the specification layer for every state and every valid
    configuration ([reload_ok]); the properties are derived from that. *)
From LMD Require Import Base.Str C20.Model.
Local Open Scope N_scope.

(** * Equality tests *)

Lemma strs_eqb_spec a b : reflect (a = b) (strs_eqb a b).
Proof.
  revert b; induction a as [|x a IH]; intros [|y b]; cbn [strs_eqb];
    try (constructor; congruence).
  destruct (str_eqb_spec x y) as [->|Hne]; cbn [andb].
  - destruct (IH b) as [->|Hne]; constructor; congruence.
  - constructor; congruence.
Qed.

Lemma conn_eqb_spec a b : reflect (a = b) (conn_eqb a b).
Proof.
  destruct a as [a1 a2 a3 a4 a5 a6 a7], b as [b1 b2 b3 b4 b5 b6 b7]; unfold conn_eqb; cbn.
  destruct (str_eqb_spec a1 b1) as [->|H]; [|constructor; congruence].
  destruct (str_eqb_spec a2 b2) as [->|H]; [|constructor; congruence].
  destruct (strs_eqb_spec a3 b3) as [->|H]; [|constructor; congruence].
  destruct (strs_eqb_spec a4 b4) as [->|H]; [|constructor; congruence].
  destruct (str_eqb_spec a5 b5) as [->|H]; [|constructor; congruence].
  destruct (strs_eqb_spec a6 b6) as [->|H]; [|constructor; congruence].
  destruct (strs_eqb_spec a7 b7) as [->|H]; constructor; congruence.
Qed.

Lemma conn_eqb_refl a : conn_eqb a a = true.
Proof. destruct (conn_eqb_spec a a); congruence. Qed.

Lemma mem_str_false x l : mem_str x l = false <-> ~ In x l.
Proof.
  rewrite <- mem_str_In. destruct (mem_str x l); split; intros H; congruence.
Qed.

Lemma nodup_strs_spec l : nodup_strs l = true <-> NoDup l.
Proof.
  induction l as [|x l IH]; cbn [nodup_strs].
  - split; [constructor|reflexivity].
  - rewrite andb_true_iff, negb_true_iff, mem_str_false, IH. split.
    + intros [H1 H2]; constructor; assumption.
    + intros H; inversion H; subst; split; assumption.
Qed.

Lemma is_nil_spec {A} (l : list A) : is_nil l = true <-> l = [].
Proof. destruct l; cbn; split; congruence. Qed.

Lemma is_nil_false {A} (l : list A) : l <> [] -> is_nil l = false.
Proof. destruct l; cbn; congruence. Qed.

Lemma cfg_okb_spec cfg : cfg_okb cfg = true <-> cfg_ok cfg.
Proof.
  unfold cfg_okb, cfg_ok.
  rewrite !andb_true_iff, !negb_true_iff, !nodup_strs_spec, forallb_forall, Forall_forall.
  split.
  - intros [[[[H1 H2] H3] H4] H5]. repeat split; try assumption.
    + intros E; rewrite E in H1; discriminate.
    + intros E; rewrite E in H3; discriminate.
    + intros c Hc E. specialize (H5 c Hc). rewrite E in H5. discriminate.
  - intros [H1 [H2 [H3 [H4 H5]]]]. repeat split; try assumption.
    + apply is_nil_false; assumption.
    + apply is_nil_false; assumption.
    + intros c Hc. apply negb_true_iff, is_nil_false, H5, Hc.
Qed.

(** * Maps *)

Section AssocLemmas.
  Context {V : Type}.
  Implicit Types (m : list (str * V)) (k : str) (v : V).

  Lemma lookup_app k m1 m2 :
    lookup k (m1 ++ m2) = match lookup k m1 with Some v => Some v | None => lookup k m2 end.
  Proof.
    induction m1 as [|[k' v'] m1 IH]; cbn [lookup app]; [reflexivity|].
    destruct (str_eqb k k'); [reflexivity|exact IH].
  Qed.

  Lemma lookup_In k v m : lookup k m = Some v -> In (k, v) m.
  Proof.
    induction m as [|[k' v'] m IH]; cbn [lookup]; [discriminate|].
    destruct (str_eqb_spec k k') as [->|Hne]; intros H.
    - injection H as ->. left; reflexivity.
    - right; exact (IH H).
  Qed.

  Lemma lookup_None k m : lookup k m = None <-> ~ In k (keys m).
  Proof.
    induction m as [|[k' v'] m IH]; cbn [lookup keys map fst].
    - split; [intros _ []|reflexivity].
    - destruct (str_eqb_spec k k') as [->|Hne].
      + split; [discriminate|]. intros H; exfalso; apply H; left; reflexivity.
      + rewrite IH. unfold keys. split.
        * intros H [E|E]; [congruence|exact (H E)].
        * intros H E; apply H; right; exact E.
  Qed.

  Lemma lookup_Some_keys k v m : lookup k m = Some v -> In k (keys m).
  Proof.
    intros H. destruct (in_dec str_eq_dec k (keys m)) as [Hin|Hnin]; [exact Hin|].
    apply lookup_None in Hnin. congruence.
  Qed.

  Lemma In_lookup_nodup k v m : NoDup (keys m) -> In (k, v) m -> lookup k m = Some v.
  Proof.
    induction m as [|[k' v'] m IH]; cbn [keys map fst lookup]; intros Hnd Hin; [destruct Hin|].
    inversion Hnd as [|x l Hx Hnd']; subst.
    destruct Hin as [E|Hin].
    - injection E as -> ->. rewrite str_eqb_refl. reflexivity.
    - destruct (str_eqb_spec k k') as [->|Hne].
      + exfalso. apply Hx. change (In k' (keys m)). apply in_map_iff. exists (k', v). split; [reflexivity|exact Hin].
      + apply IH; assumption.
  Qed.

  Lemma remove_notin k m : ~ In k (keys m) -> remove k m = m.
  Proof.
    induction m as [|[k' v'] m IH]; cbn [remove filter keys map fst]; intros H; [reflexivity|].
    destruct (str_eqb_spec k k') as [->|Hne]; cbn [negb].
    - exfalso; apply H; left; reflexivity.
    - f_equal. apply IH. intros E; apply H; right; exact E.
  Qed.

  Lemma lookup_remove_ne k k' m : k <> k' -> lookup k (remove k' m) = lookup k m.
  Proof.
    intros Hne. induction m as [|[k2 v2] m IH]; cbn [remove filter lookup fst]; [reflexivity|].
    destruct (str_eqb_spec k' k2) as [->|Hne2]; cbn [negb lookup].
    - destruct (str_eqb_spec k k2) as [->|_]; [congruence|exact IH].
    - destruct (str_eqb k k2); [reflexivity|exact IH].
  Qed.

  Lemma lookup_filter_key (f : str -> bool) k m :
    f k = true -> lookup k (filter (fun kv => f (fst kv)) m) = lookup k m.
  Proof.
    intros Hf. induction m as [|[k2 v2] m IH]; cbn [filter lookup fst]; [reflexivity|].
    destruct (f k2) eqn:Hf2; cbn [lookup].
    - destruct (str_eqb k k2); [reflexivity|exact IH].
    - destruct (str_eqb_spec k k2) as [->|_]; [congruence|exact IH].
  Qed.

  Lemma keys_app m1 m2 : keys (m1 ++ m2) = keys m1 ++ keys m2.
  Proof. unfold keys. apply map_app. Qed.

  Lemma insert_notin k v m : ~ In k (keys m) -> insert k v m = m ++ [(k, v)].
  Proof. intros H. unfold insert. rewrite remove_notin by exact H. reflexivity. Qed.
End AssocLemmas.

Lemma lookup_start_all k m : lookup k (start_all m) = option_map start (lookup k m).
Proof.
  induction m as [|[k' v'] m IH]; cbn [start_all map lookup fst snd option_map]; [reflexivity|].
  destruct (str_eqb k k'); [reflexivity|exact IH].
Qed.

Lemma keys_start_all m : keys (start_all m) = keys m.
Proof. unfold keys, start_all. rewrite map_map. apply map_ext. intros [k v]; reflexivity. Qed.

(** * Listeners: open pass = specification *)

Lemma spec_listeners_ext old1 old2 n listen :
  (forall a, In a listen -> lookup a old1 = lookup a old2) ->
  spec_listeners old1 n listen = spec_listeners old2 n listen.
Proof.
  revert n. induction listen as [|a r IH]; intros n H; cbn [spec_listeners]; [reflexivity|].
  rewrite (H a (or_introl eq_refl)).
  destruct (lookup a old2); rewrite IH by (intros b Hb; apply H; right; exact Hb); reflexivity.
Qed.

Lemma open_pass_spec old listen : forall new n,
  NoDup listen -> (forall a, In a listen -> ~ In a (keys new)) ->
  open_pass old listen new n =
    (new ++ fst (spec_listeners old n listen), snd (spec_listeners old n listen)).
Proof.
  induction listen as [|a r IH]; intros new n Hnd Hfresh; cbn [open_pass spec_listeners fst snd].
  - rewrite app_nil_r. reflexivity.
  - inversion Hnd as [|x l Ha Hnd']; subst.
    assert (Hstep : forall v b, In b r -> ~ In b (keys (insert a v new))).
    { intros v b Hb. rewrite insert_notin by (apply Hfresh; left; reflexivity).
      rewrite keys_app, in_app_iff. cbn [keys map fst]. intros [E|[E|[]]].
      - exact (Hfresh b (or_intror Hb) E).
      - subst b. exact (Ha Hb). }
    destruct (lookup a old) as [l|] eqn:Hl.
    + rewrite IH by (try assumption; apply Hstep).
      rewrite insert_notin by (apply Hfresh; left; reflexivity).
      destruct (spec_listeners old n r) as [ls n']. cbn [fst snd].
      rewrite <- app_assoc. reflexivity.
    + rewrite IH by (try assumption; apply Hstep).
      rewrite insert_notin by (apply Hfresh; left; reflexivity).
      destruct (spec_listeners old (n + 1) r) as [ls n']. cbn [fst snd].
      rewrite <- app_assoc. reflexivity.
Qed.

Lemma spec_listeners_keys old listen : forall n, keys (fst (spec_listeners old n listen)) = listen.
Proof.
  induction listen as [|a r IH]; intros n; cbn [spec_listeners]; [reflexivity|].
  destruct (lookup a old).
  - specialize (IH n). destruct (spec_listeners old n r). cbn [fst keys map] in *. f_equal. exact IH.
  - specialize (IH (n + 1)). destruct (spec_listeners old (n + 1) r). cbn [fst keys map] in *. f_equal. exact IH.
Qed.

Lemma spec_listeners_next old listen : forall n, n <= snd (spec_listeners old n listen).
Proof.
  induction listen as [|a r IH]; intros n; cbn [spec_listeners snd]; [lia|].
  destruct (lookup a old).
  - specialize (IH n). destruct (spec_listeners old n r). cbn [snd] in *. exact IH.
  - specialize (IH (n + 1)). destruct (spec_listeners old (n + 1) r). cbn [snd] in *. lia.
Qed.

Lemma spec_listeners_kept old listen a l : forall n,
  In a listen -> lookup a old = Some l -> lookup a (fst (spec_listeners old n listen)) = Some l.
Proof.
  induction listen as [|b r IH]; intros n Hin Hl; [destruct Hin|].
  cbn [spec_listeners].
  destruct (str_eqb_spec a b) as [->|Hne].
  - rewrite Hl. destruct (spec_listeners old n r). cbn [fst lookup]. rewrite str_eqb_refl. reflexivity.
  - assert (Hin' : In a r) by (destruct Hin as [E|E]; [congruence|exact E]).
    destruct (lookup b old).
    + specialize (IH n Hin' Hl). destruct (spec_listeners old n r). cbn [fst lookup] in *.
      destruct (str_eqb_spec a b); [congruence|exact IH].
    + specialize (IH (n + 1) Hin' Hl). destruct (spec_listeners old (n + 1) r). cbn [fst lookup] in *.
      destruct (str_eqb_spec a b); [congruence|exact IH].
Qed.

Lemma spec_listeners_new old listen a : forall n,
  In a listen -> lookup a old = None ->
  exists l, lookup a (fst (spec_listeners old n listen)) = Some l /\ n <= l.
Proof.
  induction listen as [|b r IH]; intros n Hin Hl; [destruct Hin|].
  cbn [spec_listeners].
  destruct (str_eqb_spec a b) as [->|Hne].
  - rewrite Hl. destruct (spec_listeners old (n + 1) r). cbn [fst lookup]. rewrite str_eqb_refl.
    exists n. split; [reflexivity|lia].
  - assert (Hin' : In a r) by (destruct Hin as [E|E]; [congruence|exact E]).
    destruct (lookup b old).
    + destruct (IH n Hin' Hl) as [l [H1 H2]]. destruct (spec_listeners old n r). cbn [fst lookup] in *.
      destruct (str_eqb_spec a b); [congruence|]. exists l. split; assumption.
    + destruct (IH (n + 1) Hin' Hl) as [l [H1 H2]]. destruct (spec_listeners old (n + 1) r). cbn [fst lookup] in *.
      destruct (str_eqb_spec a b); [congruence|]. exists l. split; [assumption|lia].
Qed.

Lemma spec_listeners_bound old listen B : forall n,
  (forall a l, lookup a old = Some l -> l < B) -> B <= n ->
  forall a l, In (a, l) (fst (spec_listeners old n listen)) ->
    l < snd (spec_listeners old n listen).
Proof.
  induction listen as [|b r IH]; intros n Hold Hn a l; cbn [spec_listeners fst]; [intros []|].
  destruct (lookup b old) as [lb|] eqn:Hb.
  - specialize (IH n Hold Hn a l). pose proof (spec_listeners_next old r n) as Hle.
    destruct (spec_listeners old n r) as [ls n']. cbn [fst snd] in *.
    intros [E|Hin]; [|exact (IH Hin)]. injection E as <- <-. specialize (Hold _ _ Hb). lia.
  - assert (Hn' : B <= n + 1) by lia.
    specialize (IH (n + 1) Hold Hn' a l). pose proof (spec_listeners_next old r (n + 1)) as Hle.
    destruct (spec_listeners old (n + 1) r) as [ls n']. cbn [fst snd] in *.
    intros [E|Hin]; [|exact (IH Hin)]. injection E as <- <-. lia.
Qed.

Lemma init_listeners_ok st cfg :
  NoDup (g_listen cfg) ->
  init_listeners st cfg =
    mkState (d_map st) (d_order st)
      (fst (spec_listeners (d_listeners st) (d_next st) (g_listen cfg)))
      (snd (spec_listeners (d_listeners st) (d_next st) (g_listen cfg)))
      (d_stopped st)
      (d_closed st ++ map snd (filter (fun kv => negb (mem_str (fst kv) (g_listen cfg))) (d_listeners st)))
      (d_dead st).
Proof.
  intros Hnd. unfold init_listeners, close_pass.
  rewrite open_pass_spec by (try assumption; intros a _ []).
  cbn [app].
  rewrite (spec_listeners_ext _ (d_listeners st)).
  - reflexivity.
  - intros a Ha. apply (lookup_filter_key (fun k => mem_str k (g_listen cfg))).
    apply mem_str_In; exact Ha.
Qed.

(** * Peers: the loop = specification *)

Lemma spec_build_ext old1 old2 conns : forall n,
  (forall c, In c conns -> lookup (c_id c) old1 = lookup (c_id c) old2) ->
  spec_build old1 n conns = spec_build old2 n conns.
Proof.
  induction conns as [|c r IH]; intros n H; cbn [spec_build]; [reflexivity|].
  unfold spec_peer. rewrite (H c (or_introl eq_refl)).
  destruct (lookup (c_id c) old2) as [v|]; [destruct (conn_eqb c (p_def v))|];
    rewrite IH by (intros c' Hc'; apply H; right; exact Hc'); reflexivity.
Qed.

Lemma spec_changed_ext old1 old2 conns :
  (forall c, In c conns -> lookup (c_id c) old1 = lookup (c_id c) old2) ->
  spec_changed old1 conns = spec_changed old2 conns.
Proof.
  induction conns as [|c r IH]; intros H; cbn [spec_changed]; [reflexivity|].
  rewrite (H c (or_introl eq_refl)).
  rewrite IH by (intros c' Hc'; apply H; right; exact Hc'). reflexivity.
Qed.

Lemma peers_loop_spec conns : forall old oo newm no b n stp,
  NoDup (b ++ ids conns) -> keys newm = b -> no = b ->
  Forall (fun c => c_source c <> []) conns ->
  peers_loop conns old oo newm no b n stp =
    Some (newm ++ fst (spec_build old n conns), no ++ ids conns,
          snd (spec_build old n conns), stp ++ spec_changed old conns).
Proof.
  induction conns as [|c r IH]; intros old oo newm no b n stp Hnd Hk Hno Hsrc.
  - cbn [peers_loop spec_build spec_changed ids map fst snd]. rewrite !app_nil_r. reflexivity.
  - inversion Hsrc as [|x l Hc Hsrc']; subst x l.
    assert (Hcb : ~ In (c_id c) b).
    { intros Hin. cbn [ids map] in Hnd. apply NoDup_remove_2 in Hnd. apply Hnd.
      apply in_app_iff. left; exact Hin. }
    assert (Hcr : ~ In (c_id c) (ids r)).
    { intros Hin. cbn [ids map] in Hnd. apply NoDup_remove_2 in Hnd. apply Hnd.
      apply in_app_iff. right; exact Hin. }
    assert (Hnd' : NoDup ((b ++ [c_id c]) ++ ids r)).
    { rewrite <- app_assoc. exact Hnd. }
    assert (Hmem : mem_str (c_id c) b = false) by (apply mem_str_false; exact Hcb).
    assert (Hins : forall p, insert (c_id c) p newm = newm ++ [(c_id c, p)]).
    { intros p. apply insert_notin. rewrite Hk. exact Hcb. }
    assert (Hkeys : forall p, keys (newm ++ [(c_id c, p)]) = b ++ [c_id c]).
    { intros p. rewrite keys_app, Hk. reflexivity. }
    assert (Hno' : no ++ [c_id c] = b ++ [c_id c]) by (rewrite Hno; reflexivity).
    cbn [peers_loop spec_build spec_changed ids map]. unfold spec_peer.
    destruct (lookup (c_id c) old) as [v|] eqn:Hl.
    + destruct (conn_eqb c (p_def v)) eqn:He.
      * rewrite Hmem, Hins.
        rewrite (IH old oo (newm ++ [(c_id c, v)]) (no ++ [c_id c]) (b ++ [c_id c]) n stp Hnd'
                    (Hkeys v) Hno' Hsrc').
        destruct (spec_build old n r) as [l n']. cbn [fst snd].
        rewrite <- !app_assoc. reflexivity.
      * rewrite (is_nil_false _ Hc), Hmem, Hins.
        rewrite (IH (remove (c_id c) old) (remove_first (c_id c) oo) (newm ++ [(c_id c, new_peer n c)])
                    (no ++ [c_id c]) (b ++ [c_id c]) (n + 1) (stp ++ [p_obj v]) Hnd'
                    (Hkeys _) Hno' Hsrc').
        rewrite (spec_build_ext (remove (c_id c) old) old), (spec_changed_ext (remove (c_id c) old) old).
        -- destruct (spec_build old (n + 1) r) as [l n']. cbn [fst snd].
           rewrite <- !app_assoc. reflexivity.
        -- intros c' Hc'. apply lookup_remove_ne. intros E. apply Hcr. rewrite <- E.
           apply in_map; exact Hc'.
        -- intros c' Hc'. apply lookup_remove_ne. intros E. apply Hcr. rewrite <- E.
           apply in_map; exact Hc'.
    + rewrite (is_nil_false _ Hc), Hmem, Hins.
      rewrite (IH old oo (newm ++ [(c_id c, new_peer n c)]) (no ++ [c_id c]) (b ++ [c_id c]) (n + 1) stp Hnd'
                  (Hkeys _) Hno' Hsrc').
      destruct (spec_build old (n + 1) r) as [l n']. cbn [fst snd].
      rewrite <- !app_assoc. reflexivity.
Qed.

Lemma spec_build_keys old conns : forall n, keys (fst (spec_build old n conns)) = ids conns.
Proof.
  induction conns as [|c r IH]; intros n; cbn [spec_build]; [reflexivity|].
  destruct (spec_peer old n c) as [p n']. specialize (IH n').
  destruct (spec_build old n' r) as [l n'']. cbn [fst keys map ids] in *. f_equal. exact IH.
Qed.

Lemma spec_peer_next old n c : n <= snd (spec_peer old n c).
Proof.
  unfold spec_peer. destruct (lookup (c_id c) old) as [v|]; [destruct (conn_eqb c (p_def v))|]; cbn [snd]; lia.
Qed.

Lemma spec_build_next old conns : forall n, n <= snd (spec_build old n conns).
Proof.
  induction conns as [|c r IH]; intros n; cbn [spec_build snd]; [lia|].
  pose proof (spec_peer_next old n c) as H1.
  destruct (spec_peer old n c) as [p n']. specialize (IH n').
  destruct (spec_build old n' r) as [l n'']. cbn [snd] in *. lia.
Qed.

(** the entry of a configured connection is what [spec_peer] makes of it, at
    some allocation counter between the old and the new one *)
Lemma spec_build_lookup old conns c : forall n,
  NoDup (ids conns) -> In c conns ->
  exists m, n <= m /\ snd (spec_peer old m c) <= snd (spec_build old n conns) /\
            lookup (c_id c) (fst (spec_build old n conns)) = Some (fst (spec_peer old m c)).
Proof.
  induction conns as [|c' r IH]; intros n Hnd Hin; [destruct Hin|].
  cbn [ids map] in Hnd. inversion Hnd as [|x l Hx Hnd']; subst.
  cbn [spec_build].
  destruct Hin as [->|Hin].
  - exists n. pose proof (spec_build_next old r (snd (spec_peer old n c))) as Hle.
    destruct (spec_peer old n c) as [p n']. cbn [snd fst] in *.
    destruct (spec_build old n' r) as [l n'']. cbn [fst snd lookup] in *.
    rewrite str_eqb_refl. repeat split; [lia|exact Hle].
  - pose proof (spec_peer_next old n c') as Hle.
    destruct (spec_peer old n c') as [p n']. cbn [snd] in Hle.
    destruct (IH n' Hnd' Hin) as [m [H1 [H2 H3]]].
    destruct (spec_build old n' r) as [l n'']. cbn [fst snd lookup] in *.
    exists m. repeat split; [lia|exact H2|].
    destruct (str_eqb_spec (c_id c) (c_id c')) as [E|_]; [|exact H3].
    exfalso. apply Hx. rewrite <- E. apply in_map. exact Hin.
Qed.

Lemma spec_build_bound old conns B : forall n,
  (forall k v, lookup k old = Some v -> p_obj v < B) -> B <= n ->
  forall k p, In (k, p) (fst (spec_build old n conns)) -> p_obj p < snd (spec_build old n conns).
Proof.
  induction conns as [|c r IH]; intros n Hold Hn k p; cbn [spec_build fst]; [intros []|].
  assert (Hp : p_obj (fst (spec_peer old n c)) < snd (spec_peer old n c) /\ n <= snd (spec_peer old n c)).
  { unfold spec_peer. destruct (lookup (c_id c) old) as [v|] eqn:Hl.
    - destruct (conn_eqb c (p_def v)); cbn [fst snd new_peer p_obj]; [|lia].
      specialize (Hold _ _ Hl). lia.
    - cbn [fst snd new_peer p_obj]. lia. }
  destruct (spec_peer old n c) as [p0 n']. cbn [fst snd] in Hp.
  assert (Hn' : B <= n') by lia.
  specialize (IH n' Hold Hn' k p). pose proof (spec_build_next old r n') as Hle.
  destruct (spec_build old n' r) as [l n'']. cbn [fst snd] in *.
  intros [E|Hin]; [|exact (IH Hin)]. injection E as <- <-. lia.
Qed.

Lemma spec_changed_in old conns c p :
  In c conns -> lookup (c_id c) old = Some p -> conn_eqb c (p_def p) = false ->
  In (p_obj p) (spec_changed old conns).
Proof.
  induction conns as [|c' r IH]; intros Hin Hl He; [destruct Hin|].
  cbn [spec_changed]. destruct Hin as [->|Hin].
  - rewrite Hl, He. left; reflexivity.
  - specialize (IH Hin Hl He).
    destruct (lookup (c_id c') old) as [v|]; [destruct (conn_eqb c' (p_def v))|]; try exact IH.
    right; exact IH.
Qed.

Lemma spec_changed_sub old conns o :
  In o (spec_changed old conns) ->
  exists c p, In c conns /\ lookup (c_id c) old = Some p /\ conn_eqb c (p_def p) = false /\ o = p_obj p.
Proof.
  induction conns as [|c r IH]; cbn [spec_changed]; [intros []|].
  destruct (lookup (c_id c) old) as [v|] eqn:Hl.
  - destruct (conn_eqb c (p_def v)) eqn:He.
    + intros H. destruct (IH H) as [c' [p [H1 H2]]]. exists c', p. split; [right; exact H1|exact H2].
    + intros [E|H].
      * exists c, v. repeat split; [left; reflexivity|exact Hl|exact He|congruence].
      * destruct (IH H) as [c' [p [H1 H2]]]. exists c', p. split; [right; exact H1|exact H2].
  - intros H. destruct (IH H) as [c' [p [H1 H2]]]. exists c', p. split; [right; exact H1|exact H2].
Qed.

(** * One reload in closed form *)

Definition removed_objs (m : list (str * peer)) (cids : list str) : list N :=
  map (fun kv => p_obj (snd kv)) (filter (fun kv => negb (mem_str (fst kv) cids)) m).

Definition closed_objs (ls : list (str * N)) (listen : list str) : list N :=
  map snd (filter (fun kv => negb (mem_str (fst kv) listen)) ls).

Definition reload_spec (st : dstate) (cfg : config) : dstate :=
  let ls := spec_listeners (d_listeners st) (d_next st) (g_listen cfg) in
  let pb := spec_build (d_map st) (snd ls) (g_conns cfg) in
  mkState (start_all (fst pb)) (ids (g_conns cfg)) (fst ls) (snd pb)
    (d_stopped st ++ removed_objs (d_map st) (ids (g_conns cfg)) ++ spec_changed (d_map st) (g_conns cfg))
    (d_closed st ++ closed_objs (d_listeners st) (g_listen cfg))
    false.

Theorem reload_ok st cfg :
  d_dead st = false -> cfg_ok cfg -> reload st cfg = reload_spec st cfg.
Proof.
  intros Hdead [Hl [Hlnd [Hc [Hcnd Hsrc]]]].
  unfold reload, reload_spec. rewrite Hdead, (is_nil_false _ Hl), (is_nil_false _ Hc).
  rewrite init_listeners_ok by exact Hlnd.
  unfold init_peers, removal_pass.
  cbn [d_map d_order d_listeners d_next d_stopped d_closed d_dead].
  rewrite (peers_loop_spec (g_conns cfg) _ _ [] [] []) by (try reflexivity; assumption).
  cbn [app].
  assert (Hext : forall c, In c (g_conns cfg) ->
            lookup (c_id c) (filter (fun kv => mem_str (fst kv) (ids (g_conns cfg))) (d_map st))
            = lookup (c_id c) (d_map st)).
  { intros c Hin. apply (lookup_filter_key (fun k => mem_str k (ids (g_conns cfg)))).
    apply mem_str_In. apply in_map. exact Hin. }
  rewrite (spec_build_ext _ (d_map st)) by exact Hext.
  rewrite (spec_changed_ext _ (d_map st)) by exact Hext.
  rewrite Hdead. unfold removed_objs, closed_objs. rewrite <- app_assoc. reflexivity.
Qed.

(** every configuration the daemon does not accept ends the process *)
Lemma peers_loop_dup conns : forall old oo newm no b n stp,
  (exists k, In k b /\ In k (ids conns)) \/ ~ NoDup (ids conns) ->
  peers_loop conns old oo newm no b n stp = None.
Proof.
  induction conns as [|c r IH]; intros old oo newm no b n stp H.
  - exfalso. destruct H as [[k [_ []]]|H]. apply H. constructor.
  - cbn [peers_loop].
    set (branch := match lookup (c_id c) old with
                   | Some v => if conn_eqb c (p_def v) then (Some v, old, oo, stp)
                               else (None, remove (c_id c) old, remove_first (c_id c) oo, stp ++ [p_obj v])
                   | None => (None, old, oo, stp) end).
    destruct branch as [[[kept old'] oo'] stp'].
    destruct (match kept with
              | Some v => Some (v, n)
              | None => if is_nil (c_source c) then None else Some (new_peer n c, n + 1)
              end) as [[p n']|]; [|reflexivity].
    destruct (mem_str (c_id c) b) eqn:Hm; [reflexivity|].
    apply mem_str_false in Hm.
    apply IH.
    destruct H as [[k [Hkb Hkc]]|Hnd].
    + cbn [ids map] in Hkc. destruct Hkc as [E|Hkc].
      * subst k. contradiction.
      * left. exists k. split; [apply in_app_iff; left; exact Hkb|exact Hkc].
    + cbn [ids map] in Hnd.
      destruct (in_dec str_eq_dec (c_id c) (ids r)) as [Hin|Hnin].
      * left. exists (c_id c). split; [apply in_app_iff; right; left; reflexivity|exact Hin].
      * right. intros Hnd'. apply Hnd. constructor; assumption.
Qed.

Lemma reload_rejects st cfg :
  g_listen cfg = [] \/ g_conns cfg = [] \/ ~ NoDup (ids (g_conns cfg)) ->
  d_dead (reload st cfg) = true.
Proof.
  intros H. unfold reload.
  destruct (d_dead st) eqn:Hd; [exact Hd|].
  destruct (is_nil (g_listen cfg)) eqn:Hl; [reflexivity|].
  destruct (is_nil (g_conns cfg)) eqn:Hc; [reflexivity|].
  destruct H as [H|[H|H]].
  - rewrite H in Hl. discriminate.
  - rewrite H in Hc. discriminate.
  - unfold init_peers.
    destruct (removal_pass (d_map (init_listeners st cfg)) (d_order (init_listeners st cfg)) (ids (g_conns cfg)))
      as [[m1 o1] gone].
    rewrite peers_loop_dup by (right; exact H). reflexivity.
Qed.

Lemma reload_dead st cfg : d_dead st = true -> reload st cfg = st.
Proof. intros H. unfold reload. rewrite H. reflexivity. Qed.

(** * Properties of one reload *)

Section OneReload.
  Variables (st : dstate) (cfg : config).
  Hypothesis Halive : d_dead st = false.
  Hypothesis Hok : cfg_ok cfg.

  Let st' := reload st cfg.

  Lemma reload_alive : d_dead st' = false.
  Proof. unfold st'. rewrite reload_ok by assumption. reflexivity. Qed.

  Lemma reload_order : d_order st' = ids (g_conns cfg) /\ keys (d_map st') = ids (g_conns cfg).
  Proof.
    unfold st'. rewrite reload_ok by assumption. unfold reload_spec. cbn [d_order d_map].
    rewrite keys_start_all, spec_build_keys. split; reflexivity.
  Qed.

  Lemma reload_next : d_next st <= d_next st'.
  Proof.
    unfold st'. rewrite reload_ok by assumption. unfold reload_spec. cbn [d_next].
    pose proof (spec_listeners_next (d_listeners st) (g_listen cfg) (d_next st)).
    pose proof (spec_build_next (d_map st) (g_conns cfg)
                  (snd (spec_listeners (d_listeners st) (d_next st) (g_listen cfg)))).
    lia.
  Qed.

  (** the entry of a configured connection *)
  Lemma reload_lookup c :
    In c (g_conns cfg) ->
    exists m, d_next st <= m /\ snd (spec_peer (d_map st) m c) <= d_next st' /\
              lookup (c_id c) (d_map st') = Some (start (fst (spec_peer (d_map st) m c))).
  Proof.
    intros Hin. unfold st'. rewrite reload_ok by assumption. unfold reload_spec. cbn [d_map d_next].
    destruct Hok as [_ [_ [_ [Hnd _]]]].
    destruct (spec_build_lookup (d_map st) (g_conns cfg) c
                (snd (spec_listeners (d_listeners st) (d_next st) (g_listen cfg))) Hnd Hin)
      as [m [H1 [H2 H3]]].
    pose proof (spec_listeners_next (d_listeners st) (g_listen cfg) (d_next st)).
    exists m. repeat split; [lia|exact H2|].
    rewrite lookup_start_all, H3. reflexivity.
  Qed.

  Lemma unchanged_kept c p :
    In c (g_conns cfg) -> lookup (c_id c) (d_map st) = Some p -> p_def p = c ->
    lookup (c_id c) (d_map st') = Some (start p).
  Proof.
    intros Hin Hl Hd. destruct (reload_lookup c Hin) as [m [_ [_ H]]].
    unfold spec_peer in H. rewrite Hl, Hd, conn_eqb_refl in H. exact H.
  Qed.

  Lemma created c :
    In c (g_conns cfg) ->
    (lookup (c_id c) (d_map st) = None \/
     exists p, lookup (c_id c) (d_map st) = Some p /\ p_def p <> c) ->
    exists p', lookup (c_id c) (d_map st') = Some p' /\ p_def p' = c /\ p_cache p' = 0 /\
               p_running p' = true /\ d_next st <= p_obj p' < d_next st'.
  Proof.
    intros Hin Hcase. destruct (reload_lookup c Hin) as [m [H1 [H2 H3]]].
    assert (Hnew : spec_peer (d_map st) m c = (new_peer m c, m + 1)).
    { unfold spec_peer. destruct Hcase as [Hn|[p [Hl Hd]]].
      - rewrite Hn. reflexivity.
      - rewrite Hl. destruct (conn_eqb_spec c (p_def p)) as [E|_]; [congruence|reflexivity]. }
    rewrite Hnew in H2, H3. cbn [fst snd] in *.
    exists (start (new_peer m c)). cbn [start new_peer p_def p_cache p_running p_obj].
    repeat split; try assumption; lia.
  Qed.

  Lemma changed_stopped c p :
    In c (g_conns cfg) -> lookup (c_id c) (d_map st) = Some p -> p_def p <> c ->
    In (p_obj p) (d_stopped st').
  Proof.
    intros Hin Hl Hd. unfold st'. rewrite reload_ok by assumption. unfold reload_spec. cbn [d_stopped].
    apply in_app_iff. right. apply in_app_iff. right.
    apply (spec_changed_in _ _ c p Hin Hl).
    destruct (conn_eqb_spec c (p_def p)); congruence.
  Qed.

  Lemma removed_gone id p :
    lookup id (d_map st) = Some p -> ~ In id (ids (g_conns cfg)) ->
    lookup id (d_map st') = None /\ ~ In id (d_order st') /\ In (p_obj p) (d_stopped st').
  Proof.
    intros Hl Hnin. destruct reload_order as [Ho Hk]. repeat split.
    - apply lookup_None. rewrite Hk. exact Hnin.
    - rewrite Ho. exact Hnin.
    - unfold st'. rewrite reload_ok by assumption. unfold reload_spec. cbn [d_stopped].
      apply in_app_iff. right. apply in_app_iff. left. unfold removed_objs.
      apply in_map_iff. exists (id, p). split; [reflexivity|].
      apply filter_In. split; [apply lookup_In; exact Hl|].
      cbn [fst]. apply negb_true_iff, mem_str_false. exact Hnin.
  Qed.

  Lemma absent_stays_absent id :
    ~ In id (ids (g_conns cfg)) -> lookup id (d_map st') = None /\ ~ In id (d_order st').
  Proof.
    intros Hnin. destruct reload_order as [Ho Hk]. split.
    - apply lookup_None. rewrite Hk. exact Hnin.
    - rewrite Ho. exact Hnin.
  Qed.

  Lemma listeners_match :
    keys (d_listeners st') = g_listen cfg /\
    (forall a l, In a (g_listen cfg) -> lookup a (d_listeners st) = Some l ->
                 lookup a (d_listeners st') = Some l) /\
    (forall a, In a (g_listen cfg) -> lookup a (d_listeners st) = None ->
               exists l, lookup a (d_listeners st') = Some l /\ d_next st <= l) /\
    (forall a l, lookup a (d_listeners st) = Some l -> ~ In a (g_listen cfg) ->
                 lookup a (d_listeners st') = None /\ In l (d_closed st')).
  Proof.
    unfold st'. rewrite reload_ok by assumption. unfold reload_spec. cbn [d_listeners d_closed].
    repeat split.
    - apply spec_listeners_keys.
    - intros a l Hin Hl. apply spec_listeners_kept; assumption.
    - intros a Hin Hl. apply spec_listeners_new; assumption.
    - apply lookup_None. rewrite spec_listeners_keys. assumption.
    - apply in_app_iff. right. unfold closed_objs. apply in_map_iff. exists (a, l). split; [reflexivity|].
      apply filter_In. split; [apply lookup_In; assumption|].
      cbn [fst]. apply negb_true_iff, mem_str_false. assumption.
  Qed.
End OneReload.

(** * Reloading an equal configuration *)

(** the daemon runs exactly configuration [cfg] *)
Definition settled (st : dstate) (cfg : config) : Prop :=
  d_dead st = false /\ d_order st = ids (g_conns cfg) /\ keys (d_listeners st) = g_listen cfg /\
  Forall2 (fun kv c => fst kv = c_id c /\ p_def (snd kv) = c /\ p_running (snd kv) = true)
          (d_map st) (g_conns cfg).

Lemma Forall2_keys m conns :
  Forall2 (fun (kv : str * peer) c => fst kv = c_id c /\ p_def (snd kv) = c /\ p_running (snd kv) = true) m conns ->
  keys m = ids conns.
Proof.
  induction 1 as [|kv c m conns [H1 _] _ IH]; [reflexivity|].
  cbn [keys ids map] in *. rewrite H1. f_equal. exact IH.
Qed.

Lemma spec_build_settled old n : forall m conns,
  Forall2 (fun (kv : str * peer) c => fst kv = c_id c /\ p_def (snd kv) = c /\ p_running (snd kv) = true) m conns ->
  (forall kv, In kv m -> lookup (fst kv) old = Some (snd kv)) ->
  spec_build old n conns = (m, n).
Proof.
  induction 1 as [|kv c m conns [H1 [H2 H3]] _ IH]; intros Hl; [reflexivity|].
  cbn [spec_build]. unfold spec_peer.
  rewrite <- H1, (Hl kv (or_introl eq_refl)), H2, conn_eqb_refl.
  rewrite IH by (intros kv' Hin; apply Hl; right; exact Hin).
  destruct kv; reflexivity.
Qed.

Lemma spec_changed_settled old : forall m conns,
  Forall2 (fun (kv : str * peer) c => fst kv = c_id c /\ p_def (snd kv) = c /\ p_running (snd kv) = true) m conns ->
  (forall kv, In kv m -> lookup (fst kv) old = Some (snd kv)) ->
  spec_changed old conns = [].
Proof.
  induction 1 as [|kv c m conns [H1 [H2 H3]] _ IH]; intros Hl; [reflexivity|].
  cbn [spec_changed].
  rewrite <- H1, (Hl kv (or_introl eq_refl)), H2, conn_eqb_refl.
  apply IH. intros kv' Hin; apply Hl; right; exact Hin.
Qed.

Lemma start_all_running m :
  Forall (fun kv : str * peer => p_running (snd kv) = true) m -> start_all m = m.
Proof.
  induction 1 as [|[k [o d c r]] m H _ IH]; [reflexivity|].
  cbn [start_all map fst snd] in *. unfold start at 1. cbn [p_obj p_def p_cache p_running] in *.
  rewrite H. f_equal. exact IH.
Qed.

Lemma spec_listeners_settled n : forall ls,
  NoDup (keys ls) -> spec_listeners ls n (keys ls) = (ls, n).
Proof.
  intros ls Hnd.
  assert (H : forall sub, (forall kv, In kv sub -> lookup (fst kv) ls = Some (snd kv)) ->
                          spec_listeners ls n (keys sub) = (sub, n)).
  { induction sub as [|[a l] sub IH]; intros Hl; [reflexivity|].
    pose proof (Hl (a, l) (or_introl eq_refl)) as Ha. cbn [fst snd] in Ha.
    cbn [keys map fst spec_listeners]. rewrite Ha.
    unfold keys in IH. rewrite IH by (intros kv Hin; apply Hl; right; exact Hin). reflexivity. }
  apply H. intros [a l] Hin. cbn [fst snd]. apply In_lookup_nodup; assumption.
Qed.

Lemma filter_none {A} (f : A -> bool) l : (forall x, In x l -> f x = false) -> filter f l = [].
Proof.
  induction l as [|x l IH]; intros H; [reflexivity|].
  cbn [filter]. rewrite (H x (or_introl eq_refl)). apply IH. intros y Hy; apply H; right; exact Hy.
Qed.

Theorem noop_identity st cfg : settled st cfg -> cfg_ok cfg -> reload st cfg = st.
Proof.
  intros [Hdead [Hord [Hls Hmap]]] Hok.
  rewrite reload_ok by assumption.
  destruct Hok as [_ [Hlnd [_ [Hcnd _]]]].
  pose proof (Forall2_keys _ _ Hmap) as Hkeys.
  assert (Hnd : NoDup (keys (d_map st))) by (rewrite Hkeys; exact Hcnd).
  assert (Hlk : forall kv, In kv (d_map st) -> lookup (fst kv) (d_map st) = Some (snd kv)).
  { intros [k p] Hin. apply In_lookup_nodup; assumption. }
  unfold reload_spec.
  rewrite <- Hls at 1 2 3.
  rewrite spec_listeners_settled by (rewrite Hls; exact Hlnd).
  cbn [fst snd].
  rewrite (spec_build_settled _ _ _ _ Hmap Hlk), (spec_changed_settled _ _ _ Hmap Hlk).
  cbn [fst snd].
  rewrite start_all_running.
  2:{ clear -Hmap. induction Hmap as [|kv c m conns [_ [_ H]] _ IH]; constructor; assumption. }
  unfold removed_objs, closed_objs.
  rewrite (filter_none (fun kv : str * peer => negb (mem_str (fst kv) (ids (g_conns cfg))))).
  2:{ intros [k p] Hin. cbn [fst]. apply negb_false_iff, mem_str_In. rewrite <- Hkeys.
      apply in_map_iff. exists (k, p). split; [reflexivity|exact Hin]. }
  rewrite (filter_none (fun kv : str * N => negb (mem_str (fst kv) (g_listen cfg)))).
  2:{ intros [a l] Hin. cbn [fst]. apply negb_false_iff, mem_str_In. rewrite <- Hls.
      apply in_map_iff. exists (a, l). split; [reflexivity|exact Hin]. }
  cbn [map app]. rewrite !app_nil_r, <- Hord, <- Hdead. destruct st; reflexivity.
Qed.

Lemma spec_build_defs old conns : forall n,
  Forall2 (fun (kv : str * peer) c => fst kv = c_id c /\ p_def (snd kv) = c /\ p_running (snd kv) = true)
          (start_all (fst (spec_build old n conns))) conns.
Proof.
  induction conns as [|c r IH]; intros n; cbn [spec_build]; [constructor|].
  assert (Hd : p_def (fst (spec_peer old n c)) = c).
  { unfold spec_peer. destruct (lookup (c_id c) old) as [v|]; [|reflexivity].
    destruct (conn_eqb_spec c (p_def v)) as [E|_]; [symmetry; exact E|reflexivity]. }
  destruct (spec_peer old n c) as [p n']. specialize (IH n').
  destruct (spec_build old n' r) as [l n'']. cbn [fst start_all map snd] in *.
  constructor; [|exact IH]. cbn [fst snd start p_def p_running]. repeat split. exact Hd.
Qed.

Lemma reload_settles st cfg : d_dead st = false -> cfg_ok cfg -> settled (reload st cfg) cfg.
Proof.
  intros Hdead Hok. rewrite reload_ok by assumption. unfold reload_spec, settled.
  cbn [d_dead d_order d_listeners d_map]. repeat split.
  - apply spec_listeners_keys.
  - apply spec_build_defs.
Qed.

Lemma sync_map_settled id t m conns :
  Forall2 (fun (kv : str * peer) c => fst kv = c_id c /\ p_def (snd kv) = c /\ p_running (snd kv) = true) m conns ->
  Forall2 (fun (kv : str * peer) c => fst kv = c_id c /\ p_def (snd kv) = c /\ p_running (snd kv) = true)
    (map (fun kv => if str_eqb id (fst kv) then (fst kv, set_cache (snd kv) t) else kv) m) conns.
Proof.
  induction 1 as [|kv c m conns H _ IH]; cbn [map]; constructor; [|exact IH].
  destruct (str_eqb id (fst kv)); [|exact H]. cbn [fst snd set_cache p_def p_running]. exact H.
Qed.

Lemma sync_settled st cfg id t : settled st cfg -> settled (sync st id t) cfg.
Proof.
  intros [Hdead [Hord [Hls Hmap]]]. unfold settled, sync. cbn [d_dead d_order d_listeners d_map].
  repeat split; try assumption. apply sync_map_settled. exact Hmap.
Qed.

(** * Histories *)

Definition ev_ok (e : event) : Prop := match e with Reload cfg => cfg_ok cfg | Sync _ _ => True end.
Definition hist_ok (h : list event) : Prop := Forall ev_ok h.

Lemma run_app st h1 h2 : run st (h1 ++ h2) = run (run st h1) h2.
Proof. unfold run. apply fold_left_app. Qed.

Lemma step_alive st e : d_dead st = false -> ev_ok e -> d_dead (step st e) = false.
Proof.
  intros Hd He. destruct e as [cfg|id t]; cbn [step].
  - apply reload_alive; assumption.
  - exact Hd.
Qed.

Lemma run_alive h : forall st, d_dead st = false -> hist_ok h -> d_dead (run st h) = false.
Proof.
  induction h as [|e h IH]; intros st Hd Hok; [exact Hd|].
  inversion Hok as [|x l He Hok']; subst x l. cbn [run fold_left].
  apply IH; [apply step_alive; assumption|exact Hok'].
Qed.

Lemma lookup_sync st id t k :
  lookup k (d_map (sync st id t)) =
    match lookup k (d_map st) with
    | Some p => Some (if str_eqb id k then set_cache p t else p)
    | None => None
    end.
Proof.
  unfold sync. cbn [d_map]. induction (d_map st) as [|[k' v'] m IH]; cbn [map lookup fst snd]; [reflexivity|].
  destruct (str_eqb_spec id k') as [->|Hne]; cbn [lookup fst snd].
  - destruct (str_eqb_spec k k') as [->|Hne']; [rewrite str_eqb_refl; reflexivity|].
    exact IH.
  - destruct (str_eqb_spec k k') as [->|Hne'].
    + destruct (str_eqb_spec id k'); [congruence|reflexivity].
    + exact IH.
Qed.

(** what a backend has cached after the synchronisations of a history *)
Definition cache_hist (id : str) (h : list event) (t0 : N) : N :=
  fold_left (fun t e => match e with
                        | Sync id' t' => if str_eqb id' id then t' else t
                        | Reload _ => t
                        end) h t0.

(** a connection that is part of every configuration of a history keeps its
    peer object, and its cache changes by its own synchronisations only *)
Theorem hist_kept h : forall st c p,
  d_dead st = false -> hist_ok h ->
  (forall cfg, In (Reload cfg) h -> In c (g_conns cfg)) ->
  lookup (c_id c) (d_map st) = Some p -> p_def p = c ->
  exists p', lookup (c_id c) (d_map (run st h)) = Some p' /\
             p_obj p' = p_obj p /\ p_def p' = c /\
             p_cache p' = cache_hist (c_id c) h (p_cache p).
Proof.
  induction h as [|e h IH]; intros st c p Hd Hok Hall Hl Hdef.
  - exists p. repeat split; assumption.
  - inversion Hok as [|x l He Hok']; subst x l. cbn [run fold_left cache_hist].
    assert (Hall' : forall cfg, In (Reload cfg) h -> In c (g_conns cfg))
      by (intros cfg Hin; apply Hall; right; exact Hin).
    destruct e as [cfg|id t]; cbn [step].
    + assert (Hin : In c (g_conns cfg)) by (apply Hall; left; reflexivity).
      pose proof (unchanged_kept st cfg Hd He c p Hin Hl Hdef) as Hk.
      destruct (IH (reload st cfg) c (start p) (reload_alive st cfg Hd He) Hok' Hall' Hk Hdef)
        as [p' [H1 [H2 [H3 H4]]]].
      exists p'. repeat split; assumption.
    + pose proof (lookup_sync st id t (c_id c)) as Hs. rewrite Hl in Hs.
      destruct (str_eqb id (c_id c)).
      * destruct (IH (sync st id t) c (set_cache p t) Hd Hok' Hall' Hs Hdef) as [p' [H1 [H2 [H3 H4]]]].
        exists p'. repeat split; assumption.
      * destruct (IH (sync st id t) c p Hd Hok' Hall' Hs Hdef) as [p' [H1 [H2 [H3 H4]]]].
        exists p'. repeat split; assumption.
Qed.

(** invariant of reachable states: object identities are allocated in
    increasing order, keys are the ids of the definitions, order = keys *)
Record Inv (st : dstate) : Prop := mkInv {
  inv_map : forall k p, In (k, p) (d_map st) -> p_obj p < d_next st /\ k = c_id (p_def p);
  inv_listeners : forall a l, In (a, l) (d_listeners st) -> l < d_next st;
  inv_stopped : forall o, In o (d_stopped st) -> o < d_next st;
  inv_closed : forall o, In o (d_closed st) -> o < d_next st;
  inv_nodup : NoDup (keys (d_map st));
  inv_order : d_order st = keys (d_map st) }.

Lemma init_inv : Inv init_state.
Proof. constructor; cbn; try (intros; contradiction); try constructor. Qed.

Lemma spec_build_keydef old conns : forall n k p,
  In (k, p) (fst (spec_build old n conns)) -> k = c_id (p_def p).
Proof.
  induction conns as [|c r IH]; intros n k p; cbn [spec_build]; [intros []|].
  assert (Hd : p_def (fst (spec_peer old n c)) = c).
  { unfold spec_peer. destruct (lookup (c_id c) old) as [v|]; [|reflexivity].
    destruct (conn_eqb_spec c (p_def v)) as [E|_]; [symmetry; exact E|reflexivity]. }
  destruct (spec_peer old n c) as [p0 n']. specialize (IH n' k p).
  destruct (spec_build old n' r) as [l n'']. cbn [fst] in *.
  intros [E|Hin]; [|exact (IH Hin)]. injection E as <- <-. rewrite Hd. reflexivity.
Qed.

Lemma In_start_all k p m : In (k, p) (start_all m) -> exists p0, p = start p0 /\ In (k, p0) m.
Proof.
  unfold start_all. intros H. apply in_map_iff in H. destruct H as [[k0 p0] [E Hin]].
  cbn [fst snd] in E. injection E as <- <-. exists p0. split; [reflexivity|exact Hin].
Qed.

Lemma reload_inv st cfg : Inv st -> d_dead st = false -> cfg_ok cfg -> Inv (reload st cfg).
Proof.
  intros [Imap Ils Istop Iclosed Ind Iord] Hd Hok.
  rewrite reload_ok by assumption. unfold reload_spec.
  set (ls := spec_listeners (d_listeners st) (d_next st) (g_listen cfg)).
  set (pb := spec_build (d_map st) (snd ls) (g_conns cfg)).
  assert (H1 : d_next st <= snd ls) by apply spec_listeners_next.
  assert (H2 : snd ls <= snd pb) by apply spec_build_next.
  assert (Hold : forall k v, lookup k (d_map st) = Some v -> p_obj v < d_next st).
  { intros k v Hl. apply (Imap k v). apply lookup_In. exact Hl. }
  constructor; cbn [d_map d_listeners d_stopped d_closed d_next d_order].
  - intros k p Hin. apply In_start_all in Hin. destruct Hin as [p0 [-> Hin]].
    cbn [start p_obj p_def]. split.
    + apply (spec_build_bound (d_map st) (g_conns cfg) (d_next st) (snd ls) Hold H1 k p0 Hin).
    + apply (spec_build_keydef _ _ _ _ _ Hin).
  - intros a l Hin.
    assert (Holdl : forall a l, lookup a (d_listeners st) = Some l -> l < d_next st).
    { intros a' l' Hl. apply (Ils a' l'). apply lookup_In. exact Hl. }
    pose proof (spec_listeners_bound (d_listeners st) (g_listen cfg) (d_next st) (d_next st) Holdl
                  (N.le_refl _) a l Hin) as Hb.
    fold ls in Hb. lia.
  - intros o Hin. apply in_app_iff in Hin. destruct Hin as [Hin|Hin].
    + specialize (Istop o Hin). lia.
    + apply in_app_iff in Hin. destruct Hin as [Hin|Hin].
      * unfold removed_objs in Hin. apply in_map_iff in Hin. destruct Hin as [[k p] [<- Hin]].
        apply filter_In in Hin. destruct Hin as [Hin _]. destruct (Imap k p Hin) as [Hlt _].
        cbn [snd]. lia.
      * apply spec_changed_sub in Hin. destruct Hin as [c [p [_ [Hl [_ ->]]]]].
        specialize (Hold _ _ Hl). lia.
  - intros o Hin. apply in_app_iff in Hin. destruct Hin as [Hin|Hin].
    + specialize (Iclosed o Hin). lia.
    + unfold closed_objs in Hin. apply in_map_iff in Hin. destruct Hin as [[a l] [<- Hin]].
      apply filter_In in Hin. destruct Hin as [Hin _]. specialize (Ils a l Hin). cbn [snd]. lia.
  - rewrite keys_start_all. unfold pb. rewrite spec_build_keys. apply Hok.
  - rewrite keys_start_all. unfold pb. rewrite spec_build_keys. reflexivity.
Qed.

Lemma keys_sync st id t : keys (d_map (sync st id t)) = keys (d_map st).
Proof.
  unfold sync, keys. cbn [d_map]. rewrite map_map. apply map_ext.
  intros [k p]. cbn [fst]. destruct (str_eqb id k); reflexivity.
Qed.

Lemma sync_inv st id t : Inv st -> Inv (sync st id t).
Proof.
  intros [Imap Ils Istop Iclosed Ind Iord].
  constructor; try (rewrite keys_sync); try assumption.
  intros k p Hin. unfold sync in Hin. cbn [d_map d_next] in *.
  apply in_map_iff in Hin. destruct Hin as [[k0 p0] [E Hin]]. cbn [fst snd] in E.
  destruct (str_eqb id k0); injection E as <- <-; exact (Imap k0 p0 Hin).
Qed.

Lemma run_inv h : forall st, Inv st -> d_dead st = false -> hist_ok h -> Inv (run st h).
Proof.
  induction h as [|e h IH]; intros st Hi Hd Hok; [exact Hi|].
  inversion Hok as [|x l He Hok']; subst x l. cbn [run fold_left].
  apply IH; [|apply step_alive; assumption|exact Hok'].
  destruct e as [cfg|id t]; cbn [step]; [apply reload_inv|apply sync_inv]; assumption.
Qed.

(** an object created by a reload has never existed before *)
Theorem created_is_new h cfg c :
  hist_ok h -> cfg_ok cfg -> In c (g_conns cfg) ->
  let st := run init_state h in
  (lookup (c_id c) (d_map st) = None \/
   exists p, lookup (c_id c) (d_map st) = Some p /\ p_def p <> c) ->
  exists p', lookup (c_id c) (d_map (reload st cfg)) = Some p' /\ p_def p' = c /\ p_cache p' = 0 /\
             p_running p' = true /\
             (forall k q, In (k, q) (d_map st) -> p_obj q <> p_obj p') /\
             ~ In (p_obj p') (d_stopped st).
Proof.
  intros Hh Hok Hin st Hcase.
  assert (Hd : d_dead st = false) by (apply run_alive; [reflexivity|exact Hh]).
  assert (Hi : Inv st) by (apply run_inv; [apply init_inv|reflexivity|exact Hh]).
  destruct (created st cfg Hd Hok c Hin Hcase) as [p' [H1 [H2 [H3 [H4 [H5 H6]]]]]].
  exists p'. repeat split; try assumption.
  - intros k q Hq E. destruct (inv_map st Hi k q Hq) as [Hlt _]. lia.
  - intros Hs. pose proof (inv_stopped st Hi _ Hs). lia.
Qed.

(** after any history the daemon runs exactly the last configuration *)
Theorem final_matches_last h cfg syncs :
  hist_ok h -> cfg_ok cfg -> Forall (fun e => match e with Sync _ _ => True | Reload _ => False end) syncs ->
  settled (run init_state (h ++ Reload cfg :: syncs)) cfg.
Proof.
  intros Hh Hok Hs. rewrite run_app. cbn [run fold_left step].
  assert (Hd : d_dead (run init_state h) = false) by (apply run_alive; [reflexivity|exact Hh]).
  pose proof (reload_settles _ cfg Hd Hok) as Hset.
  fold (run (reload (run init_state h) cfg) syncs).
  revert Hset. generalize (reload (run init_state h) cfg).
  induction Hs as [|e syncs He _ IH]; intros st Hset; [exact Hset|].
  destruct e as [|id t]; [destruct He|]. cbn [run fold_left step]. apply IH. apply sync_settled. exact Hset.
Qed.

(** * A stopped object never serves again (the history-level negation of D6) *)

Definition objs (m : list (str * peer)) : list N := map (fun kv => p_obj (snd kv)) m.

Record Inv2 (st : dstate) : Prop := mkInv2 {
  inv2_objs : NoDup (objs (d_map st));
  inv2_stopped : forall o k p, In o (d_stopped st) -> In (k, p) (d_map st) -> p_obj p <> o }.

Lemma NoDup_map_inj {A B} (f : A -> B) l x y :
  NoDup (map f l) -> In x l -> In y l -> f x = f y -> x = y.
Proof.
  induction l as [|a l IH]; cbn [map]; intros Hnd Hx Hy E; [destruct Hx|].
  inversion Hnd as [|b l' Ha Hnd']; subst.
  destruct Hx as [->|Hx], Hy as [->|Hy].
  - reflexivity.
  - exfalso. apply Ha. rewrite E. apply in_map. exact Hy.
  - exfalso. apply Ha. rewrite <- E. apply in_map. exact Hx.
  - apply IH; assumption.
Qed.

Lemma spec_build_origin old conns : forall n k p,
  In (k, p) (fst (spec_build old n conns)) ->
  (exists c, In c conns /\ k = c_id c /\ lookup k old = Some p /\ conn_eqb c (p_def p) = true) \/
  n <= p_obj p.
Proof.
  induction conns as [|c r IH]; intros n k p; cbn [spec_build]; [intros []|].
  pose proof (spec_peer_next old n c) as Hle.
  assert (Hhead : (lookup (c_id c) old = Some (fst (spec_peer old n c)) /\
                   conn_eqb c (p_def (fst (spec_peer old n c))) = true) \/
                  n <= p_obj (fst (spec_peer old n c))).
  { unfold spec_peer. destruct (lookup (c_id c) old) as [v|] eqn:Hl.
    - destruct (conn_eqb c (p_def v)) eqn:He; cbn [fst new_peer p_obj].
      + left. split; [reflexivity|exact He].
      + right. lia.
    - right. cbn [fst new_peer p_obj]. lia. }
  destruct (spec_peer old n c) as [p0 n']. cbn [fst snd] in *. specialize (IH n' k p).
  destruct (spec_build old n' r) as [l n'']. cbn [fst] in *.
  intros [E|Hin].
  - injection E as <- <-. destruct Hhead as [[H1 H2]|H]; [left|right; exact H].
    exists c. repeat split; [left; reflexivity|exact H1|exact H2].
  - destruct (IH Hin) as [[c' [H1 H2]]|H]; [left|right; lia].
    exists c'. split; [right; exact H1|exact H2].
Qed.

Lemma spec_build_objs old conns B : forall n,
  NoDup (ids conns) -> NoDup (objs old) ->
  (forall k v, In (k, v) old -> p_obj v < B) -> B <= n ->
  NoDup (objs (fst (spec_build old n conns))).
Proof.
  induction conns as [|c r IH]; intros n Hnd Hobjs Hold Hn; cbn [spec_build]; [constructor|].
  cbn [ids map] in Hnd. inversion Hnd as [|x l Hc Hnd']; subst x l.
  pose proof (spec_peer_next old n c) as Hle.
  pose proof (spec_build_origin old r (snd (spec_peer old n c))) as Horigin.
  assert (Hhead : (exists v, lookup (c_id c) old = Some v /\ fst (spec_peer old n c) = v /\
                             snd (spec_peer old n c) = n) \/
                  (p_obj (fst (spec_peer old n c)) = n /\ snd (spec_peer old n c) = n + 1)).
  { unfold spec_peer. destruct (lookup (c_id c) old) as [v|] eqn:Hl.
    - destruct (conn_eqb c (p_def v)); cbn [fst snd new_peer p_obj].
      + left. exists v. repeat split.
      + right. split; reflexivity.
    - right. cbn [fst snd new_peer p_obj]. split; reflexivity. }
  assert (Hn' : B <= snd (spec_peer old n c)) by lia.
  specialize (IH (snd (spec_peer old n c)) Hnd' Hobjs Hold Hn').
  destruct (spec_peer old n c) as [p0 n']. cbn [fst snd] in *.
  destruct (spec_build old n' r) as [l n'']. cbn [fst objs map snd] in *.
  constructor; [|exact IH].
  intros Hin. apply in_map_iff in Hin. destruct Hin as [[k q] [E Hq]]. cbn [snd] in E.
  destruct (Horigin k q Hq) as [[c' [Hc' [Hk [Hlq _]]]]|Hge].
  - (* q is a kept old object *)
    apply lookup_In in Hlq. pose proof (Hold _ _ Hlq) as Hqb.
    destruct Hhead as [[v [Hlv [-> ->]]]|[Hp0 ->]].
    + apply lookup_In in Hlv.
      pose proof (NoDup_map_inj (fun kv : str * peer => p_obj (snd kv)) old (k, q) (c_id c, v) Hobjs Hlq Hlv E) as Heq.
      injection Heq as Hkk _. apply Hc. rewrite <- Hkk, Hk. apply in_map. exact Hc'.
    + lia.
  - (* q is new, allocated at n' or later *)
    destruct Hhead as [[v [Hlv [-> ->]]]|[Hp0 ->]].
    + apply lookup_In in Hlv. pose proof (Hold _ _ Hlv). lia.
    + lia.
Qed.

Lemma objs_start_all m : objs (start_all m) = objs m.
Proof. unfold objs, start_all. rewrite map_map. apply map_ext. intros [k p]; reflexivity. Qed.

Lemma reload_inv2 st cfg :
  Inv st -> Inv2 st -> d_dead st = false -> cfg_ok cfg -> Inv2 (reload st cfg).
Proof.
  intros Hi [Hobjs Hstop] Hd Hok.
  rewrite reload_ok by assumption. unfold reload_spec.
  set (ls := spec_listeners (d_listeners st) (d_next st) (g_listen cfg)).
  set (pb := spec_build (d_map st) (snd ls) (g_conns cfg)).
  assert (H1 : d_next st <= snd ls) by apply spec_listeners_next.
  assert (Hold : forall k v, In (k, v) (d_map st) -> p_obj v < d_next st)
    by (intros k v Hin; apply (inv_map st Hi k v Hin)).
  assert (Hcnd : NoDup (ids (g_conns cfg))) by apply Hok.
  constructor; cbn [d_map d_stopped].
  - rewrite objs_start_all. apply (spec_build_objs _ _ (d_next st)); assumption.
  - intros o k p Ho Hin. apply In_start_all in Hin. destruct Hin as [p0 [-> Hin]]. cbn [start p_obj].
    destruct (spec_build_origin _ _ _ _ _ Hin) as [[c [Hc [Hk [Hl He]]]]|Hge].
    + (* kept object *)
      pose proof (lookup_In _ _ _ Hl) as Hin0.
      apply in_app_iff in Ho. destruct Ho as [Ho|Ho]; [exact (Hstop o k p0 Ho Hin0)|].
      apply in_app_iff in Ho. destruct Ho as [Ho|Ho].
      * unfold removed_objs in Ho. apply in_map_iff in Ho. destruct Ho as [[k2 p2] [<- Hf]].
        apply filter_In in Hf. destruct Hf as [Hin2 Hnot]. cbn [fst snd] in *.
        intros E.
        pose proof (NoDup_map_inj (fun kv : str * peer => p_obj (snd kv)) (d_map st) (k, p0) (k2, p2)
                      Hobjs Hin0 Hin2 E) as Heq.
        injection Heq as <- _. apply negb_true_iff, mem_str_false in Hnot. apply Hnot.
        rewrite Hk. apply in_map. exact Hc.
      * apply spec_changed_sub in Ho. destruct Ho as [c2 [p2 [Hc2 [Hl2 [He2 ->]]]]].
        intros E. pose proof (lookup_In _ _ _ Hl2) as Hin2.
        pose proof (NoDup_map_inj (fun kv : str * peer => p_obj (snd kv)) (d_map st) (k, p0) (c_id c2, p2)
                      Hobjs Hin0 Hin2 E) as Heq.
        injection Heq as Hkk <-.
        assert (c = c2).
        { apply (NoDup_map_inj c_id (g_conns cfg)); try assumption. rewrite <- Hk. exact Hkk. }
        subst c2. congruence.
    + (* new object *)
      intros E. subst o.
      apply in_app_iff in Ho. destruct Ho as [Ho|Ho]; [pose proof (inv_stopped st Hi _ Ho); lia|].
      apply in_app_iff in Ho. destruct Ho as [Ho|Ho].
      * unfold removed_objs in Ho. apply in_map_iff in Ho. destruct Ho as [[k2 p2] [E Hf]].
        apply filter_In in Hf. destruct Hf as [Hin2 _]. pose proof (Hold _ _ Hin2). cbn [snd] in E. lia.
      * apply spec_changed_sub in Ho. destruct Ho as [c2 [p2 [_ [Hl2 [_ E]]]]].
        apply lookup_In in Hl2. pose proof (Hold _ _ Hl2). lia.
Qed.

Lemma objs_sync st id t : objs (d_map (sync st id t)) = objs (d_map st).
Proof.
  unfold sync, objs. cbn [d_map]. rewrite map_map. apply map_ext.
  intros [k p]. cbn [fst]. destruct (str_eqb id k); reflexivity.
Qed.

Lemma sync_inv2 st id t : Inv2 st -> Inv2 (sync st id t).
Proof.
  intros [Hobjs Hstop]. constructor.
  - rewrite objs_sync. exact Hobjs.
  - intros o k p Ho Hin. unfold sync in Hin, Ho. cbn [d_map d_stopped] in *.
    apply in_map_iff in Hin. destruct Hin as [[k0 p0] [E Hin]]. cbn [fst snd] in E.
    destruct (str_eqb id k0); injection E as <- <-; exact (Hstop o k0 p0 Ho Hin).
Qed.

Lemma run_inv2 h : forall st, Inv st -> Inv2 st -> d_dead st = false -> hist_ok h -> Inv2 (run st h).
Proof.
  induction h as [|e h IH]; intros st Hi Hi2 Hd Hok; [exact Hi2|].
  inversion Hok as [|x l He Hok']; subst x l. cbn [run fold_left].
  apply IH; [| |apply step_alive; assumption|exact Hok'].
  - destruct e as [cfg|id t]; cbn [step]; [apply reload_inv|apply sync_inv]; assumption.
  - destruct e as [cfg|id t]; cbn [step]; [apply reload_inv2|apply sync_inv2]; assumption.
Qed.

Theorem stopped_never_serves h :
  hist_ok h ->
  let st := run init_state h in
  NoDup (objs (d_map st)) /\
  forall o k p, In o (d_stopped st) -> In (k, p) (d_map st) -> p_obj p <> o.
Proof.
  intros Hh st.
  assert (Hi2 : Inv2 st).
  { apply run_inv2; [apply init_inv| |reflexivity|exact Hh].
    constructor; cbn; [constructor|intros; contradiction]. }
  destruct Hi2 as [H1 H2]. split; assumption.
Qed.

(** * Statements over reachable states, as used in Props.v *)

Theorem changed_recreated h cfg c p :
  hist_ok h -> cfg_ok cfg -> In c (g_conns cfg) ->
  let st := run init_state h in
  lookup (c_id c) (d_map st) = Some p -> p_def p <> c ->
  exists p', lookup (c_id c) (d_map (reload st cfg)) = Some p' /\
             p_def p' = c /\ p_cache p' = 0 /\ p_running p' = true /\
             p_obj p' <> p_obj p /\
             (forall k q, In (k, q) (d_map st) -> p_obj q <> p_obj p') /\
             ~ In (p_obj p') (d_stopped st) /\
             In (p_obj p) (d_stopped (reload st cfg)).
Proof.
  intros Hh Hok Hin st Hl Hdef.
  assert (Hd : d_dead st = false) by (apply run_alive; [reflexivity|exact Hh]).
  destruct (created_is_new h cfg c Hh Hok Hin (or_intror (ex_intro _ p (conj Hl Hdef))))
    as [p' [H1 [H2 [H3 [H4 [H5 H6]]]]]].
  exists p'. repeat split; try assumption.
  - intros E. apply (H5 (c_id c) p (lookup_In _ _ _ Hl)). symmetry; exact E.
  - apply (changed_stopped st cfg Hd Hok c p Hin Hl Hdef).
Qed.

Theorem added_present h cfg c :
  hist_ok h -> cfg_ok cfg -> In c (g_conns cfg) ->
  let st := run init_state h in
  lookup (c_id c) (d_map st) = None ->
  exists p', lookup (c_id c) (d_map (reload st cfg)) = Some p' /\
             p_def p' = c /\ p_cache p' = 0 /\ p_running p' = true /\
             (forall k q, In (k, q) (d_map st) -> p_obj q <> p_obj p') /\
             ~ In (p_obj p') (d_stopped st).
Proof.
  intros Hh Hok Hin st Hl.
  exact (created_is_new h cfg c Hh Hok Hin (or_introl Hl)).
Qed.

Lemma run_syncs_settled syncs : forall st cfg,
  Forall (fun e => match e with Sync _ _ => True | Reload _ => False end) syncs ->
  settled st cfg -> settled (run st syncs) cfg.
Proof.
  induction syncs as [|e syncs IH]; intros st cfg Hs Hset; [exact Hset|].
  inversion Hs as [|x l He Hs']; subst x l.
  destruct e as [|id t]; [destruct He|]. cbn [run fold_left step]. apply IH; [exact Hs'|].
  apply sync_settled. exact Hset.
Qed.

Theorem noop_after_reload st cfg syncs :
  d_dead st = false -> cfg_ok cfg ->
  Forall (fun e => match e with Sync _ _ => True | Reload _ => False end) syncs ->
  reload (run (reload st cfg) syncs) cfg = run (reload st cfg) syncs.
Proof.
  intros Hd Hok Hs. apply noop_identity; [|exact Hok].
  apply run_syncs_settled; [exact Hs|]. apply reload_settles; assumption.
Qed.
