(** C20: the comparison of a connection with the running one is the
    comparison of the configuration file's spelling - every attribute, lists
    entry by entry in file order.  Consequences of Proofs.v. *)
From LMD Require Import Base.Str C20.Model C20.Proofs C20.Run2.
Local Open Scope N_scope.

Lemma init_alive : d_dead init_state = false.
Proof. reflexivity. Qed.

Theorem recreated_iff_differs h cfg c p :
  hist_ok h -> cfg_ok cfg -> In c (g_conns cfg) ->
  let st := run init_state h in
  lookup (c_id c) (d_map st) = Some p ->
  exists p', lookup (c_id c) (d_map (reload st cfg)) = Some p' /\ p_def p' = c /\
             p_running p' = true /\
             (p_obj p' = p_obj p <-> p_def p = c) /\
             (p_def p = c -> p_cache p' = p_cache p) /\
             (p_def p <> c -> p_cache p' = 0 /\ In (p_obj p) (d_stopped (reload st cfg))).
Proof.
  intros Hh Hok Hin st Hl.
  assert (Hd : d_dead st = false) by (apply run_alive; [exact init_alive|exact Hh]).
  destruct (conn_eqb_spec (p_def p) c) as [He|Hne].
  - pose proof (unchanged_kept st cfg Hd Hok c p Hin Hl He) as Hk.
    exists (start p). split; [exact Hk|]. split; [exact He|]. split; [reflexivity|].
    split; [split; intros _; [exact He|reflexivity]|].
    split; [intros _; reflexivity|]. intros Hc. contradiction.
  - destruct (changed_recreated h cfg c p Hh Hok Hin Hl Hne)
      as (p' & Hl' & Hdef & Hc & Hr & Hobj & _ & _ & Hst).
    exists p'. split; [exact Hl'|]. split; [exact Hdef|]. split; [exact Hr|].
    split; [split; intros H; [contradiction|contradiction]|].
    split; [intros H; contradiction|]. intros _. split; [exact Hc|exact Hst].
Qed.

(** any difference in a list attribute - other entries, another length or
    only another order - is a difference of the definition *)
Theorem list_edit_recreates h cfg c p :
  hist_ok h -> cfg_ok cfg -> In c (g_conns cfg) ->
  let st := run init_state h in
  lookup (c_id c) (d_map st) = Some p ->
  c_source c <> c_source (p_def p) \/ c_fallback c <> c_fallback (p_def p) \/ c_flags c <> c_flags (p_def p) ->
  exists p', lookup (c_id c) (d_map (reload st cfg)) = Some p' /\
             p_obj p' <> p_obj p /\ p_cache p' = 0 /\ p_running p' = true /\
             c_source (p_def p') = c_source c /\ c_fallback (p_def p') = c_fallback c /\
             c_flags (p_def p') = c_flags c /\
             hd [] (c_source (p_def p')) = hd [] (c_source c) /\
             In (p_obj p) (d_stopped (reload st cfg)).
Proof.
  intros Hh Hok Hin st Hl Hdiff.
  assert (Hne : p_def p <> c).
  { intros He. rewrite He in Hdiff. destruct Hdiff as [H|[H|H]]; apply H; reflexivity. }
  destruct (changed_recreated h cfg c p Hh Hok Hin Hl Hne)
    as (p' & Hl' & Hdef & Hc & Hr & Hobj & _ & _ & Hst).
  exists p'. rewrite Hdef. repeat split; try reflexivity; assumption.
Qed.

(** what stream serve / busy rely on: a backend whose definition the reload
    does not touch is the same object with the same cache in the state before
    and in the state after - whatever a client is served from while the reload
    runs, this backend is in it *)
Theorem unchanged_in_both_states st cfg c p :
  d_dead st = false -> cfg_ok cfg -> In c (g_conns cfg) ->
  lookup (c_id c) (d_map st) = Some p -> p_def p = c ->
  forallb (same_object (c_id c) p) [st; reload st cfg] = true /\
  exists p', lookup (c_id c) (d_map (reload st cfg)) = Some p' /\ p_cache p' = p_cache p /\ p_def p' = p_def p.
Proof.
  intros Hd Hok Hin Hl He.
  pose proof (unchanged_kept st cfg Hd Hok c p Hin Hl He) as Hk.
  split.
  - cbn [forallb]. unfold same_object. rewrite Hl, Hk. cbn [start p_obj].
    rewrite N.eqb_refl. reflexivity.
  - exists (start p). split; [exact Hk|]. split; reflexivity.
Qed.
