(** C20: a configuration reload applies exactly the changes.
    Only statements, each closed by [exact]; proofs live in Proofs.v.

    [reload st cfg] is one run of mainLoop (initializeListeners +
    initializePeers + Nodes.Initialize) on daemon state [st]; a history is a
    list of reloads interleaved with backend synchronisations ([Sync]); all
    statements hold for every state / every history of accepted
    configurations ([cfg_ok]: something to listen on, at least one
    connection, distinct ids, every connection has a source). *)
From LMD Require Import Base.Str C20.Model C20.Proofs C20.Proofs2 C20.Run2.
Local Open Scope N_scope.

(** The transcription of the Go loops (with the in-place mutation of the old
    map, the order rebuild and the checks inside the loop) computes the
    one-line-per-object specification. *)
Theorem C20_reload_refines_spec :
  forall st cfg, d_dead st = false -> cfg_ok cfg -> reload st cfg = reload_spec st cfg.
Proof. exact reload_ok. Qed.

(** unchanged definition -> the same peer object with its cache, running *)
Theorem C20_unchanged_kept :
  forall st cfg, d_dead st = false -> cfg_ok cfg ->
  forall c p, In c (g_conns cfg) -> lookup (c_id c) (d_map st) = Some p -> p_def p = c ->
    lookup (c_id c) (d_map (reload st cfg)) = Some (start p).
Proof. exact unchanged_kept. Qed.

(** ... throughout: over any sequence of reloads that all contain the
    definition (and any synchronisations in between) the object stays the
    same and its cache changes only by its own synchronisations *)
Theorem C20_unchanged_kept_throughout :
  forall h st c p, d_dead st = false -> hist_ok h ->
  (forall cfg, In (Reload cfg) h -> In c (g_conns cfg)) ->
  lookup (c_id c) (d_map st) = Some p -> p_def p = c ->
  exists p', lookup (c_id c) (d_map (run st h)) = Some p' /\
             p_obj p' = p_obj p /\ p_def p' = c /\
             p_cache p' = cache_hist (c_id c) h (p_cache p).
Proof. exact hist_kept. Qed.

(** removed -> gone from map and order, its object stopped *)
Theorem C20_removed_gone :
  forall st cfg, d_dead st = false -> cfg_ok cfg ->
  forall id p, lookup id (d_map st) = Some p -> ~ In id (ids (g_conns cfg)) ->
    lookup id (d_map (reload st cfg)) = None /\ ~ In id (d_order (reload st cfg)) /\
    In (p_obj p) (d_stopped (reload st cfg)).
Proof. exact removed_gone. Qed.

(** added -> present with the configured definition, empty cache, running,
    as an object that never existed before *)
Theorem C20_added_present :
  forall h cfg c, hist_ok h -> cfg_ok cfg -> In c (g_conns cfg) ->
  let st := run init_state h in
  lookup (c_id c) (d_map st) = None ->
  exists p', lookup (c_id c) (d_map (reload st cfg)) = Some p' /\
             p_def p' = c /\ p_cache p' = 0 /\ p_running p' = true /\
             (forall k q, In (k, q) (d_map st) -> p_obj q <> p_obj p') /\
             ~ In (p_obj p') (d_stopped st).
Proof. exact added_present. Qed.

(** definition differs -> a NEW peer object carrying the new definition; the
    old object is stopped (this is what the pinned tree violates: D6) *)
Theorem C20_changed_recreated :
  forall h cfg c p, hist_ok h -> cfg_ok cfg -> In c (g_conns cfg) ->
  let st := run init_state h in
  lookup (c_id c) (d_map st) = Some p -> p_def p <> c ->
  exists p', lookup (c_id c) (d_map (reload st cfg)) = Some p' /\
             p_def p' = c /\ p_cache p' = 0 /\ p_running p' = true /\
             p_obj p' <> p_obj p /\
             (forall k q, In (k, q) (d_map st) -> p_obj q <> p_obj p') /\
             ~ In (p_obj p') (d_stopped st) /\
             In (p_obj p) (d_stopped (reload st cfg)).
Proof. exact changed_recreated. Qed.

(** after every history: distinct ids are distinct objects and no stopped
    object is in the map again *)
Theorem C20_stopped_never_serves :
  forall h, hist_ok h ->
  let st := run init_state h in
  NoDup (objs (d_map st)) /\
  forall o k p, In o (d_stopped st) -> In (k, p) (d_map st) -> p_obj p <> o.
Proof. exact stopped_never_serves. Qed.

(** PeerMapOrder and the key set of PeerMap are the configured ids, in
    configuration order *)
Theorem C20_order_follows_config :
  forall st cfg, d_dead st = false -> cfg_ok cfg ->
    d_order (reload st cfg) = ids (g_conns cfg) /\ keys (d_map (reload st cfg)) = ids (g_conns cfg).
Proof. exact reload_order. Qed.

(** open listeners = configured listeners; unchanged ones are the same
    objects, new ones are new objects, the others are closed *)
Theorem C20_listeners_match :
  forall st cfg, d_dead st = false -> cfg_ok cfg ->
    keys (d_listeners (reload st cfg)) = g_listen cfg /\
    (forall a l, In a (g_listen cfg) -> lookup a (d_listeners st) = Some l ->
                 lookup a (d_listeners (reload st cfg)) = Some l) /\
    (forall a, In a (g_listen cfg) -> lookup a (d_listeners st) = None ->
               exists l, lookup a (d_listeners (reload st cfg)) = Some l /\ d_next st <= l) /\
    (forall a l, lookup a (d_listeners st) = Some l -> ~ In a (g_listen cfg) ->
                 lookup a (d_listeners (reload st cfg)) = None /\ In l (d_closed (reload st cfg))).
Proof. exact listeners_match. Qed.

(** reloading the configuration the daemon already runs changes nothing at
    all (not even the allocation counter) ... *)
Theorem C20_noop_identity :
  forall st cfg, settled st cfg -> cfg_ok cfg -> reload st cfg = st.
Proof. exact noop_identity. Qed.

(** ... in particular a second reload of the same configuration, whatever
    the backends synchronised in between *)
Theorem C20_noop_after_reload :
  forall st cfg syncs, d_dead st = false -> cfg_ok cfg ->
  Forall (fun e => match e with Sync _ _ => True | Reload _ => False end) syncs ->
  reload (run (reload st cfg) syncs) cfg = run (reload st cfg) syncs.
Proof. exact noop_after_reload. Qed.

(** after any history the daemon runs exactly the last configuration *)
Theorem C20_final_matches_last :
  forall h cfg syncs, hist_ok h -> cfg_ok cfg ->
  Forall (fun e => match e with Sync _ _ => True | Reload _ => False end) syncs ->
  settled (run init_state (h ++ Reload cfg :: syncs)) cfg.
Proof. exact final_matches_last. Qed.

(** accepted configurations never take the daemon down; a configuration with
    nothing to listen on, without connections or with a duplicate id does *)
Theorem C20_valid_history_alive :
  forall h st, d_dead st = false -> hist_ok h -> d_dead (run st h) = false.
Proof. exact run_alive. Qed.

Theorem C20_invalid_config_exits :
  forall st cfg, g_listen cfg = [] \/ g_conns cfg = [] \/ ~ NoDup (ids (g_conns cfg)) ->
    d_dead (reload st cfg) = true.
Proof. exact reload_rejects. Qed.

(** non-vacuity: start with backends a, b on listener L1; a synchronises;
    reload with a unchanged, b's source changed, c added, b before a, listener
    L1 replaced by L2; then drop a. *)
Example C20_example :
  let a := mkConn (s "a") (s "A") [s "s1"] [] [] [] [] in
  let b := mkConn (s "b") (s "B") [s "s2"] [] [] [] [] in
  let b' := mkConn (s "b") (s "B") [s "s3"] [] [] [] [] in
  let c := mkConn (s "c") (s "C") [s "s4"] [] [] [] [] in
  let st1 := run init_state [Reload (mkConfig [s "L1"] [a; b]); Sync (s "a") 7] in
  let st2 := reload st1 (mkConfig [s "L2"] [b'; a; c]) in
  let st3 := reload st2 (mkConfig [s "L2"] [b'; c]) in
  cfg_okb (mkConfig [s "L2"] [b'; a; c]) = true /\
  map (fun kv => (p_obj (snd kv), p_cache (snd kv))) (d_map st1) = [(2, 7); (3, 0)] /\
  d_order st2 = [s "b"; s "a"; s "c"] /\
  map (fun kv => (p_obj (snd kv), p_cache (snd kv), p_running (snd kv))) (d_map st2)
    = [(5, 0, true); (2, 7, true); (6, 0, true)] /\
  d_stopped st2 = [3] /\ d_listeners st2 = [(s "L2", 4)] /\ d_closed st2 = [1] /\
  reload st2 (mkConfig [s "L2"] [b'; a; c]) = st2 /\
  d_order st3 = [s "b"; s "c"] /\ d_stopped st3 = [3; 2] /\
  d_dead (reload st3 (mkConfig [s "L2"] [b'; b'])) = true.
Proof. vm_compute. repeat split. Qed.

Print Assumptions C20_reload_refines_spec.
Print Assumptions C20_unchanged_kept.
Print Assumptions C20_unchanged_kept_throughout.
Print Assumptions C20_removed_gone.
Print Assumptions C20_added_present.
Print Assumptions C20_changed_recreated.
Print Assumptions C20_stopped_never_serves.
Print Assumptions C20_order_follows_config.
Print Assumptions C20_listeners_match.
Print Assumptions C20_noop_identity.
Print Assumptions C20_noop_after_reload.
Print Assumptions C20_final_matches_last.
Print Assumptions C20_valid_history_alive.
Print Assumptions C20_invalid_config_exits.

(** ---- extension: every attribute counts, lists in file order ---- *)

(** A configured connection whose id is running is the SAME peer object exactly
    if the running definition equals the configured one as the configuration
    file spells it ([conn] equality: every attribute, source / fallback / flags
    entry by entry in file order); then the cache is kept, otherwise the object
    is new, its cache empty and the old object stopped. *)
Theorem C20_recreated_iff_differs :
  forall h cfg c p, hist_ok h -> cfg_ok cfg -> In c (g_conns cfg) ->
  let st := run init_state h in
  lookup (c_id c) (d_map st) = Some p ->
  exists p', lookup (c_id c) (d_map (reload st cfg)) = Some p' /\ p_def p' = c /\
             p_running p' = true /\
             (p_obj p' = p_obj p <-> p_def p = c) /\
             (p_def p = c -> p_cache p' = p_cache p) /\
             (p_def p <> c -> p_cache p' = 0 /\ In (p_obj p) (d_stopped (reload st cfg))).
Proof. exact recreated_iff_differs. Qed.

(** In particular a reload whose only edit is a list attribute - entries
    permuted, added, dropped - recreates the peer; the new object's primary
    address is the first entry of the new source list. *)
Theorem C20_list_edit_recreates :
  forall h cfg c p, hist_ok h -> cfg_ok cfg -> In c (g_conns cfg) ->
  let st := run init_state h in
  lookup (c_id c) (d_map st) = Some p ->
  c_source c <> c_source (p_def p) \/ c_fallback c <> c_fallback (p_def p) \/ c_flags c <> c_flags (p_def p) ->
  exists p', lookup (c_id c) (d_map (reload st cfg)) = Some p' /\
             p_obj p' <> p_obj p /\ p_cache p' = 0 /\ p_running p' = true /\
             c_source (p_def p') = c_source c /\ c_fallback (p_def p') = c_fallback c /\
             c_flags (p_def p') = c_flags c /\
             hd [] (c_source (p_def p')) = hd [] (c_source c) /\
             In (p_obj p) (d_stopped (reload st cfg)).
Proof. exact list_edit_recreates. Qed.

(** An untouched backend is the same object with the same cache in the state
    before and in the state after the reload: the two states a client can be
    served from while the reload runs (streams serve and busy, Run2.resp_ok /
    Run4.tresp_ok demand that it is listed, Run4 within the time limit). *)
Theorem C20_unchanged_in_both_states :
  forall st cfg c p, d_dead st = false -> cfg_ok cfg -> In c (g_conns cfg) ->
  lookup (c_id c) (d_map st) = Some p -> p_def p = c ->
  forallb (same_object (c_id c) p) [st; reload st cfg] = true /\
  exists p', lookup (c_id c) (d_map (reload st cfg)) = Some p' /\ p_cache p' = p_cache p /\ p_def p' = p_def p.
Proof. exact unchanged_in_both_states. Qed.

(** non-vacuity: b has two sources; a reload that only swaps them gives a new
    object (4) whose primary address is s3, a stays object 2 with its cache;
    swapping two flags does the same to a. *)
Example C20_example_lists :
  let a := mkConn (s "a") (s "A") [s "s1"] [] [] [s "x"; s "y"] [] in
  let a' := mkConn (s "a") (s "A") [s "s1"] [] [] [s "y"; s "x"] [] in
  let b := mkConn (s "b") (s "B") [s "s2"; s "s3"] [] [] [] [] in
  let b' := mkConn (s "b") (s "B") [s "s3"; s "s2"] [] [] [] [] in
  let st1 := run init_state [Reload (mkConfig [s "L1"] [a; b]); Sync (s "a") 7; Sync (s "b") 8] in
  let st2 := reload st1 (mkConfig [s "L1"] [a; b']) in
  let st3 := reload st2 (mkConfig [s "L1"] [a'; b']) in
  map (fun kv => (p_obj (snd kv), p_cache (snd kv), hd [] (c_source (p_def (snd kv))))) (d_map st2)
    = [(2, 7, s "s1"); (4, 0, s "s3")] /\
  d_stopped st2 = [3] /\
  map (fun kv => (p_obj (snd kv), p_cache (snd kv))) (d_map st3) = [(5, 0); (4, 0)] /\
  d_stopped st3 = [3; 2].
Proof. vm_compute. repeat split. Qed.

Print Assumptions C20_recreated_iff_differs.
Print Assumptions C20_list_edit_recreates.
Print Assumptions C20_unchanged_in_both_states.
