(** Executable comparison of the reload model with observations of the real
    main loop (cases files written by harness/inpkg/c20_reload.go). *)
From LMD Require Export Base.Str C20.Model.
Local Open Scope N_scope.

(** one row of [GET sites] plus what the harness knows about the object *)
Record row := mkRow {
  r_id : str; r_name : str; r_section : str; r_addr : str;
  r_token : N;        (* cache token (column bytes_received) *)
  r_kept : bool;      (* same object as after the previous step *)
  r_fresh : bool;     (* object never seen before in this case *)
  r_running : bool }.

Record sobs := mkSobs {
  o_order : list str;                   (* Daemon.PeerMapOrder *)
  o_mapkeys : list str;                 (* keys of Daemon.PeerMap *)
  o_rows : list row;                    (* rows of GET sites, any order *)
  o_oldrunning : list str;              (* replaced or removed objects that still run *)
  o_listeners : list (str * bool * bool); (* address, same object as before, accepts clients *)
  o_strayopen : list str;               (* unconfigured addresses that accept clients *)
  o_consistent : bool }.                (* every listener gave the same answer *)

Inductive obs := ObsFatal | ObsOk (o : sobs).

Record case := mkCase { k_steps : list config; k_obs : list obs }.

(** the harness gives every peer without cache token the next number, in
    PeerMapOrder order: a sequence of [Sync] events *)
Fixpoint assign_tokens (st : dstate) (order : list str) (t : N) : dstate * N :=
  match order with
  | [] => (st, t)
  | id :: r =>
      match lookup id (d_map st) with
      | Some p => if N.eqb (p_cache p) 0 then assign_tokens (sync st id t) r (t + 1)
                  else assign_tokens st r t
      | None => assign_tokens st r t
      end
  end.

Definition set_eqb (a b : list str) : bool :=
  forallb (fun x => mem_str x b) a && forallb (fun x => mem_str x a) b
  && Nat.eqb (length a) (length b).

Definition model_row (before : dstate) (id : str) (p : peer) : row :=
  mkRow id (c_name (p_def p)) (c_section (p_def p)) (hd [] (c_source (p_def p))) (p_cache p)
    (match lookup id (d_map before) with Some q => N.eqb (p_obj q) (p_obj p) | None => false end)
    (negb (N.ltb (p_obj p) (d_next before)))
    (p_running p).

Definition model_rows (before after : dstate) : list row :=
  flat_map (fun id => match lookup id (d_map after) with
                      | Some p => [model_row before id p]
                      | None => []
                      end) (d_order after).

Definition model_listeners (before after : dstate) : list (str * bool * bool) :=
  map (fun kv => (fst kv,
                  match lookup (fst kv) (d_listeners before) with
                  | Some l => N.eqb l (snd kv)
                  | None => false
                  end, true)) (d_listeners after).

(** what the model expects to be observed after a step *)
Definition model_obs (before after : dstate) : sobs :=
  mkSobs (d_order after) (keys (d_map after)) (model_rows before after) []
         (model_listeners before after) [] true.

(** a row agrees with the model if everything but the address is equal and
    the address is one of the configured ones (the peer walks through its
    sources while nothing answers) *)
Definition row_ok (after : dstate) (m o : row) : bool :=
  str_eqb (r_id m) (r_id o) && str_eqb (r_name m) (r_name o) && str_eqb (r_section m) (r_section o)
  && N.eqb (r_token m) (r_token o) && Bool.eqb (r_kept m) (r_kept o)
  && Bool.eqb (r_fresh m) (r_fresh o) && Bool.eqb (r_running m) (r_running o)
  && match lookup (r_id m) (d_map after) with
     | Some p => mem_str (r_addr o) (c_source (p_def p) ++ c_fallback (p_def p))
     | None => false
     end.

Definition listener_eqb (a b : str * bool * bool) : bool :=
  let '(a1, a2, a3) := a in
  let '(b1, b2, b3) := b in
  str_eqb a1 b1 && Bool.eqb a2 b2 && Bool.eqb a3 b3.

Definition sobs_ok (after : dstate) (m o : sobs) : bool :=
  strs_eqb (o_order m) (o_order o)
  && set_eqb (o_mapkeys m) (o_mapkeys o)
  && Nat.eqb (length (o_rows m)) (length (o_rows o))
  && forallb (fun mr => existsb (row_ok after mr) (o_rows o)) (o_rows m)
  && is_nil (o_oldrunning o)
  && Nat.eqb (length (o_listeners m)) (length (o_listeners o))
  && forallb (fun ml => existsb (listener_eqb ml) (o_listeners o)) (o_listeners m)
  && is_nil (o_strayopen o)
  && o_consistent o.

(** run the model along the steps; a fatal step ends the case *)
Fixpoint walk (st : dstate) (t : N) (steps : list config) (os : list obs) : bool * list obs :=
  match steps with
  | [] => (is_nil os, [])
  | cfg :: rest =>
      let st1 := reload st cfg in
      if d_dead st1 then
        (match os with [ObsFatal] => true | _ => false end, [ObsFatal])
      else
        let '(st2, t') := assign_tokens st1 (d_order st1) t in
        let m := model_obs st st2 in
        let '(ok, exp) := walk st2 t' rest (tl os) in
        (match os with
         | ObsOk o :: _ => sobs_ok st2 m o && ok
         | _ => false
         end, ObsOk m :: exp)
  end.

Definition expected (c : case) : list obs := snd (walk init_state 1 (k_steps c) (k_obs c)).
Definition check (c : case) : bool := fst (walk init_state 1 (k_steps c) (k_obs c)).

Fixpoint mismatches_from (i : nat) (cs : list case) : list (nat * list obs) :=
  match cs with
  | [] => []
  | c :: rest => (if check c then [] else [(i, expected c)]) ++ mismatches_from (S i) rest
  end.

Definition mismatches := mismatches_from 0%nat.
