(** C20, second stream: a client keeps asking [GET sites] over a listener
    that is part of every configuration while the configurations are
    reloaded.  Every answer has to be explained by the model: it started
    while state [lo] was current and ended while state [hi] was current
    (states = the model after 0, 1, 2, ... reloads); then
    - every row is a backend of one of the states lo..hi,
    - every backend whose peer object is the same in all states lo..hi
      (C20_unchanged_kept_throughout) is listed,
    - no key twice, and the answer is well-formed.
    The interleaving itself is the Go scheduler's; this is exercised, not proved. *)
From LMD Require Export Base.Str C20.Model.
Local Open Scope N_scope.

(** tags: 2k+1 = reload number k (from 0) is running, 2k+2 = it has finished *)
(** a row: peer_key, peer_name, section, addr *)
Definition srow := (str * str * str * str)%type.
Definition srow_key (r : srow) : str := fst (fst (fst r)).

Record resp := mkResp { q_a : nat; q_b : nat; q_ok : bool; q_rows : list srow }.

Record scase := mkSCase { sk_steps : list config; sk_resps : list resp }.

Fixpoint states_from (st : dstate) (steps : list config) : list dstate :=
  st :: match steps with
        | [] => []
        | cfg :: r => states_from (reload st cfg) r
        end.

(** the row shows backend [k] as defined in state [st] (the address is one
    of the configured ones: the peer walks through them while nothing answers) *)
Definition row_of_state (r : srow) (st : dstate) : bool :=
  let '(k, name, section, addr) := r in
  match lookup k (d_map st) with
  | Some p => str_eqb name (c_name (p_def p)) && str_eqb section (c_section (p_def p))
              && mem_str addr (c_source (p_def p) ++ c_fallback (p_def p))
  | None => false
  end.

Definition same_object (k : str) (p : peer) (st : dstate) : bool :=
  match lookup k (d_map st) with
  | Some q => N.eqb (p_obj q) (p_obj p)
  | None => false
  end.

Definition window (states : list dstate) (lo hi : nat) : list dstate :=
  firstn (S hi - lo) (skipn lo states).

Definition resp_ok (states : list dstate) (r : resp) : bool :=
  let lo := Nat.div (q_a r) 2 in
  let hi := Nat.div (S (q_b r)) 2 in
  let w := window states lo hi in
  q_ok r
  && negb (is_nil w)
  && forallb (fun st => negb (d_dead st)) w
  && nodup_strs (map srow_key (q_rows r))
  && forallb (fun row => existsb (row_of_state row) w) (q_rows r)
  && match w with
     | [] => false
     | st0 :: _ =>
         forallb (fun kv =>
                    if forallb (same_object (fst kv) (snd kv)) w
                    then mem_str (fst kv) (map srow_key (q_rows r))
                    else true) (d_map st0)
     end.

Definition bad_resps (c : scase) : list resp :=
  let states := states_from init_state (sk_steps c) in
  filter (fun r => negb (resp_ok states r)) (sk_resps c).

Definition check (c : scase) : bool := is_nil (bad_resps c).

Fixpoint mismatches_from (i : nat) (cs : list scase) : list (nat * list resp) :=
  match cs with
  | [] => []
  | c :: rest => (if check c then [] else [(i, bad_resps c)]) ++ mismatches_from (S i) rest
  end.

Definition mismatches := mismatches_from 0%nat.
