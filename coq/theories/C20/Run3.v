(** C20, stream "sources": reloads of connections whose addresses are scripted
    backends with data (cases files written by harness/inpkg/c20_sources.go).

    Every address is a backend of its own; its objects name it and carry a
    generation number that the harness raises before every reload.  A peer
    object shows the generation of its initial synchronisation, so in the
    model the cache token of a peer created by reload number [i] is [i]
    (a [Sync] event per new object), and what a client is served for backend
    [id] after a reload is determined by the model state:
      addr   = first entry of the configured [source] list,
      status = 0,
      objects of backend [hd source], generation [p_cache].
    Rows of the sites table have to come in configuration order. *)
From LMD Require Export Base.Str C20.Model.
Local Open Scope N_scope.

Record lrow := mkLRow {
  l_id : str; l_name : str; l_section : str;
  l_addr : str;       (* sites.addr *)
  l_status : N;       (* sites.status *)
  l_src : str;        (* the backend the served objects name *)
  l_gen : N;          (* their generation *)
  l_kept : bool; l_fresh : bool; l_running : bool }.

Record lobs := mkLObs {
  lo_order : list str;       (* Daemon.PeerMapOrder *)
  lo_rows : list lrow;       (* GET sites, response order *)
  lo_hostkeys : list str;    (* backends of which hosts are listed (data tables are collected concurrently: a set) *)
  lo_oldrunning : list str;
  lo_contacted : list str }. (* scripted backends that received a request during the step *)

Record lcase := mkLCase { lk_steps : list config; lk_obs : list lobs }.

(** every peer without objects synchronises generation [g] *)
Fixpoint sync_all (st : dstate) (order : list str) (g : N) : dstate :=
  match order with
  | [] => st
  | id :: r =>
      match lookup id (d_map st) with
      | Some p => if N.eqb (p_cache p) 0 then sync_all (sync st id g) r g else sync_all st r g
      | None => sync_all st r g
      end
  end.

Definition primary (c : conn) : str := hd [] (c_source c).

Definition model_lrow (before : dstate) (id : str) (p : peer) : lrow :=
  mkLRow id (c_name (p_def p)) (c_section (p_def p)) (primary (p_def p)) 0
    (primary (p_def p)) (p_cache p)
    (match lookup id (d_map before) with Some q => N.eqb (p_obj q) (p_obj p) | None => false end)
    (negb (N.ltb (p_obj p) (d_next before)))
    (p_running p).

Definition model_lrows (before after : dstate) : list lrow :=
  flat_map (fun id => match lookup id (d_map after) with
                      | Some p => [model_lrow before id p]
                      | None => []
                      end) (d_order after).

Definition primaries (st : dstate) : list str := map (fun kv => primary (p_def (snd kv))) (d_map st).

(** the primary addresses of the peers this reload created: each of them has
    to see the initial synchronisation *)
Definition must_contact (before after : dstate) : list str :=
  flat_map (fun kv => if N.ltb (p_obj (snd kv)) (d_next before) then [] else [primary (p_def (snd kv))]) (d_map after).

Definition model_lobs (before after : dstate) : lobs :=
  mkLObs (d_order after) (model_lrows before after) (d_order after) [] (must_contact before after).

Definition lrow_eqb (m o : lrow) : bool :=
  str_eqb (l_id m) (l_id o) && str_eqb (l_name m) (l_name o) && str_eqb (l_section m) (l_section o)
  && str_eqb (l_addr m) (l_addr o) && N.eqb (l_status m) (l_status o)
  && str_eqb (l_src m) (l_src o) && N.eqb (l_gen m) (l_gen o)
  && Bool.eqb (l_kept m) (l_kept o) && Bool.eqb (l_fresh m) (l_fresh o) && Bool.eqb (l_running m) (l_running o).

Definition set_eqb (a b : list str) : bool :=
  forallb (fun x => mem_str x b) a && forallb (fun x => mem_str x a) b
  && Nat.eqb (length a) (length b).

Fixpoint lrows_eqb (a b : list lrow) : bool :=
  match a, b with
  | [], [] => true
  | x :: a', y :: b' => lrow_eqb x y && lrows_eqb a' b'
  | _, _ => false
  end.

(** the rows are those of the model (their order is judged separately below:
    [order_ok]); hosts of exactly the configured backends are listed; nothing stopped keeps running; every new
    peer's primary address was contacted, and nobody talked to an address that
    is not the primary one of a backend before or after the reload (all
    primaries answer: no reason to fail over) *)
Definition lobs_ok (before after : dstate) (m o : lobs) : bool :=
  strs_eqb (lo_order m) (lo_order o)
  && Nat.eqb (length (lo_rows m)) (length (lo_rows o))
  && forallb (fun mr => existsb (lrow_eqb mr) (lo_rows o)) (lo_rows m)
  && set_eqb (lo_hostkeys m) (lo_hostkeys o)
  && is_nil (lo_oldrunning o)
  && forallb (fun a => mem_str a (lo_contacted o)) (lo_contacted m)
  && forallb (fun a => mem_str a (primaries before ++ primaries after)) (lo_contacted o).

Fixpoint lwalk (st : dstate) (g : N) (steps : list config) (os : list lobs) : bool * list lobs :=
  match steps with
  | [] => (is_nil os, [])
  | cfg :: rest =>
      let st1 := reload st cfg in
      if d_dead st1 || negb (cfg_okb cfg) then (false, [])   (* not a case of this stream *)
      else
        let st2 := sync_all st1 (d_order st1) g in
        let m := model_lobs st st2 in
        let '(ok, exp) := lwalk st2 (g + 1) rest (tl os) in
        (match os with
         | o :: _ => lobs_ok st st2 m o && ok
         | [] => false
         end, m :: exp)
  end.

Definition expected (c : lcase) : list lobs := snd (lwalk init_state 1 (lk_steps c) (lk_obs c)).
Definition check (c : lcase) : bool := fst (lwalk init_state 1 (lk_steps c) (lk_obs c)).

Fixpoint mismatches_from (i : nat) (cs : list lcase) : list (nat * list lobs) :=
  match cs with
  | [] => []
  | c :: rest => (if check c then [] else [(i, expected c)]) ++ mismatches_from (S i) rest
  end.

Definition mismatches := mismatches_from 0%nat.

(** * Order of backends (stream "order")

    The sites table lists the backends in configuration order
    (C20_order_follows_config: PeerMapOrder = configured ids in file order;
    response.go collects the sites rows peer by peer "to maintain the correct
    order"): after every reload the peer_key column of [GET sites] is the list
    of configured ids in file order. *)
Fixpoint owalk (st : dstate) (steps : list config) (os : list lobs) : bool * list (list str) :=
  match steps with
  | [] => (is_nil os, [])
  | cfg :: rest =>
      let st1 := reload st cfg in
      if d_dead st1 || negb (cfg_okb cfg) then (false, [])
      else
        let '(ok, exp) := owalk st1 rest (tl os) in
        (match os with
         | o :: _ => strs_eqb (d_order st1) (map l_id (lo_rows o)) && ok
         | [] => false
         end, d_order st1 :: exp)
  end.

Definition order_check (c : lcase) : bool := fst (owalk init_state (lk_steps c) (lk_obs c)).
Definition order_expected (c : lcase) : list (list str) := snd (owalk init_state (lk_steps c) (lk_obs c)).

Fixpoint order_mismatches_from (i : nat) (cs : list lcase) : list (nat * list (list str)) :=
  match cs with
  | [] => []
  | c :: rest => (if order_check c then [] else [(i, order_expected c)]) ++ order_mismatches_from (S i) rest
  end.

Definition order_mismatches := order_mismatches_from 0%nat.
