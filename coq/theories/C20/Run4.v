(** C20, stream "busy": client answers while a reload waits for a backend
    that does not answer (cases files written by harness/inpkg/c20_busy.go).

    An answer carries the reload phase at its start and at its end (tags as in
    Run2.v) and the time it took in milliseconds.  The model: a reload is an
    atomic step for the set of backends ([reload]); whatever it has to wait
    for, client requests are served from the state before or after it:
    - every answer arrives within the client's limit ([t_ms <= limit], and the
      harness marks an answer that failed or ran out of time as not ok),
    - every backend whose peer object is the same in all model states the
      answer overlaps is listed, and nothing is listed that is in none of them
      ([Run2.resp_ok]). *)
From LMD Require Export Base.Str C20.Model.
From LMD Require Import C20.Run2.
Local Open Scope N_scope.

Definition srow := Run2.srow.

Record tresp := mkTResp { t_a : nat; t_b : nat; t_ok : bool; t_rows : list srow; t_ms : N }.

Record bcase := mkBCase { bk_steps : list config; bk_limit : N; bk_resps : list tresp }.

Definition tresp_ok (states : list dstate) (limit : N) (r : tresp) : bool :=
  t_ok r && N.leb (t_ms r) limit
  && Run2.resp_ok states (Run2.mkResp (t_a r) (t_b r) (t_ok r) (t_rows r)).

Definition bad_tresps (c : bcase) : list tresp :=
  let states := Run2.states_from init_state (bk_steps c) in
  filter (fun r => negb (tresp_ok states (bk_limit c) r)) (bk_resps c).

Definition busy_check (c : bcase) : bool := is_nil (bad_tresps c).

Fixpoint busy_mismatches_from (i : nat) (cs : list bcase) : list (nat * list tresp) :=
  match cs with
  | [] => []
  | c :: rest => (if busy_check c then [] else [(i, bad_tresps c)]) ++ busy_mismatches_from (S i) rest
  end.

Definition busy_mismatches := busy_mismatches_from 0%nat.
