(** The query engine: row selection, authorisation, statistics, sorting and
    windowing, per backend and merged (response.go, rawresultset.go, datarow.go). *)
From LMD Require Export QE.Parse.
Open Scope N_scope.

Record config := mkCfg { cfg_svc_strict : bool; cfg_grp_strict : bool }.

(** Config.SetServiceAuthorization / SetGroupAuthorization: "strict" / "loose" in any
    letter case, anything else (incl. nothing) is the option's default *)
Definition parse_auth (default_strict : bool) (raw : str) : bool :=
  let l := lower raw in
  if str_eqb l (s "strict") then true else if str_eqb l (s "loose") then false else default_strict.

Definition dataset := list backend.

(** *** rows of a table, including the virtual by-group tables (GetGroupByData) *)
Definition cell_or (td : tdata) (r : list value) (name : str) (d : value) : value :=
  match cell td r name with Some v => v | None => d end.

Definition bygroup_rows (bk : backend) (t : tschema) : option tdata :=
  let n := t_name t in
  if str_eqb n (s "hostsbygroup") then
    match find_data bk (s "hosts") with
    | Some h => Some (mkData n [s "name"; s "hostgroup_name"]
                   (flat_map (fun r => map (fun g => [cell_or h r (s "name") (VStr []); VStr g])
                                           (as_strlist (cell_or h r (s "groups") (VStrList [])))) (td_rows h)))
    | None => None
    end
  else if str_eqb n (s "servicesbygroup") then
    match find_data bk (s "services") with
    | Some sv => Some (mkData n [s "host_name"; s "description"; s "servicegroup_name"]
                   (flat_map (fun r => map (fun g => [cell_or sv r (s "host_name") (VStr []); cell_or sv r (s "description") (VStr []); VStr g])
                                           (as_strlist (cell_or sv r (s "groups") (VStrList [])))) (td_rows sv)))
    | None => None
    end
  else if str_eqb n (s "servicesbyhostgroup") then
    match find_data bk (s "services"), find_data bk (s "hosts") with
    | Some sv, Some h =>
        Some (mkData n [s "host_name"; s "description"; s "hostgroup_name"]
          (flat_map (fun r =>
             let hn := as_str (cell_or sv r (s "host_name") (VStr [])) in
             let hgroups := match find (fun hr => str_eqb (as_str (cell_or h hr (s "name") (VStr []))) hn) (td_rows h) with
                            | Some hr => as_strlist (cell_or h hr (s "groups") (VStrList []))
                            | None => []
                            end in
             map (fun g => [VStr hn; cell_or sv r (s "description") (VStr []); VStr g]) hgroups) (td_rows sv)))
    | _, _ => None
    end
  else None.

Definition is_sites_table (t : tschema) : bool := str_eqb (t_name t) (s "backends").
Definition is_bygroup (t : tschema) : bool :=
  str_eqb (t_name t) (s "hostsbygroup") || str_eqb (t_name t) (s "servicesbygroup") || str_eqb (t_name t) (s "servicesbyhostgroup").

Definition table_data (bk : backend) (t : tschema) : option tdata :=
  if is_sites_table t then Some (mkData (t_name t) [] [[]])
  else match bygroup_rows bk t with
       | Some td => Some td
       | None => if t_virtual t then None else find_data bk (t_name t)
       end.

(** *** authorisation (DataRow.checkAuth) *)
Definition host_row (bk : backend) (host : str) : option (tdata * list value) :=
  match find_data bk (s "hosts") with
  | Some h => match find (fun r => str_eqb (as_str (cell_or h r (s "name") (VStr []))) host) (td_rows h) with
              | Some r => Some (h, r) | None => None end
  | None => None
  end.

Definition service_row (bk : backend) (host svc : str) : option (tdata * list value) :=
  match find_data bk (s "services") with
  | Some sv => match find (fun r => str_eqb (as_str (cell_or sv r (s "host_name") (VStr []))) host
                                   && str_eqb (as_str (cell_or sv r (s "description") (VStr []))) svc) (td_rows sv) with
               | Some r => Some (sv, r) | None => None end
  | None => None
  end.

Definition contacts_of (x : option (tdata * list value)) : option (list str) :=
  match x with
  | Some (td, r) => Some (as_strlist (cell_or td r (s "contacts") (VStrList [])))
  | None => None
  end.

Definition authorized_for (cfg : config) (bk : backend) (user host svc : str) : bool :=
  let is_svc := match svc with [] => false | _ => true end in
  let via_host :=
    if (is_svc && negb (cfg_svc_strict cfg)) || negb is_svc then
      match contacts_of (host_row bk host) with
      | Some cs => Some (mem_str user cs)
      | None => None
      end
    else Some false in
  match via_host with
  | None => false                       (* host unknown *)
  | Some true => true
  | Some false =>
      if is_svc then
        match contacts_of (service_row bk host svc) with
        | Some cs => mem_str user cs
        | None => false
        end
      else false
  end.

Definition group_rule (strict : bool) (members : list bool) : bool :=
  if strict then match members with [] => false | _ => forallb (fun b => b) members end
  else existsb (fun b => b) members.

Definition authorized_hostgroup (cfg : config) (bk : backend) (user grp : str) : bool :=
  match find_data bk (s "hostgroups") with
  | Some g => match find (fun r => str_eqb (as_str (cell_or g r (s "name") (VStr []))) grp) (td_rows g) with
              | Some r => group_rule (cfg_grp_strict cfg)
                            (map (fun h => authorized_for cfg bk user h []) (as_strlist (cell_or g r (s "members") (VStrList []))))
              | None => false
              end
  | None => false
  end.

Definition authorized_servicegroup (cfg : config) (bk : backend) (user grp : str) : bool :=
  match find_data bk (s "servicegroups") with
  | Some g => match find (fun r => str_eqb (as_str (cell_or g r (s "name") (VStr []))) grp) (td_rows g) with
              | Some r => group_rule (cfg_grp_strict cfg)
                            (map (fun m => authorized_for cfg bk user (fst m) (snd m)) (as_pairs (cell_or g r (s "members") (VPairs []))))
              | None => false
              end
  | None => false
  end.

Definition check_auth (cfg : config) (bk : backend) (t : tschema) (td : tdata) (r : list value) (user : str) : bool :=
  match user with
  | [] => true
  | _ =>
      let n := t_name t in
      let sget c := as_str (cell_or td r (s c) (VStr [])) in
      if str_eqb n (s "hosts") then authorized_for cfg bk user (sget "name") []
      else if str_eqb n (s "services") then authorized_for cfg bk user (sget "host_name") (sget "description")
      else if str_eqb n (s "hostgroups") then authorized_hostgroup cfg bk user (sget "name")
      else if str_eqb n (s "servicegroups") then authorized_servicegroup cfg bk user (sget "name")
      else if str_eqb n (s "hostsbygroup") then
        authorized_for cfg bk user (sget "name") [] && authorized_hostgroup cfg bk user (sget "hostgroup_name")
      else if str_eqb n (s "servicesbygroup") then
        authorized_for cfg bk user (sget "host_name") (sget "description") && authorized_servicegroup cfg bk user (sget "servicegroup_name")
      else if str_eqb n (s "servicesbyhostgroup") then
        authorized_for cfg bk user (sget "host_name") (sget "description") && authorized_hostgroup cfg bk user (sget "hostgroup_name")
      else if str_eqb n (s "comments") || str_eqb n (s "downtimes") then
        authorized_for cfg bk user (sget "host_name") (sget "service_description")
      else true
  end.

(** *** selection of rows of one backend *)
Definition mkctx (schema : list tschema) (bk : backend) (t : tschema) (td : tdata) (r : list value) : rowctx :=
  mkCtx schema bk t td r.

Definition row_selected (schema : list tschema) (cfg : config) (rq : request) (bk : backend) (td : tdata) (r : list value) : bool :=
  forallb (fun f => match_filter (mkctx schema bk (rq_table rq) td r) f false) (rq_filter rq)
  && check_auth cfg bk (rq_table rq) td r (rq_authuser rq).

(** specification of the same: literal semantics *)
Definition row_selected_spec (schema : list tschema) (cfg : config) (rq : request) (bk : backend) (td : tdata) (r : list value) : bool :=
  forallb (fun f => sem (mkctx schema bk (rq_table rq) td r) f) (rq_filter rq)
  && check_auth cfg bk (rq_table rq) td r (rq_authuser rq).

Definition selected_rows (schema : list tschema) (cfg : config) (rq : request) (bk : backend) : list (list value) :=
  match table_data bk (rq_table rq) with
  | Some td => filter (row_selected schema cfg rq bk td) (td_rows td)
  | None => []
  end.

(** *** output row *)
Definition out_row (schema : list tschema) (rq : request) (bk : backend) (td : tdata) (r : list value) : list value :=
  map (get_out schema bk (rq_table rq) td r) (request_columns rq).

(** *** backend selection (ExpandRequestedBackends / prepareResponse / GetDataStore) *)
Definition known (ds : dataset) (id : str) : bool := existsb (fun b => str_eqb (b_key b) id) ds.

Definition selected_backends (ds : dataset) (rq : request) : list backend :=
  match rq_backends rq with
  | [] => ds
  | ids => filter (fun b => mem_str (b_key b) ids) ds
  end.

(** failed map: unknown ids of the header, and selected backends without data *)
Definition failed_map (ds : dataset) (rq : request) : list (str * str) :=
  map (fun id => (id, s "bad request: backend " ++ id ++ s " does not exist"))
      (filter (fun id => negb (known ds id)) (rq_backends rq))
  ++ (if t_virtual (rq_table rq) && negb (is_bygroup (rq_table rq)) then []
      else map (fun b => (b_key b, b_error b)) (filter (fun b => negb (b_avail b)) (selected_backends ds rq))).

(** a backend contributes rows iff it is selected and has data (the sites
    table is served from the peer object itself and is always available) *)
Definition contributes (rq : request) (bk : backend) : bool :=
  is_sites_table (rq_table rq) || b_avail bk.

(** what grouping, sorting and aggregation read: like [get], but a column the
    backend does not provide reads as its empty value (DataRow.GetString / GetFloat) *)
Definition get_chk (schema : list tschema) (bk : backend) (t : tschema) (td : tdata) (r : list value) (c : column) : value :=
  if has_flag (b_flags bk) (c_opt c) then get schema bk t td r c else empty_value (c_type c).

(** *** statistics *)
Record acc := mkAcc { a_val : Z; a_cnt : Z }.   (* milli units; a_cnt = 0: nothing seen yet *)

Definition float_of (v : value) : Z :=
  match v with VFloat m => m | VInt z => (z * 1000)%Z | _ => 0%Z end.

(** one statistics column over a list of selected rows (specification) *)
Definition stat_spec (schema : list tschema) (rq : request) (bk : backend) (td : tdata) (rows : list (list value)) (st : stat) : acc :=
  match st with
  | SCounter f =>
      let n := Z.of_nat (length (filter (fun r => sem (mkctx schema bk (rq_table rq) td r) f) rows)) in
      mkAcc (n * 1000) n
  | SAgg k c =>
      let vals := map (fun r => float_of (get_chk schema bk (rq_table rq) td r c)) rows in
      let n := Z.of_nat (length vals) in
      match k with
      | AgSum | AgAvg => mkAcc (fold_right Z.add 0%Z vals) n
      | AgMin => match vals with [] => mkAcc 0 0 | v :: vs => mkAcc (fold_right Z.min v vs) n end
      | AgMax => match vals with [] => mkAcc 0 0 | v :: vs => mkAcc (fold_right Z.max v vs) n end
      end
  end.

(** merging the accumulators of two row sets (Filter.ApplyValue in MergeStats) *)
Definition merge_acc (k : option aggk) (a b : acc) : acc :=
  match k with
  | None | Some AgSum | Some AgAvg => mkAcc (a_val a + a_val b) (a_cnt a + a_cnt b)
  | Some AgMin => if Z.eqb (a_cnt a) 0 then b else if Z.eqb (a_cnt b) 0 then a
                  else mkAcc (Z.min (a_val a) (a_val b)) (a_cnt a + a_cnt b)
  | Some AgMax => if Z.eqb (a_cnt a) 0 then b else if Z.eqb (a_cnt b) 0 then a
                  else mkAcc (Z.max (a_val a) (a_val b)) (a_cnt a + a_cnt b)
  end.

Definition stat_kind (st : stat) : option aggk := match st with SCounter _ => None | SAgg k _ => Some k end.

(** group key: the requested columns rendered as text (getStatsKey) *)
Definition show_value (v : value) : str :=
  match v with
  | VStr x => x
  | VInt z => show_Z z
  | VFloat m => show_milli m
  | VStrList l => join [0] l
  | VIntList l => [91] ++ join [0] (map show_Z l) ++ [93]     (* fmt.Sprint of the slice, blanks -> NUL *)
  | VPairs _ => []
  | VRows _ => []
  end.

(** text of the empty value (fmt "%v" of Column.GetEmptyValue): lists print as [] *)
Definition show_empty (t : dtype) : str :=
  match t with
  | TStrList => []                                   (* the text of a list without entries (emptyValueString) *)
  | TInt64List | TSvcMemberList | TIfaceList => [91; 93]
  | TCustVar => s "map[]"
  | TJSON => s "{}"
  | _ => show_value (empty_value t)
  end.

Definition ref_missing (schema : list tschema) (bk : backend) (t : tschema) (td : tdata) (r : list value) (c : column) : bool :=
  match c_store c, c_ref c with
  | SRef, Some (rtn, _) => match find_ref schema bk t td r rtn with Some _ => false | None => true end
  | _, _ => false
  end.

(** DataRow.GetString as used for group keys and string sort keys *)
(** fmt "%v" of a service member list: [[host description] [host description]] *)
Definition show_members (l : list (str * str)) : str :=
  [91] ++ join [32] (map (fun p => [91] ++ fst p ++ [32] ++ snd p ++ [93]) l) ++ [93].

Definition key_text (schema : list tschema) (bk : backend) (t : tschema) (td : tdata) (r : list value) (c : column) : str :=
  if negb (has_flag (b_flags bk) (c_opt c)) || ref_missing schema bk t td r c then show_empty (c_type c)
  else match c_type c, get schema bk t td r c with
       | TSvcMemberList, VPairs l => show_members l
       | _, v => show_value v
       end.

Definition stats_key (schema : list tschema) (rq : request) (bk : backend) (td : tdata) (r : list value) : list str :=
  map (key_text schema bk (rq_table rq) td r) (request_columns rq).

(** final value of one statistics column (finalStatsApply): milli units, or an
    exact quotient for averages *)
Inductive statval := SVal (milli : Z) | SAvg (sum_milli cnt : Z).

Definition final_stat (k : option aggk) (a : acc) : statval :=
  if Z.eqb (a_cnt a) 0 then SVal 0
  else match k with
       | Some AgAvg => SAvg (a_val a) (a_cnt a)
       | _ => SVal (a_val a)
       end.

(** *** sorting (RawResultSet.Less) *)
Inductive keyval := KNum (m : Z) | KStr (x : str) | KCv (x : str).

Definition sort_key (schema : list tschema) (rq : request) (bk : backend) (td : tdata) (r : list value) (k : sortkey) : keyval :=
  let c := sk_col k in
  let v := get_chk schema bk (rq_table rq) td r c in
  match c_type c with
  | TInt | TInt64 | TFloat => KNum (float_of v)
  | TCustVar => KCv (lookup_pair (sk_args k) (as_pairs v))
  | _ => KStr (key_text schema bk (rq_table rq) td r c)
  end.

(** three-way comparison of one key in ascending direction *)
Definition cmp_key (a b : keyval) : comparison :=
  match a, b with
  | KNum x, KNum y => Z.compare x y
  | KStr x, KStr y => if str_eqb x y then Eq else if str_ltb x y then Lt else Gt
  | KCv x, KCv y =>
      if str_eqb x y then Eq
      else match x, y with
           | [], _ => Gt                 (* empty variables last *)
           | _, [] => Lt
           | _, _ => if str_ltb x y then Lt else Gt
           end
  | _, _ => Eq
  end.

Definition flip (c : comparison) : comparison := match c with Lt => Gt | Gt => Lt | Eq => Eq end.

Fixpoint cmp_keys (dirs : list dir) (a b : list keyval) : comparison :=
  match dirs, a, b with
  | d :: ds, x :: xs, y :: ys =>
      match (match d with Asc => cmp_key x y | Desc => flip (cmp_key x y) end) with
      | Eq => cmp_keys ds xs ys
      | c => c
      end
  | _, _, _ => Eq
  end.

Definition keys_leb (dirs : list dir) (a b : list keyval) : bool :=
  match cmp_keys dirs a b with Gt => false | _ => true end.

Section Sort.
  Context {A : Type} (leb : A -> A -> bool).
  Fixpoint insert (x : A) (l : list A) : list A :=
    match l with
    | [] => [x]
    | y :: rest => if leb x y then x :: l else y :: insert x rest
    end.
  Definition isort (l : list A) : list A := fold_right insert [] l.
End Sort.

(** a selected row together with everything the later stages need *)
Record hit := mkHit { h_keys : list keyval; h_out : list value }.

Definition hits_of (schema : list tschema) (cfg : config) (rq : request) (bk : backend) : list hit :=
  match table_data bk (rq_table rq) with
  | Some td =>
      map (fun r => mkHit (map (sort_key schema rq bk td r) (rq_sort rq)) (out_row schema rq bk td r))
          (filter (row_selected schema cfg rq bk td) (td_rows td))
  | None => []
  end.

(** IsDefaultSortOrder *)
Definition default_sort_order (rq : request) : bool :=
  match rq_sort rq with
  | [] => true
  | ks =>
      let n := t_name (rq_table rq) in
      if str_eqb n (s "services") then
        match ks with
        | [a; b] => str_eqb (sk_name a) (s "host_name") && str_eqb (sk_name b) (s "description")
                    && match sk_dir a, sk_dir b with Asc, Asc => true | _, _ => false end
        | _ => false
        end
      else if str_eqb n (s "hosts") then
        match ks with
        | [a] => str_eqb (sk_name a) (s "name") && match sk_dir a with Asc => true | _ => false end
        | _ => false
        end
      else false
  end.

(** optimizeResultLimit: per backend cut-off, None = take everything *)
Definition backend_limit (rq : request) : option nat :=
  match rq_limit rq with
  | Some l => if default_sort_order rq
              then let k := (l + rq_offset rq)%Z in if Z.leb k 0 then None else Some (Z.to_nat k)
              else None
  | None => None
  end.

Definition cut {A} (lim : option nat) (l : list A) : list A :=
  match lim with Some k => firstn k l | None => l end.

(** number of matches a backend reports: complete in wrapped_json, otherwise
    counting stops one past the cut-off *)
Definition backend_total (rq : request) (lim : option nat) (n : nat) : nat :=
  match lim, rq_format rq with
  | Some k, FmtJSON => Nat.min n (S k)
  | _, _ => n
  end.

Definition window {A} (rq : request) (l : list A) : list A :=
  let l := skipn (Z.to_nat (rq_offset rq)) l in
  match rq_limit rq with
  | Some lim => firstn (Z.to_nat lim) l
  | None => l
  end.

Definition dirs_of (rq : request) : list dir := map sk_dir (rq_sort rq).

Definition sort_hits (rq : request) (l : list hit) : list hit :=
  match rq_sort rq with
  | [] => l
  | _ => isort (fun a b => keys_leb (dirs_of rq) (h_keys a) (h_keys b)) l
  end.

(** implementation: per backend cut, merge in backend order, sort, window *)
Definition data_result (schema : list tschema) (cfg : config) (ds : dataset) (rq : request) : list hit * nat :=
  let bks := filter (contributes rq) (selected_backends ds rq) in
  let per := map (hits_of schema cfg rq) bks in
  let lim := backend_limit rq in
  let total := fold_right Nat.add 0%nat (map (fun h => backend_total rq lim (length h)) per) in
  let merged := concat (map (cut lim) per) in
  if Z.ltb (Z.of_nat total) (rq_offset rq) then ([], total)
  else (window rq (sort_hits rq merged), total).

(** specification: the window of the sorted union of all matching rows *)
Definition spec_hits (schema : list tschema) (cfg : config) (ds : dataset) (rq : request) : list hit :=
  concat (map (hits_of schema cfg rq) (filter (contributes rq) (selected_backends ds rq))).

Definition data_result_spec (schema : list tschema) (cfg : config) (ds : dataset) (rq : request) : list hit * nat :=
  let all := spec_hits schema cfg ds rq in
  (window rq (sort_hits rq all), length all).

(** *** statistics, implementation: row by row accumulation (DataRow.CountStats,
    Filter.ApplyValue), per backend, then merged per key (Response.MergeStats) *)
Definition acc0 : acc := mkAcc 0 0.

Definition apply_value (k : option aggk) (a : acc) (v : Z) (cnt : Z) : acc :=
  match k with
  | None => mkAcc (a_val a + cnt * 1000) (a_cnt a + cnt)
  | Some AgSum | Some AgAvg => mkAcc (a_val a + v) (a_cnt a + cnt)
  | Some AgMin => mkAcc (if Z.eqb (a_cnt a) 0 then v else Z.min (a_val a) v) (a_cnt a + cnt)
  | Some AgMax => mkAcc (if Z.eqb (a_cnt a) 0 then v else Z.max (a_val a) v) (a_cnt a + cnt)
  end.

Definition count_row (x : rowctx) (st : stat) (a : acc) : acc :=
  match st with
  | SCounter f => if match_filter x f false then apply_value None a 0 1 else a
  | SAgg k c => apply_value (Some k) a (float_of (get_chk (x_schema x) (x_bk x) (x_table x) (x_data x) (x_row x) c)) 1
  end.

Fixpoint map2 {A B C} (f : A -> B -> C) (l1 : list A) (l2 : list B) : list C :=
  match l1, l2 with
  | a :: r1, b :: r2 => f a b :: map2 f r1 r2
  | _, _ => []
  end.

Definition keyed (A : Type) := list (list str * A).

Definition key_eqb (a b : list str) : bool := if list_eq_dec (list_eq_dec N.eq_dec) a b then true else false.

Fixpoint upsert {A} (k : list str) (init : A) (f : A -> A) (m : keyed A) : keyed A :=
  match m with
  | [] => [(k, f init)]
  | (k', v) :: rest => if key_eqb k k' then (k', f v) :: rest else (k', v) :: upsert k init f rest
  end.

Definition stats_backend (schema : list tschema) (cfg : config) (rq : request) (bk : backend) : keyed (list acc) :=
  match table_data bk (rq_table rq) with
  | Some td =>
      fold_left (fun m r =>
                   let x := mkctx schema bk (rq_table rq) td r in
                   upsert (stats_key schema rq bk td r) (map (fun _ => acc0) (rq_stats rq))
                          (fun accs => map2 (count_row x) (rq_stats rq) accs) m)
                (filter (row_selected schema cfg rq bk td) (td_rows td)) []
  | None => []
  end.

Definition merge_accs (rq : request) (a b : list acc) : list acc :=
  map2 (fun st ab => merge_acc (stat_kind st) (fst ab) (snd ab)) (rq_stats rq) (combine a b).

Definition merge_keyed (rq : request) (m1 m2 : keyed (list acc)) : keyed (list acc) :=
  fold_left (fun m kv => let '(k, accs) := kv in
                         match find (fun kv' => key_eqb (fst kv') k) m with
                         | Some _ => upsert k accs (fun old => merge_accs rq old accs) m
                         | None => m ++ [(k, accs)]
                         end) m2 m1.

Definition stats_result (schema : list tschema) (cfg : config) (ds : dataset) (rq : request) : keyed (list statval) :=
  let bks := filter (contributes rq) (selected_backends ds rq) in
  let merged := fold_left (merge_keyed rq) (map (stats_backend schema cfg rq) bks) [] in
  let merged := match merged, rq_columns rq with
                | [], [] => [([], map (fun _ => acc0) (rq_stats rq))]
                | _, _ => merged
                end in
  map (fun kv => (fst kv, map2 (fun st a => final_stat (stat_kind st) a) (rq_stats rq) (snd kv))) merged.

(** specification: aggregates over the union of all selected rows of one key *)
Definition all_selected (schema : list tschema) (cfg : config) (ds : dataset) (rq : request)
  : list (backend * tdata * list value) :=
  flat_map (fun bk => match table_data bk (rq_table rq) with
                      | Some td => map (fun r => (bk, td, r)) (filter (row_selected_spec schema cfg rq bk td) (td_rows td))
                      | None => []
                      end)
           (filter (contributes rq) (selected_backends ds rq)).

(** *** the response *)
Inductive response :=
| RData (rows : list (list value)) (keys : list (list keyval)) (total : nat) (failed : list str)
| RStats (rows : keyed (list statval)) (failed : list str)
| RError (code : N).

Definition failed_keys (ds : dataset) (rq : request) : list str :=
  filter (fun id => negb (known ds id)) (rq_backends rq)
  ++ (if is_sites_table (rq_table rq) then []
      else map b_key (filter (fun b => negb (b_avail b)) (selected_backends ds rq))).

Fixpoint nodup_str (l : list str) : list str :=
  match l with
  | [] => []
  | x :: rest => if mem_str x rest then nodup_str rest else x :: nodup_str rest
  end.

(** all listed backends unknown and plain json: 502 *)
Definition all_unknown (ds : dataset) (rq : request) : bool :=
  match rq_backends rq with
  | [] => false
  | ids => let unknown := nodup_str (filter (fun id => negb (known ds id)) ids) in
           match unknown with [] => false | _ => Nat.eqb (length unknown) (length ids) end
  end.

Definition respond_req (schema : list tschema) (cfg : config) (ds : dataset) (rq : request) : response :=
  if (match rq_format rq with FmtJSON => true | FmtWrapped => false end) && all_unknown ds rq then RError 502
  else
    let failed := nodup_str (failed_keys ds rq) in
    match rq_stats rq with
    | [] => let '(hits, total) := data_result schema cfg ds rq in
            RData (map h_out hits) (map h_keys hits) total failed
    | _ => RStats (stats_result schema cfg ds rq) failed
    end.

Definition respond (schema : list tschema) (cfg : config) (ds : dataset) (optimize : bool) (lines : list str) : response :=
  match parse_request schema optimize lines with
  | Ok rq => if t_passthrough (rq_table rq) then RError 0 else respond_req schema cfg ds rq
  | Err BadRequest => RError 400
  | Err Unsupported => RError 0
  end.
