(** Filter expressions: operators, leaves, trees; the literal semantics [sem]
    (specification) and the evaluation strategy of DataRow.MatchFilter
    ([match_filter], negation pushed down with De Morgan). *)
From LMD Require Export Base.Str QE.SchemaTypes QE.Value QE.Regex QE.Text.
Open Scope N_scope.

Inductive op := OEq | ONe | OEqI | ONeI | ORe | ONRe | OReI | ONReI
              | OCont | ONCont | OContI | ONContI | OLt | OLe | OGt | OGe | OGrpNot.

Inductive gop := GAnd | GOr.

Record leaf := mkLeaf {
  lf_col : column;
  lf_op : op;
  lf_str : str;            (* stringVal *)
  lf_tag : str;            (* customTag *)
  lf_empty : bool;         (* isEmpty *)
  lf_num : Z;              (* numeric reference value in milli units (0 if none) *)
  lf_re : option pattern   (* compiled regexp *)
}.

Inductive filt :=
| FLeaf (l : leaf) (neg : bool)
| FGroup (g : gop) (fs : list filt) (neg : bool).

(** *** comparison of one value (Filter.Match and the Match* functions) *)

Definition fold_eq (a b : str) : bool := str_eqb (lower a) (lower b).

Definition match_string (l : leaf) (v : str) : bool :=
  match lf_op l with
  | OEq => str_eqb v (lf_str l)
  | ONe => negb (str_eqb v (lf_str l))
  | OEqI => fold_eq v (lf_str l)
  | ONeI => negb (fold_eq v (lf_str l))
  | ORe | OReI => match lf_re l with Some p => search p v | None => false end
  | ONRe | ONReI => match lf_re l with Some p => negb (search p v) | None => true end
  | OLt => str_ltb v (lf_str l)
  | OLe => str_leb v (lf_str l)
  | OGt => str_ltb (lf_str l) v
  | OGe => str_leb (lf_str l) v
  | OCont => contains v (lf_str l)
  | ONCont => negb (contains v (lf_str l))
  | OContI => contains (lower v) (lf_str l)
  | ONContI => negb (contains (lower v) (lf_str l))
  | OGrpNot => false
  end.

Definition match_empty (o : op) : bool :=
  match o with
  | ONe | OGt | OGe => true
  | _ => false
  end.

(** integer columns compare with the integer part of the reference value
    (Livestatus parses it with atoi) *)
Definition int_ref (l : leaf) : Z := Z.quot (lf_num l) 1000.

Definition match_int (l : leaf) (z : Z) : bool :=
  match lf_op l with
  | OEq => Z.eqb z (int_ref l)
  | ONe => negb (Z.eqb z (int_ref l))
  | OLt => Z.ltb z (int_ref l)
  | OLe => Z.leb z (int_ref l)
  | OGt => Z.ltb (int_ref l) z
  | OGe => Z.leb (int_ref l) z
  | _ => match_string l (show_Z z)
  end.

Definition match_float (l : leaf) (m : Z) : bool :=
  match lf_op l with
  | OEq => Z.eqb m (lf_num l)
  | ONe => negb (Z.eqb m (lf_num l))
  | OLt => Z.ltb m (lf_num l)
  | OLe => Z.leb m (lf_num l)
  | OGt => Z.ltb (lf_num l) m
  | OGe => Z.leb (lf_num l) m
  | _ => match_string l (show_milli m)
  end.

Definition match_strlist (l : leaf) (vs : list str) : bool :=
  match lf_op l with
  | OEq => match lf_str l, vs with [], [] => true | _, _ => false end
  | ONe => match lf_str l, vs with [], _ :: _ => true | _, _ => false end
  | OGe => existsb (str_eqb (lf_str l)) vs
  | OGrpNot | OLe => negb (existsb (str_eqb (lf_str l)) vs)
  | ORe | OReI | OCont | OContI => existsb (match_string l) vs
  | ONRe | ONReI | ONCont | ONContI => forallb (match_string l) vs
  | _ => false
  end.

Definition match_intlist (l : leaf) (vs : list Z) : bool :=
  match lf_op l with
  | OEq => lf_empty l && match vs with [] => true | _ => false end
  | ONe => lf_empty l && match vs with [] => false | _ => true end
  | OGe => existsb (Z.eqb (int_ref l)) vs
  | OGrpNot => negb (existsb (Z.eqb (int_ref l)) vs)
  | _ => false
  end.

Fixpoint lookup_pair (k : str) (ps : list (str * str)) : str :=
  match ps with
  | [] => []
  | (n, v) :: rest => if str_eqb n k then v else lookup_pair k rest
  end.

Definition as_pairs (v : value) : list (str * str) := match v with VPairs l => l | _ => [] end.

(** a typed comparison against the value [v] read from the column of type [t] *)
Definition match_value (l : leaf) (t : dtype) (v : value) : bool :=
  match t with
  | TStr | TStrLarge | TJSON => match_string l (as_str v)
  | TStrList => match_strlist l (as_strlist v)
  | TInt | TInt64 =>
      if lf_empty l then match_empty (lf_op l)
      else match v with VInt z => match_int l z | VFloat m => match_int l (Z.quot m 1000) | _ => match_int l 0 end
  | TFloat =>
      if lf_empty l then match_empty (lf_op l)
      else match v with VFloat m => match_float l m | VInt z => match_float l (z * 1000) | _ => match_float l 0 end
  | TInt64List => match_intlist l (as_intlist v)
  | TCustVar => match_string l (lookup_pair (lf_tag l) (as_pairs v))
  | TIfaceList => false
  | TSvcMemberList => false
  end.

(** the evaluation context of one row *)
Record rowctx := mkCtx {
  x_schema : list tschema; x_bk : backend; x_table : tschema; x_data : tdata; x_row : list value }.

Definition ctx_get (x : rowctx) (c : column) : value :=
  get (x_schema x) (x_bk x) (x_table x) (x_data x) (x_row x) c.

(** a column the backend does not provide reads as the empty value that is also
    sent to the client: -1 for numbers (compared as a float), "" and [] otherwise *)
Definition match_missing (l : leaf) (t : dtype) : bool :=
  match t with
  | TInt | TInt64 | TFloat => if lf_empty l then match_empty (lf_op l) else match_float l (-1000)
  | _ => match_value l t (zero_value t)
  end.

Definition leaf_match (x : rowctx) (l : leaf) : bool :=
  let c := lf_col l in
  if has_flag (b_flags (x_bk x)) (c_opt c)
  then match_value l (c_type c) (ctx_get x c)
  else match_missing l (c_type c).

(** *** specification: the literal reading of the expression *)
Fixpoint sem (x : rowctx) (f : filt) : bool :=
  match f with
  | FLeaf l n => xorb n (leaf_match x l)
  | FGroup GAnd fs n => xorb n (forallb (sem x) fs)
  | FGroup GOr fs n => xorb n (existsb (sem x) fs)
  end.

(** *** DataRow.MatchFilter: the inherited negation flips And/Or and is handed
    down to the children, leaves apply it at the end *)
Fixpoint match_filter (x : rowctx) (f : filt) (negate : bool) : bool :=
  match f with
  | FLeaf l n => xorb (xorb negate n) (leaf_match x l)
  | FGroup g fs n =>
      let negate := xorb negate n in
      let g' := if negate then match g with GAnd => GOr | GOr => GAnd end else g in
      match g' with
      | GAnd => forallb (fun f => match_filter x f negate) fs
      | GOr => existsb (fun f => match_filter x f negate) fs
      end
  end.
