(** Proofs about filter evaluation. *)
From LMD Require Import QE.Filter.

(** induction principle for the nested type [filt] *)
Section FiltInd.
  Variable P : filt -> Prop.
  Hypothesis Hleaf : forall l n, P (FLeaf l n).
  Hypothesis Hgroup : forall g fs n, Forall P fs -> P (FGroup g fs n).
  Fixpoint filt_ind' (f : filt) : P f :=
    match f with
    | FLeaf l n => Hleaf l n
    | FGroup g fs n =>
        Hgroup g fs n
          ((fix go (l : list filt) : Forall P l :=
              match l with
              | [] => Forall_nil P
              | x :: rest => Forall_cons x (filt_ind' x) (go rest)
              end) fs)
    end.
End FiltInd.

Lemma forallb_negb_existsb {A} (f : A -> bool) (l : list A) :
  forallb (fun x => negb (f x)) l = negb (existsb f l).
Proof. induction l as [|x l IH]; cbn; [reflexivity|]. rewrite IH, negb_orb; reflexivity. Qed.

Lemma existsb_negb_forallb {A} (f : A -> bool) (l : list A) :
  existsb (fun x => negb (f x)) l = negb (forallb f l).
Proof. induction l as [|x l IH]; cbn; [reflexivity|]. rewrite IH, negb_andb; reflexivity. Qed.

Lemma forallb_ext_Forall {A} (f g : A -> bool) (l : list A) :
  Forall (fun x => f x = g x) l -> forallb f l = forallb g l.
Proof. induction 1 as [|x l Hx _ IH]; cbn; [reflexivity|]. rewrite Hx, IH; reflexivity. Qed.

Lemma existsb_ext_Forall {A} (f g : A -> bool) (l : list A) :
  Forall (fun x => f x = g x) l -> existsb f l = existsb g l.
Proof. induction 1 as [|x l Hx _ IH]; cbn; [reflexivity|]. rewrite Hx, IH; reflexivity. Qed.

(** The evaluation strategy of MatchFilter (negation handed down, And/Or
    swapped) computes exactly the literal semantics, for every tree, every
    nesting of negations and every row. *)
Theorem match_filter_sem : forall (x : rowctx) (f : filt) (negate : bool),
  match_filter x f negate = xorb negate (sem x f).
Proof.
  intros x f. induction f as [l n|g fs n IH] using filt_ind'; intros negate.
  - cbn [match_filter sem]. destruct negate, n, (leaf_match x l); reflexivity.
  - cbn [match_filter sem].
    assert (Hall : forall b, Forall (fun f => match_filter x f b = xorb b (sem x f)) fs).
    { intros b. eapply Forall_impl; [|exact IH]. intros f Hf; apply Hf. }
    destruct (xorb negate n) eqn:Hneg.
    + (* negated: And becomes Or of negated children and vice versa *)
      destruct g.
      * rewrite (existsb_ext_Forall _ (fun f => negb (sem x f)) fs).
        -- rewrite existsb_negb_forallb. destruct negate, n; cbn in Hneg |- *; try discriminate;
             destruct (forallb (sem x) fs); reflexivity.
        -- eapply Forall_impl; [|exact (Hall true)]. intros f Hf; cbn beta in Hf; rewrite Hf; destruct (sem x f); reflexivity.
      * rewrite (forallb_ext_Forall _ (fun f => negb (sem x f)) fs).
        -- rewrite forallb_negb_existsb. destruct negate, n; cbn in Hneg |- *; try discriminate;
             destruct (existsb (sem x) fs); reflexivity.
        -- eapply Forall_impl; [|exact (Hall true)]. intros f Hf; cbn beta in Hf; rewrite Hf; destruct (sem x f); reflexivity.
    + destruct g.
      * rewrite (forallb_ext_Forall _ (sem x) fs).
        -- destruct negate, n; cbn in Hneg |- *; try discriminate; destruct (forallb (sem x) fs); reflexivity.
        -- eapply Forall_impl; [|exact (Hall false)]. intros f Hf; cbn beta in Hf; rewrite Hf; destruct (sem x f); reflexivity.
      * rewrite (existsb_ext_Forall _ (sem x) fs).
        -- destruct negate, n; cbn in Hneg |- *; try discriminate; destruct (existsb (sem x) fs); reflexivity.
        -- eapply Forall_impl; [|exact (Hall false)]. intros f Hf; cbn beta in Hf; rewrite Hf; destruct (sem x f); reflexivity.
Qed.

Corollary match_filter_top x f : match_filter x f false = sem x f.
Proof. rewrite match_filter_sem; destruct (sem x f); reflexivity. Qed.
