(** Index pre-selection of the query engine (C07).

    Executable transcription of pkg/lmd/datastore.go:
      GetPreFilteredData, tryFilterIndexData, TryFilterIndex,
      appendIndexHostsFromHostColumns, appendIndexHostsFromServiceColumns,
      appendIndexFromPrimaryKey, and of what InsertItem puts into
      [index] / [index2] / [indexLowerCase].

    The model of Engine.v evaluates the filter on EVERY row of a table
    ([selected_rows]).  The implementation first narrows the candidate rows
    with an index and evaluates the filter on the candidates only
    ([gather_indexed] below).  IndexProofs.v shows that both select the same
    rows.  Definitions only, everything is structurally recursive. *)
From LMD Require Import QE.Engine.
Open Scope N_scope.

(** ** reading cells *)
Definition cell_str (td : tdata) (r : list value) (name : str) : str :=
  as_str (cell_or td r name (VStr [])).
Definition cell_strlist (td : tdata) (r : list value) (name : str) : list str :=
  as_strlist (cell_or td r name (VStrList [])).

Definition int_of (v : value) : Z :=
  match v with VInt z => z | VFloat m => Z.quot m 1000 | _ => 0%Z end.

(** DataRow.GetString of the local column [c] of table [t] (what GetID / GetID2
    build the index keys from): strings as they are, integers as decimal text *)
Definition pk_text (t : tschema) (td : tdata) (c : str) (r : list value) : str :=
  match find_col t c with
  | Some col =>
      match c_type col with
      | TInt | TInt64 => show_Z (int_of (get_local td r col))
      | _ => as_str (get_local td r col)
      end
  | None => []
  end.

(** first / second primary key of a row (GetID for one key, GetID2 for two) *)
Definition row_key (t : tschema) (td : tdata) (r : list value) : str :=
  match t_pk t with c :: _ => pk_text t td c r | [] => [] end.
Definition row_key2 (t : tschema) (td : tdata) (r : list value) : str :=
  match t_pk t with _ :: c :: _ => pk_text t td c r | _ => [] end.

(** ** the maps built by InsertItem

    [index[id] = row] and [index2[id1][id2] = row] are Go maps: a later row with
    the same key replaces an earlier one.  [index_rows same rows] are the rows
    that are still reachable through the map (last one wins). *)
Section IndexRows.
  Context {A : Type} (same : A -> A -> bool).
  Fixpoint index_rows (rows : list A) : list A :=
    match rows with
    | [] => []
    | r :: rest => if existsb (fun r' => same r' r) rest then index_rows rest else r :: index_rows rest
    end.
  (** no two rows share a key *)
  Fixpoint uniqb (rows : list A) : bool :=
    match rows with
    | [] => true
    | r :: rest => negb (existsb (fun r' => same r' r) rest) && uniqb rest
    end.
End IndexRows.

Definition same_by (key : list value -> str) (a b : list value) : bool := str_eqb (key a) (key b).
Definition same1 (t : tschema) (td : tdata) : list value -> list value -> bool := same_by (row_key t td).
Definition same2 (t : tschema) (td : tdata) (a b : list value) : bool :=
  str_eqb (row_key t td a) (row_key t td b) && str_eqb (row_key2 t td a) (row_key2 t td b).

(** indexLowerCase of the hosts store: lower-cased name -> the names that differ
    from their lower-case form (only filled for the hosts table) *)
Definition lc_index (d : tdata) (k : str) : list str :=
  filter (fun n => str_eqb (lower n) k && negb (str_eqb (lower n) n))
         (map (fun r => cell_str d r (s "name")) (td_rows d)).

(** ** sorted set of keys (sort.Strings over the keys of the uniqRows map) *)
Fixpoint set_insert (x : str) (l : list str) : list str :=
  match l with
  | [] => [x]
  | y :: rest => if str_ltb x y then x :: l
                 else if str_eqb x y then l
                 else y :: set_insert x rest
  end.
Definition sort_keys (l : list str) : list str := fold_right set_insert [] l.

(** ** group lookups of the callbacks *)
Definition name_of (td : tdata) (r : list value) : str := cell_str td r (s "name").

(** members of all host groups whose name satisfies [pred] (via store.index of hostgroups) *)
Definition hg_members (bk : backend) (pred : str -> bool) : list str :=
  match find_data bk (s "hostgroups") with
  | Some g => flat_map (fun r => if pred (name_of g r) then cell_strlist g r (s "members") else [])
                       (index_rows (same_by (name_of g)) (td_rows g))
  | None => []
  end.

(** host names of the members of all service groups whose name satisfies [pred] *)
Definition sg_member_hosts (bk : backend) (pred : str -> bool) : list str :=
  match find_data bk (s "servicegroups") with
  | Some g => flat_map (fun r => if pred (name_of g r)
                                 then map fst (as_pairs (cell_or g r (s "members") (VPairs [])))
                                 else [])
                       (index_rows (same_by (name_of g)) (td_rows g))
  | None => []
  end.

(** keys of store.index of the hosts table *)
Definition host_names (bk : backend) : list str :=
  match find_data bk (s "hosts") with
  | Some h => map (name_of h) (td_rows h)
  | None => []
  end.

Definition is_list_re_op (o : op) : bool :=
  match o with ORe | OReI | OCont | OContI => true | _ => false end.

(** stringlist column filtered through group members: [>=] and the regex / substring forms *)
Definition group_cb (members : (str -> bool) -> list str) (l : leaf) : option (list str) :=
  match lf_op l with
  | OGe => Some (members (fun g => str_eqb g (lf_str l)))
  | ORe | OReI | OCont | OContI => Some (members (match_string l))
  | _ => None
  end.

(** ** appendIndexHostsFromHostColumns; [d] is the hosts store itself *)
Definition hosts_cb (bk : backend) (d : tdata) (l : leaf) : option (list str) :=
  let n := c_name (lf_col l) in
  let v := lf_str l in
  if str_eqb n (s "name") then
    match lf_op l with
    | OEq => Some [v]
    | OEqI => Some (v :: lower v :: lc_index d (lower v))
    | _ => None
    end
  else if str_eqb n (s "name_lc") then
    match lf_op l with
    | OEq | OEqI => Some (v :: lower v :: lc_index d (lower v))
    | _ => None
    end
  else if str_eqb n (s "groups") then group_cb (hg_members bk) l
  else None.

(** ** appendIndexHostsFromServiceColumns *)
Definition services_cb (bk : backend) (l : leaf) : option (list str) :=
  let n := c_name (lf_col l) in
  let v := lf_str l in
  if str_eqb n (s "host_name") then
    match lf_op l with
    | OEq => Some [v]
    | ORe | OCont => Some (filter (match_string l) (host_names bk))
    | _ => None
    end
  else if str_eqb n (s "host_name_lc") then
    match lf_op l with
    | ORe | OCont | OReI | OContI | OEqI | OEq =>
        Some (filter (fun h => match_string l (lower h)) (host_names bk))
    | _ => None
    end
  else if str_eqb n (s "host_groups") then group_cb (hg_members bk) l
  else if str_eqb n (s "groups") then group_cb (sg_member_hosts bk) l
  else None.

(** ** appendIndexFromPrimaryKey (tables with one primary key other than hosts);
    indexLowerCase is empty for these tables *)
Definition pk_cb (t : tschema) (l : leaf) : option (list str) :=
  match t_pk t with
  | [key] =>
      let n := c_name (lf_col l) in
      if str_eqb n key then
        match lf_op l with
        | OEq =>
            match c_type (lf_col l) with
            | TInt | TInt64 => if lf_empty l then None else Some [show_Z (int_ref l)]
            | _ => Some [lf_str l]
            end
        | _ => None
        end
      else if str_eqb n (key ++ s "_lc") then
        match lf_op l with
        | OEq | OEqI => Some [lf_str l]
        | _ => None
        end
      else None
  | _ => None
  end.

(** the callback GetPreFilteredData selects for a store *)
Definition callback (bk : backend) (t : tschema) (td : tdata) : option (leaf -> option (list str)) :=
  if str_eqb (t_name t) (s "hosts") then Some (hosts_cb bk td)
  else if str_eqb (t_name t) (s "services") then Some (services_cb bk)
  else match t_pk t with
       | [_] => Some (pk_cb t)
       | _ => None
       end.

(** ** TryFilterIndex *)
Inductive nres := NFail | NSkip | NKeys (ks : list str).

Section Walk.
  Variable cb : leaf -> option (list str).

  (** one element of the loop body; [brk] = breakOnNoneIndexableFilter *)
  Fixpoint tfi_node (brk : bool) (f : filt) {struct f} : nres :=
    match f with
    | FLeaf l n =>
        if n then NFail
        else match cb l with
             | Some ks => NKeys ks
             | None => if brk then NFail else NSkip
             end
    | FGroup g fs n =>
        if n then NFail
        else
          let brk' := match g with GAnd => false | GOr => true end in
          match (fix walk (fs : list filt) : option (bool * list str) :=
                   match fs with
                   | [] => Some (false, [])
                   | f :: rest =>
                       match tfi_node brk' f with
                       | NFail => None
                       | NSkip => walk rest
                       | NKeys ks => match walk rest with
                                     | Some (_, ks') => Some (true, ks ++ ks')
                                     | None => None
                                     end
                       end
                   end) fs with
          | Some (true, ks) => NKeys ks
          | _ => NFail
          end
    end.

  (** the loop: None = a node refused; Some (found, keys) *)
  Fixpoint tfi_walk (brk : bool) (fs : list filt) : option (bool * list str) :=
    match fs with
    | [] => Some (false, [])
    | f :: rest =>
        match tfi_node brk f with
        | NFail => None
        | NSkip => tfi_walk brk rest
        | NKeys ks => match tfi_walk brk rest with
                      | Some (_, ks') => Some (true, ks ++ ks')
                      | None => None
                      end
        end
    end.

  (** TryFilterIndex(uniq, filter, cb, brk): None = false, Some keys = true with
      the keys added to the map *)
  Definition try_filter_index (brk : bool) (fs : list filt) : option (list str) :=
    match tfi_walk brk fs with
    | Some (true, ks) => Some ks
    | _ => None
    end.
End Walk.

(** ** tryFilterIndexData: rows of the sorted keys *)
Definition lookup_all (kf : list value -> str) (keys : list str) (rows : list (list value)) : list (list value) :=
  flat_map (fun k => match find (fun r => str_eqb (kf r) k) rows with Some r => [r] | None => [] end)
           (sort_keys keys).

Definition is_services (t : tschema) : bool := str_eqb (t_name t) (s "services").

Definition emit (t : tschema) (td : tdata) (keys : list str) : list (list value) :=
  if is_services t then
    let idx := index_rows (same2 t td) (td_rows td) in
    flat_map (fun h =>
                let mine := filter (fun r => str_eqb (row_key t td r) h) idx in
                lookup_all (row_key2 t td) (map (row_key2 t td) mine) mine)
             (sort_keys keys)
  else
    lookup_all (row_key t td) keys (index_rows (same1 t td) (td_rows td)).

(** candidate keys (sorted, unique) or None = all rows *)
Definition prefilter_keys (bk : backend) (t : tschema) (fs : list filt) : option (list str) :=
  match fs with
  | [] => None
  | _ =>
      match table_data bk t with
      | Some td =>
          match callback bk t td with
          | Some cb => match try_filter_index cb false fs with
                       | Some keys => Some (sort_keys keys)
                       | None => None
                       end
          | None => None
          end
      | None => None
      end
  end.

(** GetPreFilteredData: None = d.data, Some rows = the indexed data in emission order *)
Definition prefilter (bk : backend) (t : tschema) (fs : list filt) : option (list (list value)) :=
  match fs with
  | [] => None
  | _ =>
      match table_data bk t with
      | Some td =>
          match callback bk t td with
          | Some cb => match try_filter_index cb false fs with
                       | Some keys => Some (emit t td keys)
                       | None => None
                       end
          | None => None
          end
      | None => None
      end
  end.

(** DataRow.GetID: the primary key values joined with a NUL (ListSepChar1) *)
Definition row_id (t : tschema) (td : tdata) (r : list value) : str :=
  join [0] (map (fun c => pk_text t td c r) (t_pk t)).

(** for the harness: ids of the rows GetPreFilteredData returns, in emission order;
    None = no index used (d.data).  [schema] is not needed, kept for a uniform signature *)
Definition prefilter_ids (schema : list tschema) (bk : backend) (t : tschema) (fs : list filt) : option (list str) :=
  match prefilter bk t fs, table_data bk t with
  | Some rows, Some td => Some (map (row_id t td) rows)
  | _, _ => None
  end.

(** gatherResultRows / gatherStatsResult: the filter evaluated on the candidates *)
Definition gather_indexed (schema : list tschema) (cfg : config) (rq : request) (bk : backend) : list (list value) :=
  match table_data bk (rq_table rq) with
  | Some td =>
      filter (row_selected schema cfg rq bk td)
             (match prefilter bk (rq_table rq) (rq_filter rq) with
              | Some rows => rows
              | None => td_rows td
              end)
  | None => []
  end.

(** ** hypotheses of the soundness theorems, as executable checks *)

(** *** the schema: the columns the callbacks look at are what the code assumes *)
Definition col_ok (t : tschema) (name : str) (p : column -> bool) : bool :=
  match find_col t name with Some c => p c | None => true end.
Definition col_is (t : tschema) (name : str) (p : column -> bool) : bool :=
  match find_col t name with Some c => p c | None => false end.

Definition is_local0 (c : column) : bool :=
  match c_store c with SLocal => N.eqb (c_opt c) 0 | _ => false end.
Definition plain_str (c : column) : bool := is_local0 c && dtype_eqb (c_type c) TStr.
Definition plain_strlist (c : column) : bool := is_local0 c && dtype_eqb (c_type c) TStrList.
Definition key_col (c : column) : bool :=
  is_local0 c && match c_type c with TStr | TStrLarge | TInt | TInt64 => true | _ => false end.
Definition ref_to (tn cn : str) (c : column) : bool :=
  match c_store c, c_ref c with
  | SRef, Some (a, b) => str_eqb a tn && str_eqb b cn && N.eqb (c_opt c) 0 && dtype_eqb (c_type c) TStrList
  | _, _ => false
  end.
Definition strs_eqb (a b : list str) : bool := if list_eq_dec (list_eq_dec N.eq_dec) a b then true else false.

Definition table_ok (schema : list tschema) (t : tschema) : bool :=
  if str_eqb (t_name t) (s "hosts") then
    strs_eqb (t_pk t) [s "name"]
    && col_is t (s "name") plain_str && col_ok t (s "name_lc") plain_str && col_ok t (s "groups") plain_strlist
  else if str_eqb (t_name t) (s "services") then
    strs_eqb (t_pk t) [s "host_name"; s "description"]
    && col_is t (s "host_name") plain_str && col_ok t (s "host_name_lc") plain_str
    && col_ok t (s "groups") plain_strlist && col_ok t (s "host_groups") (ref_to (s "hosts") (s "groups"))
    && match find (fun x => str_eqb (fst x) (s "hosts")) (t_refs t) with
       | Some (_, kc) => strs_eqb kc [s "host_name"]
       | None => false
       end
    && match find_table schema (s "hosts") with
       | Some rt => strs_eqb (t_pk rt) [s "name"] && col_is rt (s "groups") plain_strlist
       | None => false
       end
  else match t_pk t with
       | [k] => col_is t k key_col
                && match find_col t (k ++ s "_lc") with None => true | Some _ => false end
                && negb (str_eqb k (s "empty")) && negb (str_eqb (k ++ s "_lc") (s "empty"))
       | _ => true
       end.
Definition schema_ok (schema : list tschema) : bool := forallb (table_ok schema) schema.

(** *** the data *)
Definition uniq_pk (t : tschema) (td : tdata) : bool :=
  if is_services t then uniqb (same2 t td) (td_rows td) else uniqb (same1 t td) (td_rows td).

Definition lc_cell_ok (td : tdata) (base : str) (r : list value) : bool :=
  match cell td r (base ++ s "_lc") with
  | Some v => str_eqb (as_str v) (lower (cell_str td r base))
  | None => true
  end.

Definition on_table (bk : backend) (name : str) (p : tdata -> bool) : bool :=
  match find_data bk name with Some td => p td | None => true end.

Definition in_hostgroup (bk : backend) (host g : str) : bool :=
  match find_data bk (s "hostgroups") with
  | Some gd => existsb (fun gr => str_eqb (name_of gd gr) g && mem_str host (cell_strlist gd gr (s "members"))) (td_rows gd)
  | None => false
  end.
Definition in_servicegroup (bk : backend) (host desc g : str) : bool :=
  match find_data bk (s "servicegroups") with
  | Some gd => existsb (fun gr => str_eqb (name_of gd gr) g
                                  && existsb (fun m => str_eqb (fst m) host && str_eqb (snd m) desc)
                                             (as_pairs (cell_or gd gr (s "members") (VPairs [])))) (td_rows gd)
  | None => false
  end.

(** [consistent schema bk]:
    - the primary key is unique in every table of the schema that has one (and group names are unique);
    - every group a host lists exists as a host group that lists the host as a member;
    - every group a service lists exists as a service group with (host, description) as a member;
    - the host of every service exists;
    - a lower-case shadow cell, where the snapshot carries one, is the lower-cased base cell.
    (A service's host_groups ARE its host's groups: [get] resolves the reference column.) *)
Definition consistentb (schema : list tschema) (bk : backend) : bool :=
  forallb (fun t => match table_data bk t, t_pk t with
                   | Some td, _ :: _ => uniq_pk t td      (* tables without a primary key have no index *)
                   | _, _ => true
                   end) schema
  && on_table bk (s "hostgroups") (fun g => uniqb (same_by (name_of g)) (td_rows g))
  && on_table bk (s "servicegroups") (fun g => uniqb (same_by (name_of g)) (td_rows g))
  && on_table bk (s "hosts") (fun h =>
       forallb (fun r => lc_cell_ok h (s "name") r
                         && forallb (in_hostgroup bk (name_of h r)) (cell_strlist h r (s "groups"))) (td_rows h))
  && on_table bk (s "services") (fun sv =>
       forallb (fun r => lc_cell_ok sv (s "host_name") r
                         && mem_str (cell_str sv r (s "host_name")) (host_names bk)
                         && forallb (in_servicegroup bk (cell_str sv r (s "host_name")) (cell_str sv r (s "description")))
                                    (cell_strlist sv r (s "groups"))) (td_rows sv)).
Definition consistent (schema : list tschema) (bk : backend) : Prop := consistentb schema bk = true.

(** *** the filter: leaves carry a column of the table (or the parser's placeholder
    for unknown names).  History: until /repo commit 0e719b1 the hosts callback for
    [name_lc =~ v] did not add [lower v] and lost the host "abc" for [name_lc =~ ABC];
    the theorems then needed a side condition excluding that shape. *)
Definition leaf_wf (t : tschema) (l : leaf) : Prop :=
  find_col t (c_name (lf_col l)) = Some (lf_col l) \/ lf_col l = empty_column.

Fixpoint filt_all (P : leaf -> Prop) (f : filt) : Prop :=
  match f with
  | FLeaf l _ => P l
  | FGroup _ fs _ => (fix go (fs : list filt) : Prop :=
                        match fs with [] => True | f :: rest => filt_all P f /\ go rest end) fs
  end.
Definition filt_wf (t : tschema) (f : filt) : Prop := filt_all (leaf_wf t) f.

(** *** rows in primary key order (hosts by name, services by host_name then description) *)
Definition row_lt (t : tschema) (td : tdata) (a b : list value) : bool :=
  if is_services t then
    str_ltb (row_key t td a) (row_key t td b)
    || (str_eqb (row_key t td a) (row_key t td b) && str_ltb (row_key2 t td a) (row_key2 t td b))
  else str_ltb (row_key t td a) (row_key t td b).

Fixpoint sortedb {A} (lt : A -> A -> bool) (l : list A) : bool :=
  match l with
  | [] => true
  | x :: rest => forallb (lt x) rest && sortedb lt rest
  end.
Definition store_sortedb (t : tschema) (td : tdata) : bool := sortedb (row_lt t td) (td_rows td).
Definition store_sorted (t : tschema) (td : tdata) : Prop := store_sortedb t td = true.
(** the same for the store a backend holds for table [t] (no store: nothing to check) *)
Definition store_sortedb_at (bk : backend) (t : tschema) : bool :=
  match table_data bk t with Some td => store_sortedb t td | None => true end.
