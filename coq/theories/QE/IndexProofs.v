(** * Soundness of the index pre-selection (C07)

    STATUS: everything below is proved for ALL datasets, tables and filter
    lists (induction over the filter tree / the row lists); nothing is left
    open or [_partial].  [Print Assumptions] of every main theorem at the end of the file.

    Hypotheses (all executable booleans defined in Index.v, except [filt_wf]):
      [schema_ok schema]      the columns the callbacks look at have the type /
                              storage the code assumes; [real_schema_ok] proves it
                              for lmd's generated schema by computation
      [consistent schema bk]  unique primary keys, group membership closed in the
                              direction the index needs (a host's / service's groups
                              exist and list it as a member), the host of every
                              service exists, lower-case shadow cells are consistent.
                              Only this direction is required, NOT "members = exactly
                              the hosts that list the group": a weaker hypothesis.
      [filt_wf t f]           every leaf carries a column of the table or the parser's
                              placeholder ([resolve_col_wf]: true for parsed requests).

    A-E  order on strings, sorted lists, [sort_keys], the index maps, emission
         ([emit_In], [emit_sorted]).
    F    [tfi_sound]: the invariant of TryFilterIndex for an arbitrary callback
         that over-approximates its leaves.
    G    [hosts_cb_sound], [services_cb_sound], [pk_cb_sound], [callback_sound].
    H    [index_sound], [C07_index_sound], [gather_indexed_equiv] (same rows as the
         model's [selected_rows]), [prefilter_NoDup] (unconditional),
         [prefilter_filter] / [prefilter_order] (on a store sorted by primary key the
         candidates are a sub-sequence of the store in the same order),
         [gather_indexed_eq] (then even the LISTS are equal).
    J    history: before /repo commit 0e719b1 the hosts callback for [name_lc =~ v]
         lost the host "abc" for v = "ABC" ([callback_sound] needed a side condition and
         the unrestricted statement was refuted); [name_lc_regression] is that case now.
    K    non-vacuity examples.
    L    [parsed_table_in_schema], [parsed_filter_wf]: the hypotheses on the request hold
         for every request [parse_request] accepts (both modes), unconditionally.
    M    closed corollaries on lmd's schema over parsed requests: [index_sound_parsed],
         [C07_index_sound_parsed], [gather_indexed_equiv_parsed], [prefilter_order_parsed],
         [gather_indexed_eq_parsed], [gather_indexed_eq_parsed_b] (only the boolean
         checks [consistentb] and [store_sortedb_at] of the dataset remain). *)
From LMD Require Import QE.Engine QE.FilterProofs QE.Index.
From LMD Require Import Gen.Schema.
From Coq Require Import Sorting.Sorted.
Local Open Scope list_scope.

(** ** A. strings: order and lower-casing *)
Lemma iltb_irrefl (a : str) : str_ltb a a = false.
Proof.
  induction a as [|x a IH]; cbn [str_ltb]; [reflexivity|].
  rewrite N.ltb_irrefl, N.eqb_refl. exact IH.
Qed.

Lemma iltb_trans (a b c : str) :
  str_ltb a b = true -> str_ltb b c = true -> str_ltb a c = true.
Proof.
  revert b c; induction a as [|x a IH]; intros [|y b] [|z c]; cbn [str_ltb]; try congruence.
  destruct (N.ltb_spec x y) as [Hxy|Hxy].
  - intros _. destruct (N.ltb_spec y z) as [Hyz|Hyz].
    + intros _. destruct (N.ltb_spec x z); [reflexivity|lia].
    + destruct (N.eqb_spec y z) as [->|Hne]; [|congruence]. intros _.
      destruct (N.ltb_spec x z); [reflexivity|lia].
  - destruct (N.eqb_spec x y) as [->|Hne]; [|congruence]. intros Hab.
    destruct (N.ltb_spec y z) as [Hyz|Hyz]; [reflexivity|].
    destruct (N.eqb_spec y z) as [->|Hne]; [|congruence]. intros Hbc.
    eapply IH; eassumption.
Qed.

Lemma iltb_total (a b : str) : str_ltb a b = true \/ a = b \/ str_ltb b a = true.
Proof.
  revert b; induction a as [|x a IH]; intros [|y b]; cbn [str_ltb]; auto.
  destruct (N.ltb_spec x y) as [Hxy|Hxy]; [left; reflexivity|].
  destruct (N.ltb_spec y x) as [Hyx|Hyx]; [right; right; reflexivity|].
  assert (x = y) as -> by lia. rewrite N.eqb_refl.
  destruct (IH b) as [H|[H|H]];
    [left; exact H|right; left; congruence|right; right; exact H].
Qed.

Lemma str_eqb_sym (a b : str) : str_eqb a b = str_eqb b a.
Proof. destruct (str_eqb_spec a b), (str_eqb_spec b a); congruence. Qed.

Lemma lower_cp_idem (c : N) : lower_cp (lower_cp c) = lower_cp c.
Proof.
  unfold lower_cp.
  destruct (N.leb_spec 65 c), (N.leb_spec c 90), (N.leb_spec 192 c), (N.leb_spec c 222),
    (N.eqb_spec c 215); cbn [andb negb]; try lia;
  repeat match goal with
         | |- context [N.leb ?a ?b] => destruct (N.leb_spec a b); try lia
         | |- context [N.eqb ?a ?b] => destruct (N.eqb_spec a b); try lia
         end; cbn [andb negb]; try lia; reflexivity.
Qed.

Lemma lower_idem (x : str) : lower (lower x) = lower x.
Proof. unfold lower. rewrite map_map. apply map_ext. intros; apply lower_cp_idem. Qed.

(** ** B. sorted lists *)
Definition ltP {A} (lt : A -> A -> bool) (a b : A) : Prop := lt a b = true.

Lemma sortedb_SS {A} (lt : A -> A -> bool) (l : list A) :
  sortedb lt l = true <-> StronglySorted (ltP lt) l.
Proof.
  induction l as [|x l IH]; cbn [sortedb]; [split; [constructor|reflexivity]|].
  rewrite andb_true_iff, forallb_forall, IH. split.
  - intros [H1 H2]. constructor; [exact H2|]. apply Forall_forall. exact H1.
  - intros H. inversion H as [|? ? H2 H1]; subst. split; [|exact H2].
    rewrite Forall_forall in H1. exact H1.
Qed.

Section Sorted.
  Context {A : Type} (R : A -> A -> Prop).
  Hypothesis R_irrefl : forall a, ~ R a a.
  Hypothesis R_trans : forall a b c, R a b -> R b c -> R a c.

  Lemma SS_NoDup (l : list A) : StronglySorted R l -> NoDup l.
  Proof.
    induction 1 as [|x l _ IH Hall]; constructor; [|exact IH].
    intros Hin. rewrite Forall_forall in Hall. exact (R_irrefl _ (Hall _ Hin)).
  Qed.

  Lemma SS_ext (l1 : list A) : forall l2,
    StronglySorted R l1 -> StronglySorted R l2 -> (forall x, In x l1 <-> In x l2) -> l1 = l2.
  Proof.
    induction l1 as [|a l1 IH]; intros [|b l2] H1 H2 Heq.
    - reflexivity.
    - exfalso. apply (proj2 (Heq b)). left; reflexivity.
    - exfalso. apply (proj1 (Heq a)). left; reflexivity.
    - inversion H1 as [|? ? S1 F1]; subst. inversion H2 as [|? ? S2 F2]; subst.
      rewrite Forall_forall in F1, F2.
      assert (a = b) as ->.
      { destruct (proj1 (Heq a) (or_introl eq_refl)) as [E|Ha]; [congruence|].
        destruct (proj2 (Heq b) (or_introl eq_refl)) as [E|Hb]; [congruence|].
        exfalso. apply (R_irrefl a). eapply R_trans; [apply F1; exact Hb|apply F2; exact Ha]. }
      f_equal. apply IH; [exact S1|exact S2|].
      intros x; split; intros Hx.
      + destruct (proj1 (Heq x) (or_intror Hx)) as [E|H]; [|exact H].
        subst x. exfalso. exact (R_irrefl _ (F1 _ Hx)).
      + destruct (proj2 (Heq x) (or_intror Hx)) as [E|H]; [|exact H].
        subst x. exfalso. exact (R_irrefl _ (F2 _ Hx)).
  Qed.
End Sorted.

Lemma SS_filter {A} (R : A -> A -> Prop) (p : A -> bool) (l : list A) :
  StronglySorted R l -> StronglySorted R (filter p l).
Proof.
  induction 1 as [|x l _ IH Hall]; cbn [filter]; [constructor|].
  destruct (p x); [|exact IH]. constructor; [exact IH|].
  rewrite Forall_forall in *. intros y Hy. apply filter_In in Hy. apply Hall, Hy.
Qed.

Lemma SS_app {A} (R : A -> A -> Prop) (l1 l2 : list A) :
  StronglySorted R l1 -> StronglySorted R l2 ->
  (forall a b, In a l1 -> In b l2 -> R a b) -> StronglySorted R (l1 ++ l2).
Proof.
  induction 1 as [|x l1 _ IH Hall]; intros H2 Hx; cbn [app]; [exact H2|].
  constructor.
  - apply IH; [exact H2|]. intros a b Ha Hb. apply Hx; [right; exact Ha|exact Hb].
  - rewrite Forall_forall in *. intros y Hy. apply in_app_or in Hy. destruct Hy as [Hy|Hy].
    + apply Hall, Hy.
    + apply Hx; [left; reflexivity|exact Hy].
Qed.

Lemma SS_flat_map {K A} (ltk : K -> K -> Prop) (R : A -> A -> Prop) (g : K -> list A) (ks : list K) :
  StronglySorted ltk ks ->
  (forall k, StronglySorted R (g k)) ->
  (forall k1 k2 a b, ltk k1 k2 -> In a (g k1) -> In b (g k2) -> R a b) ->
  StronglySorted R (flat_map g ks).
Proof.
  intros Hks Hg Hx. induction Hks as [|k ks _ IH Hall]; cbn [flat_map]; [constructor|].
  apply SS_app; [apply Hg|exact IH|].
  intros a b Ha Hb. apply in_flat_map in Hb. destruct Hb as [k2 [Hk2 Hb]].
  rewrite Forall_forall in Hall. eapply Hx; [apply Hall; exact Hk2|exact Ha|exact Hb].
Qed.

Lemma SS_impl_in {A} (R R' : A -> A -> Prop) (l : list A) :
  (forall a b, In a l -> In b l -> R a b -> R' a b) -> StronglySorted R l -> StronglySorted R' l.
Proof.
  intros Himp H. induction H as [|x l _ IH Hall]; [constructor|].
  constructor.
  - apply IH. intros a b Ha Hb. apply Himp; right; assumption.
  - rewrite Forall_forall in *. intros y Hy. apply Himp; [left; reflexivity|right; exact Hy|apply Hall, Hy].
Qed.

(** order preserving sub-sequence *)
Inductive sublist {A} : list A -> list A -> Prop :=
| sub_nil : sublist [] []
| sub_skip x l1 l2 : sublist l1 l2 -> sublist l1 (x :: l2)
| sub_keep x l1 l2 : sublist l1 l2 -> sublist (x :: l1) (x :: l2).

Lemma filter_sublist {A} (p : A -> bool) (l : list A) : sublist (filter p l) l.
Proof.
  induction l as [|x l IH]; cbn [filter]; [constructor|].
  destruct (p x); [apply sub_keep|apply sub_skip]; exact IH.
Qed.

Lemma sublist_In {A} (l1 l2 : list A) : sublist l1 l2 -> forall x, In x l1 -> In x l2.
Proof.
  induction 1 as [|y l1 l2 _ IH|y l1 l2 _ IH]; intros x Hx.
  - exact Hx.
  - right; apply IH, Hx.
  - destruct Hx as [->|Hx]; [left; reflexivity|right; apply IH, Hx].
Qed.

(** ** C. the sorted key set *)
Lemma set_insert_In (x y : str) (l : list str) : In y (set_insert x l) <-> y = x \/ In y l.
Proof.
  induction l as [|z l IH]; cbn [set_insert].
  - cbn. intuition.
  - destruct (str_ltb x z) eqn:Hlt.
    + cbn [In]. intuition.
    + destruct (str_eqb_spec x z) as [->|Hne].
      * cbn [In]. intuition.
      * cbn [In]. rewrite IH. intuition.
Qed.

Lemma sort_keys_In (y : str) (l : list str) : In y (sort_keys l) <-> In y l.
Proof.
  unfold sort_keys. induction l as [|x l IH]; cbn [fold_right]; [reflexivity|].
  rewrite set_insert_In, IH. cbn [In]. intuition.
Qed.

Lemma set_insert_sorted (x : str) (l : list str) :
  StronglySorted (ltP str_ltb) l -> StronglySorted (ltP str_ltb) (set_insert x l).
Proof.
  induction 1 as [|z l Hs IH Hall]; cbn [set_insert].
  - constructor; [constructor|constructor].
  - rewrite Forall_forall in Hall. destruct (str_ltb x z) eqn:Hlt.
    + constructor; [constructor; [exact Hs|apply Forall_forall; exact Hall]|].
      apply Forall_forall. intros y [->|Hy]; [exact Hlt|].
      eapply iltb_trans; [exact Hlt|apply Hall, Hy].
    + destruct (str_eqb_spec x z) as [->|Hne].
      * constructor; [exact Hs|apply Forall_forall; exact Hall].
      * constructor; [exact IH|]. apply Forall_forall. intros y Hy.
        apply set_insert_In in Hy. destruct Hy as [->|Hy]; [|apply Hall, Hy].
        destruct (iltb_total x z) as [H|[H|H]]; [congruence|contradiction|exact H].
Qed.

Lemma sort_keys_sorted (l : list str) : StronglySorted (ltP str_ltb) (sort_keys l).
Proof.
  unfold sort_keys. induction l as [|x l IH]; cbn [fold_right]; [constructor|].
  apply set_insert_sorted, IH.
Qed.

(** ** D. the index maps *)
Section Uniq.
  Context {A : Type} (same : A -> A -> bool).
  Hypothesis same_sym : forall a b, same a b = same b a.

  Lemma uniqb_index_rows (l : list A) : uniqb same l = true -> index_rows same l = l.
  Proof.
    induction l as [|r l IH]; cbn [uniqb index_rows]; [reflexivity|].
    intros H. apply andb_true_iff in H. destruct H as [H1 H2].
    apply negb_true_iff in H1. rewrite H1, (IH H2). reflexivity.
  Qed.

  Lemma uniqb_inj (l : list A) : uniqb same l = true ->
    forall a b, In a l -> In b l -> same a b = true -> a = b.
  Proof.
    induction l as [|r l IH]; cbn [uniqb]; [intros _ a b []|].
    intros H. apply andb_true_iff in H. destruct H as [H1 H2].
    apply negb_true_iff in H1.
    assert (Hno : forall x, In x l -> same x r = false).
    { intros x Hx. destruct (same x r) eqn:E; [|reflexivity].
      assert (existsb (fun r' => same r' r) l = true) by (apply existsb_exists; exists x; auto).
      congruence. }
    intros a b [->|Ha] [->|Hb] Hs.
    - reflexivity.
    - rewrite same_sym, (Hno _ Hb) in Hs. discriminate.
    - rewrite (Hno _ Ha) in Hs. discriminate.
    - exact (IH H2 a b Ha Hb Hs).
  Qed.
End Uniq.

Lemma find_inj {A} (kf : A -> str) (l : list A) :
  (forall a b, In a l -> In b l -> kf a = kf b -> a = b) ->
  forall r, In r l -> find (fun x => str_eqb (kf x) (kf r)) l = Some r.
Proof.
  induction l as [|x l IH]; intros Hinj r Hr; [destruct Hr|].
  cbn [find]. destruct (str_eqb_spec (kf x) (kf r)) as [E|Hne].
  - f_equal. apply Hinj; [left; reflexivity|exact Hr|exact E].
  - destruct Hr as [->|Hr]; [congruence|].
    apply IH; [|exact Hr]. intros a b Ha Hb. apply Hinj; right; assumption.
Qed.

Lemma find_key {A} (kf : A -> str) (k : str) (l : list A) (r : A) :
  find (fun x => str_eqb (kf x) k) l = Some r -> In r l /\ kf r = k.
Proof.
  intros H. apply find_some in H. destruct H as [H1 H2]. apply str_eqb_eq in H2. auto.
Qed.

(** ** E. emission *)
Lemma lookup_all_In (kf : list value -> str) keys rows r :
  In r (lookup_all kf keys rows) <->
  exists k, In k keys /\ find (fun x => str_eqb (kf x) k) rows = Some r.
Proof.
  unfold lookup_all. rewrite in_flat_map. split.
  - intros [k [Hk Hr]]. exists k. rewrite sort_keys_In in Hk. split; [exact Hk|].
    destruct (find _ rows) as [r'|]; [|destruct Hr]. destruct Hr as [->|[]]. reflexivity.
  - intros [k [Hk Hf]]. exists k. rewrite sort_keys_In. split; [exact Hk|].
    rewrite Hf. left; reflexivity.
Qed.

Lemma lookup_all_sorted (kf : list value -> str) keys rows :
  StronglySorted (fun a b => str_ltb (kf a) (kf b) = true) (lookup_all kf keys rows).
Proof.
  unfold lookup_all. eapply SS_flat_map with (ltk := ltP str_ltb).
  - apply sort_keys_sorted.
  - intros k. destruct (find _ rows); repeat constructor.
  - intros k1 k2 a b Hlt Ha Hb.
    destruct (find (fun r => str_eqb (kf r) k1) rows) as [a'|] eqn:Ea; [|destruct Ha].
    destruct (find (fun r => str_eqb (kf r) k2) rows) as [b'|] eqn:Eb; [|destruct Hb].
    destruct Ha as [->|[]]. destruct Hb as [->|[]].
    apply find_key in Ea. apply find_key in Eb. destruct Ea as [_ ->]. destruct Eb as [_ ->]. exact Hlt.
Qed.

Lemma same1_sym t td a b : same1 t td a b = same1 t td b a.
Proof. unfold same1, same_by. apply str_eqb_sym. Qed.
Lemma same2_sym t td a b : same2 t td a b = same2 t td b a.
Proof. unfold same2. rewrite (str_eqb_sym (row_key t td a)), (str_eqb_sym (row_key2 t td a)). reflexivity. Qed.
Lemma same_by_sym k a b : same_by k a b = same_by k b a.
Proof. unfold same_by. apply str_eqb_sym. Qed.

Lemma emit_In t td keys r :
  uniq_pk t td = true ->
  (In r (emit t td keys) <-> In r (td_rows td) /\ In (row_key t td r) keys).
Proof.
  unfold uniq_pk, emit. destruct (is_services t); intros Hu.
  - rewrite (uniqb_index_rows _ _ Hu). rewrite in_flat_map. split.
    + intros [h [Hh Hr]]. rewrite sort_keys_In in Hh. apply lookup_all_In in Hr.
      destruct Hr as [d [_ Hf]]. apply find_key in Hf. destruct Hf as [Hin _].
      apply filter_In in Hin. destruct Hin as [Hin Hk]. apply str_eqb_eq in Hk.
      split; [exact Hin|]. rewrite Hk. exact Hh.
    + intros [Hin Hk]. exists (row_key t td r). rewrite sort_keys_In. split; [exact Hk|].
      apply lookup_all_In. exists (row_key2 t td r).
      assert (Hm : In r (filter (fun r0 => str_eqb (row_key t td r0) (row_key t td r)) (td_rows td))).
      { apply filter_In. split; [exact Hin|apply str_eqb_refl]. }
      split; [apply in_map; exact Hm|].
      apply find_inj; [|exact Hm].
      intros a b Ha Hb E. apply filter_In in Ha. apply filter_In in Hb.
      destruct Ha as [Ha Ka], Hb as [Hb Kb]. apply str_eqb_eq in Ka, Kb.
      apply (uniqb_inj _ (same2_sym t td) _ Hu a b Ha Hb).
      unfold same2. rewrite Ka, Kb, E, !str_eqb_refl. reflexivity.
  - rewrite (uniqb_index_rows _ _ Hu). rewrite lookup_all_In. split.
    + intros [k [Hk Hf]]. apply find_key in Hf. destruct Hf as [Hin E]. subst k. auto.
    + intros [Hin Hk]. exists (row_key t td r). split; [exact Hk|].
      apply find_inj; [|exact Hin].
      intros a b Ha Hb E. apply (uniqb_inj _ (same1_sym t td) _ Hu a b Ha Hb).
      unfold same1, same_by. rewrite E. apply str_eqb_refl.
Qed.

Lemma emit_sorted t td keys : StronglySorted (ltP (row_lt t td)) (emit t td keys).
Proof.
  unfold emit, row_lt, ltP. destruct (is_services t).
  - eapply SS_flat_map with (ltk := ltP str_ltb).
    + apply sort_keys_sorted.
    + intros h. eapply SS_impl_in; [|apply lookup_all_sorted].
      intros a b Ha Hb Hlt. apply lookup_all_In in Ha, Hb.
      destruct Ha as [? [_ Ha]], Hb as [? [_ Hb]]. apply find_key in Ha, Hb.
      destruct Ha as [Ha _], Hb as [Hb _]. apply filter_In in Ha, Hb.
      destruct Ha as [_ Ha], Hb as [_ Hb]. apply str_eqb_eq in Ha, Hb.
      rewrite Ha, Hb, Hlt, str_eqb_refl. apply orb_true_r.
    + intros h1 h2 a b Hlt Ha Hb. apply lookup_all_In in Ha, Hb.
      destruct Ha as [? [_ Ha]], Hb as [? [_ Hb]]. apply find_key in Ha, Hb.
      destruct Ha as [Ha _], Hb as [Hb _]. apply filter_In in Ha, Hb.
      destruct Ha as [_ Ha], Hb as [_ Hb]. apply str_eqb_eq in Ha, Hb.
      rewrite Ha, Hb. unfold ltP in Hlt. rewrite Hlt. reflexivity.
  - apply lookup_all_sorted.
Qed.

(** ** F. TryFilterIndex *)
Lemma tfi_node_group cb brk g fs :
  tfi_node cb brk (FGroup g fs false) =
  match tfi_walk cb (match g with GAnd => false | GOr => true end) fs with
  | Some (true, ks) => NKeys ks
  | _ => NFail
  end.
Proof.
  cbn [tfi_node].
  match goal with
  | |- match ?w with _ => _ end = _ =>
      assert (E : w = tfi_walk cb (match g with GAnd => false | GOr => true end) fs)
  end.
  { induction fs as [|f rest IH]; [reflexivity|]. cbn [tfi_walk]. rewrite <- IH. reflexivity. }
  rewrite E. reflexivity.
Qed.

Lemma filt_all_group P g fs n : filt_all P (FGroup g fs n) <-> Forall (filt_all P) fs.
Proof.
  cbn [filt_all]. induction fs as [|f rest IH].
  - split; [constructor|trivial].
  - split.
    + intros [H1 H2]. constructor; [exact H1|apply IH, H2].
    + intros H. inversion H; subst. split; [assumption|apply IH; assumption].
Qed.

Section WalkSound.
  Variable cb : leaf -> option (list str).
  Variable x : rowctx.
  Variable k : str.
  Variable P : leaf -> Prop.
  Hypothesis Hcb : forall l ks, P l -> cb l = Some ks -> leaf_match x l = true -> In k ks.

  Definition node_spec (f : filt) : Prop :=
    forall brk, filt_all P f ->
      (forall ks, tfi_node cb brk f = NKeys ks -> sem x f = true -> In k ks)
      /\ (brk = true -> tfi_node cb brk f <> NSkip).

  Lemma walk_sound (fs : list filt) :
    Forall node_spec fs -> Forall (filt_all P) fs ->
    forall brk found ks, tfi_walk cb brk fs = Some (found, ks) ->
      (brk = false -> found = true -> forallb (sem x) fs = true -> In k ks)
      /\ (brk = true -> existsb (sem x) fs = true -> In k ks).
  Proof.
    induction 1 as [|f rest Hf _ IH]; intros Hwf brk found ks Hw.
    - cbn in Hw. inversion Hw; subst. split; [discriminate|cbn; discriminate].
    - inversion Hwf as [|? ? Hwf1 Hwf2]; subst.
      destruct (Hf brk Hwf1) as [Hkeys Hskip].
      cbn [tfi_walk] in Hw. cbn [forallb existsb].
      destruct (tfi_node cb brk f) as [| |ks1] eqn:En.
      + discriminate.
      + destruct (IH Hwf2 _ _ _ Hw) as [IHa IHo]. split.
        * intros Hb Hfd Hall. apply andb_true_iff in Hall. apply IHa; tauto.
        * intros Hb. exfalso. apply (Hskip Hb). reflexivity.
      + destruct (tfi_walk cb brk rest) as [[fd' ks']|] eqn:Er; [|discriminate].
        inversion Hw; subst. destruct (IH Hwf2 _ _ _ Er) as [IHa IHo]. split.
        * intros Hb _ Hall. apply andb_true_iff in Hall. apply in_or_app. left.
          apply (Hkeys ks1 eq_refl). tauto.
        * intros Hb Hex. apply orb_true_iff in Hex. apply in_or_app. destruct Hex as [Hex|Hex].
          -- left. apply (Hkeys ks1 eq_refl Hex).
          -- right. apply IHo; assumption.
  Qed.

  Lemma node_sound (f : filt) : node_spec f.
  Proof.
    induction f as [l n|g fs n IH] using filt_ind'; intros brk Hwf.
    - cbn [tfi_node sem]. cbn [filt_all] in Hwf. destruct n.
      + split; intros; congruence.
      + destruct (cb l) as [ks0|] eqn:Ec.
        * split; [|intros; congruence]. intros ks E Hs. inversion E; subst.
          cbn [xorb] in Hs. destruct (leaf_match x l) eqn:El; [|discriminate]. exact (Hcb _ _ Hwf Ec El).
        * destruct brk; split; intros; congruence.
    - apply filt_all_group in Hwf. destruct n.
      + cbn [tfi_node]. split; intros; congruence.
      + rewrite tfi_node_group.
        destruct (tfi_walk cb (match g with GAnd => false | GOr => true end) fs) as [[fd ks0]|] eqn:Ew;
          [|split; intros; congruence].
        destruct fd; [|split; intros; congruence].
        split; [|intros; congruence]. intros ks E Hs. inversion E; subst.
        destruct (walk_sound fs IH Hwf _ _ _ Ew) as [Ha Ho].
        cbn [sem] in Hs. destruct g; rewrite xorb_false_l in Hs.
        * apply Ha; auto.
        * apply Ho; auto.
  Qed.

  (** the soundness invariant of TryFilterIndex *)
  Lemma tfi_sound (brk : bool) (fs : list filt) (keys : list str) :
    Forall (filt_all P) fs ->
    try_filter_index cb brk fs = Some keys ->
    (if brk then existsb (sem x) fs else forallb (sem x) fs) = true -> In k keys.
  Proof.
    intros Hwf Ht Hs. unfold try_filter_index in Ht.
    destruct (tfi_walk cb brk fs) as [[fd ks]|] eqn:Ew; [|discriminate].
    destruct fd; [|discriminate]. inversion Ht; subst.
    assert (Hn : Forall node_spec fs) by (apply Forall_forall; intros f _; apply node_sound).
    destruct (walk_sound fs Hn Hwf _ _ _ Ew) as [Ha Ho].
    destruct brk; [apply Ho|apply Ha]; auto.
  Qed.
End WalkSound.

(** ** G. the callbacks *)
Ltac eval_str_eqb :=
  repeat match goal with
         | |- context [str_eqb (s ?a) (s ?b)] =>
             let v := eval vm_compute in (str_eqb (s a) (s b)) in
             change (str_eqb (s a) (s b)) with v
         | H : context [str_eqb (s ?a) (s ?b)] |- _ =>
             let v := eval vm_compute in (str_eqb (s a) (s b)) in
             change (str_eqb (s a) (s b)) with v in H
         end.

Lemma dtype_eqb_eq a b : dtype_eqb a b = true -> a = b.
Proof. destruct a, b; cbn; congruence. Qed.

Lemma strs_eqb_eq a b : strs_eqb a b = true -> a = b.
Proof. unfold strs_eqb. destruct (list_eq_dec (list_eq_dec N.eq_dec) a b); congruence. Qed.

Lemma is_local0_spec c : is_local0 c = true -> c_store c = SLocal /\ c_opt c = 0%N.
Proof.
  unfold is_local0. destruct (c_store c); try discriminate.
  intros H. apply N.eqb_eq in H. auto.
Qed.

Lemma find_col_name t n c : find_col t n = Some c -> c_name c = n.
Proof.
  unfold find_col. intros H. apply find_some in H. destruct H as [_ H].
  apply str_eqb_eq in H. exact H.
Qed.

Lemma get_local_eq schema bk t td r c :
  c_store c = SLocal -> get schema bk t td r c = get_local td r c.
Proof. unfold get, get_own. intros ->. reflexivity. Qed.

Lemma leaf_match_opt0 (x : rowctx) l :
  c_opt (lf_col l) = 0%N -> leaf_match x l = match_value l (c_type (lf_col l)) (ctx_get x (lf_col l)).
Proof. intros Ho. unfold leaf_match. rewrite Ho. unfold has_flag. reflexivity. Qed.

Lemma leaf_match_local schema bk t td r l :
  is_local0 (lf_col l) = true ->
  leaf_match (mkctx schema bk t td r) l
  = match_value l (c_type (lf_col l)) (get_local td r (lf_col l)).
Proof.
  intros H. apply is_local0_spec in H. destruct H as [Hs Ho].
  rewrite leaf_match_opt0 by exact Ho. unfold ctx_get, mkctx.
  cbn [x_bk x_schema x_table x_data x_row]. rewrite get_local_eq by exact Hs. reflexivity.
Qed.

Lemma get_local_plain td r c :
  has_suffix_lc (c_name c) = None ->
  get_local td r c = match cell td r (c_name c) with Some v => v | None => zero_value (c_type c) end.
Proof. unfold get_local. intros ->. reflexivity. Qed.

Lemma get_local_str td r c n :
  c_name c = n -> has_suffix_lc n = None -> c_type c = TStr ->
  as_str (get_local td r c) = cell_str td r n.
Proof.
  intros <- Hs Ht. rewrite get_local_plain by exact Hs. unfold cell_str, cell_or. rewrite Ht.
  destruct (cell td r (c_name c)); reflexivity.
Qed.

Lemma get_local_strlist td r c n :
  c_name c = n -> has_suffix_lc n = None -> c_type c = TStrList ->
  as_strlist (get_local td r c) = cell_strlist td r n.
Proof.
  intros <- Hs Ht. rewrite get_local_plain by exact Hs. unfold cell_strlist, cell_or. rewrite Ht.
  destruct (cell td r (c_name c)); reflexivity.
Qed.

Lemma get_local_lc td r c base :
  c_name c = base ++ s "_lc" -> has_suffix_lc (base ++ s "_lc") = Some base ->
  lc_cell_ok td base r = true -> as_str (get_local td r c) = lower (cell_str td r base).
Proof.
  intros Hn Hs Hok. unfold get_local. rewrite Hn, Hs. unfold lc_cell_ok in Hok.
  destruct (cell td r (base ++ s "_lc")) as [v|].
  - apply str_eqb_eq in Hok. exact Hok.
  - unfold cell_str, cell_or. destruct (cell td r base) as [[]|]; reflexivity.
Qed.

Lemma plain_str_spec c : plain_str c = true -> is_local0 c = true /\ c_type c = TStr.
Proof. unfold plain_str. intros H. apply andb_true_iff in H. destruct H as [H1 H2]. apply dtype_eqb_eq in H2. auto. Qed.
Lemma plain_strlist_spec c : plain_strlist c = true -> is_local0 c = true /\ c_type c = TStrList.
Proof. unfold plain_strlist. intros H. apply andb_true_iff in H. destruct H as [H1 H2]. apply dtype_eqb_eq in H2. auto. Qed.

(** *** what [consistent] provides *)
Lemma on_table_spec bk n p td : on_table bk n p = true -> find_data bk n = Some td -> p td = true.
Proof. unfold on_table. intros H E. rewrite E in H. exact H. Qed.

Lemma cons_parts schema bk : consistent schema bk ->
  (forall t td, In t schema -> table_data bk t = Some td -> t_pk t <> [] -> uniq_pk t td = true)
  /\ (forall g, find_data bk (s "hostgroups") = Some g -> uniqb (same_by (name_of g)) (td_rows g) = true)
  /\ (forall g, find_data bk (s "servicegroups") = Some g -> uniqb (same_by (name_of g)) (td_rows g) = true)
  /\ (forall h r, find_data bk (s "hosts") = Some h -> In r (td_rows h) ->
        lc_cell_ok h (s "name") r = true
        /\ forall g, In g (cell_strlist h r (s "groups")) -> in_hostgroup bk (name_of h r) g = true)
  /\ (forall sv r, find_data bk (s "services") = Some sv -> In r (td_rows sv) ->
        lc_cell_ok sv (s "host_name") r = true
        /\ In (cell_str sv r (s "host_name")) (host_names bk)
        /\ forall g, In g (cell_strlist sv r (s "groups")) ->
             in_servicegroup bk (cell_str sv r (s "host_name")) (cell_str sv r (s "description")) g = true).
Proof.
  unfold consistent, consistentb. rewrite !andb_true_iff. intros [[[[H1 H2] H3] H4] H5].
  split; [|split; [|split; [|split]]].
  - intros t td Ht Htd Hpk. rewrite forallb_forall in H1. specialize (H1 t Ht). rewrite Htd in H1.
    destruct (t_pk t); [contradiction|exact H1].
  - intros g Hg. exact (on_table_spec _ _ _ _ H2 Hg).
  - intros g Hg. exact (on_table_spec _ _ _ _ H3 Hg).
  - intros h r Hh Hr. pose proof (on_table_spec _ _ _ _ H4 Hh) as Hall. cbv beta in Hall.
    rewrite forallb_forall in Hall. specialize (Hall _ Hr). apply andb_true_iff in Hall.
    destruct Hall as [Ha Hb]. split; [exact Ha|].
    intros g Hg. rewrite forallb_forall in Hb. apply Hb, Hg.
  - intros sv r Hsv Hr. pose proof (on_table_spec _ _ _ _ H5 Hsv) as Hall. cbv beta in Hall.
    rewrite forallb_forall in Hall. specialize (Hall _ Hr). rewrite !andb_true_iff in Hall.
    destruct Hall as [[Ha Hb] Hc]. split; [exact Ha|]. split; [apply mem_str_In; exact Hb|].
    intros g Hg. rewrite forallb_forall in Hc. apply Hc, Hg.
Qed.

Lemma hg_members_In schema bk h g (pred : str -> bool) :
  consistent schema bk -> in_hostgroup bk h g = true -> pred g = true -> In h (hg_members bk pred).
Proof.
  intros Hc Hin Hp. destruct (cons_parts _ _ Hc) as [_ [Hu [_ _]]].
  unfold in_hostgroup in Hin. unfold hg_members.
  destruct (find_data bk (s "hostgroups")) as [gd|] eqn:Eg; [|discriminate].
  rewrite (uniqb_index_rows _ _ (Hu gd eq_refl)).
  apply existsb_exists in Hin. destruct Hin as [gr [Hgr Hx]].
  apply andb_true_iff in Hx. destruct Hx as [Hn Hm]. apply str_eqb_eq in Hn. apply mem_str_In in Hm.
  apply in_flat_map. exists gr. split; [exact Hgr|]. rewrite Hn, Hp. exact Hm.
Qed.

Lemma sg_member_hosts_In schema bk h d g (pred : str -> bool) :
  consistent schema bk -> in_servicegroup bk h d g = true -> pred g = true -> In h (sg_member_hosts bk pred).
Proof.
  intros Hc Hin Hp. destruct (cons_parts _ _ Hc) as [_ [_ [Hu _]]].
  unfold in_servicegroup in Hin. unfold sg_member_hosts.
  destruct (find_data bk (s "servicegroups")) as [gd|] eqn:Eg; [|discriminate].
  rewrite (uniqb_index_rows _ _ (Hu gd eq_refl)).
  apply existsb_exists in Hin. destruct Hin as [gr [Hgr Hx]].
  apply andb_true_iff in Hx. destruct Hx as [Hn Hm]. apply str_eqb_eq in Hn.
  apply existsb_exists in Hm. destruct Hm as [m [Hm1 Hm2]].
  apply andb_true_iff in Hm2. destruct Hm2 as [Hm2 _]. apply str_eqb_eq in Hm2.
  apply in_flat_map. exists gr. split; [exact Hgr|]. rewrite Hn, Hp. rewrite <- Hm2. apply in_map. exact Hm1.
Qed.

Lemma group_cb_sound (M : (str -> bool) -> list str) (l : leaf) (groups keys : list str) (key : str) :
  (forall g (pred : str -> bool), In g groups -> pred g = true -> In key (M pred)) ->
  group_cb M l = Some keys -> match_strlist l groups = true -> In key keys.
Proof.
  intros HM Hcb Hm. unfold group_cb in Hcb. unfold match_strlist in Hm.
  revert Hcb Hm. destruct (lf_op l) eqn:Eo; intros Hcb Hm; try discriminate;
    inversion Hcb; subst; clear Hcb;
    apply existsb_exists in Hm; destruct Hm as [g [Hg Hp]];
    (apply (HM g); [exact Hg|]; cbv beta;
     first [exact Hp | apply str_eqb_eq in Hp; rewrite <- Hp; apply str_eqb_refl]).
Qed.

Lemma has_lc_name : has_suffix_lc (s "name_lc") = Some (s "name").
Proof. reflexivity. Qed.
Lemma has_lc_host_name : has_suffix_lc (s "host_name_lc") = Some (s "host_name").
Proof. reflexivity. Qed.

(** *** hosts *)
Lemma hosts_cb_sound schema bk t td l keys r :
  table_ok schema t = true -> t_name t = s "hosts" -> consistent schema bk ->
  find_data bk (s "hosts") = Some td -> leaf_wf t l ->
  hosts_cb bk td l = Some keys -> In r (td_rows td) ->
  leaf_match (mkctx schema bk t td r) l = true -> In (name_of td r) keys.
Proof.
  intros Hok Hn Hc Hfd Hwf Hcb Hr Hm.
  unfold table_ok in Hok. rewrite Hn in Hok. eval_str_eqb. cbv iota in Hok.
  rewrite !andb_true_iff in Hok. destruct Hok as [[[Hpk Hname] Hlc] Hgr].
  destruct (cons_parts _ _ Hc) as [_ [_ [_ [Hh _]]]].
  destruct (Hh td r Hfd Hr) as [Hlcok Hgrp]. clear Hh.
  unfold hosts_cb in Hcb. unfold name_of.
  destruct Hwf as [Hwf|Hwf].
  2: { rewrite Hwf in Hcb. unfold empty_column in Hcb. cbn [c_name] in Hcb. eval_str_eqb. discriminate. }
  destruct (str_eqb_spec (c_name (lf_col l)) (s "name")) as [En|Nn].
  - rewrite En in Hwf. unfold col_is in Hname. rewrite Hwf in Hname.
    apply plain_str_spec in Hname. destruct Hname as [Hloc Hty].
    rewrite leaf_match_local in Hm by exact Hloc. rewrite Hty in Hm. cbn [match_value] in Hm.
    rewrite (get_local_str td r _ (s "name") En eq_refl Hty) in Hm.
    revert Hcb Hm. unfold match_string. destruct (lf_op l); intros Hcb Hm; try discriminate;
      inversion Hcb; subst; clear Hcb.
    + apply str_eqb_eq in Hm. left. symmetry. exact Hm.
    + unfold fold_eq in Hm. apply str_eqb_eq in Hm.
      destruct (str_eqb_spec (lower (cell_str td r (s "name"))) (cell_str td r (s "name"))) as [E|NE].
      * right. left. congruence.
      * right. right. unfold lc_index. apply filter_In. split.
        -- apply (in_map (fun r0 => cell_str td r0 (s "name"))). exact Hr.
        -- rewrite Hm, str_eqb_refl. apply str_eqb_neq in NE. rewrite <- Hm, NE. reflexivity.
  - destruct (str_eqb_spec (c_name (lf_col l)) (s "name_lc")) as [El|Nl].
    + rewrite El in Hwf. unfold col_ok in Hlc. rewrite Hwf in Hlc.
      apply plain_str_spec in Hlc. destruct Hlc as [Hloc Hty].
      rewrite leaf_match_local in Hm by exact Hloc. rewrite Hty in Hm. cbn [match_value] in Hm.
      rewrite (get_local_lc td r _ (s "name") El has_lc_name Hlcok) in Hm.
      revert Hcb Hm. unfold match_string. destruct (lf_op l); intros Hcb Hm; try discriminate;
        inversion Hcb; subst; clear Hcb.
      * apply str_eqb_eq in Hm.
        destruct (str_eqb_spec (lower (cell_str td r (s "name"))) (cell_str td r (s "name"))) as [E|NE].
        -- left. congruence.
        -- right. right. unfold lc_index. apply filter_In. split.
           ++ apply (in_map (fun r0 => cell_str td r0 (s "name"))). exact Hr.
           ++ rewrite <- Hm, lower_idem, str_eqb_refl. apply str_eqb_neq in NE. rewrite NE. reflexivity.
      * unfold fold_eq in Hm. apply str_eqb_eq in Hm. rewrite lower_idem in Hm.
        destruct (str_eqb_spec (lower (cell_str td r (s "name"))) (cell_str td r (s "name"))) as [E|NE].
        -- right. left. congruence.
        -- right. right. unfold lc_index. apply filter_In. split.
           ++ apply (in_map (fun r0 => cell_str td r0 (s "name"))). exact Hr.
           ++ rewrite Hm, str_eqb_refl. apply str_eqb_neq in NE. rewrite <- Hm, NE. reflexivity.
    + destruct (str_eqb_spec (c_name (lf_col l)) (s "groups")) as [Eg|Ng]; [|discriminate].
      rewrite Eg in Hwf. unfold col_ok in Hgr. rewrite Hwf in Hgr.
      apply plain_strlist_spec in Hgr. destruct Hgr as [Hloc Hty].
      rewrite leaf_match_local in Hm by exact Hloc. rewrite Hty in Hm. cbn [match_value] in Hm.
      rewrite (get_local_strlist td r _ (s "groups") Eg eq_refl Hty) in Hm.
      eapply group_cb_sound; [|exact Hcb|exact Hm].
      intros g pred Hg Hp. eapply hg_members_In; [exact Hc| |exact Hp].
      apply Hgrp. exact Hg.
Qed.

(** *** services *)
Lemma ref_to_spec a b c : ref_to a b c = true ->
  c_store c = SRef /\ c_ref c = Some (a, b) /\ c_opt c = 0%N /\ c_type c = TStrList.
Proof.
  unfold ref_to. destruct (c_store c); try discriminate.
  destruct (c_ref c) as [[a' b']|]; try discriminate.
  rewrite !andb_true_iff. intros [[[H1 H2] H3] H4].
  apply str_eqb_eq in H1, H2. apply N.eqb_eq in H3. apply dtype_eqb_eq in H4. subst. auto.
Qed.

Lemma services_ok schema t :
  table_ok schema t = true -> t_name t = s "services" ->
  t_pk t = [s "host_name"; s "description"]
  /\ col_is t (s "host_name") plain_str = true
  /\ col_ok t (s "host_name_lc") plain_str = true
  /\ col_ok t (s "groups") plain_strlist = true
  /\ col_ok t (s "host_groups") (ref_to (s "hosts") (s "groups")) = true
  /\ (exists x, find (fun x => str_eqb (fst x) (s "hosts")) (t_refs t) = Some (x, [s "host_name"]))
  /\ (exists rt, find_table schema (s "hosts") = Some rt /\ t_pk rt = [s "name"]
                 /\ col_is rt (s "groups") plain_strlist = true).
Proof.
  intros Hok Hn. unfold table_ok in Hok. rewrite Hn in Hok. eval_str_eqb. cbv iota in Hok.
  rewrite !andb_true_iff in Hok. destruct Hok as [[[[[[Hpk H1] H2] H3] H4] H5] H6].
  apply strs_eqb_eq in Hpk. repeat split; try assumption.
  - destruct (find _ (t_refs t)) as [[x kc]|]; [|discriminate]. apply strs_eqb_eq in H5. subst kc. exists x. reflexivity.
  - destruct (find_table schema (s "hosts")) as [rt|]; [|discriminate].
    apply andb_true_iff in H6. destruct H6 as [H6 H7]. apply strs_eqb_eq in H6. exists rt. auto.
Qed.

Lemma get_host_groups schema bk t td r c :
  table_ok schema t = true -> t_name t = s "services" ->
  find_col t (s "host_groups") = Some c ->
  as_strlist (get schema bk t td r c) = [] \/
  exists hd rr, find_data bk (s "hosts") = Some hd /\ In rr (td_rows hd) /\
     name_of hd rr = cell_str td r (s "host_name") /\
     as_strlist (get schema bk t td r c) = cell_strlist hd rr (s "groups").
Proof.
  intros Hok Hn Hfc.
  destruct (services_ok _ _ Hok Hn) as [_ [_ [_ [_ [Hhg [[x Hrefs] [rt [Hrt [Hrpk Hrg]]]]]]]]].
  unfold col_ok in Hhg. rewrite Hfc in Hhg. apply ref_to_spec in Hhg.
  destruct Hhg as [Es [Er [_ Ety]]].
  unfold get. rewrite Es, Er. unfold find_ref. rewrite Hrefs, Hrt.
  destruct (find_data bk (s "hosts")) as [hd|] eqn:Ehd; [|left; rewrite Ety; reflexivity].
  match goal with |- context [find ?p (td_rows hd)] => destruct (find p (td_rows hd)) as [rr|] eqn:Ef end;
    [|left; rewrite Ety; reflexivity].
  apply find_some in Ef. destruct Ef as [Hin Hk].
  destruct (list_eq_dec _ _ _) as [Ek|]; [|discriminate]. rewrite Hrpk in Ek.
  unfold col_is in Hrg. destruct (find_col rt (s "groups")) as [rc|] eqn:Erc; [|discriminate].
  apply plain_strlist_spec in Hrg. destruct Hrg as [Hloc Hty].
  apply is_local0_spec in Hloc. destruct Hloc as [Hs _].
  right. exists hd, rr. split; [reflexivity|]. split; [exact Hin|]. split.
  - injection Ek as Ek. exact Ek.
  - unfold get_own. rewrite Hs. apply get_local_strlist; [eapply find_col_name; exact Erc|reflexivity|exact Hty].
Qed.

Lemma group_cb_nil M l keys : group_cb M l = Some keys -> match_strlist l [] = false.
Proof. unfold group_cb, match_strlist. destruct (lf_op l); try discriminate; reflexivity. Qed.

Lemma services_cb_sound schema bk t td l keys r :
  table_ok schema t = true -> t_name t = s "services" -> consistent schema bk ->
  find_data bk (s "services") = Some td -> leaf_wf t l ->
  services_cb bk l = Some keys -> In r (td_rows td) ->
  leaf_match (mkctx schema bk t td r) l = true -> In (cell_str td r (s "host_name")) keys.
Proof.
  intros Hok Hn Hc Hfd Hwf Hcb Hr Hm.
  destruct (services_ok _ _ Hok Hn) as [_ [Hhn [Hlc [Hgr [Hhg _]]]]].
  destruct (cons_parts _ _ Hc) as [_ [_ [_ [Hh Hsv]]]].
  destruct (Hsv td r Hfd Hr) as [Hlcok [Hhost Hgrp]]. clear Hsv.
  unfold services_cb in Hcb.
  destruct Hwf as [Hwf|Hwf].
  2: { rewrite Hwf in Hcb. unfold empty_column in Hcb. cbn [c_name] in Hcb. eval_str_eqb. discriminate. }
  destruct (str_eqb_spec (c_name (lf_col l)) (s "host_name")) as [En|Nn].
  - rewrite En in Hwf. unfold col_is in Hhn. rewrite Hwf in Hhn.
    apply plain_str_spec in Hhn. destruct Hhn as [Hloc Hty].
    rewrite leaf_match_local in Hm by exact Hloc. rewrite Hty in Hm. cbn [match_value] in Hm.
    rewrite (get_local_str td r _ (s "host_name") En eq_refl Hty) in Hm.
    destruct (lf_op l) eqn:Eo; try discriminate; inversion Hcb; subst; clear Hcb.
    + unfold match_string in Hm. rewrite Eo in Hm. apply str_eqb_eq in Hm. left. symmetry. exact Hm.
    + apply filter_In. split; [exact Hhost|exact Hm].
    + apply filter_In. split; [exact Hhost|exact Hm].
  - destruct (str_eqb_spec (c_name (lf_col l)) (s "host_name_lc")) as [El|Nl].
    + rewrite El in Hwf. unfold col_ok in Hlc. rewrite Hwf in Hlc.
      apply plain_str_spec in Hlc. destruct Hlc as [Hloc Hty].
      rewrite leaf_match_local in Hm by exact Hloc. rewrite Hty in Hm. cbn [match_value] in Hm.
      rewrite (get_local_lc td r _ (s "host_name") El has_lc_host_name Hlcok) in Hm.
      destruct (lf_op l) eqn:Eo; try discriminate; inversion Hcb; subst; clear Hcb;
        (apply filter_In; split; [exact Hhost|exact Hm]).
    + destruct (str_eqb_spec (c_name (lf_col l)) (s "host_groups")) as [Eh|Nh].
      * rewrite Eh in Hwf. pose proof Hhg as Hhg'. unfold col_ok in Hhg'. rewrite Hwf in Hhg'.
        apply ref_to_spec in Hhg'. destruct Hhg' as [_ [_ [Ho Hty]]].
        rewrite leaf_match_opt0 in Hm by exact Ho. rewrite Hty in Hm. cbn [match_value] in Hm.
        unfold ctx_get, mkctx in Hm. cbn [x_bk x_schema x_table x_data x_row] in Hm.
        destruct (get_host_groups schema bk t td r _ Hok Hn Hwf) as [E|[hd [rr [Ehd [Hrr [Hnm E]]]]]];
          rewrite E in Hm.
        -- rewrite (group_cb_nil _ _ _ Hcb) in Hm. discriminate.
        -- eapply group_cb_sound; [|exact Hcb|exact Hm].
           intros g pred Hg Hp. eapply hg_members_In; [exact Hc| |exact Hp].
           rewrite <- Hnm. destruct (Hh hd rr Ehd Hrr) as [_ Hg']. apply Hg'. exact Hg.
      * destruct (str_eqb_spec (c_name (lf_col l)) (s "groups")) as [Eg|Ng]; [|discriminate].
        rewrite Eg in Hwf. unfold col_ok in Hgr. rewrite Hwf in Hgr.
        apply plain_strlist_spec in Hgr. destruct Hgr as [Hloc Hty].
        rewrite leaf_match_local in Hm by exact Hloc. rewrite Hty in Hm. cbn [match_value] in Hm.
        rewrite (get_local_strlist td r _ (s "groups") Eg eq_refl Hty) in Hm.
        eapply group_cb_sound; [|exact Hcb|exact Hm].
        intros g pred Hg Hp. eapply sg_member_hosts_In; [exact Hc| |exact Hp].
        apply Hgrp. exact Hg.
Qed.

(** *** tables with one primary key *)
Lemma match_int_cases l v :
  (match v with
   | VInt z => match_int l z
   | VFloat m => match_int l (Z.quot m 1000)
   | _ => match_int l 0
   end) = match_int l (int_of v).
Proof. destruct v; reflexivity. Qed.

Lemma pk_cb_sound schema bk t td l keys r :
  table_ok schema t = true -> t_name t <> s "hosts" -> t_name t <> s "services" ->
  leaf_wf t l -> pk_cb t l = Some keys ->
  leaf_match (mkctx schema bk t td r) l = true -> In (row_key t td r) keys.
Proof.
  intros Hok Nh Ns Hwf Hcb Hm.
  unfold table_ok in Hok. apply str_eqb_neq in Nh, Ns. rewrite Nh, Ns in Hok.
  unfold pk_cb in Hcb. unfold row_key.
  destruct (t_pk t) as [|k [|k2 rest]] eqn:Epk; try discriminate.
  rewrite !andb_true_iff in Hok. destruct Hok as [[[Hk Hnolc] Hne1] Hne2].
  apply negb_true_iff in Hne1, Hne2.
  destruct (str_eqb_spec (c_name (lf_col l)) k) as [En|Nn].
  - destruct Hwf as [Hwf|Hwf].
    2: { rewrite Hwf in En. unfold empty_column in En. cbn [c_name] in En. subst k.
         rewrite str_eqb_refl in Hne1. discriminate. }
    rewrite En in Hwf. unfold col_is in Hk. rewrite Hwf in Hk. unfold key_col in Hk.
    apply andb_true_iff in Hk. destruct Hk as [Hloc Hty].
    unfold pk_text. rewrite Hwf.
    rewrite leaf_match_local in Hm by exact Hloc.
    destruct (lf_op l) eqn:Eo; try discriminate.
    destruct (c_type (lf_col l)) eqn:Ety; try discriminate Hty.
    + inversion Hcb; subst. cbn [match_value] in Hm. unfold match_string in Hm. rewrite Eo in Hm.
      apply str_eqb_eq in Hm. left. symmetry. exact Hm.
    + destruct (lf_empty l) eqn:Ee; [discriminate|]. inversion Hcb; subst.
      cbn [match_value] in Hm. rewrite Ee, match_int_cases in Hm. unfold match_int in Hm. rewrite Eo in Hm.
      apply Z.eqb_eq in Hm. left. rewrite Hm. reflexivity.
    + destruct (lf_empty l) eqn:Ee; [discriminate|]. inversion Hcb; subst.
      cbn [match_value] in Hm. rewrite Ee, match_int_cases in Hm. unfold match_int in Hm. rewrite Eo in Hm.
      apply Z.eqb_eq in Hm. left. rewrite Hm. reflexivity.
    + inversion Hcb; subst. cbn [match_value] in Hm. unfold match_string in Hm. rewrite Eo in Hm.
      apply str_eqb_eq in Hm. left. symmetry. exact Hm.
  - destruct (str_eqb_spec (c_name (lf_col l)) (k ++ s "_lc")) as [El|Nl]; [|discriminate].
    exfalso. destruct Hwf as [Hwf|Hwf].
    + rewrite El in Hwf. rewrite Hwf in Hnolc. discriminate.
    + rewrite Hwf in El. unfold empty_column in El. cbn [c_name] in El. rewrite <- El in Hne2.
      rewrite str_eqb_refl in Hne2. discriminate.
Qed.

(** *** all tables *)
Lemma table_data_find bk t td n :
  table_data bk t = Some td -> t_name t = n -> (n = s "hosts" \/ n = s "services") ->
  find_data bk n = Some td.
Proof.
  intros H Hn Hc. unfold table_data, is_sites_table, bygroup_rows in H. rewrite Hn in H.
  destruct Hc as [-> | ->]; eval_str_eqb; cbv iota in H; destruct (t_virtual t); congruence.
Qed.

Lemma row_key_hosts schema t td r :
  table_ok schema t = true -> t_name t = s "hosts" -> row_key t td r = name_of td r.
Proof.
  intros Hok Hn. unfold table_ok in Hok. rewrite Hn in Hok. eval_str_eqb. cbv iota in Hok.
  rewrite !andb_true_iff in Hok. destruct Hok as [[[Hpk Hname] _] _].
  apply strs_eqb_eq in Hpk. unfold row_key, pk_text. rewrite Hpk.
  unfold col_is in Hname. destruct (find_col t (s "name")) as [c|] eqn:Ec; [|discriminate].
  apply plain_str_spec in Hname. destruct Hname as [_ Hty]. rewrite Hty.
  apply get_local_str; [eapply find_col_name; exact Ec|reflexivity|exact Hty].
Qed.

Lemma row_key_services schema t td r :
  table_ok schema t = true -> t_name t = s "services" -> row_key t td r = cell_str td r (s "host_name").
Proof.
  intros Hok Hn. destruct (services_ok _ _ Hok Hn) as [Hpk [Hname _]].
  unfold row_key, pk_text. rewrite Hpk.
  unfold col_is in Hname. destruct (find_col t (s "host_name")) as [c|] eqn:Ec; [|discriminate].
  apply plain_str_spec in Hname. destruct Hname as [_ Hty]. rewrite Hty.
  apply get_local_str; [eapply find_col_name; exact Ec|reflexivity|exact Hty].
Qed.

Lemma schema_table_ok schema t : schema_ok schema = true -> In t schema -> table_ok schema t = true.
Proof. unfold schema_ok. rewrite forallb_forall. auto. Qed.

(** Every callback over-approximates its leaf: a row that satisfies the leaf has
    its key among the candidates. *)
Theorem callback_sound schema bk t td cb l keys r :
  schema_ok schema = true -> In t schema -> consistent schema bk ->
  table_data bk t = Some td -> callback bk t td = Some cb -> leaf_wf t l ->
  cb l = Some keys -> In r (td_rows td) ->
  leaf_match (mkctx schema bk t td r) l = true -> In (row_key t td r) keys.
Proof.
  intros Hs Ht Hc Htd Hcb Hwf Hl Hr Hm.
  pose proof (schema_table_ok _ _ Hs Ht) as Hok.
  unfold callback in Hcb.
  destruct (str_eqb_spec (t_name t) (s "hosts")) as [Eh|Nh].
  - inversion Hcb; subst cb. rewrite (row_key_hosts _ _ _ _ Hok Eh).
    eapply hosts_cb_sound; try eassumption.
    eapply table_data_find; [exact Htd|exact Eh|left; reflexivity].
  - destruct (str_eqb_spec (t_name t) (s "services")) as [Es|Ns].
    + inversion Hcb; subst cb. rewrite (row_key_services _ _ _ _ Hok Es).
      eapply services_cb_sound; try eassumption.
      eapply table_data_find; [exact Htd|exact Es|right; reflexivity].
    + destruct (t_pk t) as [|k [|k2 rest]] eqn:Epk; try discriminate.
      inversion Hcb; subst cb. eapply pk_cb_sound; eassumption.
Qed.

Lemma callback_pk schema bk t td cb :
  table_ok schema t = true -> callback bk t td = Some cb -> t_pk t <> [].
Proof.
  intros Hok Hcb. unfold callback in Hcb. unfold table_ok in Hok.
  destruct (str_eqb (t_name t) (s "hosts")).
  - rewrite !andb_true_iff in Hok. destruct Hok as [[[Hpk _] _] _]. apply strs_eqb_eq in Hpk.
    rewrite Hpk. discriminate.
  - destruct (str_eqb (t_name t) (s "services")).
    + rewrite !andb_true_iff in Hok. destruct Hok as [[[[[[Hpk _] _] _] _] _] _]. apply strs_eqb_eq in Hpk.
      rewrite Hpk. discriminate.
    + destruct (t_pk t); [discriminate|discriminate].
Qed.

(** ** H. main theorems *)

(** TryFilterIndex: a row that satisfies ALL filters ([brk = false]) resp. SOME
    filter ([brk = true]) has its key among the collected keys *)
Theorem index_sound schema bk t td cb brk fs keys r :
  schema_ok schema = true -> In t schema -> consistent schema bk ->
  table_data bk t = Some td -> callback bk t td = Some cb ->
  Forall (filt_wf t) fs -> try_filter_index cb brk fs = Some keys ->
  In r (td_rows td) ->
  (if brk then existsb (sem (mkctx schema bk t td r)) fs
   else forallb (sem (mkctx schema bk t td r)) fs) = true ->
  In (row_key t td r) keys.
Proof.
  intros Hs Ht Hc Htd Hcb Hwf Hk Hr Hsem.
  eapply (tfi_sound cb (mkctx schema bk t td r) (row_key t td r) (leaf_wf t)); try eassumption.
  intros l ks Hl Hcl Hm. eapply callback_sound; eassumption.
Qed.

Lemma prefilter_Some bk t fs rows :
  prefilter bk t fs = Some rows ->
  exists td cb keys, table_data bk t = Some td /\ callback bk t td = Some cb
                     /\ try_filter_index cb false fs = Some keys /\ rows = emit t td keys.
Proof.
  unfold prefilter. destruct fs as [|f0 fs0]; [discriminate|].
  destruct (table_data bk t) as [td|] eqn:E1; [|discriminate].
  destruct (callback bk t td) as [cb|] eqn:E2; [|discriminate].
  destruct (try_filter_index cb false (f0 :: fs0)) as [keys|] eqn:E3; [|discriminate].
  intros H. inversion H; subst. exists td, cb, keys. repeat split; assumption.
Qed.

Lemma selected_sem schema cfg rq bk td r :
  row_selected schema cfg rq bk td r = true ->
  forallb (sem (mkctx schema bk (rq_table rq) td r)) (rq_filter rq) = true.
Proof.
  unfold row_selected. intros H. apply andb_true_iff in H. destruct H as [H _].
  rewrite forallb_forall in *. intros f Hf. rewrite <- match_filter_top. apply H, Hf.
Qed.

(** the pre-selection never drops a row the request selects *)
Theorem C07_index_sound schema cfg rq bk td rows :
  schema_ok schema = true -> In (rq_table rq) schema -> consistent schema bk ->
  Forall (filt_wf (rq_table rq)) (rq_filter rq) ->
  table_data bk (rq_table rq) = Some td ->
  prefilter bk (rq_table rq) (rq_filter rq) = Some rows ->
  forall r, In r (td_rows td) -> row_selected schema cfg rq bk td r = true -> In r rows.
Proof.
  intros Hs Ht Hc Hwf Htd Hp r Hr Hsel.
  apply prefilter_Some in Hp. destruct Hp as [td' [cb [keys [Htd' [Hcb [Hk ->]]]]]].
  rewrite Htd in Htd'. inversion Htd'; subst td'.
  destruct (cons_parts _ _ Hc) as [Hu _].
  pose proof (callback_pk _ _ _ _ _ (schema_table_ok _ _ Hs Ht) Hcb) as Hpk.
  apply (emit_In _ _ _ _ (Hu _ _ Ht Htd Hpk)). split; [exact Hr|].
  eapply (index_sound schema bk (rq_table rq) td cb false); try eassumption.
  apply selected_sem with (cfg := cfg). exact Hsel.
Qed.

(** the candidates are rows of the table *)
Lemma prefilter_incl schema bk t td fs rows :
  schema_ok schema = true -> In t schema -> consistent schema bk -> table_data bk t = Some td ->
  prefilter bk t fs = Some rows -> forall r, In r rows -> In r (td_rows td).
Proof.
  intros Hs Ht Hc Htd Hp r Hr.
  apply prefilter_Some in Hp. destruct Hp as [td' [cb [keys [Htd' [Hcb [_ ->]]]]]].
  rewrite Htd in Htd'. inversion Htd'; subst td'.
  destruct (cons_parts _ _ Hc) as [Hu _].
  pose proof (callback_pk _ _ _ _ _ (schema_table_ok _ _ Hs Ht) Hcb) as Hpk.
  apply (emit_In _ _ _ _ (Hu _ _ Ht Htd Hpk)) in Hr. apply Hr.
Qed.

(** filtering the candidates selects exactly the rows the model selects *)
Theorem gather_indexed_equiv schema cfg rq bk :
  schema_ok schema = true -> In (rq_table rq) schema -> consistent schema bk ->
  Forall (filt_wf (rq_table rq)) (rq_filter rq) ->
  forall r, In r (gather_indexed schema cfg rq bk) <-> In r (selected_rows schema cfg rq bk).
Proof.
  intros Hs Ht Hc Hwf r. unfold gather_indexed, selected_rows.
  destruct (table_data bk (rq_table rq)) as [td|] eqn:Htd; [|reflexivity].
  destruct (prefilter bk (rq_table rq) (rq_filter rq)) as [rows|] eqn:Hp; [|reflexivity].
  rewrite !filter_In. split; intros [H1 H2]; (split; [|exact H2]).
  - eapply prefilter_incl; eassumption.
  - eapply C07_index_sound; eassumption.
Qed.

(** *** order *)
Lemma row_lt_irrefl t td a : ~ ltP (row_lt t td) a a.
Proof.
  unfold ltP, row_lt. destruct (is_services t); rewrite !iltb_irrefl; [rewrite andb_false_r|]; discriminate.
Qed.

Lemma row_lt_trans t td a b c :
  ltP (row_lt t td) a b -> ltP (row_lt t td) b c -> ltP (row_lt t td) a c.
Proof.
  unfold ltP, row_lt. destruct (is_services t); [|apply iltb_trans].
  rewrite !orb_true_iff, !andb_true_iff. intros [H1|[H1 H1']] [H2|[H2 H2']].
  - left. eapply iltb_trans; eassumption.
  - left. apply str_eqb_eq in H2. rewrite <- H2. exact H1.
  - left. apply str_eqb_eq in H1. rewrite H1. exact H2.
  - right. apply str_eqb_eq in H1, H2. split; [rewrite H1, H2; apply str_eqb_refl|].
    eapply iltb_trans; eassumption.
Qed.

(** the candidates are emitted in strictly increasing key order: no row twice *)
Theorem prefilter_NoDup bk t fs rows : prefilter bk t fs = Some rows -> NoDup rows.
Proof.
  intros Hp. apply prefilter_Some in Hp. destruct Hp as [td [cb [keys [_ [_ [_ ->]]]]]].
  eapply SS_NoDup; [apply (row_lt_irrefl t td)|apply emit_sorted].
Qed.

(** on a store in primary key order the candidates are the rows with a candidate
    key, in the order of the store *)
Theorem prefilter_filter schema bk t td fs rows :
  schema_ok schema = true -> In t schema -> consistent schema bk ->
  table_data bk t = Some td -> store_sorted t td ->
  prefilter bk t fs = Some rows ->
  exists keys, rows = filter (fun r => mem_str (row_key t td r) keys) (td_rows td).
Proof.
  intros Hs Ht Hc Htd Hso Hp.
  apply prefilter_Some in Hp. destruct Hp as [td' [cb [keys [Htd' [Hcb [_ ->]]]]]].
  rewrite Htd in Htd'. inversion Htd'; subst td'.
  destruct (cons_parts _ _ Hc) as [Hu _].
  pose proof (callback_pk _ _ _ _ _ (schema_table_ok _ _ Hs Ht) Hcb) as Hpk.
  exists keys. apply (SS_ext (ltP (row_lt t td)) (row_lt_irrefl t td) (row_lt_trans t td)).
  - apply emit_sorted.
  - apply SS_filter. apply sortedb_SS. exact Hso.
  - intros r. rewrite (emit_In _ _ _ _ (Hu _ _ Ht Htd Hpk)), filter_In, mem_str_In. reflexivity.
Qed.

Theorem prefilter_order schema bk t td fs rows :
  schema_ok schema = true -> In t schema -> consistent schema bk ->
  table_data bk t = Some td -> store_sorted t td ->
  prefilter bk t fs = Some rows -> sublist rows (td_rows td).
Proof.
  intros Hs Ht Hc Htd Hso Hp.
  destruct (prefilter_filter _ _ _ _ _ _ Hs Ht Hc Htd Hso Hp) as [keys ->]. apply filter_sublist.
Qed.

Lemma filter_absorb {A} (p q : A -> bool) (l : list A) :
  (forall x, In x l -> p x = true -> q x = true) -> filter p (filter q l) = filter p l.
Proof.
  induction l as [|x l IH]; intros H; [reflexivity|]. cbn [filter].
  assert (IH' : filter p (filter q l) = filter p l) by (apply IH; intros y Hy; apply H; right; exact Hy).
  destruct (q x) eqn:Eq.
  - cbn [filter]. rewrite IH'. reflexivity.
  - destruct (p x) eqn:Ep; [|exact IH']. rewrite (H x (or_introl eq_refl) Ep) in Eq. discriminate.
Qed.

(** on a store in primary key order index use changes neither the rows nor their order *)
Theorem gather_indexed_eq schema cfg rq bk td :
  schema_ok schema = true -> In (rq_table rq) schema -> consistent schema bk ->
  Forall (filt_wf (rq_table rq)) (rq_filter rq) ->
  table_data bk (rq_table rq) = Some td -> store_sorted (rq_table rq) td ->
  gather_indexed schema cfg rq bk = selected_rows schema cfg rq bk.
Proof.
  intros Hs Ht Hc Hwf Htd Hso. unfold gather_indexed, selected_rows. rewrite Htd.
  destruct (prefilter bk (rq_table rq) (rq_filter rq)) as [rows|] eqn:Hp; [|reflexivity].
  destruct (prefilter_filter _ _ _ _ _ _ Hs Ht Hc Htd Hso Hp) as [keys E].
  rewrite E. apply filter_absorb. intros r Hr Hsel.
  assert (Hin : In r rows) by (eapply C07_index_sound; eassumption).
  rewrite E in Hin. apply filter_In in Hin. apply Hin.
Qed.

(** ** I. the hypotheses are satisfiable: lmd's schema, the parser's columns *)
Lemma real_schema_ok : schema_ok schema = true.
Proof. vm_compute. reflexivity. Qed.

(** the columns the parser puts into leaves satisfy the first half of [leaf_wf] *)
Lemma resolve_col_wf t n :
  find_col t (c_name (resolve_col t n)) = Some (resolve_col t n) \/ resolve_col t n = empty_column.
Proof.
  unfold resolve_col. destruct (find_col t n) as [c|] eqn:E1.
  - left. rewrite (find_col_name _ _ _ E1). exact E1.
  - destruct (find_col t (trim_prefix (table_prefix t) n)) as [c|] eqn:E2.
    + left. rewrite (find_col_name _ _ _ E2). exact E2.
    + right. reflexivity.
Qed.

(** ** J. regression case of the defect fixed by /repo commit 0e719b1.

    hosts, [Filter: name_lc =~ ABC], one host named "abc": the row matches
    (EqualFold "abc" "ABC").  Before the fix the callback collected {"ABC"} plus
    indexLowerCase["abc"] (empty, "abc" is its own lower-case form) and the row
    was lost; the model then proved [callback_sound_refuted].  Now [lower v] is
    added and the row is a candidate. *)
Definition rf_hosts : tdata := mkData (s "hosts") [s "name"] [[VStr (s "abc")]].
Definition rf_bk : backend := mkBackend (s "b") (s "b") 0 true [] [rf_hosts].
Definition rf_leaf : leaf := mkLeaf (resolve_col t_hosts (s "name_lc")) OEqI (s "ABC") [] false 0%Z None.
Definition rf_rq : request := set_filter (empty_request t_hosts) [FLeaf rf_leaf false].
Definition rf_cfg : config := mkCfg false false.

Example name_lc_regression :
  consistent schema rf_bk
  /\ prefilter_ids schema rf_bk t_hosts (rq_filter rf_rq) = Some [s "abc"]
  /\ selected_rows schema rf_cfg rf_rq rf_bk = [[VStr (s "abc")]]
  /\ gather_indexed schema rf_cfg rf_rq rf_bk = [[VStr (s "abc")]].
Proof. split; [vm_compute; reflexivity|]. split; [|split]; vm_compute; reflexivity. Qed.

(** ** K. non-vacuity: three hosts a, b, c, host groups g = {b}, h = {c},
    [Or (name = a) (groups >= g)]: two of the three rows are candidates *)
Definition ex_hosts : tdata := mkData (s "hosts") [s "name"; s "groups"]
  [[VStr (s "a"); VStrList []]; [VStr (s "b"); VStrList [s "g"]]; [VStr (s "c"); VStrList [s "h"]]].
Definition ex_hostgroups : tdata := mkData (s "hostgroups") [s "name"; s "members"]
  [[VStr (s "g"); VStrList [s "b"]]; [VStr (s "h"); VStrList [s "c"]]].
Definition ex_bk : backend := mkBackend (s "b") (s "b") 0 true [] [ex_hosts; ex_hostgroups].
Definition ex_l1 : leaf := mkLeaf (resolve_col t_hosts (s "name")) OEq (s "a") [] false 0%Z None.
Definition ex_l2 : leaf := mkLeaf (resolve_col t_hosts (s "groups")) OGe (s "g") [] false 0%Z None.
Definition ex_filter : list filt := [FGroup GOr [FLeaf ex_l1 false; FLeaf ex_l2 false] false].
Definition ex_rq : request := set_filter (empty_request t_hosts) ex_filter.

Example ex_consistent : consistentb schema ex_bk = true.
Proof. vm_compute. reflexivity. Qed.

Example ex_keys : prefilter_keys ex_bk t_hosts ex_filter = Some [s "a"; s "b"].
Proof. vm_compute. reflexivity. Qed.

Example ex_prefilter :
  prefilter ex_bk t_hosts ex_filter
  = Some [[VStr (s "a"); VStrList []]; [VStr (s "b"); VStrList [s "g"]]].
Proof. vm_compute. reflexivity. Qed.

Example ex_gather :
  gather_indexed schema rf_cfg ex_rq ex_bk = selected_rows schema rf_cfg ex_rq ex_bk
  /\ selected_rows schema rf_cfg ex_rq ex_bk = [[VStr (s "a"); VStrList []]; [VStr (s "b"); VStrList [s "g"]]].
Proof. split; vm_compute; reflexivity. Qed.

(** an And with a non-indexable member still uses the index, an Or does not *)
Definition ex_l3 : leaf := mkLeaf (resolve_col t_hosts (s "state")) OEq (s "0") [] false 0%Z None.
Example ex_and : prefilter_keys ex_bk t_hosts [FLeaf ex_l3 false; FLeaf ex_l2 false] = Some [s "b"].
Proof. vm_compute. reflexivity. Qed.
Example ex_or : prefilter_keys ex_bk t_hosts [FGroup GOr [FLeaf ex_l3 false; FLeaf ex_l2 false] false] = None.
Proof. vm_compute. reflexivity. Qed.
Example ex_neg : prefilter_keys ex_bk t_hosts [FLeaf ex_l1 false; FLeaf ex_l2 true] = None.
Proof. vm_compute. reflexivity. Qed.

(** ids of a table with two primary keys: host NUL description *)
Definition ex_services : tdata := mkData (s "services") [s "host_name"; s "description"]
  [[VStr (s "b"); VStr (s "y")]; [VStr (s "a"); VStr (s "x")]; [VStr (s "b"); VStr (s "x")]].
Definition ex_bk2 : backend := mkBackend (s "b") (s "b") 0 true [] [ex_hosts; ex_hostgroups; ex_services].
Definition ex_l4 : leaf := mkLeaf (resolve_col t_services (s "host_groups")) OGe (s "g") [] false 0%Z None.
Example ex_ids :
  prefilter_ids schema ex_bk2 t_services [FLeaf ex_l4 false] = Some [s "b" ++ [0%N] ++ s "x"; s "b" ++ [0%N] ++ s "y"]
  /\ prefilter_ids schema ex_bk t_hosts ex_filter = Some [s "a"; s "b"]
  /\ prefilter_ids schema ex_bk t_hosts [] = None.
Proof. split; [|split]; vm_compute; reflexivity. Qed.

(** ** L. every request the parser accepts satisfies the hypotheses on the request

    [parse_request] in both modes (ParseDefault / ParseOptimize incl. the lower-case
    column rewrite, the regex rewrites and optimizeFilterIndentation): the table is a
    table of the schema and every leaf of the filter carries [resolve_col] of the
    table, the table's [_lc] column, i.e. a column of the table, or the placeholder. *)
Definition col_wf (t : tschema) (c : column) : Prop :=
  find_col t (c_name c) = Some c \/ c = empty_column.

Ltac head_step H :=
  match type of H with
  | (match ?x with _ => _ end) = _ => destruct x eqn:?; try discriminate H
  end.
Ltac head_step' H :=
  match type of H with
  | (match ?x with _ => _ end) = _ => destruct x; try discriminate H
  end.

Lemma parse_leaf_wf opt t args l : parse_leaf opt t args = Ok l -> leaf_wf t l.
Proof.
  intros H. unfold parse_leaf in H. cbv beta zeta in H.
  head_step H. head_step H. head_step H. head_step H. head_step H.
  do 4 head_step' H.
  match type of H with
  | (match ?E with _ => _ end) = _ => assert (Hc : col_wf t (fst (fst E)))
  end.
  { pose proof (resolve_col_wf t s) as Hr.
    repeat match goal with
           | |- context [if ?b then _ else _] => destruct b
           | |- context [match ?x with _ => _ end] => destruct x eqn:?
           end; cbn [fst]; try exact Hr.
    all: left; erewrite find_col_name by eassumption; assumption. }
  match type of H with
  | (match ?E with _ => _ end) = _ => destruct E as [[c' o'] sv']
  end.
  cbn [fst] in Hc.
  repeat head_step' H.
  all: inversion H; subst; exact Hc.
Qed.

Lemma filt_wf_leaf t l n : filt_wf t (FLeaf l n) <-> leaf_wf t l.
Proof. reflexivity. Qed.

Lemma filt_wf_group t g fs n : filt_wf t (FGroup g fs n) <-> Forall (filt_wf t) fs.
Proof. unfold filt_wf. apply filt_all_group. Qed.

Lemma set_neg_wf t f : filt_wf t f -> filt_wf t (set_neg f).
Proof. destruct f; intros H; exact H. Qed.

Lemma group_filters_wf t g arg stack f :
  Forall (filt_wf t) stack -> group_filters g arg stack = Ok f -> Forall (filt_wf t) f.
Proof.
  intros Hs H. unfold group_filters in H.
  destruct (parse_int arg) as [z|]; [|discriminate].
  destruct (Z.ltb z 0); [discriminate|].
  destruct (Z.eqb z 0); [inversion H; subst; exact Hs|].
  unfold pop_n in H. destruct (Nat.ltb (length stack) (Z.to_nat z)); [discriminate|].
  inversion H; subst; clear H.
  rewrite <- (firstn_skipn (length stack - Z.to_nat z) stack) in Hs.
  apply Forall_app in Hs. destruct Hs as [H1 H2].
  apply Forall_app. split; [exact H1|].
  constructor; [|constructor]. apply filt_wf_group. exact H2.
Qed.

Lemma negate_top_wf t stack f :
  Forall (filt_wf t) stack -> negate_top (fun f => Ok (set_neg f)) stack = Ok f -> Forall (filt_wf t) f.
Proof.
  intros Hs H. unfold negate_top in H.
  destruct (rev stack) as [|top rest] eqn:Er; [discriminate|].
  injection H as <-.
  assert (Hr : Forall (filt_wf t) (top :: rest)).
  { rewrite <- Er. apply Forall_forall. intros x Hx. rewrite <- in_rev in Hx.
    rewrite Forall_forall in Hs. apply Hs, Hx. }
  inversion Hr as [|? ? Ht Hrest]; subst.
  apply Forall_forall. intros x Hx. apply in_app_or in Hx. destruct Hx as [Hx|[<-|[]]].
  - rewrite <- in_rev in Hx. rewrite Forall_forall in Hrest. apply Hrest, Hx.
  - apply set_neg_wf. exact Ht.
Qed.

Lemma parse_header_wf opt r line r' :
  Forall (filt_wf (rq_table r)) (rq_filter r) ->
  parse_header opt r line = Ok r' ->
  rq_table r' = rq_table r /\ Forall (filt_wf (rq_table r)) (rq_filter r').
Proof.
  intros Hs H. unfold parse_header in H. cbv beta zeta in H.
  repeat head_step H.
  all: inversion H; subst; clear H;
    cbn [rq_table rq_filter set_filter bump_numfilter set_stats];
    (split; [reflexivity|]);
    first [ exact Hs
          | apply Forall_app; split; [exact Hs|];
            constructor; [apply filt_wf_leaf; eapply parse_leaf_wf; eassumption|constructor]
          | eapply group_filters_wf; eassumption
          | eapply negate_top_wf; eassumption ].
Qed.

Lemma parse_headers_wf opt lines : forall r r',
  Forall (filt_wf (rq_table r)) (rq_filter r) ->
  parse_headers opt r lines = Ok r' ->
  rq_table r' = rq_table r /\ Forall (filt_wf (rq_table r')) (rq_filter r').
Proof.
  induction lines as [|l rest IH]; intros r r' Hs H; cbn [parse_headers] in H.
  - inversion H; subst. auto.
  - destruct (trim_space l) as [|c l'] eqn:El; [inversion H; subst; auto|].
    destruct (parse_header opt r (c :: l')) as [r1|] eqn:Eh; [|discriminate].
    destruct (parse_header_wf _ _ _ _ Hs Eh) as [Ht Hw].
    rewrite <- Ht in Hw. destruct (IH r1 r' Hw H) as [Ht' Hw']. split; [congruence|exact Hw'].
Qed.

Lemma flatten_filter_wf t fuel : forall fs,
  Forall (filt_wf t) fs -> Forall (filt_wf t) (flatten_filter fuel fs).
Proof.
  induction fuel as [|fuel IH]; intros fs Hs; cbn [flatten_filter]; [exact Hs|].
  destruct fs as [|[l n|g inner n] rest]; try exact Hs.
  destruct g; try exact Hs. destruct inner as [|f inner]; try exact Hs.
  destruct n; try exact Hs. destruct rest; try exact Hs.
  apply IH. inversion Hs as [|? ? H1 _]; subst. apply filt_wf_group in H1. exact H1.
Qed.

Lemma parse_request_raw_inv schema opt lines rq :
  parse_request_raw schema opt lines = Ok rq ->
  In (rq_table rq) schema /\ Forall (filt_wf (rq_table rq)) (rq_filter rq).
Proof.
  unfold parse_request_raw. destruct lines as [|first rest]; [discriminate|].
  destruct (parse_get_line schema first) as [t|] eqn:Eg; [|discriminate].
  intros H.
  assert (Ht : In t schema).
  { unfold parse_get_line in Eg.
    destruct (has_prefix _ _); [|discriminate].
    destruct (forallb _ _); [|discriminate].
    destruct (find_table schema _) as [t'|] eqn:Ef; [|discriminate].
    inversion Eg; subst. unfold find_table in Ef. apply find_some in Ef. apply Ef. }
  destruct (parse_headers_wf opt rest (empty_request t) rq) as [E Hw]; [constructor|exact H|].
  rewrite E. cbn [rq_table empty_request]. split; [exact Ht|].
  rewrite E in Hw. exact Hw.
Qed.

Theorem parsed_table_in_schema schema opt lines rq :
  parse_request schema opt lines = Ok rq -> In (rq_table rq) schema.
Proof.
  unfold parse_request. destruct (parse_request_raw schema opt lines) as [r|] eqn:Er; [|discriminate].
  apply parse_request_raw_inv in Er. destruct Er as [Ht _].
  destruct opt; intros H; injection H as <-; exact Ht.
Qed.

Theorem parsed_filter_wf schema opt lines rq :
  parse_request schema opt lines = Ok rq -> Forall (filt_wf (rq_table rq)) (rq_filter rq).
Proof.
  unfold parse_request. destruct (parse_request_raw schema opt lines) as [r|] eqn:Er; [|discriminate].
  apply parse_request_raw_inv in Er. destruct Er as [_ Hw].
  destruct opt; intros H; injection H as <-; [|exact Hw].
  change (Forall (filt_wf (rq_table r))
            (flatten_filter (S (fold_right (fun f n => Nat.max (filt_depth f) n) 0%nat (rq_filter r))) (rq_filter r))).
  apply flatten_filter_wf. exact Hw.
Qed.

(** ** M. instances for lmd's schema *)
Definition C07_index_sound_lmd := fun cfg rq bk td rows => C07_index_sound schema cfg rq bk td rows real_schema_ok.
Definition gather_indexed_equiv_lmd := fun cfg rq bk => gather_indexed_equiv schema cfg rq bk real_schema_ok.
Definition gather_indexed_eq_lmd := fun cfg rq bk td => gather_indexed_eq schema cfg rq bk td real_schema_ok.

(** *** closed corollaries over parsed requests on lmd's schema: what is left are the
    hypotheses on the DATA, both executable ([consistentb], [store_sortedb]) *)
Theorem index_sound_parsed opt lines rq bk td cb brk keys r :
  parse_request schema opt lines = Ok rq -> consistent schema bk ->
  table_data bk (rq_table rq) = Some td -> callback bk (rq_table rq) td = Some cb ->
  try_filter_index cb brk (rq_filter rq) = Some keys -> In r (td_rows td) ->
  (if brk then existsb (sem (mkctx schema bk (rq_table rq) td r)) (rq_filter rq)
   else forallb (sem (mkctx schema bk (rq_table rq) td r)) (rq_filter rq)) = true ->
  In (row_key (rq_table rq) td r) keys.
Proof.
  intros Hp Hc Htd Hcb Hk Hr Hs.
  eapply (index_sound schema bk (rq_table rq) td cb brk); try eassumption.
  - exact real_schema_ok.
  - eapply parsed_table_in_schema; exact Hp.
  - eapply parsed_filter_wf; exact Hp.
Qed.

Theorem C07_index_sound_parsed cfg opt lines rq bk td rows :
  parse_request schema opt lines = Ok rq -> consistent schema bk ->
  table_data bk (rq_table rq) = Some td ->
  prefilter bk (rq_table rq) (rq_filter rq) = Some rows ->
  forall r, In r (td_rows td) -> row_selected schema cfg rq bk td r = true -> In r rows.
Proof.
  intros Hp Hc Htd Hpre. eapply C07_index_sound; try eassumption.
  - exact real_schema_ok.
  - eapply parsed_table_in_schema; exact Hp.
  - eapply parsed_filter_wf; exact Hp.
Qed.

Theorem gather_indexed_equiv_parsed cfg opt lines rq bk :
  parse_request schema opt lines = Ok rq -> consistent schema bk ->
  forall r, In r (gather_indexed schema cfg rq bk) <-> In r (selected_rows schema cfg rq bk).
Proof.
  intros Hp Hc. apply gather_indexed_equiv; [exact real_schema_ok| |exact Hc|].
  - eapply parsed_table_in_schema; exact Hp.
  - eapply parsed_filter_wf; exact Hp.
Qed.

Theorem prefilter_order_parsed opt lines rq bk td rows :
  parse_request schema opt lines = Ok rq -> consistent schema bk ->
  table_data bk (rq_table rq) = Some td -> store_sorted (rq_table rq) td ->
  prefilter bk (rq_table rq) (rq_filter rq) = Some rows -> sublist rows (td_rows td).
Proof.
  intros Hp Hc Htd Hso Hpre. eapply prefilter_order; try eassumption.
  - exact real_schema_ok.
  - eapply parsed_table_in_schema; exact Hp.
Qed.

Theorem gather_indexed_eq_parsed cfg opt lines rq bk td :
  parse_request schema opt lines = Ok rq -> consistent schema bk ->
  table_data bk (rq_table rq) = Some td -> store_sorted (rq_table rq) td ->
  gather_indexed schema cfg rq bk = selected_rows schema cfg rq bk.
Proof.
  intros Hp Hc Htd Hso. eapply gather_indexed_eq; try eassumption.
  - exact real_schema_ok.
  - eapply parsed_table_in_schema; exact Hp.
  - eapply parsed_filter_wf; exact Hp.
Qed.

(** the same with nothing but the two boolean checks of the dataset *)
Theorem gather_indexed_eq_parsed_b cfg opt lines rq bk :
  parse_request schema opt lines = Ok rq ->
  consistentb schema bk = true -> store_sortedb_at bk (rq_table rq) = true ->
  gather_indexed schema cfg rq bk = selected_rows schema cfg rq bk.
Proof.
  intros Hp Hc Hso. unfold store_sortedb_at in Hso.
  destruct (table_data bk (rq_table rq)) as [td|] eqn:Htd.
  - eapply gather_indexed_eq_parsed; eassumption.
  - unfold gather_indexed, selected_rows. rewrite Htd. reflexivity.
Qed.

Print Assumptions callback_sound.
Print Assumptions index_sound.
Print Assumptions C07_index_sound.
Print Assumptions gather_indexed_equiv.
Print Assumptions prefilter_NoDup.
Print Assumptions prefilter_filter.
Print Assumptions prefilter_order.
Print Assumptions gather_indexed_eq.
Print Assumptions name_lc_regression.
Print Assumptions C07_index_sound_lmd.
Print Assumptions gather_indexed_equiv_lmd.
Print Assumptions gather_indexed_eq_lmd.
Print Assumptions ex_prefilter.
Print Assumptions parsed_filter_wf.
Print Assumptions parsed_table_in_schema.
Print Assumptions index_sound_parsed.
Print Assumptions C07_index_sound_parsed.
Print Assumptions gather_indexed_equiv_parsed.
Print Assumptions prefilter_order_parsed.
Print Assumptions gather_indexed_eq_parsed.
Print Assumptions gather_indexed_eq_parsed_b.
