(** Parsing of a Livestatus request (request.go NewRequest / ParseRequestHeaderLine,
    filter.go ParseFilter / ParseStats / parseFilterGroupOp / ParseFilterNegate)
    in both parse modes. *)
From LMD Require Export QE.Filter.
Open Scope N_scope.

Inductive aggk := AgSum | AgAvg | AgMin | AgMax.

Inductive stat :=
| SCounter (f : filt)
| SAgg (k : aggk) (c : column).

Inductive dir := Asc | Desc.
Record sortkey := mkSort { sk_name : str; sk_args : str; sk_dir : dir; sk_col : column }.

Inductive ofmt := FmtJSON | FmtWrapped.

Record request := mkReq {
  rq_table : tschema;
  rq_columns : list str;
  rq_filter : list filt;
  rq_stats : list stat;
  rq_sort : list sortkey;
  rq_limit : option Z;
  rq_offset : Z;
  rq_backends : list str;
  rq_format : ofmt;
  rq_colheaders : bool;
  rq_fixed16 : bool;
  rq_keepalive : bool;
  rq_authuser : str;
  rq_numfilter : nat }.

Inductive perr := BadRequest | Unsupported.     (* Unsupported: outside the modelled fragment *)
Inductive res (A : Type) := Ok (a : A) | Err (e : perr).
Arguments Ok {A} a. Arguments Err {A} e.

Definition parse_op (x : str) : option (op * bool) :=
  if str_eqb x (s "=") then Some (OEq, false) else if str_eqb x (s "=~") then Some (OEqI, false)
  else if str_eqb x (s "~") then Some (ORe, true) else if str_eqb x (s "!~") then Some (ONRe, true)
  else if str_eqb x (s "~~") then Some (OReI, true) else if str_eqb x (s "!~~") then Some (ONReI, true)
  else if str_eqb x (s "!=") then Some (ONe, false) else if str_eqb x (s "!=~") then Some (ONeI, false)
  else if str_eqb x (s "<") then Some (OLt, false) else if str_eqb x (s "<=") then Some (OLe, false)
  else if str_eqb x (s ">") then Some (OGt, false) else if str_eqb x (s ">=") then Some (OGe, false)
  else if str_eqb x (s "!>=") then Some (OGrpNot, false)
  else if str_eqb x (s "like") then Some (OCont, false) else if str_eqb x (s "unlike") then Some (ONCont, false)
  else if str_eqb x (s "ilike") then Some (OContI, false) else if str_eqb x (s "iunlike") then Some (ONContI, false)
  else None.

Definition empty_column : column := mkCol (s "empty") TStr SVirtual FNone 0 None.

(** fixBrokenClientsRequestColumn: `<table>_column` instead of `column` *)
Definition table_prefix (t : tschema) : str :=
  let n := t_name t in
  if str_eqb n (s "hostsbygroup") then s "host_"
  else if str_eqb n (s "servicesbygroup") || str_eqb n (s "servicesbyhostgroup") then s "service_"
  else if str_eqb n (s "status") then s "status_"
  else trim_suffix (s "s") n ++ s "_".

Definition resolve_col (t : tschema) (name : str) : column :=
  match find_col t name with
  | Some c => c
  | None => match find_col t (trim_prefix (table_prefix t) name) with
            | Some c => c
            | None => empty_column
            end
  end.

(** hasRegexpCharacters *)
Definition is_alnum (c : N) : bool := (N.leb 48 c && N.leb c 57) || (N.leb 65 c && N.leb c 90) || (N.leb 97 c && N.leb c 122).
Definition is_alpha (c : N) : bool := (N.leb 65 c && N.leb c 90) || (N.leb 97 c && N.leb c 122).

(* delete the non-overlapping, leftmost occurrences of [a-zA-Z0-9]\.[a-zA-Z] *)
Fixpoint strip_hostdots (x : str) : str :=
  match x with
  | a :: rest =>
      match rest with
      | 46 :: b :: rest' => if is_alnum a && is_alpha b then strip_hostdots_skip rest' else a :: strip_hostdots rest
      | _ => a :: strip_hostdots rest
      end
  | [] => []
  end
with strip_hostdots_skip (x : str) : str :=
  match x with
  | a :: rest =>
      match rest with
      | 46 :: b :: rest' => if is_alnum a && is_alpha b then strip_hostdots_skip rest' else a :: strip_hostdots rest
      | _ => a :: strip_hostdots rest
      end
  | [] => []
  end.

Definition utf8_len_cp (c : N) : nat :=
  if N.ltb c 128 then 1 else if N.ltb c 2048 then 2 else if N.ltb c 65536 then 3
  else if N.ltb c 1114112 then 4 else 1.
Definition utf8_len (x : str) : nat := fold_right (fun c n => (utf8_len_cp c + n)%nat) 0%nat x.

Definition has_regex_chars (v : str) : bool :=
  existsb (fun c => existsb (N.eqb c) [124; 40; 91; 123; 42; 43; 63; 94; 92; 36]) v
  || (existsb (N.eqb 46) v && (Nat.ltb (utf8_len v) 4 || existsb (N.eqb 46) (strip_hostdots v))).

Definition is_numeric_type (t : dtype) : bool :=
  match t with TInt | TInt64 | TInt64List | TFloat => true | _ => false end.
Definition is_list_type (t : dtype) : bool :=
  match t with TStrList | TSvcMemberList | TIfaceList => true | _ => false end.
Definition is_numeric_op (o : op) : bool :=
  match o with OEq | ONe | OGt | OGe | OLt | OLe | OGrpNot => true | _ => false end.

Definition is_hosts_or_services (t : tschema) : bool :=
  str_eqb (t_name t) (s "hosts") || str_eqb (t_name t) (s "services").

(** ParseFilter: one `Filter:` / counter `Stats:` argument string -> leaf *)
Definition parse_leaf (optimize : bool) (t : tschema) (args : str) : res leaf :=
  let '(name, r1) := split1 32 args in
  match r1 with
  | None => Err BadRequest
  | Some r1 =>
      let '(optxt, r2) := split1 32 r1 in
      let raw := match r2 with Some v => v | None => [] end in
      match parse_op optxt with
      | None => Err BadRequest
      | Some (o, isre) =>
          let col := resolve_col t name in
          let sv := trim_space raw in
          let empty := match sv with [] => true | _ => false end in
          let fold_arg := match o with OContI | ONContI => true | _ => false end in
          (* setFilterValue *)
          let valres : res (str * str * bool * Z) :=
            if is_numeric_type (c_type col) then
              if is_numeric_op o && negb empty then
                match parse_milli sv with
                | Some m => Ok (sv, [], empty, m)
                | None => Err BadRequest
                end
              else Ok (sv, [], empty, 0%Z)
            else match c_type col with
                 | TCustVar =>
                     let '(tag, rest) := split1 32 sv in
                     match tag with
                     | [] => Err BadRequest
                     | _ => match rest with
                            | None => Ok ([], tag, true, 0%Z)
                            | Some v => Ok (v, tag, empty, 0%Z)
                            end
                     end
                 | _ => Ok (sv, [], empty, 0%Z)
                 end in
          match valres with
          | Err e => Err e
          | Ok (sv, tag, empty, num) =>
              let sv := if fold_arg then lower sv else sv in
              (* setLowerCaseColumn *)
              let '(col, o, sv) :=
                if optimize && is_hosts_or_services t then
                  let o' := match o with OContI => Some OCont | ONContI => Some ONCont
                                     | OReI => Some ORe | ONReI => Some ONRe | _ => None end in
                  match o', find_col t (c_name col ++ s "_lc") with
                  | Some o', Some lc => (lc, o', lower sv)
                  | _, _ => (col, o, sv)
                  end
                else (col, o, sv) in
              if isre then
                (* setRegexFilter *)
                let val := trim_suffix (s ".*") (trim_prefix (s ".*") sv) in
                let '(o, sv) :=
                  if optimize && has_prefix (s "^") val && has_suffix (s "$") val then
                    let val2 := trim_suffix (s "$") (trim_prefix (s "^") val) in
                    if has_regex_chars val2 || is_list_type (c_type col) || is_numeric_type (c_type col) then (o, sv)
                    else match o with ORe => (OEq, val2) | OReI => (OEqI, val2) | _ => (o, sv) end
                  else (o, sv) in
                if optimize && negb (has_regex_chars val) then
                  match o with
                  | ORe => Ok (mkLeaf col OCont val tag empty num None)
                  | ONRe => Ok (mkLeaf col ONCont val tag empty num None)
                  | OReI => Ok (mkLeaf col OContI (lower val) tag empty num None)
                  | ONReI => Ok (mkLeaf col ONContI (lower val) tag empty num None)
                  | _ => Ok (mkLeaf col o sv tag empty num None)
                  end
                else
                  let ci := match o with OReI | ONReI => true | _ => false end in
                  match re_compile ci val with
                  | CPat p => Ok (mkLeaf col o sv tag empty num (Some p))
                  | CInvalid => Err BadRequest
                  | CUnsupported => Err Unsupported
                  end
              else Ok (mkLeaf col o sv tag empty num None)
          end
      end
  end.

(** parseFilterGroupOp on a stack (top = last element) *)
Definition pop_n {A} (n : nat) (stack : list A) : option (list A * list A) :=
  if Nat.ltb (length stack) n then None
  else Some (firstn (length stack - n) stack, skipn (length stack - n) stack).

Definition group_filters (g : gop) (arg : str) (stack : list filt) : res (list filt) :=
  match parse_int arg with
  | None => Err BadRequest
  | Some z =>
      if Z.ltb z 0 then Err BadRequest
      else if Z.eqb z 0 then Ok stack
      else match pop_n (Z.to_nat z) stack with
           | None => Err BadRequest
           | Some (rest, grp) => Ok (rest ++ [FGroup g grp false])
           end
  end.

Definition set_neg (f : filt) : filt :=
  match f with FLeaf l _ => FLeaf l true | FGroup g fs _ => FGroup g fs true end.

Definition negate_top {A} (setn : A -> res A) (stack : list A) : res (list A) :=
  match rev stack with
  | [] => Err BadRequest
  | top :: rest => match setn top with Ok t => Ok (rev (t :: rest)) | Err e => Err e end
  end.

Definition counter_of (st : stat) : option filt := match st with SCounter f => Some f | SAgg _ _ => None end.

Fixpoint all_counters (l : list stat) : option (list filt) :=
  match l with
  | [] => Some []
  | st :: rest => match counter_of st, all_counters rest with
                  | Some f, Some fs => Some (f :: fs)
                  | _, _ => None
                  end
  end.

Definition parse_stats_line (optimize : bool) (t : tschema) (args : str) (stack : list stat) : res (list stat) :=
  let '(w, rest) := split1 32 args in
  match rest with
  | None => Err BadRequest
  | Some rest =>
      let lw := map ascii_lower w in
      let agg := if str_eqb lw (s "avg") then Some AgAvg else if str_eqb lw (s "min") then Some AgMin
                 else if str_eqb lw (s "max") then Some AgMax else if str_eqb lw (s "sum") then Some AgSum else None in
      match agg with
      | Some k => Ok (stack ++ [SAgg k (resolve_col t rest)])
      | None => match parse_leaf optimize t args with
                | Ok l => Ok (stack ++ [SCounter (FLeaf l false)])
                | Err e => Err e
                end
      end
  end.

Definition group_stats (optimize : bool) (t : tschema) (g : gop) (arg : str) (stack : list stat) : res (list stat) :=
  match parse_int arg with
  | Some 0%Z => parse_stats_line optimize t (s "state != 9999") stack
  | Some z =>
      if Z.ltb z 0 then Err BadRequest
      else match pop_n (Z.to_nat z) stack with
           | None => Err BadRequest
           | Some (rest, grp) =>
               match all_counters grp with
               | Some fs => Ok (rest ++ [SCounter (FGroup g fs false)])
               | None => Err Unsupported
               end
           end
  | None => Err BadRequest
  end.

Definition parse_sort (t : tschema) (arg : str) : res sortkey :=
  match arg with
  | [] => Err BadRequest
  | _ =>
      let '(f0, r1) := split1 32 arg in
      let '(f1, r2) := match r1 with
                       | Some r => let '(a, b) := split1 32 r in (Some a, b)
                       | None => (None, None)
                       end in
      let is_cv := str_eqb f0 (s "custom_variables") || str_eqb f0 (s "host_custom_variables") in
      (* three fields: custom variable name in the middle *)
      let shape : res (str * option str) :=
        match r2, f1 with
        | Some d, Some a => if is_cv then Ok (map upper_cp a, Some d) else Err BadRequest
        | _, _ => Ok ([], f1)
        end in
      match shape with
      | Err e => Err e
      | Ok (args, dtxt) =>
          let d := match dtxt with
                   | None | Some [] => Some Asc
                   | Some x => let lx := map ascii_lower x in
                               if str_eqb lx (s "asc") then Some Asc
                               else if str_eqb lx (s "desc") then Some Desc else None
                   end in
          match d with
          | None => Err BadRequest
          | Some d =>
              let name := lower f0 in
              match find_col t name with
              | Some c => Ok (mkSort name args d c)
              | None => Err BadRequest
              end
          end
      end
  end.

(** *** header lines *)
Definition empty_request (t : tschema) : request :=
  mkReq t [] [] [] [] None 0%Z [] FmtJSON false false false [] 0%nat.

Definition set_filter (r : request) (f : list filt) : request :=
  mkReq (rq_table r) (rq_columns r) f (rq_stats r) (rq_sort r) (rq_limit r) (rq_offset r) (rq_backends r)
        (rq_format r) (rq_colheaders r) (rq_fixed16 r) (rq_keepalive r) (rq_authuser r) (rq_numfilter r).
Definition set_stats (r : request) (st : list stat) : request :=
  mkReq (rq_table r) (rq_columns r) (rq_filter r) st (rq_sort r) (rq_limit r) (rq_offset r) (rq_backends r)
        (rq_format r) (rq_colheaders r) (rq_fixed16 r) (rq_keepalive r) (rq_authuser r) (rq_numfilter r).
Definition bump_numfilter (r : request) : request :=
  mkReq (rq_table r) (rq_columns r) (rq_filter r) (rq_stats r) (rq_sort r) (rq_limit r) (rq_offset r) (rq_backends r)
        (rq_format r) (rq_colheaders r) (rq_fixed16 r) (rq_keepalive r) (rq_authuser r) (S (rq_numfilter r)).

Definition parse_onoff (x : str) : option bool :=
  if str_eqb x (s "on") then Some true else if str_eqb x (s "off") then Some false else None.

Definition max_query_filter : nat := 1000.

Definition parse_header (optimize : bool) (r : request) (line : str) : res request :=
  let '(hname, rest) := split1 58 line in
  match rest with
  | None => Err BadRequest
  | Some rest =>
      let args := trim_left_sp rest in
      let h := lower hname in
      let t := rq_table r in
      let upd (r' : request) : res request :=
        if Nat.ltb max_query_filter (rq_numfilter r') then Err BadRequest else Ok r' in
      if str_eqb h (s "filter") then
        match parse_leaf optimize t args with
        | Ok l => upd (bump_numfilter (set_filter r (rq_filter r ++ [FLeaf l false])))
        | Err e => Err e
        end
      else if str_eqb h (s "and") then
        match group_filters GAnd args (rq_filter r) with Ok f => Ok (set_filter r f) | Err e => Err e end
      else if str_eqb h (s "or") then
        match group_filters GOr args (rq_filter r) with Ok f => Ok (set_filter r f) | Err e => Err e end
      else if str_eqb h (s "negate") then
        match negate_top (fun f => Ok (set_neg f)) (rq_filter r) with Ok f => Ok (set_filter r f) | Err e => Err e end
      else if str_eqb h (s "stats") then
        match parse_stats_line optimize t args (rq_stats r) with
        | Ok st => upd (bump_numfilter (set_stats r st))
        | Err e => Err e
        end
      else if str_eqb h (s "statsand") then
        match group_stats optimize t GAnd args (rq_stats r) with Ok st => Ok (set_stats r st) | Err e => Err e end
      else if str_eqb h (s "statsor") then
        match group_stats optimize t GOr args (rq_stats r) with Ok st => Ok (set_stats r st) | Err e => Err e end
      else if str_eqb h (s "statsnegate") then
        match negate_top (fun st => match st with SCounter f => Ok (SCounter (set_neg f)) | SAgg _ _ => Err Unsupported end)
                         (rq_stats r) with
        | Ok st => Ok (set_stats r st) | Err e => Err e end
      else if str_eqb h (s "sort") then
        match parse_sort t args with
        | Ok k => Ok (mkReq t (rq_columns r) (rq_filter r) (rq_stats r) (rq_sort r ++ [k]) (rq_limit r) (rq_offset r)
                            (rq_backends r) (rq_format r) (rq_colheaders r) (rq_fixed16 r) (rq_keepalive r) (rq_authuser r) (rq_numfilter r))
        | Err e => Err e
        end
      else if str_eqb h (s "limit") then
        match parse_int args with
        | Some z => if Z.ltb z 0 then Err BadRequest
                    else Ok (mkReq t (rq_columns r) (rq_filter r) (rq_stats r) (rq_sort r) (Some z) (rq_offset r)
                                   (rq_backends r) (rq_format r) (rq_colheaders r) (rq_fixed16 r) (rq_keepalive r) (rq_authuser r) (rq_numfilter r))
        | None => Err BadRequest
        end
      else if str_eqb h (s "offset") then
        match parse_int args with
        | Some z => if Z.ltb z 0 then Err BadRequest
                    else Ok (mkReq t (rq_columns r) (rq_filter r) (rq_stats r) (rq_sort r) (rq_limit r) z
                                   (rq_backends r) (rq_format r) (rq_colheaders r) (rq_fixed16 r) (rq_keepalive r) (rq_authuser r) (rq_numfilter r))
        | None => Err BadRequest
        end
      else if str_eqb h (s "backends") then
        Ok (mkReq t (rq_columns r) (rq_filter r) (rq_stats r) (rq_sort r) (rq_limit r) (rq_offset r)
                  (fields args) (rq_format r) (rq_colheaders r) (rq_fixed16 r) (rq_keepalive r) (rq_authuser r) (rq_numfilter r))
      else if str_eqb h (s "columns") then
        Ok (mkReq t (rq_columns r ++ fields args) (rq_filter r) (rq_stats r) (rq_sort r) (rq_limit r) (rq_offset r)
                  (rq_backends r) (rq_format r) (rq_colheaders r) (rq_fixed16 r) (rq_keepalive r) (rq_authuser r) (rq_numfilter r))
      else if str_eqb h (s "responseheader") then
        if str_eqb args (s "fixed16") then
          Ok (mkReq t (rq_columns r) (rq_filter r) (rq_stats r) (rq_sort r) (rq_limit r) (rq_offset r)
                    (rq_backends r) (rq_format r) (rq_colheaders r) true (rq_keepalive r) (rq_authuser r) (rq_numfilter r))
        else Err BadRequest
      else if str_eqb h (s "outputformat") then
        let f := if str_eqb args (s "wrapped_json") then Some FmtWrapped
                 else if str_eqb args (s "json") || str_eqb args (s "python") || str_eqb args (s "python3") then Some FmtJSON
                 else None in
        match f with
        | Some f => Ok (mkReq t (rq_columns r) (rq_filter r) (rq_stats r) (rq_sort r) (rq_limit r) (rq_offset r)
                              (rq_backends r) f (rq_colheaders r) (rq_fixed16 r) (rq_keepalive r) (rq_authuser r) (rq_numfilter r))
        | None => Err BadRequest
        end
      else if str_eqb h (s "keepalive") then
        match parse_onoff args with
        | Some b => Ok (mkReq t (rq_columns r) (rq_filter r) (rq_stats r) (rq_sort r) (rq_limit r) (rq_offset r)
                              (rq_backends r) (rq_format r) (rq_colheaders r) (rq_fixed16 r) b (rq_authuser r) (rq_numfilter r))
        | None => Err BadRequest
        end
      else if str_eqb h (s "columnheaders") then
        match parse_onoff args with
        | Some b => Ok (mkReq t (rq_columns r) (rq_filter r) (rq_stats r) (rq_sort r) (rq_limit r) (rq_offset r)
                              (rq_backends r) (rq_format r) b (rq_fixed16 r) (rq_keepalive r) (rq_authuser r) (rq_numfilter r))
        | None => Err BadRequest
        end
      else if str_eqb h (s "localtime") then Ok r
      else if str_eqb h (s "authuser") then
        match args with
        | [] => Err BadRequest
        | _ => Ok (mkReq t (rq_columns r) (rq_filter r) (rq_stats r) (rq_sort r) (rq_limit r) (rq_offset r)
                         (rq_backends r) (rq_format r) (rq_colheaders r) (rq_fixed16 r) (rq_keepalive r) args (rq_numfilter r))
        end
      else if str_eqb h (s "waittrigger") || str_eqb h (s "waitobject") || str_eqb h (s "waittimeout")
              || str_eqb h (s "waitcondition") || str_eqb h (s "waitconditionand") || str_eqb h (s "waitconditionor")
              || str_eqb h (s "waitconditionnegate") then Err Unsupported
      else Err BadRequest
  end.

Fixpoint parse_headers (optimize : bool) (r : request) (lines : list str) : res request :=
  match lines with
  | [] => Ok r
  | l :: rest =>
      let l := trim_space l in
      match l with
      | [] => Ok r                       (* empty line ends the request *)
      | _ => match parse_header optimize r l with
             | Ok r' => parse_headers optimize r' rest
             | Err e => Err e
             end
      end
  end.

(** optimizeFilterIndentation: a single non-negated top level And group is unwrapped *)
Fixpoint flatten_filter (fuel : nat) (fs : list filt) : list filt :=
  match fuel with
  | O => fs
  | S fuel => match fs with
              | [FGroup GAnd (f :: inner) false] => flatten_filter fuel (f :: inner)
              | _ => fs
              end
  end.

Fixpoint filt_depth (f : filt) : nat :=
  match f with
  | FLeaf _ _ => 1%nat
  | FGroup _ fs _ => S (fold_right (fun f n => Nat.max (filt_depth f) n) 0%nat fs)
  end.

Definition parse_get_line (schema : list tschema) (line : str) : res tschema :=
  let l := trim_space line in
  if has_prefix (s "GET ") l then
    let name := trim_left_sp (skipn 4 l) in
    if forallb (fun c => N.leb 97 c && N.leb c 122) name then
      match find_table schema name with
      | Some t => Ok t
      | None => Err BadRequest
      end
    else Err BadRequest
  else Err BadRequest.

(** the request as parsed, before the (Optimize only) post passes *)
Definition parse_request_raw (schema : list tschema) (optimize : bool) (lines : list str) : res request :=
  match lines with
  | [] => Err BadRequest
  | first :: rest =>
      match parse_get_line schema first with
      | Ok t => parse_headers optimize (empty_request t) rest
      | Err e => Err e
      end
  end.

Definition parse_request (schema : list tschema) (optimize : bool) (lines : list str) : res request :=
  match parse_request_raw schema optimize lines with
  | Ok r => if optimize
            then Ok (set_filter r (flatten_filter (S (fold_right (fun f n => Nat.max (filt_depth f) n) 0%nat (rq_filter r))) (rq_filter r)))
            else Ok r
  | Err e => Err e
  end.

(** SetRequestColumns: no Columns header and no Stats = all columns of the table *)
Definition request_columns (r : request) : list column :=
  match rq_columns r, rq_stats r with
  | [], [] => t_cols (rq_table r)
  | cols, _ => map (resolve_col (rq_table r)) cols
  end.
