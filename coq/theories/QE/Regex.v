(** Regular expressions: AST, a parser for the RE2 subset the generators use,
    and a derivative based matcher.  Go's regexp package is an external oracle;
    its agreement with this matcher on the generated subset is checked by the
    correspondence streams. *)
From LMD Require Export Base.Str.
From LMD Require Import QE.Value.
Open Scope N_scope.

Inductive re :=
| RNone                                 (* matches nothing *)
| REps                                  (* empty string *)
| RChar (c : N)
| RAny                                  (* . *)
| RClass (neg : bool) (ranges : list (N * N))
| RCat (a b : re)
| RAlt (a b : re)
| RStar (a : re).

Definition upper_cp (c : N) : N :=
  if (N.leb 97 c && N.leb c 122) then c - 32
  else if (N.leb 224 c && N.leb c 254 && negb (N.eqb c 247)) then c - 32
  else c.

Definition in_ranges (c : N) (rs : list (N * N)) : bool :=
  existsb (fun r => N.leb (fst r) c && N.leb c (snd r)) rs.

Section Match.
  Variable ci : bool.     (* case insensitive: (?i) *)

  Definition char_ok (p c : N) : bool :=
    if ci then N.eqb (lower_cp p) (lower_cp c) else N.eqb p c.

  Definition class_ok (neg : bool) (rs : list (N * N)) (c : N) : bool :=
    xorb neg (in_ranges c rs || (ci && (in_ranges (lower_cp c) rs || in_ranges (upper_cp c) rs))).

  Fixpoint nullable (r : re) : bool :=
    match r with
    | RNone => false | REps => true | RChar _ => false | RAny => false | RClass _ _ => false
    | RCat a b => nullable a && nullable b
    | RAlt a b => nullable a || nullable b
    | RStar _ => true
    end.

  (* smart constructors keep derivatives small *)
  Definition mk_cat (a b : re) : re :=
    match a, b with
    | RNone, _ => RNone | _, RNone => RNone
    | REps, _ => b | _, REps => a
    | _, _ => RCat a b
    end.
  Definition mk_alt (a b : re) : re :=
    match a, b with
    | RNone, _ => b | _, RNone => a
    | _, _ => RAlt a b
    end.

  Fixpoint deriv (c : N) (r : re) : re :=
    match r with
    | RNone => RNone | REps => RNone
    | RChar p => if char_ok p c then REps else RNone
    | RAny => REps
    | RClass neg rs => if class_ok neg rs c then REps else RNone
    | RCat a b => if nullable a then mk_alt (mk_cat (deriv c a) b) (deriv c b) else mk_cat (deriv c a) b
    | RAlt a b => mk_alt (deriv c a) (deriv c b)
    | RStar a => mk_cat (deriv c a) (RStar a)
    end.

  Definition matches (r : re) (x : str) : bool := nullable (fold_left (fun r c => deriv c r) x r).
End Match.

(** a compiled pattern: anchors are only supported at the very start / end *)
Record pattern := mkPat { p_ci : bool; p_start : bool; p_end : bool; p_re : re }.

Definition any_star := RStar RAny.

(** regexp.MatchString: unanchored search *)
Definition search (p : pattern) (x : str) : bool :=
  let r := p_re p in
  let r := if p_start p then r else RCat any_star r in
  let r := if p_end p then r else RCat r any_star in
  matches (p_ci p) r x.

(** *** parser *)
Definition is_meta (c : N) : bool :=
  existsb (N.eqb c) [92; 46; 43; 42; 63; 40; 41; 124; 91; 93; 123; 125; 94; 36]%N.

Inductive tok_result {A} := POk (a : A) (rest : str) | PErr (unsupported : bool).
Arguments tok_result : clear implicits.

Definition digit_ranges : list (N * N) := [(48, 57)]%N.
Definition word_ranges : list (N * N) := [(48, 57); (65, 90); (95, 95); (97, 122)]%N.
Definition space_ranges : list (N * N) := [(9, 10); (12, 13); (32, 32)]%N.

(* class body after '[' (and optional '^'); [first] = no item read yet, ']' is literal then *)
Fixpoint parse_class (fuel : nat) (first : bool) (acc : list (N * N)) (x : str) : tok_result (list (N * N)) :=
  match fuel with
  | O => PErr true
  | S fuel =>
      match x with
      | [] => PErr false
      | 93 :: rest => if first then parse_class_item fuel 93 acc rest else POk (rev acc) rest
      | 92 :: c :: rest =>
          if N.eqb c 100 then parse_class fuel false (digit_ranges ++ acc) rest
          else if N.eqb c 119 then parse_class fuel false (word_ranges ++ acc) rest
          else if N.eqb c 115 then parse_class fuel false (space_ranges ++ acc) rest
          else if is_meta c || N.eqb c 45 then parse_class_item fuel c acc rest
          else PErr true
      | 92 :: [] => PErr false
      | 91 :: 58 :: _ => PErr true            (* POSIX classes [[:alpha:]] are not modelled *)
      | c :: rest => parse_class_item fuel c acc rest
      end
  end
with parse_class_item (fuel : nat) (lo : N) (acc : list (N * N)) (x : str) : tok_result (list (N * N)) :=
  match fuel with
  | O => PErr true
  | S fuel =>
      match x with
      | 45 :: 93 :: rest => POk (rev ((45, 45) :: (lo, lo) :: acc)) rest
      | 45 :: 92 :: hi :: rest =>
          if is_meta hi || N.eqb hi 45 then
            if N.leb lo hi then parse_class fuel false ((lo, hi) :: acc) rest else PErr false
          else PErr true
      | 45 :: hi :: rest =>
          if N.leb lo hi then parse_class fuel false ((lo, hi) :: acc) rest else PErr false
      | _ => parse_class fuel false ((lo, lo) :: acc) x
      end
  end.

Definition mk_plus (a : re) : re := RCat a (RStar a).
Definition mk_opt (a : re) : re := RAlt a REps.

(* one optional repetition operator, optionally followed by the lazy marker '?';
   a second repetition operator is an error (RE2: invalid nested repetition) *)
Definition parse_rep (a : re) (x : str) : tok_result re :=
  let after (r : re) (rest : str) :=
    let rest := match rest with 63 :: rest' => rest' | _ => rest end in
    match rest with
    | 42 :: _ | 43 :: _ | 63 :: _ => PErr false
    | 123 :: _ => PErr true
    | _ => POk r rest
    end in
  match x with
  | 42 :: rest => after (RStar a) rest
  | 43 :: rest => after (mk_plus a) rest
  | 63 :: rest => after (mk_opt a) rest
  | 123 :: _ => PErr true                 (* {n,m} not supported by the model *)
  | _ => POk a x
  end.

Fixpoint parse_alt (fuel : nat) (x : str) : tok_result re :=
  match fuel with
  | O => PErr true
  | S fuel =>
      match parse_cat fuel REps x with
      | POk a (124 :: rest) =>
          match parse_alt fuel rest with
          | POk b rest' => POk (RAlt a b) rest'
          | PErr u => PErr u
          end
      | r => r
      end
  end
with parse_cat (fuel : nat) (acc : re) (x : str) : tok_result re :=
  match fuel with
  | O => PErr true
  | S fuel =>
      match x with
      | [] => POk acc []
      | 124 :: _ => POk acc x
      | 41 :: _ => POk acc x
      | 40 :: 63 :: c :: rest' =>
          (* only the non capturing group marker "?:" is modelled; flags and named groups are not *)
          if N.eqb c 58 then
            match parse_alt fuel rest' with
            | POk a (41 :: rest'') =>
                match parse_rep a rest'' with
                | POk a' rest''' => parse_cat fuel (RCat acc a') rest'''
                | PErr u => PErr u
                end
            | POk _ _ => PErr false
            | PErr u => PErr u
            end
          else PErr true
      | 40 :: rest =>
          match parse_alt fuel rest with
          | POk a (41 :: rest') =>
              match parse_rep a rest' with
              | POk a' rest'' => parse_cat fuel (RCat acc a') rest''
              | PErr u => PErr u
              end
          | POk _ _ => PErr false            (* missing closing parenthesis *)
          | PErr u => PErr u
          end
      | 91 :: 94 :: rest =>
          match parse_class fuel true [] rest with
          | POk rs rest' =>
              match parse_rep (RClass true rs) rest' with
              | POk a' rest'' => parse_cat fuel (RCat acc a') rest''
              | PErr u => PErr u
              end
          | PErr u => PErr u
          end
      | 91 :: rest =>
          match parse_class fuel true [] rest with
          | POk rs rest' =>
              match parse_rep (RClass false rs) rest' with
              | POk a' rest'' => parse_cat fuel (RCat acc a') rest''
              | PErr u => PErr u
              end
          | PErr u => PErr u
          end
      | 92 :: c :: rest =>
          let atom :=
            if N.eqb c 100 then Some (RClass false digit_ranges)
            else if N.eqb c 119 then Some (RClass false word_ranges)
            else if N.eqb c 115 then Some (RClass false space_ranges)
            else if is_meta c || N.eqb c 45 then Some (RChar c)
            else None in
          match atom with
          | Some a =>
              match parse_rep a rest with
              | POk a' rest'' => parse_cat fuel (RCat acc a') rest''
              | PErr u => PErr u
              end
          | None => PErr true
          end
      | 92 :: [] => PErr false
      | 42 :: _ | 43 :: _ | 63 :: _ => PErr false (* missing argument to repetition operator *)
      | 123 :: _ | 125 :: _ => PErr true          (* not in the supported subset *)
      | 94 :: _ | 36 :: _ => PErr true            (* anchors only at the ends *)
      | 93 :: rest =>
          match parse_rep (RChar 93) rest with
          | POk a' rest'' => parse_cat fuel (RCat acc a') rest''
          | PErr u => PErr u
          end
      | 46 :: rest =>
          match parse_rep RAny rest with
          | POk a' rest'' => parse_cat fuel (RCat acc a') rest''
          | PErr u => PErr u
          end
      | c :: rest =>
          match parse_rep (RChar c) rest with
          | POk a' rest'' => parse_cat fuel (RCat acc a') rest''
          | PErr u => PErr u
          end
      end
  end.

Definition ends_with_dollar (x : str) : bool :=
  match rev x with
  | 36 :: 92 :: _ => false          (* escaped dollar *)
  | 36 :: _ => true
  | _ => false
  end.

Inductive cres := CPat (p : pattern) | CInvalid | CUnsupported.

(** ^a|b$ is (^a)|(b$) for regexp: anchors next to a top level alternation are outside the subset
    ([mk_opt], the encoding of a?, has REps on the right and is no top level | ) *)
Definition alt_anchor (st en : bool) (r : re) : bool :=
  (st || en) && match r with RAlt _ REps => false | RAlt _ _ => true | _ => false end.

(** [re_compile ci text]: CInvalid = regexp.Compile fails; CUnsupported = outside the modelled subset *)
Definition re_compile (ci : bool) (text : str) : cres :=
  let '(st, body) := match text with 94 :: rest => (true, rest) | _ => (false, text) end in
  let '(en, body) := if ends_with_dollar body then (true, removelast body) else (false, body) in
  if st && match body with 42 :: _ | 43 :: _ | 63 :: _ => true | _ => false end then CUnsupported else
  match parse_alt ((S (S (length body))) * 4)%nat body with
  | POk r [] => if alt_anchor st en r then CUnsupported else CPat (mkPat ci st en r)
  | POk _ (41 :: _) => CInvalid            (* unexpected ) *)
  | POk _ _ => CUnsupported
  | PErr true => CUnsupported
  | PErr false => CInvalid
  end.

(** plain substring test (strings.Contains) *)
Fixpoint is_prefix (p x : str) : bool :=
  match p, x with
  | [], _ => true
  | a :: p', b :: x' => N.eqb a b && is_prefix p' x'
  | _ :: _, [] => false
  end.

Fixpoint contains (x sub : str) : bool :=
  is_prefix sub x || match x with [] => false | _ :: x' => contains x' sub end.
