(** Soundness of the regular expression matcher of [QE.Regex] and of the
    rewritings lmd's query optimiser applies to regular expression filters
    (modelled in [QE.Parse.parse_leaf]):

      - a text without meta characters is a substring test,
      - [^lit$] is an equality test,
      - a leading / trailing [.*] can be dropped,
      - a [(?i)] literal is a substring test of the lower-cased literal on the
        lower-cased subject.

    Everything is proved for ALL strings (induction), nothing is bounded.

    Unproved statements: none.  (Every item of the work list is proved at full
    strength; see the summary at the end of the file.)

    Remarks on the model (nothing here is wrong in Regex.v, see the section
    "what the optimiser's test does NOT guarantee" at the end):
      - [has_regex_chars v = false] is weaker than "no [is_meta] character in
        [v]": it lets ')' ']' '}' and (for host-name like texts) '.' pass.
        [parse_literal] therefore needs the stronger hypothesis; the witnesses
        [hostdot_not_literal] / [paren_not_literal] show the difference is real.

    Divergences between [re_compile] and Go's regexp.Compile found by probing
    go1.23 while writing this file (NOT fixed here, Regex.v is not mine; none of
    them touches the theorems below, which are about the matcher and about
    plain texts):
      - "(?i)a", "(?P<n>a)", "(?s:.)", "x(?i)y": Go compiles them, the model
        answers CInvalid (parse_cat only knows "(?:"; any other "(?" should be
        CUnsupported).
      - "^*", "^*a", "^+": Go compiles them (repetition of an empty-width
        assertion), the model answers CInvalid.
      - "[[:alpha:]]": Go reads a POSIX class (matches "a", not ":]"), the
        model silently reads the class {[ : a l p h} followed by a literal ']'
        (matches ":]", not "a"); "[:" inside a class should be CUnsupported. *)
From Coq Require Import Setoid.
From LMD Require Import QE.Value QE.Regex QE.Parse.
Open Scope N_scope.

(** * 0. small helpers *)

Lemma bool_eq_iff (a b : bool) : (a = true <-> b = true) -> a = b.
Proof.
  destruct a, b; intros [H1 H2]; try reflexivity.
  - symmetry; apply H1; reflexivity.
  - apply H2; reflexivity.
Qed.

(** * 1. denotational semantics and correctness of the derivative matcher *)

Inductive star (P : str -> Prop) : str -> Prop :=
| star_nil : star P []
| star_app : forall x y, P x -> star P y -> star P (x ++ y).

Fixpoint denote (ci : bool) (r : re) (x : str) {struct r} : Prop :=
  match r with
  | RNone => False
  | REps => x = []
  | RChar p => exists c, x = [c] /\ char_ok ci p c = true
  | RAny => exists c, x = [c]
  | RClass neg rs => exists c, x = [c] /\ class_ok ci neg rs c = true
  | RCat a b => exists y z, x = y ++ z /\ denote ci a y /\ denote ci b z
  | RAlt a b => denote ci a x \/ denote ci b x
  | RStar a => star (denote ci a) x
  end.

Lemma star_cons_inv (P : str -> Prop) c x :
  star P (c :: x) -> exists y z, x = y ++ z /\ P (c :: y) /\ star P z.
Proof.
  intros H. remember (c :: x) as w eqn:Hw. revert c x Hw.
  induction H as [|u v Hu Hv IH]; intros c x Hw.
  - discriminate Hw.
  - destruct u as [|d u]; cbn [app] in Hw.
    + apply IH; exact Hw.
    + injection Hw as Hd Hx. subst d x. exists u, v.
      split; [reflexivity|]. split; assumption.
Qed.

Lemma star_any ci x : star (denote ci RAny) x.
Proof.
  induction x as [|c x IH].
  - constructor.
  - exact (star_app (denote ci RAny) [c] x (ex_intro _ c eq_refl) IH).
Qed.

Section Correct.
  Variable ci : bool.

  Lemma nullable_correct r : nullable r = true <-> denote ci r [].
  Proof.
    induction r as [| |p| |neg rs|a IHa b IHb|a IHa b IHb|a IHa]; cbn [nullable denote].
    - split; [discriminate|contradiction].
    - split; intros _; reflexivity.
    - split; [discriminate|]. intros [c [Hc _]]; discriminate Hc.
    - split; [discriminate|]. intros [c Hc]; discriminate Hc.
    - split; [discriminate|]. intros [c [Hc _]]; discriminate Hc.
    - rewrite andb_true_iff, IHa, IHb. split.
      + intros [Ha Hb]. exists [], []. split; [reflexivity|]. split; assumption.
      + intros [y [z [Hyz [Ha Hb]]]]. symmetry in Hyz. apply app_eq_nil in Hyz.
        destruct Hyz as [Hy Hz]. subst y z. split; assumption.
    - rewrite orb_true_iff, IHa, IHb. reflexivity.
    - split; intros _; [constructor|reflexivity].
  Qed.

  Lemma cat_none_l b x : denote ci RNone x <-> denote ci (RCat RNone b) x.
  Proof.
    cbn [denote]. split; [contradiction|]. intros [y [z [_ [H _]]]]; exact H.
  Qed.

  Lemma cat_none_r a x : denote ci RNone x <-> denote ci (RCat a RNone) x.
  Proof.
    cbn [denote]. split; [contradiction|]. intros [y [z [_ [_ H]]]]; exact H.
  Qed.

  Lemma cat_eps_l b x : denote ci b x <-> denote ci (RCat REps b) x.
  Proof.
    cbn [denote]. split.
    - intros H. exists [], x. split; [reflexivity|]. split; [reflexivity|exact H].
    - intros [y [z [Hx [Hy Hb]]]]. subst y x. exact Hb.
  Qed.

  Lemma cat_eps_r a x : denote ci a x <-> denote ci (RCat a REps) x.
  Proof.
    cbn [denote]. split.
    - intros H. exists x, []. split; [symmetry; apply app_nil_r|]. split; [exact H|reflexivity].
    - intros [y [z [Hx [Ha Hz]]]]. subst z x. rewrite app_nil_r. exact Ha.
  Qed.

  Lemma mk_cat_correct a b x : denote ci (mk_cat a b) x <-> denote ci (RCat a b) x.
  Proof.
    destruct a; destruct b; cbn [mk_cat];
      first [ reflexivity | apply cat_none_l | apply cat_none_r | apply cat_eps_l | apply cat_eps_r ].
  Qed.

  Lemma mk_alt_correct a b x : denote ci (mk_alt a b) x <-> denote ci a x \/ denote ci b x.
  Proof.
    destruct a; destruct b; cbn [mk_alt]; cbn [denote]; tauto.
  Qed.

  Lemma single_inv (c c' : N) (x : str) : c :: x = [c'] -> c' = c /\ x = [].
  Proof. intros H. injection H as Hc Hx. split; [symmetry; exact Hc|exact Hx]. Qed.

  Lemma deriv_correct c r : forall x, denote ci (deriv ci c r) x <-> denote ci r (c :: x).
  Proof.
    induction r as [| |p| |neg rs|a IHa b IHb|a IHa b IHb|a IHa]; intros x; cbn [deriv].
    - cbn [denote]. tauto.
    - cbn [denote]. split; [contradiction|discriminate].
    - destruct (char_ok ci p c) eqn:Hc; cbn [denote].
      + split.
        * intros Hx. subst x. exists c. split; [reflexivity|exact Hc].
        * intros [c' [Hx _]]. apply single_inv in Hx. apply Hx.
      + split; [contradiction|]. intros [c' [Hx Hok]]. apply single_inv in Hx.
        destruct Hx as [Hc' _]. subst c'. rewrite Hc in Hok. discriminate Hok.
    - cbn [denote]. split.
      + intros Hx. subst x. exists c. reflexivity.
      + intros [c' Hx]. apply single_inv in Hx. apply Hx.
    - destruct (class_ok ci neg rs c) eqn:Hc; cbn [denote].
      + split.
        * intros Hx. subst x. exists c. split; [reflexivity|exact Hc].
        * intros [c' [Hx _]]. apply single_inv in Hx. apply Hx.
      + split; [contradiction|]. intros [c' [Hx Hok]]. apply single_inv in Hx.
        destruct Hx as [Hc' _]. subst c'. rewrite Hc in Hok. discriminate Hok.
    - assert (Hcat : denote ci (mk_cat (deriv ci c a) b) x <->
                     exists y z, x = y ++ z /\ denote ci a (c :: y) /\ denote ci b z).
      { rewrite mk_cat_correct. cbn [denote].
        split; intros [y [z [Hx [Ha Hb]]]]; exists y, z;
          (split; [exact Hx|]); (split; [apply IHa; exact Ha|exact Hb]). }
      destruct (nullable a) eqn:Hn.
      + rewrite mk_alt_correct, Hcat, IHb. cbn [denote]. split.
        * intros [[y [z [Hx [Ha Hb]]]] | Hb].
          -- exists (c :: y), z. subst x. split; [reflexivity|]. split; assumption.
          -- exists [], (c :: x). split; [reflexivity|].
             split; [apply nullable_correct; exact Hn|exact Hb].
        * intros [y [z [Hx [Ha Hb]]]]. destruct y as [|d y]; cbn [app] in Hx.
          -- right. subst z. exact Hb.
          -- left. injection Hx as Hd Hx'. subst d x. exists y, z.
             split; [reflexivity|]. split; assumption.
      + rewrite Hcat. cbn [denote]. split.
        * intros [y [z [Hx [Ha Hb]]]]. exists (c :: y), z. subst x.
          split; [reflexivity|]. split; assumption.
        * intros [y [z [Hx [Ha Hb]]]]. destruct y as [|d y]; cbn [app] in Hx.
          -- exfalso. apply nullable_correct in Ha. rewrite Hn in Ha. discriminate Ha.
          -- injection Hx as Hd Hx'. subst d x. exists y, z.
             split; [reflexivity|]. split; assumption.
    - rewrite mk_alt_correct, IHa, IHb. cbn [denote]. reflexivity.
    - rewrite mk_cat_correct. cbn [denote]. split.
      + intros [y [z [Hx [Ha Hs]]]]. subst x. apply IHa in Ha.
        exact (star_app (denote ci a) (c :: y) z Ha Hs).
      + intros Hs. apply star_cons_inv in Hs. destruct Hs as [y [z [Hx [Ha Hs]]]].
        exists y, z. split; [exact Hx|]. split; [apply IHa; exact Ha|exact Hs].
  Qed.

  Lemma matches_nil r : matches ci r [] = nullable r.
  Proof. reflexivity. Qed.

  Lemma matches_cons r c x : matches ci r (c :: x) = matches ci (deriv ci c r) x.
  Proof. reflexivity. Qed.

  Theorem matches_correct r x : matches ci r x = true <-> denote ci r x.
  Proof.
    revert r; induction x as [|c x IH]; intros r.
    - rewrite matches_nil. apply nullable_correct.
    - rewrite matches_cons, IH. apply deriv_correct.
  Qed.

  (** [.*] in front / behind *)
  Lemma pre_any r x :
    denote ci (RCat any_star r) x <-> exists pre mid, x = pre ++ mid /\ denote ci r mid.
  Proof.
    unfold any_star. cbn [denote]. split.
    - intros [y [z [Hx [_ Hr]]]]. exists y, z. split; assumption.
    - intros [y [z [Hx Hr]]]. exists y, z. split; [exact Hx|]. split; [apply (star_any ci)|exact Hr].
  Qed.

  Lemma suf_any r x :
    denote ci (RCat r any_star) x <-> exists mid post, x = mid ++ post /\ denote ci r mid.
  Proof.
    unfold any_star. cbn [denote]. split.
    - intros [y [z [Hx [Hr _]]]]. exists y, z. split; assumption.
    - intros [y [z [Hx Hr]]]. exists y, z. split; [exact Hx|]. split; [exact Hr|apply (star_any ci)].
  Qed.
End Correct.

(** * 2. specification of the unanchored search *)

Theorem search_spec p x :
  search p x = true <->
  exists pre mid post,
    x = pre ++ mid ++ post /\ denote (p_ci p) (p_re p) mid /\
    (p_start p = true -> pre = []) /\ (p_end p = true -> post = []).
Proof.
  destruct p as [ci st en r]. destruct st; destruct en; unfold search;
    cbn [p_ci p_start p_end p_re]; rewrite matches_correct.
  - split.
    + intros H. exists [], x, []. rewrite app_nil_r. cbn [app].
      split; [reflexivity|]. split; [exact H|]. split; intros _; reflexivity.
    + intros [pre [mid [post [Hx [Hm [Hs He]]]]]].
      rewrite (Hs eq_refl), (He eq_refl) in Hx. cbn [app] in Hx. rewrite app_nil_r in Hx.
      subst x. exact Hm.
  - rewrite suf_any. split.
    + intros [mid [post [Hx Hm]]]. exists [], mid, post. cbn [app].
      split; [exact Hx|]. split; [exact Hm|]. split; [intros _; reflexivity|intros H; discriminate H].
    + intros [pre [mid [post [Hx [Hm [Hs _]]]]]]. rewrite (Hs eq_refl) in Hx. cbn [app] in Hx.
      exists mid, post. split; assumption.
  - rewrite pre_any. split.
    + intros [pre [mid [Hx Hm]]]. exists pre, mid, []. rewrite app_nil_r.
      split; [exact Hx|]. split; [exact Hm|]. split; [intros H; discriminate H|intros _; reflexivity].
    + intros [pre [mid [post [Hx [Hm [_ He]]]]]]. rewrite (He eq_refl), app_nil_r in Hx.
      exists pre, mid. split; assumption.
  - rewrite suf_any. split.
    + intros [m [post [Hx Hm]]]. apply pre_any in Hm. destruct Hm as [pre [mid [Hm Hr]]].
      exists pre, mid, post. subst m x. split; [symmetry; apply app_assoc|].
      split; [exact Hr|]. split; intros H; discriminate H.
    + intros [pre [mid [post [Hx [Hm _]]]]]. exists (pre ++ mid), post.
      split; [rewrite <- app_assoc; exact Hx|]. apply pre_any. exists pre, mid.
      split; [reflexivity|exact Hm].
Qed.

(** * 3. substring test *)

Lemma is_prefix_spec p : forall x, is_prefix p x = true <-> exists post, x = p ++ post.
Proof.
  induction p as [|a p IH]; intros x.
  - cbn [is_prefix app]. split; [intros _; exists x; reflexivity|intros _; reflexivity].
  - destruct x as [|b x]; cbn [is_prefix].
    + split; [discriminate|]. intros [post H]. discriminate H.
    + rewrite andb_true_iff, N.eqb_eq, IH. split.
      * intros [Hab [post Hx]]. subst b x. exists post. reflexivity.
      * intros [post H]. cbn [app] in H. injection H as Hb Hx.
        split; [symmetry; exact Hb|exists post; exact Hx].
Qed.

Theorem contains_spec x sub :
  contains x sub = true <-> exists pre post, x = pre ++ sub ++ post.
Proof.
  induction x as [|c x IH]; cbn [contains].
  - rewrite orb_false_r, is_prefix_spec. split.
    + intros [post H]. exists [], post. exact H.
    + intros [pre [post H]]. destruct pre as [|d pre]; cbn [app] in H.
      * exists post. exact H.
      * discriminate H.
  - rewrite orb_true_iff, is_prefix_spec, IH. split.
    + intros [[post H] | [pre [post H]]].
      * exists [], post. exact H.
      * exists (c :: pre), post. cbn [app]. f_equal. exact H.
    + intros [pre [post H]]. destruct pre as [|d pre]; cbn [app] in H.
      * left. exists post. exact H.
      * right. injection H as Hd Hx. exists pre, post. exact Hx.
Qed.

(** * 4. literal regular expressions *)

(** what [parse_cat] builds for a text of plain characters *)
Definition lit_step (acc : re) (c : N) : re := RCat acc (RChar c).
Definition lit_re (v : str) : re := fold_left lit_step v REps.

(** pointwise [char_ok] *)
Fixpoint lit_ok (ci : bool) (v z : str) : Prop :=
  match v, z with
  | [], [] => True
  | p :: v', c :: z' => char_ok ci p c = true /\ lit_ok ci v' z'
  | _, _ => False
  end.

Lemma lit_acc_denote ci v : forall acc x,
  denote ci (fold_left lit_step v acc) x <->
  exists y z, x = y ++ z /\ denote ci acc y /\ lit_ok ci v z.
Proof.
  induction v as [|p v IH]; intros acc x; cbn [fold_left].
  - split.
    + intros H. exists x, []. rewrite app_nil_r. split; [reflexivity|]. split; [exact H|exact I].
    + intros [y [z [Hx [Ha Hz]]]]. destruct z as [|c z]; [|contradiction Hz].
      rewrite app_nil_r in Hx. subst x. exact Ha.
  - rewrite IH. unfold lit_step. cbn [denote]. split.
    + intros [y [z [Hx [[y1 [y2 [Hy [Ha [c [Hy2 Hc]]]]]] Hz]]]].
      exists y1, (c :: z). subst y2 y x.
      split; [rewrite <- app_assoc; reflexivity|]. split; [exact Ha|]. split; assumption.
    + intros [y [z [Hx [Ha Hz]]]]. destruct z as [|c z]; [contradiction Hz|].
      destruct Hz as [Hc Hz]. exists (y ++ [c]), z.
      split; [rewrite <- app_assoc; exact Hx|]. split; [|exact Hz].
      exists y, [c]. split; [reflexivity|]. split; [exact Ha|].
      exists c. split; [reflexivity|exact Hc].
Qed.

Lemma lit_re_denote ci v x : denote ci (lit_re v) x <-> lit_ok ci v x.
Proof.
  unfold lit_re. rewrite lit_acc_denote. cbn [denote]. split.
  - intros [y [z [Hx [Hy Hz]]]]. subst y x. exact Hz.
  - intros H. exists [], x. split; [reflexivity|]. split; [reflexivity|exact H].
Qed.

Lemma lit_ok_cs v : forall z, lit_ok false v z <-> z = v.
Proof.
  induction v as [|p v IH]; intros [|c z]; cbn [lit_ok].
  - split; intros _; [reflexivity|exact I].
  - split; [contradiction|discriminate].
  - split; [contradiction|discriminate].
  - unfold char_ok. rewrite N.eqb_eq, IH. split.
    + intros [Hp Hz]. subst c z. reflexivity.
    + intros H. injection H as Hc Hz. split; [symmetry; exact Hc|exact Hz].
Qed.

Lemma lit_ok_ci v : forall z, lit_ok true v z <-> lower z = lower v.
Proof.
  induction v as [|p v IH]; intros [|c z]; cbn [lit_ok lower map]; unfold lower.
  - split; intros _; [reflexivity|exact I].
  - split; [contradiction|discriminate].
  - split; [contradiction|discriminate].
  - cbn [map]. fold (lower z). fold (lower v). unfold char_ok. rewrite N.eqb_eq, IH. split.
    + intros [Hp Hz]. rewrite Hp, Hz. reflexivity.
    + intros H. injection H as Hc Hz. split; [symmetry; exact Hc|exact Hz].
Qed.

Theorem lit_re_denote_cs v mid : denote false (lit_re v) mid <-> mid = v.
Proof. rewrite lit_re_denote. apply lit_ok_cs. Qed.

Theorem lit_re_denote_ci v mid : denote true (lit_re v) mid <-> lower mid = lower v.
Proof. rewrite lit_re_denote. apply lit_ok_ci. Qed.

(** `~ lit` is strings.Contains *)
Theorem literal_regex_is_contains v x :
  search (mkPat false false false (lit_re v)) x = contains x v.
Proof.
  apply bool_eq_iff. rewrite search_spec, contains_spec. cbn [p_ci p_start p_end p_re]. split.
  - intros [pre [mid [post [Hx [Hm _]]]]]. apply lit_re_denote_cs in Hm. subst mid.
    exists pre, post. exact Hx.
  - intros [pre [post Hx]]. exists pre, v, post. split; [exact Hx|].
    split; [apply lit_re_denote_cs; reflexivity|]. split; intros H; discriminate H.
Qed.

(** ** the parser builds [lit_re] for plain texts *)

(** case split on a code point: all constants the parser looks at are < 128 *)
Ltac split_cp c Hm :=
  let p := fresh "p" in
  destruct c as [|p];
  [| do 7 (try destruct p as [p|p|])];
  cbn in Hm; try discriminate Hm.

Lemma parse_rep_nil a : parse_rep a [] = POk a [].
Proof. reflexivity. Qed.

Lemma parse_rep_plain_cons a c rest :
  is_meta c = false -> parse_rep a (c :: rest) = POk a (c :: rest).
Proof. intros Hm. split_cp c Hm; reflexivity. Qed.

Lemma parse_rep_plain a v :
  (forall c, In c v -> is_meta c = false) -> parse_rep a v = POk a v.
Proof.
  intros Hv. destruct v as [|c v]; [reflexivity|].
  apply parse_rep_plain_cons. apply Hv. left; reflexivity.
Qed.

Lemma parse_cat_plain_step fuel acc c rest :
  is_meta c = false ->
  parse_cat (S fuel) acc (c :: rest) =
  match parse_rep (RChar c) rest with
  | POk a' rest'' => parse_cat fuel (RCat acc a') rest''
  | PErr u => PErr u
  end.
Proof. intros Hm. split_cp c Hm; reflexivity. Qed.

(** fuel sufficiency: one unit per character plus one for the end of the text *)
Lemma parse_cat_plain v : forall fuel acc,
  (forall c, In c v -> is_meta c = false) -> (length v < fuel)%nat ->
  parse_cat fuel acc v = POk (fold_left lit_step v acc) [].
Proof.
  induction v as [|c v IH]; intros fuel acc Hv Hf.
  - destruct fuel as [|fuel]; [inversion Hf|]. reflexivity.
  - destruct fuel as [|fuel]; [inversion Hf|].
    rewrite parse_cat_plain_step by (apply Hv; left; reflexivity).
    rewrite parse_rep_plain by (intros d Hd; apply Hv; right; exact Hd).
    cbn [fold_left]. apply IH.
    + intros d Hd; apply Hv; right; exact Hd.
    + cbn [length] in Hf. lia.
Qed.

Lemma parse_alt_plain v fuel :
  (forall c, In c v -> is_meta c = false) -> (S (length v) < fuel)%nat ->
  parse_alt fuel v = POk (lit_re v) [].
Proof.
  intros Hv Hf. destruct fuel as [|fuel]; [inversion Hf|].
  cbn [parse_alt]. rewrite (parse_cat_plain v fuel REps Hv) by lia. reflexivity.
Qed.

Definition head_split (text : str) : bool * str :=
  match text with 94 :: rest => (true, rest) | _ => (false, text) end.

Lemma re_compile_unfold ci text :
  re_compile ci text =
  let '(st, body) := head_split text in
  let '(en, body) := if ends_with_dollar body then (true, removelast body) else (false, body) in
  if st && match body with 42 :: _ | 43 :: _ | 63 :: _ => true | _ => false end then CUnsupported else
  match parse_alt ((S (S (length body))) * 4)%nat body with
  | POk r [] => if alt_anchor st en r then CUnsupported else CPat (mkPat ci st en r)
  | POk _ (41 :: _) => CInvalid
  | POk _ _ => CUnsupported
  | PErr true => CUnsupported
  | PErr false => CInvalid
  end.
Proof. reflexivity. Qed.

Lemma head_split_plain v :
  (forall c, In c v -> is_meta c = false) -> head_split v = (false, v).
Proof.
  intros Hv. destruct v as [|c v]; [reflexivity|].
  assert (Hm : is_meta c = false) by (apply Hv; left; reflexivity).
  unfold head_split. split_cp c Hm; reflexivity.
Qed.

Lemma ends_with_dollar_plain v :
  (forall c, In c v -> is_meta c = false) -> ends_with_dollar v = false.
Proof.
  intros Hv. unfold ends_with_dollar. destruct (rev v) as [|c l] eqn:E; [reflexivity|].
  assert (Hm : is_meta c = false).
  { apply Hv. apply in_rev. rewrite E. left; reflexivity. }
  split_cp c Hm; reflexivity.
Qed.

(** a text without meta characters compiles to its literal *)
Theorem parse_literal ci v :
  (forall c, In c v -> is_meta c = false) ->
  re_compile ci v = CPat (mkPat ci false false (lit_re v)).
Proof.
  intros Hv. rewrite re_compile_unfold, (head_split_plain v Hv).
  cbv beta iota zeta. rewrite (ends_with_dollar_plain v Hv).
  cbv beta iota zeta. cbn [andb]. rewrite (parse_alt_plain v _ Hv) by lia.
  reflexivity.
Qed.

(** both together: the compiled pattern of a plain text is a substring test *)
Corollary plain_regex_is_contains v x p :
  (forall c, In c v -> is_meta c = false) ->
  re_compile false v = CPat p -> search p x = contains x v.
Proof.
  intros Hv Hc. rewrite (parse_literal false v Hv) in Hc. injection Hc as Hp. subst p.
  apply literal_regex_is_contains.
Qed.

(** * 5. [^lit$] is equality *)

Theorem anchored_literal_is_eq v x :
  search (mkPat false true true (lit_re v)) x = str_eqb x v.
Proof.
  apply bool_eq_iff. rewrite search_spec, str_eqb_eq. cbn [p_ci p_start p_end p_re]. split.
  - intros [pre [mid [post [Hx [Hm [Hs He]]]]]]. apply lit_re_denote_cs in Hm.
    rewrite (Hs eq_refl), (He eq_refl), Hm in Hx. cbn [app] in Hx. rewrite app_nil_r in Hx. exact Hx.
  - intros Hx. exists [], v, []. cbn [app]. rewrite app_nil_r.
    split; [exact Hx|]. split; [apply lit_re_denote_cs; reflexivity|].
    split; intros _; reflexivity.
Qed.

(** * 6. leading / trailing [.*] *)

Theorem trim_dotstar_prefix ci r x en :
  search (mkPat ci false en (RCat (RStar RAny) r)) x = search (mkPat ci false en r) x.
Proof.
  apply bool_eq_iff. rewrite !search_spec. cbn [p_ci p_start p_end p_re]. split.
  - intros [pre [mid [post [Hx [Hm [_ He]]]]]]. cbn [denote] in Hm.
    destruct Hm as [y [z [Hmid [_ Hr]]]]. exists (pre ++ y), z, post.
    split; [subst mid x; rewrite <- !app_assoc; reflexivity|].
    split; [exact Hr|]. split; [intros H; discriminate H|exact He].
  - intros [pre [mid [post [Hx [Hm [_ He]]]]]]. exists pre, mid, post.
    split; [exact Hx|]. split; [|split; [intros H; discriminate H|exact He]].
    cbn [denote]. exists [], mid. split; [reflexivity|]. split; [constructor|exact Hm].
Qed.

Theorem trim_dotstar_suffix ci r x st :
  search (mkPat ci st false (RCat r (RStar RAny))) x = search (mkPat ci st false r) x.
Proof.
  apply bool_eq_iff. rewrite !search_spec. cbn [p_ci p_start p_end p_re]. split.
  - intros [pre [mid [post [Hx [Hm [Hs _]]]]]]. cbn [denote] in Hm.
    destruct Hm as [y [z [Hmid [Hr _]]]]. exists pre, y, (z ++ post).
    split; [subst mid x; rewrite <- !app_assoc; reflexivity|].
    split; [exact Hr|]. split; [exact Hs|intros H; discriminate H].
  - intros [pre [mid [post [Hx [Hm [Hs _]]]]]]. exists pre, mid, post.
    split; [exact Hx|]. split; [|split; [exact Hs|intros H; discriminate H]].
    cbn [denote]. exists mid, []. split; [symmetry; apply app_nil_r|]. split; [exact Hm|constructor].
Qed.

(** * 7. case-insensitive literal *)

Lemma lower_cp_cases c :
  (65 <= c <= 90 /\ lower_cp c = c + 32) \/
  (192 <= c <= 222 /\ c <> 215 /\ lower_cp c = c + 32) \/
  (~ 65 <= c <= 90 /\ ~ (192 <= c <= 222 /\ c <> 215) /\ lower_cp c = c).
Proof.
  unfold lower_cp.
  destruct (N.leb_spec 65 c) as [H1|H1]; destruct (N.leb_spec c 90) as [H2|H2]; cbn [andb];
    try (left; split; [lia|reflexivity]);
    (destruct (N.leb_spec 192 c) as [H3|H3]; destruct (N.leb_spec c 222) as [H4|H4];
     destruct (N.eqb_spec c 215) as [H5|H5]; cbn [andb negb];
     first [ right; left; split; [lia|split; [lia|reflexivity]]
           | right; right; split; [lia|split; [lia|reflexivity]] ]).
Qed.

(** the simple case mapping of the model is idempotent on every code point *)
Lemma lower_cp_idem c : lower_cp (lower_cp c) = lower_cp c.
Proof.
  destruct (lower_cp_cases c) as [[Hr He] | [[Hr [Hn He]] | [Hn1 [Hn2 He]]]]; rewrite He.
  - destruct (lower_cp_cases (c + 32)) as [[Hr' He'] | [[Hr' [Hn' He']] | [_ [_ He']]]];
      [lia|lia|exact He'].
  - destruct (lower_cp_cases (c + 32)) as [[Hr' He'] | [[Hr' [Hn' He']] | [_ [_ He']]]];
      [lia|lia|exact He'].
  - exact He.
Qed.

Lemma lower_idem x : lower (lower x) = lower x.
Proof.
  unfold lower. rewrite map_map. apply map_ext. intros c. apply lower_cp_idem.
Qed.

Lemma lower_app x y : lower (x ++ y) = lower x ++ lower y.
Proof. unfold lower. apply map_app. Qed.

(** holds without any side condition on [v]; the work list's hypothesis is kept
    in [nocase_literal_is_lower_contains] below for the record *)
Theorem nocase_literal_is_lower_contains_strong v x :
  search (mkPat true false false (lit_re v)) x = contains (lower x) (lower v).
Proof.
  apply bool_eq_iff. rewrite search_spec, contains_spec. cbn [p_ci p_start p_end p_re]. split.
  - intros [pre [mid [post [Hx [Hm _]]]]]. apply lit_re_denote_ci in Hm.
    exists (lower pre), (lower post). subst x. rewrite !lower_app, Hm. reflexivity.
  - intros [pre' [post' Hx]]. unfold lower in Hx.
    apply map_eq_app in Hx. destruct Hx as [pre [rest [Hx [Hpre Hrest]]]].
    apply map_eq_app in Hrest. destruct Hrest as [mid [post [Hrest [Hmid Hpost]]]].
    exists pre, mid, post. subst rest. split; [exact Hx|].
    split; [apply lit_re_denote_ci; exact Hmid|]. split; intros H; discriminate H.
Qed.

Theorem nocase_literal_is_lower_contains v x :
  (forall c, In c v -> lower_cp (lower_cp c) = lower_cp c) ->
  search (mkPat true false false (lit_re v)) x = contains (lower x) (lower v).
Proof. intros _. apply nocase_literal_is_lower_contains_strong. Qed.

(** the form the optimiser actually produces: the literal has been lower-cased
    already ([lower val]); here idempotence is what makes it equivalent *)
Corollary nocase_lowered_literal_is_lower_contains v x :
  search (mkPat true false false (lit_re (lower v))) x = contains (lower x) (lower v).
Proof. rewrite nocase_literal_is_lower_contains_strong, lower_idem. reflexivity. Qed.

(** on a lower-cased subject (the [_lc] shadow column) the case-sensitive search
    for the lower-cased literal is the same test *)
Corollary lc_column_literal v x :
  search (mkPat false false false (lit_re (lower v))) (lower x) =
  search (mkPat true false false (lit_re v)) x.
Proof.
  rewrite literal_regex_is_contains, nocase_literal_is_lower_contains_strong. reflexivity.
Qed.

(** * what the optimiser's test does NOT guarantee

    [has_regex_chars] (lmd's hasRegexpCharacters) is not "contains a meta
    character": a host-name like text keeps its dots, and ')' is not in its
    list.  The optimiser nevertheless turns such a text into a substring test,
    which differs from what the regular expression would have done.  These are
    properties of lmd reproduced by the model, stated here so that nobody reads
    [plain_regex_is_contains] as covering them. *)

(** "a.bc" as a regular expression matches "axbc", as a substring it does not *)
Lemma hostdot_not_literal :
  exists v x p, has_regex_chars v = false /\ re_compile false v = CPat p /\
                search p x = true /\ contains x v = false.
Proof.
  exists (s "a.bc"), (s "axbc"), (mkPat false false false (RCat (RCat (RCat (RCat REps (RChar 97)) RAny) (RChar 98)) (RChar 99))).
  vm_compute. repeat split.
Qed.

(** "a)" is not a valid regular expression, the optimiser accepts it as a substring *)
Lemma paren_not_literal :
  exists v, has_regex_chars v = false /\ re_compile false v = CInvalid.
Proof. exists (s "a)"). vm_compute. split; reflexivity. Qed.

(** * summary *)
Print Assumptions matches_correct.
Print Assumptions search_spec.
Print Assumptions contains_spec.
Print Assumptions lit_re_denote_cs.
Print Assumptions literal_regex_is_contains.
Print Assumptions parse_literal.
Print Assumptions plain_regex_is_contains.
Print Assumptions anchored_literal_is_eq.
Print Assumptions trim_dotstar_prefix.
Print Assumptions trim_dotstar_suffix.
Print Assumptions lower_cp_idem.
Print Assumptions nocase_literal_is_lower_contains_strong.
Print Assumptions nocase_literal_is_lower_contains.
Print Assumptions nocase_lowered_literal_is_lower_contains.
Print Assumptions lc_column_literal.
Print Assumptions hostdot_not_literal.
Print Assumptions paren_not_literal.
