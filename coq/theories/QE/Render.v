(** Request.String() / Filter.String(): the textual form lmd generates from a
    parsed request (queries to backends, pass-through tables, cluster sub-requests). *)
From LMD Require Export QE.Parse.
Open Scope N_scope.

(** Operator.String with the case-insensitive spelling for lower-case shadow
    columns (the column is rendered without its _lc suffix, so the operator has
    to carry the case-insensitivity) *)
Definition op_text (o : op) : str :=
  match o with
  | OEq => s "=" | ONe => s "!=" | OEqI => s "=~" | ONeI => s "!=~"
  | ORe => s "~" | ONRe => s "!~" | OReI => s "~~" | ONReI => s "!~~"
  | OCont => s "~" | ONCont => s "!~" | OContI => s "~~" | ONContI => s "!~~"
  | OLt => s "<" | OLe => s "<=" | OGt => s ">" | OGe => s ">=" | OGrpNot => s "!>="
  end.

Definition nocase_variant (o : op) : op :=
  match o with
  | OEq => OEqI | ONe => ONeI
  | ORe => OReI | ONRe => ONReI
  | OCont => OContI | ONCont => ONContI
  | o => o
  end.

Definition is_contains_op (o : op) : bool :=
  match o with OCont | ONCont | OContI | ONContI => true | _ => false end.

(** regexp.QuoteMeta *)
Definition quote_meta (x : str) : str :=
  flat_map (fun c => if existsb (N.eqb c) [92; 46; 43; 42; 63; 40; 41; 124; 91; 93; 123; 125; 94; 36] then [92; c] else [c]) x.

(** quoteOuterBlanks: blanks at the beginning and the end are written as [ ] (the parser trims the header line) *)
Fixpoint drop_blanks (x : str) : str :=
  match x with 32 :: r => drop_blanks r | _ => x end.
Fixpoint repeat_str (n : nat) (t : str) : str :=
  match n with O => [] | S n' => t ++ repeat_str n' t end.
Definition quote_outer_blanks (x : str) : str :=
  let lead := (length x - length (drop_blanks x))%nat in
  let rest := drop_blanks x in
  let inner := rev (drop_blanks (rev rest)) in
  let trail := (length rest - length inner)%nat in
  repeat_str lead [91; 32; 93] ++ inner ++ repeat_str trail [91; 32; 93].

Definition leaf_value_text (l : leaf) : str :=
  let v := if is_contains_op (lf_op l) then quote_outer_blanks (quote_meta (lf_str l)) else lf_str l in
  if lf_empty l then lf_tag l
  else match c_type (lf_col l) with
       | TCustVar => lf_tag l ++ [32] ++ v
       | _ => v
       end.

Definition leaf_text (l : leaf) : str :=
  let name := c_name (lf_col l) in
  let '(name, o) := match has_suffix_lc name with
                    | Some base => (base, nocase_variant (lf_op l))
                    | None => (name, lf_op l)
                    end in
  let v := leaf_value_text l in
  name ++ [32] ++ op_text o ++ (match v with [] => [] | _ => 32 :: v end).

Definition gop_text (g : gop) : str := match g with GAnd => s "And" | GOr => s "Or" end.

(** Filter.String(prefix): postfix notation, [stats] selects the Stats spelling *)
Fixpoint render_filt (stats : bool) (f : filt) : list str :=
  match f with
  | FLeaf l n =>
      ((if stats then s "Stats: " else s "Filter: ") ++ leaf_text l)
      :: (if n then [if stats then s "StatsNegate:" else s "Negate:"] else [])
  | FGroup g fs n =>
      flat_map (render_filt stats) fs
      ++ [(if stats then s "Stats" else []) ++ gop_text g ++ s ": " ++ show_Z (Z.of_nat (length fs))]
      ++ (if n then [if stats then s "StatsNegate:" else s "Negate:"] else [])
  end.

Definition agg_text (k : aggk) : str :=
  match k with AgSum => s "sum" | AgAvg => s "avg" | AgMin => s "min" | AgMax => s "Max" end.

Definition render_stat (st : stat) : list str :=
  match st with
  | SCounter f => render_filt true f
  | SAgg k c => [s "Stats: " ++ agg_text k ++ [32] ++ c_name c]
  end.

Definition dir_text (d : dir) : str := match d with Asc => s "asc" | Desc => s "desc" end.

Definition render_sort (k : sortkey) : str :=
  s "Sort: " ++ sk_name k ++ (match sk_args k with [] => [] | a => 32 :: a end) ++ [32] ++ dir_text (sk_dir k).

Definition t_name_req (r : request) : str := t_name (rq_table r).

Definition render_request (explicit_json : bool) (r : request) : list str :=
  [s "GET " ++ t_name_req r]
  ++ (if rq_fixed16 r then [s "ResponseHeader: fixed16"] else [])
  ++ (match rq_format r with
      | FmtWrapped => [s "OutputFormat: wrapped_json"]
      | FmtJSON => if explicit_json then [s "OutputFormat: json"] else []
      end)
  ++ (match rq_columns r with [] => [] | cols => [s "Columns: " ++ join [32] cols] end)
  ++ (match rq_backends r with [] => [] | ids => [s "Backends: " ++ join [32] ids] end)
  ++ (match rq_limit r with Some l => [s "Limit: " ++ show_Z l] | None => [] end)
  ++ (if Z.ltb 0 (rq_offset r) then [s "Offset: " ++ show_Z (rq_offset r)] else [])
  ++ (if rq_colheaders r then [s "ColumnHeaders: on"] else [])
  ++ (if rq_keepalive r then [s "KeepAlive: on"] else [])
  ++ flat_map (render_filt false) (rq_filter r)
  ++ flat_map render_stat (rq_stats r)
  ++ (match rq_authuser r with [] => [] | u => [s "AuthUser: " ++ u] end)
  ++ map render_sort (rq_sort r).
