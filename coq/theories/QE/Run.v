(** Comparison of the model's response with the implementation's (cases file). *)
From LMD Require Export QE.Engine.
From LMD Require Import Gen.Schema.
Open Scope N_scope.

Inductive obs :=
| OData (rows : list (list value)) (total : option nat) (failed : list str)
| OStats (rows : list (list str * list Z)) (failed : list str)      (* values in 1e-6 units *)
| OError (code : N).

Record qcase := mkQ { q_cfg : config; q_ds : dataset; q_opt : bool; q_lines : list str; q_obs : obs }.

Definition list_eqb {A} (eqb : A -> A -> bool) :=
  fix go (a b : list A) : bool :=
    match a, b with
    | [], [] => true
    | x :: a', y :: b' => eqb x y && go a' b'
    | _, _ => false
    end.

Definition pair_eqb (a b : str * str) : bool := str_eqb (fst a) (fst b) && str_eqb (snd a) (snd b).

Definition value_eqb (a b : value) : bool :=
  match a, b with
  | VStr x, VStr y => str_eqb x y
  | VInt x, VInt y => Z.eqb x y
  | VFloat x, VFloat y => Z.eqb x y
  | VInt x, VFloat y | VFloat y, VInt x => Z.eqb (x * 1000) y
  | VStrList x, VStrList y => list_eqb str_eqb x y
  | VIntList x, VIntList y => list_eqb Z.eqb x y
  | VPairs x, VPairs y => list_eqb pair_eqb x y
  | VRows x, VRows y => list_eqb (list_eqb str_eqb) x y
  | _, _ => false
  end.

Definition keyval_eqb (a b : keyval) : bool := match cmp_key a b with Eq => true | _ => false end.

Definition set_eqb (a b : list str) : bool :=
  forallb (fun x => mem_str x b) a && forallb (fun x => mem_str x a) b.

(** remove the first element satisfying [p] *)
Fixpoint take_first {A} (p : A -> bool) (l : list A) : option (list A) :=
  match l with
  | [] => None
  | x :: rest => if p x then Some rest
                 else match take_first p rest with Some r => Some (x :: r) | None => None end
  end.

(** every observed row is a distinct matching row whose sort keys are the ones
    the reference window has at that position (ties may be resolved freely) *)
Fixpoint rows_ok (pool : list hit) (expected : list hit) (observed : list (list value)) : bool :=
  match expected, observed with
  | [], [] => true
  | e :: erest, o :: orest =>
      match take_first (fun h => list_eqb value_eqb (h_out h) o && list_eqb keyval_eqb (h_keys h) (h_keys e)) pool with
      | Some pool' => rows_ok pool' erest orest
      | None => false
      end
  | _, _ => false
  end.

(** observed numbers went through float64 (about 15 significant digits): accept
    one micro unit plus a relative error of 2^-40 *)
Definition tol (o : Z) : Z := 1 + Z.abs o / 1099511627776.

Definition statval_ok (e : statval) (o : Z) : bool :=
  match e with
  | SVal m => Z.leb (Z.abs (m * 1000 - o)) (tol o)
  | SAvg sm cnt => Z.leb (Z.abs (sm * 1000 - o * cnt)) (Z.abs cnt * tol o + 1)
  end.

Fixpoint stats_ok (expected : keyed (list statval)) (observed : list (list str * list Z)) : bool :=
  match expected with
  | [] => match observed with [] => true | _ => false end
  | (k, vals) :: rest =>
      match take_first (fun o => key_eqb (fst o) k
                                 && Nat.eqb (length (snd o)) (length vals)
                                 && forallb (fun p => statval_ok (fst p) (snd p)) (combine vals (snd o))) observed with
      | Some observed' => stats_ok rest observed'
      | None => false
      end
  end.

Inductive verdict := Agree | Skip | Differ.

Definition compare (schema : list tschema) (c : qcase) : verdict :=
  match parse_request schema (q_opt c) (q_lines c) with
  | Err Unsupported => Skip
  | Err BadRequest => match q_obs c with OError 400 => Agree | _ => Differ end
  | Ok rq =>
      if t_passthrough (rq_table rq) then Skip else
      (* no Columns header = every column of the table, including time dependent
         and nested ones the model does not render: outside the fragment *)
      if (match rq_columns rq, rq_stats rq with [], [] => true | _, _ => false end) then Skip else
      match respond_req schema (q_cfg c) (q_ds c) rq, q_obs c with
      | RError a, OError b => if N.eqb a b then Agree else Differ
      | RData rows keys total failed, OData orows ototal ofailed =>
          let '(exp_hits, _) := data_result schema (q_cfg c) (q_ds c) rq in
          let pool := spec_hits schema (q_cfg c) (q_ds c) rq in
          if rows_ok pool exp_hits orows
             && match ototal with Some t => Nat.eqb t total | None => true end
             && match ototal with Some _ => set_eqb failed ofailed | None => true end
          then Agree else Differ
      | RStats rows failed, OStats orows ofailed =>
          if stats_ok rows orows then Agree else Differ
      | _, _ => Differ
      end
  end.

Fixpoint mismatches_from (schema : list tschema) (i : nat) (cs : list qcase) : list (nat * unit) :=
  match cs with
  | [] => []
  | c :: rest =>
      (match compare schema c with
       | Differ => [(i, tt)]
       | _ => []
       end) ++ mismatches_from schema (S i) rest
  end.

(** what the model answers (printed on demand when replaying a single case) *)
Definition model_answer (c : qcase) : response :=
  respond schema (q_cfg c) (q_ds c) (q_opt c) (q_lines c).

Definition mismatches (cs : list qcase) := mismatches_from schema 0 cs.

Definition skipped (cs : list qcase) : nat :=
  length (filter (fun c => match compare schema c with Skip => true | _ => false end) cs).
