(** Types of the generated schema (Gen/Schema.v is printed from Objects.Tables). *)
From LMD Require Export Base.Str.

Inductive dtype := TStr | TStrList | TInt | TInt64 | TInt64List | TFloat | TJSON | TCustVar
                 | TSvcMemberList | TIfaceList | TStrLarge.
Inductive storage := SLocal | SRef | SVirtual.
Inductive fetch := FStatic | FDynamic | FNone.

Record column := mkCol {
  c_name : str; c_type : dtype; c_store : storage; c_fetch : fetch;
  c_opt : N;                       (* OptionalFlags bit mask, 0 = always present *)
  c_ref : option (str * str) }.    (* RefStore: (table, column) *)

Record tschema := mkTable {
  t_name : str; t_aliases : list str; t_pk : list str; t_sort : list str;
  t_passthrough : bool; t_virtual : bool;
  t_refs : list (str * list str);  (* referenced table, local key columns *)
  t_cols : list column }.

Definition dtype_eqb (a b : dtype) : bool :=
  match a, b with
  | TStr, TStr | TStrList, TStrList | TInt, TInt | TInt64, TInt64 | TInt64List, TInt64List
  | TFloat, TFloat | TJSON, TJSON | TCustVar, TCustVar | TSvcMemberList, TSvcMemberList
  | TIfaceList, TIfaceList | TStrLarge, TStrLarge => true
  | _, _ => false
  end.

Definition find_table (schema : list tschema) (name : str) : option tschema :=
  find (fun t => mem_str name (t_aliases t)) schema.

Definition find_col (t : tschema) (name : str) : option column :=
  find (fun c => str_eqb (c_name c) name) (t_cols t).
