(** The grouped statistics program: Request.optimizeStatsGroups (request.go),
    isGroupableStats, optimizeStatsGroupsRecurse, removeFirstStatsFilter,
    Filter.Equals (filter.go) and DataRow.CountStats (datarow.go) on
    [req.StatsGrouped].  Definitions only, everything executable; the proofs
    are in StatsOptProofs.v.

    Engine.v never groups: a row is counted with [map2 (count_row x) prog accs].
    The implementation groups neighbouring [StatsAnd] blocks that start with the
    same leaf and evaluates that leaf once per row ([gatherStatsResult] runs
    [CountStats] over [req.StatsGrouped] when it is not nil).

    Reading of the Go code that this file transcribes (tree as of the fixes of
    D10/D11/D12/D24/D25 and of the isEmpty comparison, commit ad44405):

    - [NewRequest]: [req.StatsGrouped = optimizeStatsGroups(cloneFilterList(req.Stats), true)];
      the clone is deep, so the in place updates of the optimiser touch no node
      that [req.Stats] can reach and no node is shared between two elements.
      All slices that are appended to are fresh, nothing is aliased.
    - every node of a tree on the Stats stack has [statsType = Counter] in the
      modelled fragment ([Parse.group_stats] rejects aggregates below a
      [StatsAnd]/[StatsOr]), leaves have [groupOperator = 0] and no children,
      groups have [column = nil], [operator = 0], empty strings and
      [floatValue = 0].  So the comparison of [statsType] inside [Equals] never
      decides anything and [Equals] of a group with a leaf is false.
    - [Equals] is only ever applied to first members that no pass has touched
      yet (a node becomes a [StatsGroup] only after it was compared).
    - column pointers: all filters of a request are resolved against one table,
      there two columns are the same pointer iff they have the same name, i.e.
      iff the model's records are equal - EXCEPT the placeholder for unknown
      columns: [Table.GetEmptyColumn] allocates a new [Column] on every call, so
      two filters on unknown columns never have the same pointer ([col_same]). *)
From LMD Require Export QE.Engine.
Open Scope nat_scope.

(** *** the grouped program *)
Inductive gstat :=
| GPlain (pos : nat) (st : stat)                          (* statsPos and the node *)
| GGroup (guard : leaf) (guard_neg : bool) (subs : list gstat).   (* statsType = StatsGroup *)

(** *** comparisons *)
Definition op_eq_dec (a b : op) : {a = b} + {a <> b}.
Proof. decide equality. Defined.

Definition column_eq_dec (a b : column) : {a = b} + {a <> b}.
Proof. repeat decide equality. Defined.

Definition op_eqb (a b : op) : bool := if op_eq_dec a b then true else false.
Definition column_eqb (a b : column) : bool := if column_eq_dec a b then true else false.
Definition gop_eqb (a b : gop) : bool :=
  match a, b with GAnd, GAnd | GOr, GOr => true | _, _ => false end.

(** [a.column == b.column] on [*Column] *)
Definition col_same (a b : column) : bool :=
  column_eqb a b && negb (column_eqb a empty_column).

(** "append to previous group?": the switch of optimizeStatsGroups compares
    column, operator, stringVal, negate, customTag and isEmpty of the group node
    with the first member of the element ([len(firstFilter.filter) != 0] is the
    [FLeaf] pattern at the call site) *)
Definition guard_same (gl : leaf) (gn : bool) (l : leaf) (n : bool) : bool :=
  col_same (lf_col gl) (lf_col l) && op_eqb (lf_op gl) (lf_op l)
  && str_eqb (lf_str gl) (lf_str l) && Bool.eqb gn n && str_eqb (lf_tag gl) (lf_tag l)
  && Bool.eqb (lf_empty gl) (lf_empty l).

(** Filter.Equals on two leaves: column, operator, stringVal, customTag, isEmpty,
    negate, floatValue ([lf_num] is the model's copy of it); statsType,
    groupOperator and the (empty) child lists agree anyway.  NOT compared:
    regexp, intValue/int64Value. *)
Definition leaf_equals (l : leaf) (n : bool) (l' : leaf) (n' : bool) : bool :=
  col_same (lf_col l) (lf_col l') && op_eqb (lf_op l) (lf_op l')
  && str_eqb (lf_str l) (lf_str l') && str_eqb (lf_tag l) (lf_tag l')
  && Bool.eqb (lf_empty l) (lf_empty l')
  && Bool.eqb n n' && Z.eqb (lf_num l) (lf_num l').

(** Filter.Equals on trees *)
Fixpoint filt_equals (a b : filt) : bool :=
  match a, b with
  | FLeaf l n, FLeaf l' n' => leaf_equals l n l' n'
  | FGroup g fs n, FGroup g' fs' n' =>
      Bool.eqb n n' && gop_eqb g g'
      && (fix go (xs ys : list filt) : bool :=
            match xs, ys with
            | [], [] => true
            | x :: xs', y :: ys' => filt_equals x y && go xs' ys'
            | _, _ => false
            end) fs fs'
  | _, _ => false       (* column nil against a column *)
  end.

(** *** isGroupableStats: a counter without column, And, not negated, at least
    two members; returns statsPos, the first member and the other members.
    (A [GGroup] has statsType StatsGroup, an aggregate has a column.) *)
Definition groupable_parts (e : gstat) : option (nat * filt * list filt) :=
  match e with
  | GPlain pos (SCounter (FGroup GAnd (f :: fs) false)) =>
      if 1 <=? length fs then Some (pos, f, fs) else None
  | _ => None
  end.

(** removeFirstStatsFilter, given what is left behind the first member: more
    than one member keeps the And node, exactly one is promoted to a counter of
    its own that inherits the position.  (No member left cannot happen behind
    isGroupableStats; Go would panic, the model keeps the empty And.) *)
Definition remove_first (pos : nat) (fs : list filt) : gstat :=
  match fs with
  | [c] => GPlain pos (SCounter c)
  | _ => GPlain pos (SCounter (FGroup GAnd fs false))
  end.

(** *** the walk.  [groupedStats] and the register [lastGroup]: everything in
    front of the node [lastGroup] points to, and, if it is set, its guard, its
    members and what was emitted behind it since. *)
Inductive ostate :=
| OS (done : list gstat) (cur : option (leaf * bool * list gstat * list gstat)).

Definition fin (st : ostate) : list gstat :=
  match st with
  | OS d None => d
  | OS d (Some (l, n, subs, post)) => d ++ GGroup l n subs :: post
  end.

(** [groupedStats = append(groupedStats, stat)] *)
Definition emit (e : gstat) (st : ostate) : ostate :=
  match st with
  | OS d None => OS (d ++ [e]) None
  | OS d (Some (l, n, subs, post)) => OS d (Some (l, n, subs, post ++ [e]))
  end.

(** [lastGroup.filter = append(lastGroup.filter, removeFirstStatsFilter(stat))] when the
    first member has the fields of the group node *)
Definition try_append (st : ostate) (pos : nat) (f : filt) (fs : list filt) : option ostate :=
  match st, f with
  | OS d (Some (gl, gn, subs, post)), FLeaf l n =>
      if guard_same gl gn l n then Some (OS d (Some (gl, gn, subs ++ [remove_first pos fs], post)))
      else None
  | _, _ => None
  end.

Section Walk.
  (** the recursive call [optimizeStatsGroups(lastGroup.filter, false)] *)
  Variable rec : list gstat -> option (list gstat).

  (** optimizeStatsGroupsRecurse *)
  Definition regroup (st : ostate) : ostate :=
    match st with
    | OS d (Some (l, n, subs, post)) =>
        OS d (Some (l, n, match rec subs with Some g => g | None => subs end, post))
    | _ => st
    end.

  (** one iteration of the loop; [next] is [stats[idx+1]] if there is one *)
  Definition step (e : gstat) (next : option gstat) (st : ostate) : ostate :=
    match groupable_parts e with
    | None => emit e st
    | Some (pos, f, fs) =>
        match try_append st pos f fs with
        | Some st' => st'
        | None =>
            let st := regroup st in
            match next with
            | None => emit e st
            | Some nx =>
                match groupable_parts nx, f with
                | Some (_, f', _), FLeaf l n =>
                    if filt_equals f' f
                    then OS (fin st) (Some (l, n, [remove_first pos fs], []))
                    else emit e st
                | _, _ => emit e st
                end
            end
        end
    end.

  Fixpoint walk (es : list gstat) (st : ostate) : ostate :=
    match es with
    | [] => st
    | e :: rest => walk rest (step e (hd_error rest) st)
    end.

  Definition opt_level (es : list gstat) : option (list gstat) :=
    if length es <=? 1 then None
    else Some (fin (regroup (walk es (OS [] None)))).
End Walk.

(** optimizeStatsGroups(stats, false); the recursion is not structural (it runs
    over the members of the groups it has just built), hence the fuel.  Without
    fuel the members stay as they are. *)
Fixpoint opt (fuel : nat) (es : list gstat) : option (list gstat) :=
  match fuel with
  | O => None
  | S fuel' => opt_level (opt fuel') es
  end.

(** [stat.statsPos = idx] (renumber = true happens only at the top) *)
Fixpoint number_from (i : nat) (prog : list stat) : list gstat :=
  match prog with
  | [] => []
  | st :: rest => GPlain i st :: number_from (S i) rest
  end.

Fixpoint filt_size (f : filt) : nat :=
  match f with
  | FLeaf _ _ => 1
  | FGroup _ fs _ => S (fold_right (fun f n => filt_size f + n) 0 fs)
  end.

Definition stat_size (st : stat) : nat :=
  match st with SCounter f => filt_size f | SAgg _ _ => 1 end.

(** every level of the recursion strips one node of every member, so the size
    of the largest element bounds the depth *)
Definition prog_fuel (prog : list stat) : nat :=
  S (fold_right (fun st n => Nat.max (stat_size st) n) 0 prog).

(** [req.StatsGrouped]: None is Go's nil (CountStats then runs over req.Stats) *)
Definition optimize (prog : list stat) : option (list gstat) :=
  opt (prog_fuel prog) (number_from 0 prog).

(** one level only: the members of the groups are never regrouped *)
Definition optimize1 (prog : list stat) : option (list gstat) :=
  opt 1 (number_from 0 prog).

(** *** DataRow.CountStats over the grouped program *)
Fixpoint upd {A} (i : nat) (f : A -> A) (l : list A) : list A :=
  match l, i with
  | [], _ => []
  | a :: r, O => f a :: r
  | a :: r, S i' => a :: upd i' f r
  end.

(** [resultPos] is the loop index unless [statsPos > 0] *)
Definition slot_of (pos idx : nat) : nat := if 0 <? pos then pos else idx.

Definition guard_holds (x : rowctx) (l : leaf) (n : bool) : bool :=
  match_filter x (FLeaf l n) false.

Fixpoint count_elem (x : rowctx) (e : gstat) (idx : nat) (accs : list acc) : list acc :=
  match e with
  | GPlain pos st => upd (slot_of pos idx) (count_row x st) accs
  | GGroup l n subs =>
      if guard_holds x l n
      then (fix go (es : list gstat) (j : nat) (accs : list acc) : list acc :=
              match es with
              | [] => accs
              | e' :: r => go r (S j) (count_elem x e' j accs)
              end) subs 0 accs
      else accs
  end.

Fixpoint count_from (x : rowctx) (es : list gstat) (j : nat) (accs : list acc) : list acc :=
  match es with
  | [] => accs
  | e :: r => count_from x r (S j) (count_elem x e j accs)
  end.

Definition count_grouped (x : rowctx) (prog : list gstat) (accs : list acc) : list acc :=
  count_from x prog 0 accs.

(** what gatherStatsResult does with one row of a request parsed with
    ParseOptimize (without it StatsGrouped stays nil and nothing is grouped) *)
Definition count_stats (x : rowctx) (prog : list stat) (accs : list acc) : list acc :=
  match optimize prog with
  | Some g => count_grouped x g accs
  | None => map2 (count_row x) prog accs
  end.

(** *** the side condition of the soundness theorem, executable.
    The optimiser decides with [leaf_key_same] (plus the negation flag, and
    floatValue inside Equals) that two first members are "the same filter";
    the compiled regexp is not looked at.  [coherentb x prog]
    checks on the row [x] that leaves of [prog] with the same key match alike. *)
Definition leaf_key_same (a b : leaf) : bool :=
  col_same (lf_col a) (lf_col b) && op_eqb (lf_op a) (lf_op b)
  && str_eqb (lf_str a) (lf_str b) && str_eqb (lf_tag a) (lf_tag b)
  && Bool.eqb (lf_empty a) (lf_empty b).

Fixpoint filt_leaves (f : filt) : list leaf :=
  match f with
  | FLeaf l _ => [l]
  | FGroup _ fs _ => flat_map filt_leaves fs
  end.

Definition stat_leaves (st : stat) : list leaf :=
  match st with SCounter f => filt_leaves f | SAgg _ _ => [] end.

Definition prog_leaves (prog : list stat) : list leaf := flat_map stat_leaves prog.

Definition coherentb (x : rowctx) (prog : list stat) : bool :=
  let ls := prog_leaves prog in
  forallb (fun a => forallb (fun b => implb (leaf_key_same a b)
                                            (Bool.eqb (leaf_match x a) (leaf_match x b))) ls) ls.

(** *** the shape the harness dumps from [req.StatsGrouped]: slots and nesting,
    for a kept block the number of members that are left *)
Inductive gshape :=
| ShPlain (pos : nat) (members : nat)      (* members: 0 = leaf or aggregate *)
| ShGroup (subs : list gshape).

Definition members_of (st : stat) : nat :=
  match st with SCounter (FGroup _ fs _) => length fs | _ => 0 end.

Fixpoint shape_of (e : gstat) : gshape :=
  match e with
  | GPlain pos st => ShPlain pos (members_of st)
  | GGroup _ _ subs => ShGroup (map shape_of subs)
  end.

Definition shapes (g : option (list gstat)) : option (list gshape) :=
  match g with Some l => Some (map shape_of l) | None => None end.
