(** Grouping of similar Stats blocks (StatsOpt.v) does not change any number. *)
From LMD Require Import QE.Engine QE.FilterProofs C05.Proofs QE.StatsOpt.
From Coq Require Import Permutation.
Open Scope nat_scope.

(** * induction over the nested type [gstat] *)
Section GstatInd.
  Variable P : gstat -> Prop.
  Hypothesis Hplain : forall pos st, P (GPlain pos st).
  Hypothesis Hgroup : forall l n subs, Forall P subs -> P (GGroup l n subs).
  Fixpoint gstat_ind' (e : gstat) : P e :=
    match e with
    | GPlain pos st => Hplain pos st
    | GGroup l n subs =>
        Hgroup l n subs
          ((fix go (es : list gstat) : Forall P es :=
              match es with
              | [] => Forall_nil P
              | e' :: r => Forall_cons e' (gstat_ind' e') (go r)
              end) subs)
    end.
End GstatInd.

(** * a conjunction of [a] and the rest: the only fact about filters that is needed *)
Lemma match_and_cons x f fs :
  match_filter x (FGroup GAnd (f :: fs) false) false =
  match_filter x f false && match_filter x (FGroup GAnd fs false) false.
Proof. reflexivity. Qed.

Lemma match_and_single x c :
  match_filter x (FGroup GAnd [c] false) false = match_filter x c false.
Proof. cbn [match_filter xorb forallb]. apply andb_true_r. Qed.

(** the same in terms of the literal semantics *)
Lemma sem_and_cons x f fs :
  sem x (FGroup GAnd (f :: fs) false) = sem x f && sem x (FGroup GAnd fs false).
Proof. rewrite <- !match_filter_top. apply match_and_cons. Qed.

(** * updates of accumulator lists *)
Lemma upd_length {A} i (f : A -> A) l : length (upd i f l) = length l.
Proof. revert i; induction l as [|a l IH]; intros [|i]; cbn [upd length]; try reflexivity. rewrite IH; reflexivity. Qed.

Lemma upd_ext {A} i (f g : A -> A) l : (forall a, f a = g a) -> upd i f l = upd i g l.
Proof.
  intros Hfg. revert i; induction l as [|a l IH]; intros [|i]; cbn [upd]; try reflexivity.
  - rewrite Hfg; reflexivity.
  - rewrite IH; reflexivity.
Qed.

Lemma upd_id {A} i (l : list A) : upd i (fun a => a) l = l.
Proof. revert i; induction l as [|a l IH]; intros [|i]; cbn [upd]; try reflexivity. rewrite IH; reflexivity. Qed.

Lemma upd_comm {A} i j (f g : A -> A) l : i <> j -> upd i f (upd j g l) = upd j g (upd i f l).
Proof.
  revert i j; induction l as [|a l IH]; intros [|i] [|j] Hne; cbn [upd]; try reflexivity; try congruence.
  rewrite IH by congruence. reflexivity.
Qed.

Lemma upd_app_len {A} (f : A -> A) pre a l : upd (length pre) f (pre ++ a :: l) = pre ++ f a :: l.
Proof. induction pre as [|b pre IH]; cbn [length app upd]; [reflexivity|]. rewrite IH; reflexivity. Qed.

(** * what one element does with a row: the entries (slot, action) *)
Definition action := option (option aggk * Z).

Definition act (x : rowctx) (st : stat) : action :=
  match st with
  | SCounter f => if match_filter x f false then Some (None, 0%Z) else None
  | SAgg k c => Some (Some k, float_of (get_chk (x_schema x) (x_bk x) (x_table x) (x_data x) (x_row x) c))
  end.

Definition apply_act (a : action) (ac : acc) : acc :=
  match a with
  | None => ac
  | Some (k, v) => apply_value k ac v 1
  end.

Lemma count_row_act x st a : count_row x st a = apply_act (act x st) a.
Proof. destruct st as [f|k c]; cbn [count_row act]; [destruct (match_filter x f false)|]; reflexivity. Qed.

Notation entry := (nat * action)%type.
Definition mute (e : entry) : entry := (fst e, None).

Fixpoint sf (x : rowctx) (e : gstat) : list entry :=
  match e with
  | GPlain pos st => [(pos, act x st)]
  | GGroup l n subs =>
      let inner := flat_map (sf x) subs in
      if guard_holds x l n then inner else map mute inner
  end.

Definition sfl (x : rowctx) (es : list gstat) : list entry := flat_map (sf x) es.

Definition run (ens : list entry) (accs : list acc) : list acc :=
  fold_left (fun a e => upd (fst e) (apply_act (snd e)) a) ens accs.

Lemma sfl_app x a b : sfl x (a ++ b) = sfl x a ++ sfl x b.
Proof. apply flat_map_app. Qed.

Lemma sfl_cons x e es : sfl x (e :: es) = sf x e ++ sfl x es.
Proof. reflexivity. Qed.

Lemma run_app a b accs : run (a ++ b) accs = run b (run a accs).
Proof. apply fold_left_app. Qed.

Lemma run_mute l accs : run (map mute l) accs = accs.
Proof.
  revert accs; induction l as [|e l IH]; intros accs; cbn [map run fold_left]; [reflexivity|].
  cbn [mute fst snd apply_act]. rewrite upd_id. apply IH.
Qed.

Lemma map_fst_mute l : map fst (map mute l) = map fst l.
Proof. rewrite map_map. reflexivity. Qed.

(** the slots an element writes do not depend on the row *)
Fixpoint slots (e : gstat) : list nat :=
  match e with
  | GPlain pos _ => [pos]
  | GGroup _ _ subs => flat_map slots subs
  end.

Lemma sf_slots x e : map fst (sf x e) = slots e.
Proof.
  induction e as [pos st|l n subs IH] using gstat_ind'; [reflexivity|].
  cbn [sf slots].
  assert (H : map fst (flat_map (sf x) subs) = flat_map slots subs).
  { induction IH as [|e0 r He _ IHs]; cbn [flat_map]; [reflexivity|].
    rewrite map_app. f_equal; [exact He|exact IHs]. }
  destruct (guard_holds x l n); [exact H|]. rewrite map_fst_mute; exact H.
Qed.

Lemma sfl_slots x es : map fst (sfl x es) = flat_map slots es.
Proof.
  induction es as [|e es IH]; [reflexivity|].
  rewrite sfl_cons, map_app, sf_slots, IH. reflexivity.
Qed.

(** the order of the entries is irrelevant as long as no slot is written twice *)
Lemma run_perm l1 l2 :
  Permutation l1 l2 -> NoDup (map fst l1) -> forall accs, run l1 accs = run l2 accs.
Proof.
  induction 1 as [|e l1 l2 Hp IH|a b l|l1 l2 l3 Hp1 IH1 Hp2 IH2]; intros Hnd accs.
  - reflexivity.
  - cbn [run fold_left]. apply IH. cbn [map] in Hnd. inversion Hnd; assumption.
  - cbn [run fold_left]. cbn [map] in Hnd.
    rewrite upd_comm; [reflexivity|].
    inversion Hnd as [|? ? Hnotin _]; subst. intros Heq. apply Hnotin. left. exact Heq.
  - rewrite IH1 by exact Hnd. apply IH2.
    eapply Permutation_NoDup; [|exact Hnd]. apply Permutation_map; exact Hp1.
Qed.

(** * CountStats and the entries *)
Lemma count_elem_group x l n subs idx accs :
  count_elem x (GGroup l n subs) idx accs =
  if guard_holds x l n then count_from x subs 0 accs else accs.
Proof.
  cbn [count_elem]. destruct (guard_holds x l n); [|reflexivity].
  generalize 0 as j. revert accs. induction subs as [|e subs IH]; intros accs j; cbn [count_from]; [reflexivity|].
  apply IH.
Qed.

(** predicates over all positions and all leaves of a grouped program *)
Section All.
  Variable Pp : nat -> Prop.
  Variable Pl : leaf -> Prop.

  Fixpoint fall (f : filt) : Prop :=
    match f with
    | FLeaf l _ => Pl l
    | FGroup _ fs _ =>
        (fix go (fs : list filt) : Prop :=
           match fs with [] => True | f' :: r => fall f' /\ go r end) fs
    end.

  Lemma fall_group g fs n : fall (FGroup g fs n) <-> Forall fall fs.
  Proof.
    cbn [fall]. induction fs as [|f fs IH]; [split; [constructor|trivial]|].
    split.
    - intros [Hf Hr]. constructor; [exact Hf|apply IH; exact Hr].
    - intros H. inversion H; subst. split; [assumption|apply IH; assumption].
  Qed.

  Definition sall (st : stat) : Prop :=
    match st with SCounter f => fall f | SAgg _ _ => True end.

  Fixpoint gall (e : gstat) : Prop :=
    match e with
    | GPlain pos st => Pp pos /\ sall st
    | GGroup l _ subs =>
        Pl l /\ (fix go (es : list gstat) : Prop :=
                   match es with [] => True | e' :: r => gall e' /\ go r end) subs
    end.

  Lemma gall_group l n subs : gall (GGroup l n subs) <-> Pl l /\ Forall gall subs.
  Proof.
    cbn [gall]. apply and_iff_compat_l.
    induction subs as [|e subs IH]; [split; [constructor|trivial]|].
    split.
    - intros [He Hr]. constructor; [exact He|apply IH; exact Hr].
    - intros H. inversion H; subst. split; [assumption|apply IH; assumption].
  Qed.
End All.

(** no position 0 anywhere inside *)
Definition nz : gstat -> Prop := gall (fun p => p <> 0) (fun _ => True).

(** position 0, if it occurs, is the first element of the list, at every level *)
Fixpoint zfh (e : gstat) : Prop :=
  match e with
  | GPlain _ _ => True
  | GGroup _ _ subs =>
      match subs with
      | [] => True
      | m :: r => zfh m /\ Forall nz r
      end
  end.

Definition zfl (es : list gstat) : Prop :=
  match es with
  | [] => True
  | e :: r => zfh e /\ Forall nz r
  end.

Lemma zfh_group l n subs : zfh (GGroup l n subs) = zfl subs.
Proof. reflexivity. Qed.

Lemma nz_zfh e : nz e -> zfh e.
Proof.
  induction e as [pos st|l n subs IH] using gstat_ind'; intros Hnz; [exact I|].
  apply gall_group in Hnz. destruct Hnz as [_ Hsubs].
  rewrite zfh_group. destruct subs as [|m r]; [exact I|].
  inversion Hsubs; subst. inversion IH; subst. split; [auto|assumption].
Qed.

Lemma count_plain_run x pos st idx accs :
  slot_of pos idx = pos -> count_elem x (GPlain pos st) idx accs = run (sf x (GPlain pos st)) accs.
Proof.
  intros Hs. cbn [count_elem sf run fold_left fst snd]. rewrite Hs.
  apply upd_ext. intros a. apply count_row_act.
Qed.

Lemma count_nz x e : nz e -> forall idx accs, count_elem x e idx accs = run (sf x e) accs.
Proof.
  induction e as [pos st|l n subs IH] using gstat_ind'; intros Hnz idx accs.
  - apply count_plain_run. destruct Hnz as [Hpos _]. unfold slot_of.
    destruct (Nat.ltb_spec 0 pos); [reflexivity|lia].
  - apply gall_group in Hnz. destruct Hnz as [_ Hsubs].
    rewrite count_elem_group. cbn [sf]. destruct (guard_holds x l n); [|rewrite run_mute; reflexivity].
    generalize 0 as j. revert accs Hsubs.
    induction IH as [|e0 r He0 _ IHr]; intros accs Hsubs j; cbn [count_from flat_map]; [reflexivity|].
    inversion Hsubs as [|? ? Hn0 Hnr]; subst.
    rewrite run_app, <- (He0 Hn0 j accs). apply IHr; exact Hnr.
Qed.

Lemma count_from_nz x es : Forall nz es -> forall j accs, count_from x es j accs = run (sfl x es) accs.
Proof.
  induction 1 as [|e es He _ IH]; intros j accs; cbn [count_from]; [reflexivity|].
  rewrite sfl_cons, run_app, <- (count_nz x e He j). apply IH.
Qed.

Lemma count_zfh x e : zfh e -> forall accs, count_elem x e 0 accs = run (sf x e) accs.
Proof.
  induction e as [pos st|l n subs IH] using gstat_ind'; intros Hz accs.
  - apply count_plain_run. unfold slot_of. destruct (Nat.ltb_spec 0 pos); [reflexivity|lia].
  - rewrite count_elem_group. cbn [sf]. destruct (guard_holds x l n); [|rewrite run_mute; reflexivity].
    rewrite zfh_group in Hz. destruct subs as [|m r]; [reflexivity|].
    destruct Hz as [Hm Hr]. inversion IH as [|? ? IHm _]; subst.
    cbn [count_from flat_map]. rewrite run_app, <- (IHm Hm accs). apply count_from_nz; exact Hr.
Qed.

Lemma count_zfl x es : zfl es -> forall accs, count_grouped x es accs = run (sfl x es) accs.
Proof.
  intros Hz accs. unfold count_grouped. destruct es as [|e r]; [reflexivity|].
  destruct Hz as [He Hr]. cbn [count_from]. rewrite sfl_cons, run_app, <- (count_zfh x e He).
  apply count_from_nz; exact Hr.
Qed.

(** * the walk, case by case *)
Lemma groupable_parts_inv e pos f fs :
  groupable_parts e = Some (pos, f, fs) ->
  e = GPlain pos (SCounter (FGroup GAnd (f :: fs) false)) /\ 1 <= length fs.
Proof.
  unfold groupable_parts.
  destruct e as [p [ff|k c]|l n subs]; try discriminate.
  destruct ff as [l n|g fs' n]; try discriminate.
  destruct g; try discriminate.
  destruct fs' as [|f0 r]; try discriminate.
  destruct n; try discriminate.
  destruct (Nat.leb_spec 1 (length r)) as [Hle|Hgt]; [|discriminate].
  intros H; inversion H; subst. split; [reflexivity|exact Hle].
Qed.

(** the four things one iteration can do *)
Inductive step_spec (rec : list gstat -> option (list gstat)) (e : gstat) (st : ostate) : ostate -> Prop :=
| SS_emit : groupable_parts e = None -> step_spec rec e st (emit e st)
| SS_append pos l n fs d gl gn subs post :
    groupable_parts e = Some (pos, FLeaf l n, fs) ->
    st = OS d (Some (gl, gn, subs, post)) ->
    guard_same gl gn l n = true ->
    step_spec rec e st (OS d (Some (gl, gn, subs ++ [remove_first pos fs], post)))
| SS_pass pos f fs :
    groupable_parts e = Some (pos, f, fs) -> step_spec rec e st (emit e (regroup rec st))
| SS_open pos l n fs :
    groupable_parts e = Some (pos, FLeaf l n, fs) ->
    step_spec rec e st (OS (fin (regroup rec st)) (Some (l, n, [remove_first pos fs], []))).

Lemma step_ok rec e next st : step_spec rec e st (step rec e next st).
Proof.
  unfold step. destruct (groupable_parts e) as [[[pos f] fs]|] eqn:Hg; [|apply SS_emit; exact Hg].
  destruct (try_append st pos f fs) as [st'|] eqn:Ha.
  - unfold try_append in Ha. destruct st as [d [[[[gl gn] subs] post]|]]; [|discriminate].
    destruct f as [l n|g0 fs0 n0]; [|discriminate].
    destruct (guard_same gl gn l n) eqn:Hs; [|discriminate].
    inversion Ha; subst. eapply SS_append; [exact Hg|reflexivity|exact Hs].
  - destruct next as [nx|]; [|eapply SS_pass; exact Hg].
    destruct (groupable_parts nx) as [[[p' f'] fs']|]; [|eapply SS_pass; exact Hg].
    destruct f as [l n|g0 fs0 n0]; [|eapply SS_pass; exact Hg].
    destruct (filt_equals f' (FLeaf l n)); [eapply SS_open; exact Hg|eapply SS_pass; exact Hg].
Qed.

Lemma fin_emit e st : fin (emit e st) = fin st ++ [e].
Proof.
  destruct st as [d [[[[l n] subs] post]|]]; cbn [emit fin]; [|reflexivity].
  rewrite <- app_assoc. reflexivity.
Qed.

(** * every position and every leaf of the result comes from the input *)
Section Preserve.
  Variable Pp : nat -> Prop.
  Variable Pl : leaf -> Prop.
  Notation G := (gall Pp Pl).
  Variable rec : list gstat -> option (list gstat).
  Hypothesis Hrec : forall l g, Forall G l -> rec l = Some g -> Forall G g.

  Lemma remove_first_all pos fs : Pp pos -> Forall (fall Pl) fs -> G (remove_first pos fs).
  Proof.
    intros Hp Hfs. unfold remove_first. destruct fs as [|c [|c' r]]; cbn [gall sall]; (split; [exact Hp|]).
    - apply fall_group; constructor.
    - inversion Hfs; assumption.
    - apply fall_group; exact Hfs.
  Qed.

  Lemma parts_all e pos f fs :
    groupable_parts e = Some (pos, f, fs) -> G e -> Pp pos /\ fall Pl f /\ Forall (fall Pl) fs.
  Proof.
    intros Hg He. apply groupable_parts_inv in Hg as [-> _].
    destruct He as [Hp Hs]. cbn [sall] in Hs. apply fall_group in Hs. inversion Hs; subst. auto.
  Qed.

  Lemma fin_group_all d l n subs post :
    Forall G (d ++ GGroup l n subs :: post) <-> Forall G d /\ Pl l /\ Forall G subs /\ Forall G post.
  Proof.
    rewrite Forall_app, Forall_cons_iff, gall_group. tauto.
  Qed.

  Lemma regroup_all st : Forall G (fin st) -> Forall G (fin (regroup rec st)).
  Proof.
    destruct st as [d [[[[l n] subs] post]|]]; cbn [regroup fin]; [|trivial].
    rewrite !fin_group_all. intros (Hd & Hl & Hs & Hp). repeat split; try assumption.
    destruct (rec subs) as [g|] eqn:Hr; [exact (Hrec subs g Hs Hr)|exact Hs].
  Qed.

  Lemma step_all e st st' : step_spec rec e st st' -> Forall G (fin st) -> G e -> Forall G (fin st').
  Proof.
    intros Hst Hfin He. destruct Hst as [Hg|pos l n fs d gl gn subs post Hg -> Hs|pos f fs Hg|pos l n fs Hg].
    - rewrite fin_emit. apply Forall_app; split; [exact Hfin|constructor; [exact He|constructor]].
    - destruct (parts_all _ _ _ _ Hg He) as (Hp & _ & Hfs).
      cbn [fin] in *. rewrite fin_group_all in *. destruct Hfin as (Hd & Hl & Hsu & Hpo).
      repeat split; try assumption. apply Forall_app; split; [exact Hsu|].
      constructor; [apply remove_first_all; assumption|constructor].
    - rewrite fin_emit. apply Forall_app; split; [apply regroup_all; exact Hfin|constructor; [exact He|constructor]].
    - destruct (parts_all _ _ _ _ Hg He) as (Hp & Hf & Hfs).
      cbn [fin]. apply fin_group_all. repeat split.
      + apply regroup_all; exact Hfin.
      + exact Hf.
      + constructor; [apply remove_first_all; assumption|constructor].
      + constructor.
  Qed.

  Lemma walk_all es : forall st, Forall G es -> Forall G (fin st) -> Forall G (fin (walk rec es st)).
  Proof.
    induction es as [|e rest IH]; intros st Hes Hfin; cbn [walk]; [exact Hfin|].
    inversion Hes; subst. apply IH; [assumption|].
    eapply step_all; [apply step_ok|exact Hfin|assumption].
  Qed.

  Lemma opt_level_all es g : opt_level rec es = Some g -> Forall G es -> Forall G g.
  Proof.
    unfold opt_level. destruct (length es <=? 1); [discriminate|].
    intros H; inversion H; subst. intros Hes.
    apply regroup_all. apply walk_all; [exact Hes|constructor].
  Qed.
End Preserve.

Lemma opt_all Pp Pl fuel : forall es g, Forall (gall Pp Pl) es -> opt fuel es = Some g -> Forall (gall Pp Pl) g.
Proof.
  induction fuel as [|fuel IH]; intros es g Hes Ho; cbn [opt] in Ho; [discriminate|].
  eapply opt_level_all; [exact IH|exact Ho|exact Hes].
Qed.

(** * the entries of the result are a permutation of the entries of the input *)
Lemma guard_same_key gl gn l n : guard_same gl gn l n = true -> leaf_key_same gl l = true /\ gn = n.
Proof.
  unfold guard_same, leaf_key_same. intros H.
  do 5 (apply andb_true_iff in H; destruct H as [H ?]).
  split; [|apply eqb_prop; assumption].
  repeat match goal with |- (_ && _) = true => apply andb_true_iff; split end; assumption.
Qed.

Lemma leaf_equals_key l n l' n' : leaf_equals l n l' n' = true -> leaf_key_same l l' = true /\ n = n' /\ lf_num l = lf_num l'.
Proof.
  unfold leaf_equals, leaf_key_same. intros H.
  do 6 (apply andb_true_iff in H; destruct H as [H ?]).
  split; [|split; [apply eqb_prop; assumption|apply Z.eqb_eq; assumption]].
  repeat match goal with |- (_ && _) = true => apply andb_true_iff; split end; assumption.
Qed.

Section Semantics.
  Variable x : rowctx.
  Variable Pl : leaf -> Prop.
  (** the fields the optimiser compares decide what the leaf matches *)
  Hypothesis Hcoh : forall a b, Pl a -> Pl b -> leaf_key_same a b = true -> leaf_match x a = leaf_match x b.
  Notation G := (gall (fun _ => True) Pl).

  Lemma guard_same_holds gl gn l n :
    Pl gl -> Pl l -> guard_same gl gn l n = true -> guard_holds x gl gn = guard_holds x l n.
  Proof.
    intros Hgl Hl Hs. apply guard_same_key in Hs as [Hk ->].
    unfold guard_holds. cbn [match_filter]. rewrite (Hcoh gl l Hgl Hl Hk). reflexivity.
  Qed.

  Lemma sf_remove_first pos fs :
    1 <= length fs ->
    sf x (remove_first pos fs) = [(pos, if match_filter x (FGroup GAnd fs false) false then Some (None, 0%Z) else None)].
  Proof.
    intros Hlen. unfold remove_first. destruct fs as [|c [|c' r]]; [cbn [length] in Hlen; lia| |reflexivity].
    cbn [sf act]. rewrite match_and_single. reflexivity.
  Qed.

  (** a block whose first member is the guard: [And (a :: rest)] is [a /\ And rest] *)
  Lemma sf_open pos l n fs :
    1 <= length fs ->
    sf x (GGroup l n [remove_first pos fs]) = sf x (GPlain pos (SCounter (FGroup GAnd (FLeaf l n :: fs) false))).
  Proof.
    intros Hlen. cbn [sf flat_map act]. rewrite app_nil_r, (sf_remove_first pos fs Hlen).
    rewrite match_and_cons. fold (guard_holds x l n).
    destruct (guard_holds x l n); cbn [andb map mute fst]; reflexivity.
  Qed.

  Lemma sf_group_app l n a b : sf x (GGroup l n (a ++ b)) = sf x (GGroup l n a) ++ sf x (GGroup l n b).
  Proof.
    cbn [sf]. rewrite flat_map_app. destruct (guard_holds x l n); [reflexivity|apply map_app].
  Qed.

  Lemma sf_group_guard l n l' n' subs :
    guard_holds x l n = guard_holds x l' n' -> sf x (GGroup l n subs) = sf x (GGroup l' n' subs).
  Proof. intros H. cbn [sf]. rewrite H. reflexivity. Qed.

  Lemma sf_group_perm l n subs subs' :
    Permutation (sfl x subs) (sfl x subs') -> Permutation (sf x (GGroup l n subs)) (sf x (GGroup l n subs')).
  Proof.
    intros H. cbn [sf]. fold (sfl x subs). fold (sfl x subs').
    destruct (guard_holds x l n); [exact H|apply Permutation_map; exact H].
  Qed.

  Lemma sfl_single e : sfl x [e] = sf x e.
  Proof. cbn [sfl flat_map]. apply app_nil_r. Qed.

  Variable rec : list gstat -> option (list gstat).
  Hypothesis Hrec_all : forall l g, Forall G l -> rec l = Some g -> Forall G g.
  Hypothesis Hrec : forall l g, Forall G l -> rec l = Some g -> Permutation (sfl x l) (sfl x g).

  Lemma regroup_sem st : Forall G (fin st) -> Permutation (sfl x (fin st)) (sfl x (fin (regroup rec st))).
  Proof.
    destruct st as [d [[[[l n] subs] post]|]]; cbn [regroup fin]; [|reflexivity].
    intros Hfin. apply fin_group_all in Hfin as (_ & _ & Hs & _).
    destruct (rec subs) as [g|] eqn:Hr; [|reflexivity].
    rewrite !sfl_app, !sfl_cons. apply Permutation_app_head. apply Permutation_app_tail.
    apply sf_group_perm. apply Hrec; assumption.
  Qed.

  Lemma step_sem e st st' :
    step_spec rec e st st' -> Forall G (fin st) -> G e ->
    Permutation (sfl x (fin st) ++ sf x e) (sfl x (fin st')).
  Proof.
    intros Hst Hfin He. destruct Hst as [Hg|pos l n fs d gl gn subs post Hg -> Hs|pos f fs Hg|pos l n fs Hg].
    - rewrite fin_emit, sfl_app, sfl_single. reflexivity.
    - destruct (parts_all _ _ _ _ _ _ Hg He) as (_ & Hf & _). cbn [fall] in Hf.
      destruct (groupable_parts_inv _ _ _ _ Hg) as [-> Hlen].
      cbn [fin] in *. apply fin_group_all in Hfin as (_ & Hgl & _ & _).
      rewrite !sfl_app, !sfl_cons, sf_group_app.
      rewrite (sf_group_guard gl gn l n [remove_first pos fs]) by (apply guard_same_holds; assumption).
      rewrite (sf_open pos l n fs Hlen).
      rewrite <- !app_assoc. do 2 apply Permutation_app_head. apply Permutation_app_comm.
    - rewrite fin_emit, sfl_app, sfl_single. apply Permutation_app_tail. apply regroup_sem; exact Hfin.
    - destruct (groupable_parts_inv _ _ _ _ Hg) as [-> Hlen].
      cbn [fin]. rewrite sfl_app, sfl_single, (sf_open pos l n fs Hlen).
      apply Permutation_app_tail. apply regroup_sem; exact Hfin.
  Qed.

  Lemma walk_sem es : forall st, Forall G es -> Forall G (fin st) ->
    Permutation (sfl x (fin st) ++ sfl x es) (sfl x (fin (walk rec es st))).
  Proof.
    induction es as [|e rest IH]; intros st Hes Hfin; cbn [walk].
    - cbn [sfl flat_map]. rewrite app_nil_r. reflexivity.
    - inversion Hes as [|? ? He Hrest]; subst.
      pose proof (step_ok rec e (hd_error rest) st) as Hst.
      rewrite sfl_cons, app_assoc.
      etransitivity; [apply Permutation_app_tail; eapply step_sem; eassumption|].
      apply IH; [exact Hrest|]. eapply step_all; [exact Hrec_all|exact Hst|exact Hfin|exact He].
  Qed.

  Lemma opt_level_sem es g : opt_level rec es = Some g -> Forall G es -> Permutation (sfl x es) (sfl x g).
  Proof.
    unfold opt_level. destruct (length es <=? 1); [discriminate|].
    intros H; inversion H; subst. intros Hes.
    etransitivity; [|apply regroup_sem; apply walk_all; [exact Hrec_all|exact Hes|constructor]].
    apply (walk_sem es (OS [] None) Hes). constructor.
  Qed.
End Semantics.

Lemma opt_sem x (Pl : leaf -> Prop) :
  (forall a b, Pl a -> Pl b -> leaf_key_same a b = true -> leaf_match x a = leaf_match x b) ->
  forall fuel es g, Forall (gall (fun _ => True) Pl) es -> opt fuel es = Some g ->
  Permutation (sfl x es) (sfl x g).
Proof.
  intros Hcoh. induction fuel as [|fuel IH]; intros es g Hes Ho; cbn [opt] in Ho; [discriminate|].
  eapply opt_level_sem; [exact Hcoh| |exact IH|exact Ho|exact Hes].
  intros l g' Hl Hr. eapply opt_all; eassumption.
Qed.

(** * position 0 stays the first element of its list at every level *)
Lemma zfl_app_nz es r : es <> [] -> zfl es -> Forall nz r -> zfl (es ++ r).
Proof.
  destruct es as [|e es']; [congruence|]. intros _ [He Hes] Hr. cbn [app zfl].
  split; [exact He|apply Forall_app; split; assumption].
Qed.

Lemma zfh_remove_first pos fs : zfh (remove_first pos fs).
Proof. unfold remove_first. destruct fs as [|c [|c' r]]; exact I. Qed.

Section ZeroFirst.
  Variable rec : list gstat -> option (list gstat).
  Hypothesis Hrec_nz : forall l g, Forall nz l -> rec l = Some g -> Forall nz g.
  Hypothesis Hrec_zf : forall l g, zfl l -> rec l = Some g -> zfl g.

  Lemma regroup_zf st : zfl (fin st) -> zfl (fin (regroup rec st)).
  Proof.
    destruct st as [d [[[[l n] subs] post]|]]; cbn [regroup fin]; [|trivial].
    destruct (rec subs) as [g|] eqn:Hr; [|trivial].
    destruct d as [|h d']; cbn [app zfl].
    - intros [Hh Hp]. split; [|exact Hp]. rewrite zfh_group in *. exact (Hrec_zf subs g Hh Hr).
    - intros [Hh Hr']. split; [exact Hh|].
      unfold nz in *. rewrite fin_group_all in *. destruct Hr' as (Hd & Hl & Hs & Hp).
      repeat split; try assumption. exact (Hrec_nz subs g Hs Hr).
  Qed.

  Lemma regroup_nonempty st : fin st <> [] -> fin (regroup rec st) <> [].
  Proof.
    destruct st as [d [[[[l n] subs] post]|]]; cbn [regroup fin]; [|trivial].
    intros _. destruct d; discriminate.
  Qed.

  Lemma nonempty_app {A} (a b : list A) : b <> [] -> a ++ b <> [].
  Proof. destruct a; cbn [app]; [trivial|discriminate]. Qed.

  Lemma step_zf e st st' :
    step_spec rec e st st' -> fin st <> [] -> zfl (fin st) -> nz e -> zfl (fin st') /\ fin st' <> [].
  Proof.
    intros Hst Hne Hz He. destruct Hst as [Hg|pos l n fs d gl gn subs post Hg -> Hs|pos f fs Hg|pos l n fs Hg].
    - rewrite fin_emit. split; [|apply nonempty_app; discriminate].
      apply zfl_app_nz; [exact Hne|exact Hz|constructor; [exact He|constructor]].
    - destruct (parts_all _ _ _ _ _ _ Hg He) as (Hp & _ & Hfs).
      assert (Hm : nz (remove_first pos fs)) by (apply remove_first_all; assumption).
      cbn [fin] in *. split; [|apply nonempty_app; discriminate].
      destruct d as [|h d']; cbn [app zfl] in *.
      + destruct Hz as [Hh Hpo]. split; [|exact Hpo]. rewrite zfh_group in *.
        destruct subs as [|m0 r0].
        * cbn [app zfl]. split; [apply zfh_remove_first|constructor].
        * apply zfl_app_nz; [discriminate|exact Hh|constructor; [exact Hm|constructor]].
      + destruct Hz as [Hh Hr']. split; [exact Hh|].
        unfold nz in *. rewrite fin_group_all in *. destruct Hr' as (Hd & Hl & Hsu & Hpo).
        repeat split; try assumption. apply Forall_app; split; [exact Hsu|constructor; [exact Hm|constructor]].
    - rewrite fin_emit. split; [|apply nonempty_app; discriminate].
      apply zfl_app_nz; [apply regroup_nonempty; exact Hne|apply regroup_zf; exact Hz|constructor; [exact He|constructor]].
    - destruct (parts_all _ _ _ _ _ _ Hg He) as (Hp & _ & Hfs).
      assert (Hm : nz (remove_first pos fs)) by (apply remove_first_all; assumption).
      cbn [fin]. split; [|apply nonempty_app; discriminate].
      apply zfl_app_nz; [apply regroup_nonempty; exact Hne|apply regroup_zf; exact Hz|].
      constructor; [|constructor]. apply gall_group. split; [exact I|constructor; [exact Hm|constructor]].
  Qed.

  (** the first element of the list *)
  Lemma step_zf0 e st' :
    step_spec rec e (OS [] None) st' -> zfh e -> zfl (fin st') /\ fin st' <> [].
  Proof.
    intros Hst He. inversion Hst as [Hg|pos l n fs d gl gn subs post Hg Heq Hs|pos f fs Hg|pos l n fs Hg]; subst.
    - cbn [emit fin app zfl]. split; [split; [exact He|constructor]|discriminate].
    - discriminate.
    - cbn [regroup emit fin app zfl]. split; [split; [exact He|constructor]|discriminate].
    - cbn [regroup fin app zfl]. split; [|discriminate].
      split; [|constructor]. rewrite zfh_group. cbn [zfl]. split; [apply zfh_remove_first|constructor].
  Qed.

  Lemma walk_zf es : forall st, Forall nz es -> fin st <> [] -> zfl (fin st) ->
    zfl (fin (walk rec es st)) /\ fin (walk rec es st) <> [].
  Proof.
    induction es as [|e rest IH]; intros st Hes Hne Hz; cbn [walk]; [split; assumption|].
    inversion Hes as [|? ? He Hrest]; subst.
    destruct (step_zf e st _ (step_ok rec e (hd_error rest) st) Hne Hz He) as [Hz' Hne'].
    apply IH; assumption.
  Qed.

  Lemma opt_level_zf es g : opt_level rec es = Some g -> zfl es -> zfl g.
  Proof.
    unfold opt_level. destruct (length es <=? 1); [discriminate|].
    intros H; inversion H; subst. intros Hz.
    apply regroup_zf. destruct es as [|e rest]; [exact I|].
    destruct Hz as [He Hrest]. cbn [walk].
    destruct (step_zf0 e _ (step_ok rec e (hd_error rest) (OS [] None)) He) as [Hz' Hne'].
    apply walk_zf; assumption.
  Qed.
End ZeroFirst.

Lemma opt_zf fuel : forall es g, zfl es -> opt fuel es = Some g -> zfl g.
Proof.
  induction fuel as [|fuel IH]; intros es g Hes Ho; cbn [opt] in Ho; [discriminate|].
  eapply opt_level_zf; [|exact IH|exact Ho|exact Hes].
  intros l g' Hl Hr. eapply opt_all; eassumption.
Qed.

(** * slots: the optimiser moves elements around but every position stays exactly once *)
Lemma slots_remove_first pos fs : slots (remove_first pos fs) = [pos].
Proof. unfold remove_first. destruct fs as [|c [|c' r]]; reflexivity. Qed.

Lemma slots_app a b : flat_map slots (a ++ b) = flat_map slots a ++ flat_map slots b.
Proof. apply flat_map_app. Qed.

Section Slots.
  Variable rec : list gstat -> option (list gstat).
  Hypothesis Hrec : forall l g, rec l = Some g -> Permutation (flat_map slots l) (flat_map slots g).

  Lemma regroup_slots st : Permutation (flat_map slots (fin st)) (flat_map slots (fin (regroup rec st))).
  Proof.
    destruct st as [d [[[[l n] subs] post]|]]; cbn [regroup fin]; [|reflexivity].
    destruct (rec subs) as [g|] eqn:Hr; [|reflexivity].
    rewrite !slots_app. cbn [flat_map slots]. apply Permutation_app_head. apply Permutation_app_tail.
    apply Hrec; exact Hr.
  Qed.

  Lemma step_slots e st st' :
    step_spec rec e st st' -> Permutation (flat_map slots (fin st) ++ slots e) (flat_map slots (fin st')).
  Proof.
    intros Hst. destruct Hst as [Hg|pos l n fs d gl gn subs post Hg -> Hs|pos f fs Hg|pos l n fs Hg].
    - rewrite fin_emit, slots_app. cbn [flat_map]. rewrite app_nil_r. reflexivity.
    - destruct (groupable_parts_inv _ _ _ _ Hg) as [-> _].
      cbn [fin]. rewrite !slots_app. cbn [flat_map slots]. rewrite slots_app. cbn [flat_map].
      rewrite slots_remove_first, app_nil_r.
      rewrite <- !app_assoc. do 2 apply Permutation_app_head. apply Permutation_app_comm.
    - rewrite fin_emit, slots_app. cbn [flat_map]. rewrite app_nil_r. apply Permutation_app_tail. apply regroup_slots.
    - destruct (groupable_parts_inv _ _ _ _ Hg) as [-> _].
      cbn [fin]. rewrite slots_app. cbn [flat_map slots]. rewrite slots_remove_first. cbn [app].
      apply Permutation_app_tail. apply regroup_slots.
  Qed.

  Lemma walk_slots es : forall st,
    Permutation (flat_map slots (fin st) ++ flat_map slots es) (flat_map slots (fin (walk rec es st))).
  Proof.
    induction es as [|e rest IH]; intros st; cbn [walk].
    - cbn [flat_map]. rewrite app_nil_r. reflexivity.
    - cbn [flat_map]. rewrite app_assoc.
      etransitivity; [apply Permutation_app_tail; apply (step_slots e st _ (step_ok rec e (hd_error rest) st))|].
      apply IH.
  Qed.

  Lemma opt_level_slots es g : opt_level rec es = Some g -> Permutation (flat_map slots es) (flat_map slots g).
  Proof.
    unfold opt_level. destruct (length es <=? 1); [discriminate|].
    intros H; inversion H; subst.
    etransitivity; [|apply regroup_slots]. apply (walk_slots es (OS [] None)).
  Qed.
End Slots.

Lemma opt_slots fuel : forall es g, opt fuel es = Some g -> Permutation (flat_map slots es) (flat_map slots g).
Proof.
  induction fuel as [|fuel IH]; intros es g Ho; cbn [opt] in Ho; [discriminate|].
  eapply opt_level_slots; [exact IH|exact Ho].
Qed.

(** * the numbered input program *)
Lemma number_from_all (Pl : leaf -> Prop) prog :
  Forall (sall Pl) prog -> forall i, Forall (gall (fun _ => True) Pl) (number_from i prog).
Proof.
  induction 1 as [|st prog Hst _ IH]; intros i; cbn [number_from]; constructor; [|apply IH].
  split; [exact I|exact Hst].
Qed.

Lemma number_from_nz prog : forall i, 1 <= i -> Forall nz (number_from i prog).
Proof.
  induction prog as [|st prog IH]; intros i Hi; cbn [number_from]; constructor; [|apply IH; lia].
  split; [lia|]. destruct st as [f|k c]; cbn [sall]; [|exact I].
  induction f as [l n|g fs n IHf] using filt_ind'; [exact I|]. apply fall_group. exact IHf.
Qed.

Lemma number_from_zfl prog : zfl (number_from 0 prog).
Proof. destruct prog as [|st prog]; [exact I|]. split; [exact I|apply number_from_nz; lia]. Qed.

Lemma number_from_slots prog : forall i, flat_map slots (number_from i prog) = seq i (length prog).
Proof.
  induction prog as [|st prog IH]; intros i; cbn [number_from flat_map slots length seq app]; [reflexivity|].
  rewrite IH. reflexivity.
Qed.

Lemma run_number x prog : forall i pre accs,
  length pre = i -> length accs = length prog ->
  run (sfl x (number_from i prog)) (pre ++ accs) = pre ++ map2 (count_row x) prog accs.
Proof.
  induction prog as [|st prog IH]; intros i pre accs Hpre Hlen; cbn [number_from].
  - destruct accs; [reflexivity|discriminate].
  - destruct accs as [|a accs]; [discriminate|]. cbn [length] in Hlen.
    rewrite sfl_cons. cbn [sf app]. cbn [run fold_left fst snd]. fold (run (sfl x (number_from (S i) prog))).
    rewrite <- Hpre, upd_app_len. cbn [map2].
    change (pre ++ apply_act (act x st) a :: accs) with (pre ++ [apply_act (act x st) a] ++ accs).
    rewrite app_assoc, IH; [|rewrite app_length; cbn [length]; lia|lia].
    rewrite <- app_assoc, count_row_act. reflexivity.
Qed.

(** every slot 0..n-1 is written by exactly one element of the grouped program,
    and slot 0 is recognised correctly by its position *)
Theorem slot_unique prog fuel g :
  opt fuel (number_from 0 prog) = Some g ->
  Permutation (flat_map slots g) (seq 0 (length prog)) /\ NoDup (flat_map slots g) /\ zfl g.
Proof.
  intros Ho. pose proof (opt_slots fuel _ _ Ho) as Hp. rewrite number_from_slots in Hp.
  split; [symmetry; exact Hp|]. split.
  - eapply Permutation_NoDup; [exact Hp|apply seq_NoDup].
  - eapply opt_zf; [apply number_from_zfl|exact Ho].
Qed.

(** * the theorem *)
Definition coherent_on (x : rowctx) (Pl : leaf -> Prop) : Prop :=
  forall a b, Pl a -> Pl b -> leaf_key_same a b = true -> leaf_match x a = leaf_match x b.

Theorem grouping_sound_fuel x (Pl : leaf -> Prop) prog fuel g accs :
  coherent_on x Pl -> Forall (sall Pl) prog -> length accs = length prog ->
  opt fuel (number_from 0 prog) = Some g ->
  count_grouped x g accs = map2 (count_row x) prog accs.
Proof.
  intros Hcoh Hall Hlen Ho.
  rewrite (count_zfl x g (opt_zf fuel _ _ (number_from_zfl prog) Ho)).
  pose proof (opt_sem x Pl Hcoh fuel _ _ (number_from_all Pl prog Hall 0) Ho) as Hp.
  rewrite <- (run_perm _ _ Hp).
  - apply (run_number x prog 0 [] accs); [reflexivity|exact Hlen].
  - rewrite sfl_slots, number_from_slots. apply seq_NoDup.
Qed.

(** every original element ends up exactly once in the grouped program, with its
    own slot and doing to its accumulator what it did before *)
Theorem grouped_entries x (Pl : leaf -> Prop) prog fuel g :
  coherent_on x Pl -> Forall (sall Pl) prog ->
  opt fuel (number_from 0 prog) = Some g ->
  Permutation (sfl x (number_from 0 prog)) (sfl x g).
Proof.
  intros Hcoh Hall Ho. exact (opt_sem x Pl Hcoh fuel _ _ (number_from_all Pl prog Hall 0) Ho).
Qed.

(** the leaves of a program ([prog_leaves]) *)
Lemma fall_incl (P : leaf -> Prop) f : (forall l, In l (filt_leaves f) -> P l) -> fall P f.
Proof.
  induction f as [l n|g fs n IH] using filt_ind'; intros H.
  - apply H. left; reflexivity.
  - apply fall_group. cbn [filt_leaves] in H.
    induction IH as [|f0 r Hf0 _ IHr]; constructor.
    + apply Hf0. intros l Hl. apply H. cbn [flat_map]. apply in_or_app; left; exact Hl.
    + apply IHr. intros l Hl. apply H. cbn [flat_map]. apply in_or_app; right; exact Hl.
Qed.

Lemma sall_prog_leaves prog : Forall (sall (fun l => In l (prog_leaves prog))) prog.
Proof.
  unfold prog_leaves.
  assert (H : forall pre, Forall (sall (fun l => In l (flat_map stat_leaves (pre ++ prog)))) prog).
  { induction prog as [|st prog IH]; intros pre; constructor.
    - destruct st as [f|k c]; cbn [sall]; [|exact I]. apply fall_incl. intros l Hl.
      rewrite flat_map_app. apply in_or_app; right. cbn [flat_map stat_leaves]. apply in_or_app; left; exact Hl.
    - specialize (IH (pre ++ [st])). rewrite <- app_assoc in IH. exact IH. }
  exact (H []).
Qed.

(** the side condition: two leaves of the program that agree in the fields the
    optimiser looks at (column, operator, stringVal, customTag) match the same rows *)
Definition coherent (x : rowctx) (prog : list stat) : Prop :=
  coherent_on x (fun l => In l (prog_leaves prog)).

(** the executable check implies the side condition *)
Lemma coherentb_sound x prog : coherentb x prog = true -> coherent x prog.
Proof.
  unfold coherentb, coherent, coherent_on. intros H a b Ha Hb Hs.
  rewrite forallb_forall in H. specialize (H a Ha). rewrite forallb_forall in H. specialize (H b Hb).
  rewrite Hs in H. cbn [implb] in H. apply eqb_prop. exact H.
Qed.

(** The side condition [coherent] is needed for arbitrary leaf RECORDS only (a
    record may carry any number and any pattern next to the compared fields).
    Every leaf the parser builds is canonical, so for every parsed request the
    statement holds without any side condition: [grouping_sound_parsed] below.
    (Before commit ad44405 of the implementation isEmpty was not compared and
    the statement was false for [Stats: state like] / [Stats: state ~ .*].) *)

(** THE NUMBERS DO NOT DEPEND ON WHETHER SIMILAR STATS BLOCKS ARE GROUPED:
    for every program, every row and all accumulators, counting the row with
    the grouped program (CountStats over req.StatsGrouped with the statsPos /
    loop index slot rule) gives what counting it block by block gives. *)
Theorem grouping_sound x prog g accs :
  coherent x prog -> length accs = length prog ->
  optimize prog = Some g ->
  count_grouped x g accs = map2 (count_row x) prog accs.
Proof.
  intros Hcoh Hlen Ho. eapply grouping_sound_fuel; [exact Hcoh|apply sall_prog_leaves|exact Hlen|exact Ho].
Qed.

(** one level of grouping only (the members of a group are not regrouped) *)
Corollary grouping_sound_one_level x prog g accs :
  coherent x prog -> length accs = length prog ->
  optimize1 prog = Some g ->
  count_grouped x g accs = map2 (count_row x) prog accs.
Proof.
  intros Hcoh Hlen Ho. eapply grouping_sound_fuel; [exact Hcoh|apply sall_prog_leaves|exact Hlen|exact Ho].
Qed.

(** what gatherStatsResult does with a row, grouped or not *)
Corollary count_stats_sound x prog accs :
  coherent x prog -> length accs = length prog ->
  count_stats x prog accs = map2 (count_row x) prog accs.
Proof.
  intros Hcoh Hlen. unfold count_stats. destruct (optimize prog) as [g|] eqn:Ho; [|reflexivity].
  apply grouping_sound; assumption.
Qed.

Lemma map2_length {A B C} (f : A -> B -> C) l1 : forall l2, length l1 = length l2 -> length (map2 f l1 l2) = length l1.
Proof.
  induction l1 as [|a l1 IH]; intros [|b l2] H; cbn [map2 length] in *; try reflexivity; try discriminate.
  rewrite IH; [reflexivity|lia].
Qed.

(** over any list of rows: the accumulators of the grouped program are the
    accumulators [acc_rows] of the blocks (C05) *)
Theorem grouping_sound_rows prog g xs :
  (forall x, In x xs -> coherent x prog) ->
  optimize prog = Some g ->
  fold_left (fun accs x => count_grouped x g accs) xs (map (fun _ => acc0) prog) =
  map (fun st => acc_rows st xs) prog.
Proof.
  intros Hcoh Ho.
  assert (H : forall accs, length accs = length prog ->
    fold_left (fun accs x => count_grouped x g accs) xs accs =
    fold_left (fun accs x => map2 (count_row x) prog accs) xs accs).
  { induction xs as [|x xs IH]; intros accs Hlen; cbn [fold_left]; [reflexivity|].
    rewrite (grouping_sound x prog g accs) by (try apply Hcoh; try left; auto).
    apply IH.
    - intros y Hy. apply Hcoh. right; exact Hy.
    - rewrite map2_length; [reflexivity|symmetry; exact Hlen]. }
  rewrite H by apply map_length.
  rewrite (fold_accs prog xs (fun _ => acc0)). reflexivity.
Qed.

Lemma col_same_eq a b : col_same a b = true -> a = b.
Proof.
  unfold col_same, column_eqb. destruct (column_eq_dec a b); [trivial|discriminate].
Qed.

Lemma op_eqb_eq a b : op_eqb a b = true -> a = b.
Proof. unfold op_eqb. destruct (op_eq_dec a b); [trivial|discriminate]. Qed.

Lemma leaf_key_same_fields a b :
  leaf_key_same a b = true ->
  lf_col a = lf_col b /\ lf_op a = lf_op b /\ lf_str a = lf_str b /\ lf_tag a = lf_tag b /\ lf_empty a = lf_empty b.
Proof.
  unfold leaf_key_same. intros H. do 4 (apply andb_true_iff in H; destruct H as [H ?]).
  repeat split; [apply col_same_eq|apply op_eqb_eq|apply str_eqb_eq|apply str_eqb_eq|apply eqb_prop]; assumption.
Qed.

(** * the side condition holds for everything the parser builds.
    Besides the compared fields a leaf carries the numeric reference value and
    the compiled pattern.  [parse_leaf] derives both from the compared fields:
    the number is [parse_milli] of the text for a numeric operator on a numeric
    column with a value, else 0; the pattern of a regular expression operator
    is compiled from the text without a leading / trailing [.*], case folded
    for the two case-insensitive operators.  (After the [^lit$] rewrite the
    operator is [=] / [=~] and a pattern is still attached; no comparison reads
    it then.) *)
Definition is_re_op (o : op) : bool :=
  match o with ORe | ONRe | OReI | ONReI => true | _ => false end.

Definition re_ci (o : op) : bool := match o with OReI | ONReI => true | _ => false end.

Definition num_of (c : column) (o : op) (sv : str) (empty : bool) : Z :=
  if is_numeric_type (c_type c) && is_numeric_op o && negb empty
  then match parse_milli sv with Some m => m | None => 0%Z end
  else 0%Z.

Definition re_of (o : op) (sv : str) : option pattern :=
  match re_compile (re_ci o) (trim_suffix (s ".*") (trim_prefix (s ".*") sv)) with
  | CPat p => Some p
  | _ => None
  end.

Definition leaf_canonical (l : leaf) : Prop :=
  lf_num l = num_of (lf_col l) (lf_op l) (lf_str l) (lf_empty l)
  /\ (is_re_op (lf_op l) = true -> lf_re l = re_of (lf_op l) (lf_str l)).

(** only the regular expression operators read the pattern *)
Definition strip_re (l : leaf) : leaf :=
  if is_re_op (lf_op l) then l
  else mkLeaf (lf_col l) (lf_op l) (lf_str l) (lf_tag l) (lf_empty l) (lf_num l) None.

Lemma leaf_match_strip x l : leaf_match x (strip_re l) = leaf_match x l.
Proof.
  destruct l as [c o sv tg e nm r]. unfold strip_re. cbn [lf_op].
  destruct o; cbn [is_re_op]; try reflexivity;
    unfold leaf_match, match_missing, match_value, match_strlist, match_intlist, match_float, match_int, int_ref, match_string;
    cbn [lf_col lf_op lf_str lf_tag lf_empty lf_num lf_re]; reflexivity.
Qed.

Lemma canonical_same_rows x a b :
  leaf_canonical a -> leaf_canonical b -> leaf_key_same a b = true -> leaf_match x a = leaf_match x b.
Proof.
  intros [Hna Hra] [Hnb Hrb] Hs.
  destruct (leaf_key_same_fields a b Hs) as (Hc & Ho & Hst & Ht & He).
  rewrite <- (leaf_match_strip x a), <- (leaf_match_strip x b). f_equal.
  destruct a as [c o sv tg e nm r], b as [c' o' sv' tg' e' nm' r']. cbn [lf_col lf_op lf_str lf_tag lf_empty lf_num lf_re] in *.
  subst c' o' sv' tg' e'. subst nm nm'.
  unfold strip_re. cbn [lf_col lf_op lf_str lf_tag lf_empty lf_num lf_re].
  destruct (is_re_op o) eqn:Hre; [|reflexivity].
  rewrite (Hra eq_refl), (Hrb eq_refl). reflexivity.
Qed.

Lemma canonical_coherent x prog : Forall leaf_canonical (prog_leaves prog) -> coherent x prog.
Proof.
  intros Hall a b Ha Hb Hs. rewrite Forall_forall in Hall.
  apply canonical_same_rows; [apply Hall; exact Ha|apply Hall; exact Hb|exact Hs].
Qed.

(** Filter.Equals of two leaves implies that the optimiser's key agrees: equal
    first members match the same rows under the side condition *)
Lemma equals_same_rows x prog l n l' n' :
  coherent x prog -> In l (prog_leaves prog) -> In l' (prog_leaves prog) ->
  filt_equals (FLeaf l n) (FLeaf l' n') = true ->
  match_filter x (FLeaf l n) false = match_filter x (FLeaf l' n') false.
Proof.
  intros Hcoh Hl Hl' He. cbn [filt_equals] in He.
  apply leaf_equals_key in He as (Hk & -> & _).
  cbn [match_filter]. rewrite (Hcoh l l' Hl Hl' Hk). reflexivity.
Qed.

(** * [parse_leaf] builds canonical leaves (ParseDefault and ParseOptimize), so
    does everything above it up to [parse_request] *)
Lemma parse_op_isre x o isre : parse_op x = Some (o, isre) -> isre = is_re_op o.
Proof.
  unfold parse_op.
  repeat match goal with |- context[if ?c then _ else _] => destruct c end;
    intros H; inversion H; reflexivity.
Qed.

Lemma num_of_nonnum c o sv e : is_numeric_op o = false -> num_of c o sv e = 0%Z.
Proof. intros H. unfold num_of. rewrite H, andb_false_r. reflexivity. Qed.

Lemma num_of_nontype c o sv e : is_numeric_type (c_type c) = false -> num_of c o sv e = 0%Z.
Proof. intros H. unfold num_of. rewrite H. reflexivity. Qed.

Ltac break_hyp H :=
  repeat match type of H with
  | context[match ?x with _ => _ end] =>
      match x with
      | context[match _ with _ => _ end] => fail 1
      | _ => let E := fresh "E" in destruct x eqn:E; try discriminate H
      end
  end.

Lemma parse_leaf_canonical opt t args l : parse_leaf opt t args = Ok l -> leaf_canonical l.
Proof.
  unfold parse_leaf.
  destruct (split1 32 args) as [name r1]. destruct r1 as [r1|]; [|discriminate].
  destruct (split1 32 r1) as [optxt r2].
  destruct (parse_op optxt) as [[o isre]|] eqn:Hop; [|discriminate].
  apply parse_op_isre in Hop. subst isre.
  set (col0 := resolve_col t name).
  set (sv0 := trim_space match r2 with Some v => v | None => [] end).
  set (empty0 := match sv0 with [] => true | _ :: _ => false end).
  match goal with |- context[match ?v with Ok _ => _ | Err e => Err e end] => destruct v as [[[[sv1 tag] emp] num]|] eqn:Hval end; [|discriminate].
  assert (Hnum : num = num_of col0 o sv1 emp).
  { destruct (is_numeric_type (c_type col0)) eqn:Hty.
    - destruct (is_numeric_op o && negb empty0) eqn:Hno.
      + destruct (parse_milli sv0) as [m|] eqn:Hm; [|discriminate]. inversion Hval; subst.
        unfold num_of. rewrite Hty. cbn [andb]. rewrite Hno, Hm. reflexivity.
      + inversion Hval; subst. unfold num_of. rewrite Hty. cbn [andb]. rewrite Hno. reflexivity.
    - rewrite num_of_nontype by exact Hty.
      destruct (c_type col0); try (inversion Hval; reflexivity).
      destruct (split1 32 sv0) as [tg rest]. destruct tg; [discriminate|].
      destruct rest; inversion Hval; reflexivity. }
  clear Hval. 
  Opaque trim_suffix trim_prefix lower has_regex_chars re_compile has_prefix has_suffix find_col parse_milli s is_hosts_or_services is_numeric_type.
  intros H.
  destruct o; cbn [is_re_op] in H; cbn match in H; break_hyp H; inversion H; subst l; clear H.
  all: split; cbn [lf_num lf_col lf_op lf_str lf_empty lf_re is_re_op]; try discriminate.
  all: try exact Hnum.
  all: try (intros _; unfold re_of; cbn [re_ci];
            match goal with E : re_compile _ _ = CPat _ |- _ => rewrite E end; reflexivity).
  all: rewrite Hnum; rewrite (num_of_nonnum col0) by reflexivity; symmetry.
  all: try (apply num_of_nonnum; reflexivity).
  all: apply num_of_nontype;
       match goal with E : (_ || is_numeric_type _) = false |- _ => apply orb_false_iff in E as [_ E]; exact E end.
Qed.

Definition stat_canon (st : stat) : Prop := Forall leaf_canonical (stat_leaves st).
Definition sc (prog : list stat) : Prop := Forall stat_canon prog.

Lemma sc_leaves prog : sc prog -> Forall leaf_canonical (prog_leaves prog).
Proof.
  induction 1 as [|st prog Hst _ IH]; [constructor|].
  unfold prog_leaves. cbn [flat_map]. apply Forall_app; split; assumption.
Qed.

Lemma parse_stats_line_sc opt t args stack st' :
  sc stack -> parse_stats_line opt t args stack = Ok st' -> sc st'.
Proof.
  intros Hsc H. unfold parse_stats_line in H.
  destruct (split1 32 args) as [w rest]. destruct rest as [rest|]; [|discriminate].
  match type of H with context[match ?a with Some k => _ | None => _ end] => destruct a end.
  - inversion H; subst. apply Forall_app; split; [exact Hsc|constructor; [constructor|constructor]].
  - destruct (parse_leaf opt t args) as [l|] eqn:Hl; [|discriminate]. inversion H; subst.
    apply Forall_app; split; [exact Hsc|]. constructor; [|constructor].
    constructor; [|constructor]. eapply parse_leaf_canonical; exact Hl.
Qed.

Lemma all_counters_canon grp : forall fs,
  all_counters grp = Some fs -> sc grp -> Forall leaf_canonical (flat_map filt_leaves fs).
Proof.
  induction grp as [|st grp IH]; intros fs H Hsc; cbn [all_counters] in H.
  - inversion H; subst. constructor.
  - destruct (counter_of st) as [f|] eqn:Hc; [|discriminate].
    destruct (all_counters grp) as [fs'|]; [|discriminate]. inversion H; subst.
    inversion Hsc as [|? ? Hst Hrest]; subst. cbn [flat_map]. apply Forall_app; split; [|apply IH; [reflexivity|exact Hrest]].
    destruct st as [f0|k c]; cbn [counter_of] in Hc; [|discriminate]. inversion Hc; subst. exact Hst.
Qed.

Lemma pop_n_sc n stack rest grp : pop_n n stack = Some (rest, grp) -> sc stack -> sc rest /\ sc grp.
Proof.
  unfold pop_n. destruct (Nat.ltb (length stack) n); [discriminate|].
  intros H; inversion H; subst. intros Hsc. unfold sc in *.
  rewrite <- (firstn_skipn (length stack - n) stack) in Hsc. apply Forall_app in Hsc. exact Hsc.
Qed.

Lemma group_stats_sc opt t g arg stack st' :
  sc stack -> group_stats opt t g arg stack = Ok st' -> sc st'.
Proof.
  intros Hsc H. unfold group_stats in H.
  destruct (parse_int arg) as [z|]; [|discriminate].
  destruct z as [|z|z].
  - eapply parse_stats_line_sc; eassumption.
  - destruct (Z.ltb (Z.pos z) 0); [discriminate|].
    destruct (pop_n (Z.to_nat (Z.pos z)) stack) as [[rest grp]|] eqn:Hp; [|discriminate].
    destruct (all_counters grp) as [fs|] eqn:Ha; [|discriminate]. inversion H; subst.
    destruct (pop_n_sc _ _ _ _ Hp Hsc) as [Hr Hg].
    apply Forall_app; split; [exact Hr|]. constructor; [|constructor].
    unfold stat_canon. cbn [stat_leaves filt_leaves]. eapply all_counters_canon; eassumption.
  - destruct (Z.ltb (Z.neg z) 0); [discriminate|].
    destruct (pop_n (Z.to_nat (Z.neg z)) stack) as [[rest grp]|] eqn:Hp; [|discriminate].
    destruct (all_counters grp) as [fs|] eqn:Ha; [|discriminate]. inversion H; subst.
    destruct (pop_n_sc _ _ _ _ Hp Hsc) as [Hr Hg].
    apply Forall_app; split; [exact Hr|]. constructor; [|constructor].
    unfold stat_canon. cbn [stat_leaves filt_leaves]. eapply all_counters_canon; eassumption.
Qed.

Lemma filt_leaves_set_neg f : filt_leaves (set_neg f) = filt_leaves f.
Proof. destruct f; reflexivity. Qed.

Lemma stats_negate_sc stack st' :
  sc stack ->
  negate_top (fun st => match st with SCounter f => Ok (SCounter (set_neg f)) | SAgg _ _ => Err Unsupported end) stack = Ok st' ->
  sc st'.
Proof.
  intros Hsc H. unfold negate_top in H. apply Forall_rev in Hsc.
  destruct (rev stack) as [|top rest]; [discriminate|].
  inversion Hsc as [|? ? Htop Hrest]; subst.
  destruct top as [f|k c]; [|discriminate]. inversion H; subst.
  apply Forall_app; split; [apply Forall_rev; exact Hrest|]. constructor; [|constructor].
  unfold stat_canon in *. cbn [stat_leaves] in *. rewrite filt_leaves_set_neg. exact Htop.
Qed.

Lemma parse_header_sc opt r line r' :
  sc (rq_stats r) -> parse_header opt r line = Ok r' -> sc (rq_stats r').
Proof.
  intros Hsc H. unfold parse_header in H.
  destruct (split1 58 line) as [hname rest]. destruct rest as [rest|]; [|discriminate].
  Opaque str_eqb parse_leaf parse_stats_line group_stats group_filters negate_top parse_sort parse_int parse_onoff fields lower trim_left_sp.
  cbn zeta in H.
  break_hyp H; inversion H; subst; clear H; cbn [rq_stats set_filter set_stats bump_numfilter]; try exact Hsc.
  all: try (eapply parse_stats_line_sc; eassumption).
  all: try (eapply group_stats_sc; eassumption).
  match goal with H1 : match ?n with Ok _ => _ | Err _ => _ end = Ok _ |- _ => destruct n as [st|] eqn:En; [|discriminate] end.
  inversion H1; subst. cbn [rq_stats set_stats]. eapply stats_negate_sc; eassumption.
Qed.
Transparent str_eqb parse_leaf parse_stats_line group_stats group_filters negate_top parse_sort parse_int parse_onoff fields lower trim_left_sp.
Transparent trim_suffix trim_prefix has_regex_chars re_compile has_prefix has_suffix find_col parse_milli s is_hosts_or_services is_numeric_type.

Lemma parse_headers_sc opt lines : forall r r',
  sc (rq_stats r) -> parse_headers opt r lines = Ok r' -> sc (rq_stats r').
Proof.
  induction lines as [|l lines IH]; intros r r' Hsc H; cbn [parse_headers] in H.
  - inversion H; subst; exact Hsc.
  - destruct (trim_space l) as [|c l'] eqn:Hl; [inversion H; subst; exact Hsc|].
    destruct (parse_header opt r (c :: l')) as [r1|] eqn:Hh; [|discriminate].
    eapply IH; [|exact H]. eapply parse_header_sc; eassumption.
Qed.

(** every leaf of the Stats of a parsed request is canonical (both parse modes) *)
Theorem parsed_stats_canonical schema opt lines rq :
  parse_request schema opt lines = Ok rq -> Forall leaf_canonical (prog_leaves (rq_stats rq)).
Proof.
  intros H. apply sc_leaves. unfold parse_request in H.
  destruct (parse_request_raw schema opt lines) as [r|] eqn:Hr; [|discriminate].
  assert (Hsc : sc (rq_stats r)).
  { unfold parse_request_raw in Hr. destruct lines as [|first rest]; [discriminate|].
    destruct (parse_get_line schema first) as [t|]; [|discriminate].
    eapply parse_headers_sc; [|exact Hr]. constructor. }
  destruct opt; inversion H; subst; exact Hsc.
Qed.

(** for every request the parser accepts the numbers do not depend on the
    grouping - no side condition *)
Theorem grouping_sound_parsed schema opt lines rq x g accs :
  parse_request schema opt lines = Ok rq ->
  length accs = length (rq_stats rq) ->
  optimize (rq_stats rq) = Some g ->
  count_grouped x g accs = map2 (count_row x) (rq_stats rq) accs.
Proof.
  intros Hp Hlen Ho. apply grouping_sound; [|exact Hlen|exact Ho].
  apply canonical_coherent. eapply parsed_stats_canonical; exact Hp.
Qed.

Corollary count_stats_parsed schema opt lines rq x accs :
  parse_request schema opt lines = Ok rq ->
  length accs = length (rq_stats rq) ->
  count_stats x (rq_stats rq) accs = map2 (count_row x) (rq_stats rq) accs.
Proof.
  intros Hp Hlen. apply count_stats_sound; [|exact Hlen].
  apply canonical_coherent. eapply parsed_stats_canonical; exact Hp.
Qed.

Theorem grouping_sound_rows_parsed schema opt lines rq g xs :
  parse_request schema opt lines = Ok rq ->
  optimize (rq_stats rq) = Some g ->
  fold_left (fun accs x => count_grouped x g accs) xs (map (fun _ => acc0) (rq_stats rq)) =
  map (fun st => acc_rows st xs) (rq_stats rq).
Proof.
  intros Hp Ho. apply grouping_sound_rows; [|exact Ho].
  intros x _. apply canonical_coherent. eapply parsed_stats_canonical; exact Hp.
Qed.


(** * the fuel of [optimize] is enough: more fuel never changes the result, so
    [optimize] is the unbounded recursion of the implementation *)
Definition gsize (e : gstat) : nat :=
  match e with GPlain _ st => stat_size st | GGroup _ _ _ => 0 end.

Definition bounded (k : nat) (es : list gstat) : Prop := Forall (fun e => gsize e <= k) es.

Definition apply_rec (rec : list gstat -> option (list gstat)) (l : list gstat) : list gstat :=
  match rec l with Some g => g | None => l end.

Lemma filt_size_pos f : 1 <= filt_size f.
Proof. destruct f; cbn [filt_size]; lia. Qed.

Lemma remove_first_size e pos f fs :
  groupable_parts e = Some (pos, f, fs) -> gsize (remove_first pos fs) < gsize e /\ 3 <= gsize e.
Proof.
  intros Hg. apply groupable_parts_inv in Hg as [-> Hlen].
  pose proof (filt_size_pos f) as Hf.
  unfold remove_first. destruct fs as [|c [|c' r]]; cbn [length] in Hlen; [lia| |].
  - pose proof (filt_size_pos c). cbn [gsize stat_size filt_size fold_right]. lia.
  - pose proof (filt_size_pos c). pose proof (filt_size_pos c').
    cbn [gsize stat_size filt_size fold_right]. lia.
Qed.

Lemma bounded_fin_group k d l n subs subs' post :
  bounded k (d ++ GGroup l n subs :: post) -> bounded k (d ++ GGroup l n subs' :: post).
Proof.
  unfold bounded. rewrite !Forall_app, !Forall_cons_iff. cbn [gsize]. tauto.
Qed.

Lemma bounded_regroup k rec st : bounded k (fin st) -> bounded k (fin (regroup rec st)).
Proof.
  destruct st as [d [[[[l n] subs] post]|]]; cbn [regroup fin]; [|trivial]. apply bounded_fin_group.
Qed.

Lemma step_bounded k rec e st st' :
  step_spec rec e st st' -> bounded k (fin st) -> gsize e <= k -> bounded k (fin st').
Proof.
  intros Hst Hb He. destruct Hst as [Hg|pos l n fs d gl gn subs post Hg -> Hs|pos f fs Hg|pos l n fs Hg].
  - rewrite fin_emit. apply Forall_app; split; [exact Hb|constructor; [exact He|constructor]].
  - cbn [fin] in *. eapply bounded_fin_group; exact Hb.
  - rewrite fin_emit. apply Forall_app; split; [apply bounded_regroup; exact Hb|constructor; [exact He|constructor]].
  - cbn [fin]. apply Forall_app; split; [apply bounded_regroup; exact Hb|].
    constructor; [cbn [gsize]; lia|constructor].
Qed.

Lemma walk_bounded k rec es : forall st, bounded k es -> bounded k (fin st) -> bounded k (fin (walk rec es st)).
Proof.
  induction es as [|e rest IH]; intros st Hes Hb; cbn [walk]; [exact Hb|].
  inversion Hes; subst. apply IH; [assumption|].
  eapply step_bounded; [apply step_ok|exact Hb|assumption].
Qed.

Lemma opt_bounded k fuel es g : bounded k es -> opt fuel es = Some g -> bounded k g.
Proof.
  destruct fuel as [|fuel]; cbn [opt]; [discriminate|]. unfold opt_level.
  destruct (length es <=? 1); [discriminate|]. intros Hes H; inversion H; subst.
  apply bounded_regroup. apply walk_bounded; [exact Hes|constructor].
Qed.

Lemma apply_rec_bounded k fuel l : bounded k l -> bounded k (apply_rec (opt fuel) l).
Proof.
  intros Hl. unfold apply_rec. destruct (opt fuel l) as [g|] eqn:Ho; [|exact Hl].
  eapply opt_bounded; eassumption.
Qed.

(** nothing to group below three nodes *)
Lemma walk_small rec es : forall d, bounded 2 es -> walk rec es (OS d None) = OS (d ++ es) None.
Proof.
  induction es as [|e rest IH]; intros d Hes; cbn [walk]; [rewrite app_nil_r; reflexivity|].
  inversion Hes as [|? ? He Hrest]; subst.
  assert (Hg : groupable_parts e = None).
  { destruct (groupable_parts e) as [[[pos f] fs]|] eqn:Hg; [|reflexivity].
    apply remove_first_size in Hg. lia. }
  unfold step. rewrite Hg. cbn [emit]. rewrite IH by exact Hrest. rewrite <- app_assoc. reflexivity.
Qed.

Lemma opt_small fuel l : bounded 2 l -> apply_rec (opt fuel) l = l.
Proof.
  intros Hl. unfold apply_rec. destruct fuel as [|fuel]; cbn [opt]; [reflexivity|].
  unfold opt_level. destruct (length l <=? 1); [reflexivity|].
  rewrite walk_small by exact Hl. reflexivity.
Qed.

Section FuelExt.
  Variables rec1 rec2 : list gstat -> option (list gstat).
  Variable k : nat.
  Hypothesis Hext : forall l, bounded k l -> apply_rec rec1 l = apply_rec rec2 l.
  Hypothesis Hb : forall l, bounded k l -> bounded k (apply_rec rec1 l).

  Definition sbk (st : ostate) : Prop :=
    match st with OS _ (Some (_, _, subs, _)) => bounded k subs | _ => True end.

  Lemma regroup_ext st : sbk st -> regroup rec1 st = regroup rec2 st.
  Proof.
    destruct st as [d [[[[l n] subs] post]|]]; cbn [regroup sbk]; [|reflexivity].
    intros Hs. change (OS d (Some (l, n, apply_rec rec1 subs, post)) = OS d (Some (l, n, apply_rec rec2 subs, post))).
    rewrite (Hext subs Hs). reflexivity.
  Qed.

  Lemma regroup_sbk st : sbk st -> sbk (regroup rec1 st).
  Proof.
    destruct st as [d [[[[l n] subs] post]|]]; cbn [regroup sbk]; [|trivial].
    intros Hs. exact (Hb subs Hs).
  Qed.

  Lemma step_ext e next st : sbk st -> step rec1 e next st = step rec2 e next st.
  Proof.
    intros Hs. unfold step. destruct (groupable_parts e) as [[[pos f] fs]|]; [|reflexivity].
    destruct (try_append st pos f fs); [reflexivity|]. rewrite (regroup_ext st Hs). reflexivity.
  Qed.

  Lemma emit_sbk e st : sbk st -> sbk (emit e st).
  Proof. destruct st as [d [[[[l n] subs] post]|]]; cbn [emit sbk]; trivial. Qed.

  Lemma step_sbk e st st' : step_spec rec1 e st st' -> sbk st -> gsize e <= S k -> sbk st'.
  Proof.
    intros Hst Hs He. destruct Hst as [Hg|pos l n fs d gl gn subs post Hg -> Hsame|pos f fs Hg|pos l n fs Hg].
    - apply emit_sbk; exact Hs.
    - cbn [sbk] in *. apply Forall_app; split; [exact Hs|].
      constructor; [|constructor]. apply remove_first_size in Hg. lia.
    - apply emit_sbk. apply regroup_sbk. exact Hs.
    - cbn [sbk]. constructor; [|constructor]. apply remove_first_size in Hg. lia.
  Qed.

  Lemma walk_ext es : forall st, bounded (S k) es -> sbk st ->
    walk rec1 es st = walk rec2 es st /\ sbk (walk rec1 es st).
  Proof.
    induction es as [|e rest IH]; intros st Hes Hs; cbn [walk]; [split; [reflexivity|exact Hs]|].
    inversion Hes as [|? ? He Hrest]; subst.
    rewrite <- (step_ext e (hd_error rest) st Hs).
    apply IH; [exact Hrest|]. eapply step_sbk; [apply step_ok|exact Hs|exact He].
  Qed.

  Lemma opt_level_ext es : bounded (S k) es -> opt_level rec1 es = opt_level rec2 es.
  Proof.
    intros Hes. unfold opt_level. destruct (length es <=? 1); [reflexivity|].
    destruct (walk_ext es (OS [] None) Hes I) as [Hw Hs]. rewrite <- Hw, (regroup_ext _ Hs). reflexivity.
  Qed.
End FuelExt.

Lemma apply_rec_fuel k : forall n m l,
  bounded k l -> k <= n + 2 -> k <= m + 2 -> apply_rec (opt n) l = apply_rec (opt m) l.
Proof.
  induction k as [|k IH]; intros n m l Hl Hn Hm.
  - rewrite !opt_small; [reflexivity| |]; eapply Forall_impl; try exact Hl; cbn beta; intros; lia.
  - destruct (Nat.le_gt_cases (S k) 2) as [Hk|Hk].
    + rewrite !opt_small; [reflexivity| |]; eapply Forall_impl; try exact Hl; cbn beta; intros; lia.
    + destruct n as [|n]; [lia|]. destruct m as [|m]; [lia|].
      unfold apply_rec. cbn [opt].
      rewrite (opt_level_ext (opt n) (opt m) k); [reflexivity| | |exact Hl].
      * intros l' Hl'. apply IH; [exact Hl'|lia|lia].
      * intros l' Hl'. apply apply_rec_bounded; exact Hl'.
Qed.

Theorem opt_fuel_stable n m es :
  bounded (n + 3) es -> bounded (m + 3) es -> opt (S n) es = opt (S m) es.
Proof.
  intros Hn Hm. cbn [opt].
  destruct (Nat.le_ge_cases n m) as [Hle|Hle].
  - apply (opt_level_ext (opt n) (opt m) (n + 2)).
    + intros l Hl. apply (apply_rec_fuel (n + 2)); [exact Hl|lia|lia].
    + intros l Hl. apply apply_rec_bounded; exact Hl.
    + replace (S (n + 2)) with (n + 3) by lia. exact Hn.
  - apply (opt_level_ext (opt n) (opt m) (m + 2)).
    + intros l Hl. apply (apply_rec_fuel (m + 2)); [exact Hl|lia|lia].
    + intros l Hl. apply apply_rec_bounded; exact Hl.
    + replace (S (m + 2)) with (m + 3) by lia. exact Hm.
Qed.

Lemma number_from_bounded prog : forall i,
  bounded (fold_right (fun st n => Nat.max (stat_size st) n) 0 prog) (number_from i prog).
Proof.
  induction prog as [|st prog IH]; intros i; cbn [number_from fold_right]; constructor.
  - cbn [gsize]. lia.
  - eapply Forall_impl; [|apply (IH (S i))]. cbn beta. intros e He. lia.
Qed.

(** any fuel from [prog_fuel] on gives the same grouped program *)
Corollary optimize_fuel prog n : prog_fuel prog <= n -> opt n (number_from 0 prog) = optimize prog.
Proof.
  unfold optimize, prog_fuel. set (k := fold_right (fun st n => Nat.max (stat_size st) n) 0 prog).
  intros Hn. destruct n as [|n]; [lia|].
  apply opt_fuel_stable; (eapply Forall_impl; [|apply number_from_bounded]); cbn beta; fold k; intros; lia.
Qed.

(** * non-vacuity: programs as the parser model builds them (ParseOptimize) *)
Module Examples.
  Definition col (n : String.string) (t : dtype) : column := mkCol (s n) t SLocal FDynamic 0%N None.
  Definition tsvc : tschema :=
    mkTable (s "services") [s "services"] [s "host_name"; s "description"] [] false false []
      [col "host_name" TStr; col "description" TStr; col "state" TInt; col "has_been_checked" TInt;
       col "acknowledged" TInt; col "latency" TFloat;
       mkCol (s "custom_variables") TCustVar SVirtual FNone 0%N None].

  Definition stats_of (lines : list String.string) : list stat :=
    match parse_headers true (empty_request tsvc) (map s lines) with
    | Ok r => rq_stats r
    | Err _ => []
    end.

  Definition blk (a b : String.string) : list String.string :=
    [String.append "Stats: " a; String.append "Stats: " b; "StatsAnd: 2"].

  (* rows: state, has_been_checked, acknowledged *)
  Definition td : tdata :=
    mkData (s "services") [s "host_name"; s "description"; s "state"; s "has_been_checked"; s "acknowledged"; s "latency";
                           s "custom_variable_names"; s "custom_variable_values"] [].
  Definition bk : backend := mkBackend (s "id1") (s "peer") 0%N true [] [td].
  Definition row (state checked ack : Z) : rowctx :=
    mkCtx [tsvc] bk tsvc td [VStr (s "h"); VStr (s "svc"); VInt state; VInt checked; VInt ack; VFloat 1500;
                             VStrList [s "FOO"; s "BAR"]; VStrList [s "1"; s "2"]].
  Definition rows : list rowctx := [row 0 1 0; row 1 1 0; row 2 1 1; row 0 0 0; row 1 1 1; row 3 1 0].

  Definition zeros (prog : list stat) : list acc := map (fun _ => acc0) prog.
  Definition grouped_total (prog : list stat) : option (list acc) :=
    match optimize prog with
    | Some g => Some (fold_left (fun accs x => count_grouped x g accs) rows (zeros prog))
    | None => None
    end.
  Definition plain_total (prog : list stat) : list acc :=
    fold_left (fun accs x => map2 (count_row x) prog accs) rows (zeros prog).
  Definition counts (l : list acc) : list Z := map a_cnt l.

  (** the tactical overview: two blocks sharing [has_been_checked = 1] become one group *)
  Definition classic := stats_of (blk "has_been_checked = 1" "state = 0" ++ blk "has_been_checked = 1" "state = 1").
  Example classic_len : length classic = 2. Proof. vm_compute. reflexivity. Qed.
  Example classic_shape : shapes (optimize classic) = Some [ShGroup [ShPlain 0 0; ShPlain 1 0]].
  Proof. vm_compute. reflexivity. Qed.
  Example classic_counts :
    option_map counts (grouped_total classic) = Some [1; 2]%Z /\ counts (plain_total classic) = [1; 2]%Z.
  Proof. vm_compute. split; reflexivity. Qed.

  (** a run interrupted by an aggregate: [lastGroup] survives, the fourth element
      joins the group in front of the aggregate but keeps slot 3 *)
  Definition interrupted :=
    stats_of (blk "has_been_checked = 1" "state = 0" ++ blk "has_been_checked = 1" "state = 1"
              ++ ["Stats: avg latency"] ++ blk "has_been_checked = 1" "state = 2").
  Example interrupted_shape :
    shapes (optimize interrupted) = Some [ShGroup [ShPlain 0 0; ShPlain 1 0; ShPlain 3 0]; ShPlain 2 0].
  Proof. vm_compute. reflexivity. Qed.
  Example interrupted_counts :
    option_map counts (grouped_total interrupted) = Some [1; 2; 6; 1]%Z /\ counts (plain_total interrupted) = [1; 2; 6; 1]%Z.
  Proof. vm_compute. split; reflexivity. Qed.

  (** a third block with the same first term is appended *)
  Definition third :=
    stats_of (blk "has_been_checked = 1" "state = 0" ++ blk "has_been_checked = 1" "state = 1"
              ++ blk "has_been_checked = 1" "state = 2").
  Example third_shape : shapes (optimize third) = Some [ShGroup [ShPlain 0 0; ShPlain 1 0; ShPlain 2 0]].
  Proof. vm_compute. reflexivity. Qed.

  (** a leading plain counter keeps slot 0, the group's members keep 1..3
      (TestStatsQueryOptimizer of the implementation) *)
  Definition lead := stats_of (["Stats: has_been_checked = 1"] ++ blk "has_been_checked = 1" "state = 0"
              ++ blk "has_been_checked = 1" "state = 1" ++ blk "has_been_checked = 1" "state = 2").
  Example lead_shape :
    shapes (optimize lead) = Some [ShPlain 0 0; ShGroup [ShPlain 1 0; ShPlain 2 0; ShPlain 3 0]].
  Proof. vm_compute. reflexivity. Qed.
  Example lead_counts :
    option_map counts (grouped_total lead) = Some [5; 1; 2; 1]%Z /\ counts (plain_total lead) = [5; 1; 2; 1]%Z.
  Proof. vm_compute. split; reflexivity. Qed.

  (** two levels: four blocks of three, the members of the group are regrouped *)
  Definition blk3 (a b c : String.string) : list String.string :=
    [String.append "Stats: " a; String.append "Stats: " b; String.append "Stats: " c; "StatsAnd: 3"].
  Definition deep :=
    stats_of (blk3 "has_been_checked = 1" "state = 0" "acknowledged = 0" ++ blk3 "has_been_checked = 1" "state = 0" "acknowledged = 1"
              ++ blk3 "has_been_checked = 1" "state = 1" "acknowledged = 0" ++ blk3 "has_been_checked = 1" "state = 1" "acknowledged = 1").
  Example deep_shape :
    shapes (optimize deep) = Some [ShGroup [ShGroup [ShPlain 0 0; ShPlain 1 0]; ShGroup [ShPlain 2 0; ShPlain 3 0]]].
  Proof. vm_compute. reflexivity. Qed.
  Example deep_one_level :
    shapes (optimize1 deep) = Some [ShGroup [ShPlain 0 2; ShPlain 1 2; ShPlain 2 2; ShPlain 3 2]].
  Proof. vm_compute. reflexivity. Qed.
  Example deep_counts :
    option_map counts (grouped_total deep) = Some [1; 0; 1; 1]%Z /\ counts (plain_total deep) = [1; 0; 1; 1]%Z.
  Proof. vm_compute. split; reflexivity. Qed.

  (** the register survives a block that does not fit: the group is regrouped,
      the stranger is emitted behind it, the next fitting block joins the
      (already regrouped) members and they are regrouped again *)
  Definition reappend :=
    stats_of (blk3 "has_been_checked = 1" "state = 0" "acknowledged = 0" ++ blk3 "has_been_checked = 1" "state = 0" "acknowledged = 1"
              ++ blk "state = 3" "acknowledged = 1" ++ blk3 "has_been_checked = 1" "state = 0" "acknowledged = 2").
  Example reappend_shape :
    shapes (optimize reappend) = Some [ShGroup [ShGroup [ShPlain 0 0; ShPlain 1 0]; ShPlain 3 2]; ShPlain 2 2].
  Proof. vm_compute. reflexivity. Qed.
  Example reappend_counts :
    option_map counts (grouped_total reappend) = Some (counts (plain_total reappend))
    /\ counts (plain_total reappend) = [1; 0; 0; 0]%Z.
  Proof. vm_compute. split; reflexivity. Qed.

  (** *** shapes that must NOT be grouped *)
  Definition flat2 := Some [ShPlain 0 2; ShPlain 1 2].

  (** StatsOr blocks *)
  Definition orblk (a b : String.string) : list String.string :=
    [String.append "Stats: " a; String.append "Stats: " b; "StatsOr: 2"].
  Definition ors := stats_of (orblk "has_been_checked = 1" "state = 0" ++ orblk "has_been_checked = 1" "state = 1").
  Example ors_alone : shapes (optimize ors) = flat2.
  Proof. vm_compute. reflexivity. Qed.

  (** negated blocks *)
  Definition negs := stats_of (blk "has_been_checked = 1" "state = 0" ++ ["StatsNegate:"]
                               ++ blk "has_been_checked = 1" "state = 1" ++ ["StatsNegate:"]).
  Example negs_alone : shapes (optimize negs) = flat2.
  Proof. vm_compute. reflexivity. Qed.

  (** a nested first member *)
  Definition nested :=
    stats_of (blk "has_been_checked = 1" "acknowledged = 0" ++ ["Stats: state = 0"; "StatsAnd: 2"]
              ++ blk "has_been_checked = 1" "acknowledged = 0" ++ ["Stats: state = 1"; "StatsAnd: 2"]).
  Example nested_alone : shapes (optimize nested) = flat2.
  Proof. vm_compute. reflexivity. Qed.

  (** the same value of another custom variable *)
  Definition custvars := stats_of (blk "custom_variables = FOO 1" "state = 0" ++ blk "custom_variables = BAR 1" "state = 1").
  Example custvars_alone : shapes (optimize custvars) = flat2.
  Proof. vm_compute. reflexivity. Qed.
  (** ... while the same variable is grouped *)
  Definition custvar_same := stats_of (blk "custom_variables = FOO 1" "state = 0" ++ blk "custom_variables = FOO 1" "state = 1").
  Example custvar_same_shape : shapes (optimize custvar_same) = Some [ShGroup [ShPlain 0 0; ShPlain 1 0]].
  Proof. vm_compute. reflexivity. Qed.
  Example custvar_same_counts :
    option_map counts (grouped_total custvar_same) = Some [2; 2]%Z /\ counts (plain_total custvar_same) = [2; 2]%Z.
  Proof. vm_compute. split; reflexivity. Qed.

  (** unknown columns: every filter gets a placeholder column of its own, the pointers differ *)
  Definition unknown := stats_of (blk "foo = 1" "state = 0" ++ blk "foo = 1" "state = 1").
  Example unknown_alone : shapes (optimize unknown) = flat2.
  Proof. vm_compute. reflexivity. Qed.

  (** a negated first member is a fine guard *)
  Definition negfirst :=
    stats_of (["Stats: has_been_checked = 1"; "StatsNegate:"; "Stats: state = 0"; "StatsAnd: 2";
               "Stats: has_been_checked = 1"; "StatsNegate:"; "Stats: state = 1"; "StatsAnd: 2"]).
  Example negfirst_shape : shapes (optimize negfirst) = Some [ShGroup [ShPlain 0 0; ShPlain 1 0]].
  Proof. vm_compute. reflexivity. Qed.
  Example negfirst_counts :
    option_map counts (grouped_total negfirst) = Some [1; 0]%Z /\ counts (plain_total negfirst) = [1; 0]%Z.
  Proof. vm_compute. split; reflexivity. Qed.

  (** a single block: nil, CountStats runs over req.Stats *)
  Example single_nil : optimize (stats_of (blk "has_been_checked = 1" "state = 0")) = None.
  Proof. vm_compute. reflexivity. Qed.

  (** *** blocks whose first members differ only in isEmpty are left alone
      ([Stats: state like] matches nothing on a number column, [Stats: state ~ .*]
      is rewritten to "contains the empty text" and matches everything) *)
  Definition isempty := stats_of (blk "state like" "acknowledged = 0" ++ blk "state ~ .*" "acknowledged = 0").
  Example isempty_alone : shapes (optimize isempty) = flat2.
  Proof. vm_compute. reflexivity. Qed.
  Example isempty_counts :
    option_map counts (grouped_total isempty) = Some [0; 4]%Z /\ counts (plain_total isempty) = [0; 4]%Z.
  Proof. vm_compute. split; reflexivity. Qed.
  Example classic_coherent : forallb (fun x => coherentb x classic) rows = true.
  Proof. vm_compute. reflexivity. Qed.
  Example deep_coherent : forallb (fun x => coherentb x deep) rows = true.
  Proof. vm_compute. reflexivity. Qed.
End Examples.

Print Assumptions grouping_sound.
Print Assumptions grouping_sound_rows.
Print Assumptions grouping_sound_one_level.
Print Assumptions count_stats_sound.
Print Assumptions slot_unique.
Print Assumptions grouped_entries.
Print Assumptions equals_same_rows.
Print Assumptions canonical_coherent.
Print Assumptions parse_leaf_canonical.
Print Assumptions parsed_stats_canonical.
Print Assumptions grouping_sound_parsed.
Print Assumptions count_stats_parsed.
Print Assumptions grouping_sound_rows_parsed.
Print Assumptions coherentb_sound.
Print Assumptions optimize_fuel.
