(** Small text utilities mirroring the Go string functions the parser uses. *)
From LMD Require Export Base.Str.
From LMD Require Import QE.Value.
Open Scope N_scope.

Definition is_space (c : N) : bool :=
  N.eqb c 32 || N.eqb c 9 || N.eqb c 10 || N.eqb c 11 || N.eqb c 12 || N.eqb c 13 || N.eqb c 133 || N.eqb c 160.

Fixpoint trim_left (x : str) : str :=
  match x with
  | c :: rest => if is_space c then trim_left rest else x
  | [] => []
  end.
Definition trim_right (x : str) : str := rev (trim_left (rev x)).
Definition trim_space (x : str) : str := trim_right (trim_left x).

Fixpoint trim_left_sp (x : str) : str :=      (* bytes.TrimLeft(x, " ") *)
  match x with
  | 32 :: rest => trim_left_sp rest
  | _ => x
  end.

(** split at the first occurrence of [sep]: (before, Some after) or (x, None) *)
Fixpoint split1 (sep : N) (x : str) : str * option str :=
  match x with
  | [] => ([], None)
  | c :: rest => if N.eqb c sep then ([], Some rest)
                 else let '(a, b) := split1 sep rest in (c :: a, b)
  end.

(** strings.Fields *)
Fixpoint fields_aux (cur : str) (x : str) : list str :=
  match x with
  | [] => match cur with [] => [] | _ => [rev cur] end
  | c :: rest => if is_space c then (match cur with [] => fields_aux [] rest | _ => rev cur :: fields_aux [] rest end)
                 else fields_aux (c :: cur) rest
  end.
Definition fields (x : str) : list str := fields_aux [] x.

Definition ascii_lower (c : N) : N := if N.leb 65 c && N.leb c 90 then c + 32 else c.

Fixpoint has_prefix (p x : str) : bool :=
  match p, x with
  | [], _ => true
  | a :: p', b :: x' => N.eqb a b && has_prefix p' x'
  | _ :: _, [] => false
  end.
Definition has_suffix (p x : str) : bool := has_prefix (rev p) (rev x).
Definition trim_prefix (p x : str) : str := if has_prefix p x then skipn (length p) x else x.
Definition trim_suffix (p x : str) : str := if has_suffix p x then firstn (length x - length p) x else x.

(** decimal numbers: [-]digits[.digits]  ->  milli units (three decimals kept,
    more are rejected: outside the fragment the generators use) *)
Definition is_digit (c : N) : bool := N.leb 48 c && N.leb c 57.

Fixpoint digits_val (acc : Z) (x : str) : option Z :=
  match x with
  | [] => Some acc
  | c :: rest => if is_digit c then digits_val (acc * 10 + Z.of_N (c - 48)) rest else None
  end.

Definition parse_milli (x : str) : option Z :=
  let '(neg, body) := match x with 45 :: r => (true, r) | 43 :: r => (false, r) | _ => (false, x) end in
  let '(ip, fp) := split1 46 body in
  let fp := match fp with Some f => f | None => [] end in
  match ip, fp with
  | [], [] => None
  | _, _ =>
      if Nat.ltb 3 (length fp) then None
      else match digits_val 0 ip, digits_val 0 fp with
           | Some i, Some f =>
               let scale := match length fp with 0%nat => 1000 | 1%nat => 100 | 2%nat => 10 | _ => 1 end%Z in
               let v := (i * 1000 + f * scale)%Z in
               Some (if neg then (- v)%Z else v)
           | _, _ => None
           end
  end.

(** strconv.Atoi on the subset [-]digits *)
Definition parse_int (x : str) : option Z :=
  let '(neg, body) := match x with 45 :: r => (true, r) | 43 :: r => (false, r) | _ => (false, x) end in
  match body with
  | [] => None
  | _ => match digits_val 0 body with
         | Some v => Some (if neg then (- v)%Z else v)
         | None => None
         end
  end.

(** decimal rendering of an integer (fmt "%d") *)
Fixpoint pos_digits (fuel : nat) (n : N) (acc : str) : str :=
  match fuel with
  | O => acc
  | S fuel => let acc := (48 + n mod 10) :: acc in
              if N.eqb (n / 10) 0 then acc else pos_digits fuel (n / 10) acc
  end.
Definition show_Z (z : Z) : str :=
  match z with
  | Z0 => [48]
  | Zpos p => pos_digits (S (N.to_nat (N.log2 (Npos p)))) (Npos p) []
  | Zneg p => 45 :: pos_digits (S (N.to_nat (N.log2 (Npos p)))) (Npos p) []
  end.

(** fmt "%v" of a float64 with at most three decimals: shortest representation *)
Definition show_milli (m : Z) : str :=
  let neg := Z.ltb m 0 in
  let a := Z.abs m in
  let ip := (a / 1000)%Z in
  let fp := (a mod 1000)%Z in
  let frac :=
    if Z.eqb fp 0 then []
    else let d1 := (fp / 100)%Z in let d2 := ((fp / 10) mod 10)%Z in let d3 := (fp mod 10)%Z in
         let ds := [48 + Z.to_N d1; 48 + Z.to_N d2; 48 + Z.to_N d3] in
         let ds := if Z.eqb d3 0 then (if Z.eqb d2 0 then [48 + Z.to_N d1] else [48 + Z.to_N d1; 48 + Z.to_N d2]) else ds in
         46 :: ds in
  (if neg then [45] else []) ++ show_Z ip ++ frac.

Fixpoint join (sep : str) (l : list str) : str :=
  match l with
  | [] => []
  | [x] => x
  | x :: rest => x ++ sep ++ join sep rest
  end.
