(** Cached data as the query engine sees it: typed cell values, tables, backends,
    and the column getters of pkg/lmd/datarow.go (local / reference / virtual
    storage, optional columns, lower-case shadow columns). *)
From LMD Require Export Base.Str QE.SchemaTypes.

(** floats are fixed point with three decimals ([VFloat 1250] = 1.25) *)
Inductive value :=
| VStr (x : str)
| VInt (z : Z)
| VFloat (milli : Z)
| VStrList (l : list str)
| VIntList (l : list Z)
| VPairs (l : list (str * str))          (* service members / custom variables *)
| VRows (l : list (list str)).           (* interface lists, entries rendered as text *)

Record tdata := mkData { td_table : str; td_cols : list str; td_rows : list (list value) }.

Record backend := mkBackend {
  b_key : str; b_name : str; b_flags : N;
  b_avail : bool;                       (* data present (peer up / warning) *)
  b_error : str;                        (* lastError *)
  b_tables : list tdata }.

Definition has_flag (flags opt : N) : bool := N.eqb opt 0 || negb (N.eqb (N.land flags opt) 0).

(** *** ASCII / Latin-1 / Latin Extended-A simple case mapping (the alphabet of the generators) *)
Definition lower_cp (c : N) : N :=
  if (N.leb 65 c && N.leb c 90) then c + 32
  else if (N.leb 192 c && N.leb c 222 && negb (N.eqb c 215)) then c + 32
  else c.
Definition lower (x : str) : str := map lower_cp x.

(** *** zero values of a freshly allocated row (columns the snapshot does not carry) *)
Definition zero_value (t : dtype) : value :=
  match t with
  | TStr | TStrLarge | TJSON => VStr []
  | TInt | TInt64 => VInt 0
  | TFloat => VFloat 0
  | TStrList => VStrList []
  | TInt64List => VIntList []
  | TCustVar | TSvcMemberList => VPairs []
  | TIfaceList => VRows []
  end.

(** Column.GetEmptyValue as written to the client (WriteJSONEmptyColumn) *)
Definition empty_value (t : dtype) : value :=
  match t with
  | TStr | TStrLarge => VStr []
  | TInt | TInt64 => VInt (-1)
  | TFloat => VFloat (-1000)
  | TStrList => VStrList []
  | TInt64List => VIntList []
  | TSvcMemberList => VPairs []
  | TIfaceList => VRows []
  | TCustVar => VPairs []
  | TJSON => VPairs []
  end.

Fixpoint index_of (name : str) (cols : list str) : option nat :=
  match cols with
  | [] => None
  | c :: rest => if str_eqb c name then Some 0%nat
                 else match index_of name rest with Some i => Some (S i) | None => None end
  end.

Definition cell (td : tdata) (r : list value) (name : str) : option value :=
  match index_of name (td_cols td) with
  | Some i => nth_error r i
  | None => None
  end.

Definition find_data (bk : backend) (table : str) : option tdata :=
  find (fun td => str_eqb (td_table td) table) (b_tables bk).

Definition as_str (v : value) : str := match v with VStr x => x | _ => [] end.
Definition as_strlist (v : value) : list str := match v with VStrList l => l | _ => [] end.
Definition as_intlist (v : value) : list Z := match v with VIntList l => l | _ => [] end.

Definition has_suffix_lc (name : str) : option str :=
  (* name = base ++ "_lc" *)
  let n := length name in
  if Nat.leb 3 n then
    if list_eq_dec N.eq_dec (skipn (n - 3) name) (s "_lc") then Some (firstn (n - 3) name) else None
  else None.

(** local column: stored cell, or the lower-cased base column for `_lc` columns,
    or the type's zero value if the row does not carry it *)
Definition get_local (td : tdata) (r : list value) (c : column) : value :=
  match cell td r (c_name c) with
  | Some v => v
  | None =>
      match has_suffix_lc (c_name c) with
      | Some base =>
          match cell td r base with
          | Some (VStr x) => VStr (lower x)
          | _ => VStr []
          end
      | None => zero_value (c_type c)
      end
  end.

Fixpoint zip_pairs (names values : list str) : list (str * str) :=
  match names with
  | [] => []
  | n :: ns => match values with
               | v :: vs => (n, v) :: zip_pairs ns vs
               | [] => (n, []) :: zip_pairs ns []
               end
  end.

(** virtual columns the model covers; everything else reads as the empty string
    (exactly what the `empty` placeholder column does for unknown names) *)
Definition get_virtual (bk : backend) (td : tdata) (r : list value) (c : column) : value :=
  let n := c_name c in
  if str_eqb n (s "peer_key") || str_eqb n (s "key") then VStr (b_key bk)
  else if str_eqb n (s "peer_name") || str_eqb n (s "name") then VStr (b_name bk)
  else if str_eqb n (s "custom_variables") then
    VPairs (zip_pairs (as_strlist (match cell td r (s "custom_variable_names") with Some v => v | None => VStrList [] end))
                      (as_strlist (match cell td r (s "custom_variable_values") with Some v => v | None => VStrList [] end)))
  else if str_eqb n (s "has_long_plugin_output") then
    VInt (match cell td r (s "long_plugin_output") with Some (VStr (_ :: _)) => 1 | _ => 0 end)
  else if str_eqb n (s "state_order") then
    VInt (match cell td r (s "state") with Some (VInt 2) => 4 | Some (VInt z) => z | _ => 0 end)
  else if str_eqb n (s "total_services") then
    (match cell td r (s "num_services") with Some (VInt z) => VInt z | _ => VInt 0 end)
  else zero_value (c_type c).

Definition get_own (bk : backend) (td : tdata) (r : list value) (c : column) : value :=
  match c_store c with
  | SLocal => get_local td r c
  | SVirtual => get_virtual bk td r c
  | SRef => zero_value (c_type c)
  end.

(** reference resolution: the row of [reftable] whose primary key equals the
    local key columns *)
Definition key_of (td : tdata) (r : list value) (cols : list str) : list str :=
  map (fun c => as_str (match cell td r c with Some v => v | None => VStr [] end)) cols.

Definition find_ref (schema : list tschema) (bk : backend) (t : tschema) (td : tdata) (r : list value)
           (reftable : str) : option (tschema * tdata * list value) :=
  match find (fun x => str_eqb (fst x) reftable) (t_refs t), find_table schema reftable, find_data bk reftable with
  | Some (_, keycols), Some rt, Some rtd =>
      let key := key_of td r keycols in
      match find (fun rr => if list_eq_dec (list_eq_dec N.eq_dec) (key_of rtd rr (t_pk rt)) key then true else false) (td_rows rtd) with
      | Some rr => Some (rt, rtd, rr)
      | None => None
      end
  | _, _, _ => None
  end.

(** the value a filter or sort key reads (DataRow.GetString & co.) *)
Definition get (schema : list tschema) (bk : backend) (t : tschema) (td : tdata) (r : list value) (c : column) : value :=
  match c_store c, c_ref c with
  | SRef, Some (rtn, rcn) =>
      match find_ref schema bk t td r rtn with
      | Some (rt, rtd, rr) =>
          match find_col rt rcn with
          | Some rc => get_own bk rtd rr rc
          | None => zero_value (c_type c)
          end
      | None => empty_value (c_type c)
      end
  | _, _ => get_own bk td r c
  end.

(** the value written to the client (DataRow.WriteJSONColumn): optional columns
    the backend does not have and dangling references render as the empty value *)
Definition get_out (schema : list tschema) (bk : backend) (t : tschema) (td : tdata) (r : list value) (c : column) : value :=
  if negb (has_flag (b_flags bk) (c_opt c)) then empty_value (c_type c)
  else match c_store c, c_ref c with
       | SRef, Some (rtn, rcn) =>
           match find_ref schema bk t td r rtn with
           | Some (rt, rtd, rr) =>
               match find_col rt rcn with
               | Some rc => if negb (has_flag (b_flags bk) (c_opt rc)) then empty_value (c_type rc) else get_own bk rtd rr rc
               | None => empty_value (c_type c)
               end
           | None => empty_value (c_type c)
           end
       | _, _ => get_own bk td r c
       end.
