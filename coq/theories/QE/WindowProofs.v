(** * Sorting, per backend cut-off and windowing of the query engine (C06)

    STATUS: every statement of this file is proved; there are no [_partial]
    theorems and nothing is left open.  All theorems are by induction over
    arbitrary lists; [Print Assumptions] at the end of the file.

    A. order      [str_ltb_irrefl/trans/total/asym]; [cmp_key_refl/opp/eq/lt_trans];
                  [keys_leb_refl], [keys_leb_total] (unconditional),
                  [keys_leb_trans] and [keys_leb_antisym] under [same_shape]
                  (same constructor at every position; mixed constructors
                  compare [Eq], which is NOT transitive: KNum 1, KStr x, KNum 0).
    B. isort      [isort_perm], [isort_sorted], [isort_stable_on_sorted]
                  (needs no assumption), [isort_perm_eqv] (the sorted result
                  depends on the input order only up to ties),
                  [isort_sorted_on] (order transitive only on a decidable class).
    C. cut-off    [topk_cut]: position by position equivalence ([eqv_list],
                  ties = [leb a b && leb b a]) of the first [k] rows of the
                  sorted concatenation of the cut lists and of the complete
                  lists; [topk_cut_incl] (nothing invented); [topk_cut_keys]
                  (equality of every observation that is constant on ties);
                  [topk_cut_on] (relativised version used for the engine);
                  [topk_cut_needs_sorted] (the hypothesis is necessary).
                  Formulation: with ties the ROWS of both sides can differ
                  (two rows with equal keys from different backends), the KEYS
                  cannot, so the claim is [eqv_list] + key equality.
    D. engine     [hits_of_wf]: all rows of a request have one key shape (so the
                  shape hypothesis of the task is discharged, not assumed);
                  [cut_window_eqv], [cut_window_keys], [cut_window_unsorted_exact]
                  on arbitrary per backend lists;
                  [C06_window_default_order(_eqv)]: with [backend_limit rq = Some k],
                  [0 <= rq_offset rq] (the parser rejects negative offsets;
                  [cut_needs_nonneg_offset] shows it is necessary) and every
                  backend list sorted ([backends_sorted]), the key sequences of
                  [data_result] and [data_result_spec] are EQUAL and the lengths
                  are equal -- without the proviso "total >= offset": when the
                  implementation takes the early exit the window of the
                  specification is empty too ([impl_total_small]);
                  [C06_window_unsorted_exact]: without Sort header even the rows are equal;
                  [C06_window_no_cut], [C06_total], [C06_total_le],
                  [C06_result_sorted], [C06_result_sublist].
    E. window     [window_length], [window_segment] (contiguous segment),
                  [window_sublist], [window_NoDup], [window_sorted]. *)
From LMD Require Import QE.Engine.
From Coq Require Import Sorting.Sorted Permutation.
Local Open Scope nat_scope.
Local Open Scope list_scope.

(** ** A. Order facts *)

(** *** strings *)
Lemma str_ltb_irrefl (a : str) : str_ltb a a = false.
Proof.
  induction a as [|x a IH]; cbn [str_ltb]; [reflexivity|].
  rewrite N.ltb_irrefl, N.eqb_refl. exact IH.
Qed.

Lemma str_ltb_trans (a b c : str) :
  str_ltb a b = true -> str_ltb b c = true -> str_ltb a c = true.
Proof.
  revert b c; induction a as [|x a IH]; intros [|y b] [|z c]; cbn [str_ltb]; try congruence.
  destruct (N.ltb_spec x y) as [Hxy|Hxy].
  - intros _. destruct (N.ltb_spec y z) as [Hyz|Hyz].
    + intros _. destruct (N.ltb_spec x z); [reflexivity|lia].
    + destruct (N.eqb_spec y z) as [->|Hne]; [|congruence]. intros _.
      destruct (N.ltb_spec x z); [reflexivity|lia].
  - destruct (N.eqb_spec x y) as [->|Hne]; [|congruence]. intros Hab.
    destruct (N.ltb_spec y z) as [Hyz|Hyz]; [reflexivity|].
    destruct (N.eqb_spec y z) as [->|Hne]; [|congruence]. intros Hbc.
    eapply IH; eassumption.
Qed.

Lemma str_ltb_total (a b : str) : str_ltb a b = true \/ a = b \/ str_ltb b a = true.
Proof.
  revert b; induction a as [|x a IH]; intros [|y b]; cbn [str_ltb]; auto.
  destruct (N.ltb_spec x y) as [Hxy|Hxy]; [left; reflexivity|].
  destruct (N.ltb_spec y x) as [Hyx|Hyx]; [right; right; reflexivity|].
  assert (x = y) as -> by lia. rewrite N.eqb_refl.
  destruct (IH b) as [H|[H|H]];
    [left; exact H|right; left; congruence|right; right; exact H].
Qed.

Lemma str_ltb_asym (a b : str) : str_ltb a b = true -> str_ltb b a = false.
Proof.
  intros H. destruct (str_ltb b a) eqn:E; [|reflexivity].
  pose proof (str_ltb_trans _ _ _ H E) as H1. rewrite str_ltb_irrefl in H1. discriminate.
Qed.

Lemma str_ltb_nil_r (a : str) : str_ltb a [] = false.
Proof. destruct a; reflexivity. Qed.

(** the three-way comparison of two strings used by [cmp_key] *)
Lemma str_cmp_lt (x y : str) :
  (if str_eqb x y then Eq else if str_ltb x y then Lt else Gt) = Lt <-> str_ltb x y = true.
Proof.
  destruct (str_eqb_spec x y) as [->|Hne].
  - rewrite str_ltb_irrefl. split; discriminate.
  - destruct (str_ltb x y); split; congruence.
Qed.

(** *** one key *)
Definition ktag (k : keyval) : nat := match k with KNum _ => 0 | KStr _ => 1 | KCv _ => 2 end.

Lemma cmp_key_refl (a : keyval) : cmp_key a a = Eq.
Proof.
  destruct a as [m|x|x]; unfold cmp_key;
    [apply Z.compare_refl|rewrite str_eqb_refl; reflexivity|rewrite str_eqb_refl; reflexivity].
Qed.

Lemma cmp_key_eq (a b : keyval) : ktag a = ktag b -> cmp_key a b = Eq -> a = b.
Proof.
  destruct a as [m|x|x], b as [n|y|y]; unfold cmp_key, ktag; try discriminate; intros _.
  - intros H. apply Z.compare_eq in H. congruence.
  - destruct (str_eqb_spec x y) as [->|Hne]; [reflexivity|]. destruct (str_ltb x y); discriminate.
  - destruct (str_eqb_spec x y) as [->|Hne]; [reflexivity|].
    destruct x, y; try discriminate. destruct (str_ltb _ _); discriminate.
Qed.

Lemma cmp_key_opp (a b : keyval) : cmp_key b a = CompOpp (cmp_key a b).
Proof.
  destruct a as [m|x|x], b as [n|y|y]; unfold cmp_key; try reflexivity.
  - apply Z.compare_antisym.
  - destruct (str_eqb_spec x y) as [->|Hne].
    + rewrite str_eqb_refl. reflexivity.
    + assert (str_eqb y x = false) as -> by (apply str_eqb_neq; congruence).
      destruct (str_ltb_total x y) as [H|[H|H]]; [|contradiction|].
      * rewrite H, (str_ltb_asym _ _ H). reflexivity.
      * rewrite H, (str_ltb_asym _ _ H). reflexivity.
  - destruct (str_eqb_spec x y) as [->|Hne].
    + rewrite str_eqb_refl. reflexivity.
    + assert (str_eqb y x = false) as -> by (apply str_eqb_neq; congruence).
      destruct x as [|cx x], y as [|cy y]; try reflexivity; [congruence|].
      destruct (str_ltb_total (cx :: x) (cy :: y)) as [H|[H|H]]; [|contradiction|].
      * rewrite H, (str_ltb_asym _ _ H). reflexivity.
      * rewrite H, (str_ltb_asym _ _ H). reflexivity.
Qed.

Lemma cmp_key_cv_lt (x y : str) :
  cmp_key (KCv x) (KCv y) = Lt <-> x <> [] /\ (y = [] \/ str_ltb x y = true).
Proof.
  unfold cmp_key. destruct (str_eqb_spec x y) as [->|Hne].
  - split; [discriminate|]. intros [Hx [->|H]]; [congruence|].
    rewrite str_ltb_irrefl in H. discriminate.
  - destruct x as [|cx x], y as [|cy y].
    + congruence.
    + split; [discriminate|]. intros [H _]; congruence.
    + split; [|reflexivity]. intros _. split; [discriminate|left; reflexivity].
    + destruct (str_ltb (cx :: x) (cy :: y)) eqn:E; split; try discriminate.
      * intros _. split; [discriminate|right; reflexivity].
      * intros _. reflexivity.
      * intros [_ [H|H]]; discriminate.
Qed.

Lemma cmp_key_lt_trans (a b c : keyval) :
  cmp_key a b = Lt -> cmp_key b c = Lt -> cmp_key a c = Lt.
Proof.
  destruct a as [m|x|x], b as [n|y|y]; try (unfold cmp_key; discriminate);
    destruct c as [p|z|z]; try (unfold cmp_key; discriminate).
  - unfold cmp_key. rewrite !Z.compare_lt_iff. lia.
  - unfold cmp_key. rewrite !str_cmp_lt. apply str_ltb_trans.
  - rewrite !cmp_key_cv_lt. intros [Hx Hxy] [Hy Hyz]. split; [exact Hx|].
    destruct Hxy as [->|Hxy]; [congruence|].
    destruct Hyz as [->|Hyz]; [left; reflexivity|right].
    eapply str_ltb_trans; eassumption.
Qed.

(** *** one key with a direction *)
Definition dcmp (d : dir) (x y : keyval) : comparison :=
  match d with Asc => cmp_key x y | Desc => flip (cmp_key x y) end.

Lemma flip_opp (c : comparison) : flip c = CompOpp c.
Proof. destruct c; reflexivity. Qed.

Lemma cmp_keys_cons (d : dir) ds x xs y ys :
  cmp_keys (d :: ds) (x :: xs) (y :: ys) =
  match dcmp d x y with Eq => cmp_keys ds xs ys | c => c end.
Proof. reflexivity. Qed.

Lemma dcmp_refl d x : dcmp d x x = Eq.
Proof. unfold dcmp. rewrite cmp_key_refl. destruct d; reflexivity. Qed.

Lemma dcmp_eq d x y : ktag x = ktag y -> dcmp d x y = Eq -> x = y.
Proof.
  intros Ht H. apply cmp_key_eq; [exact Ht|].
  unfold dcmp in H. destruct d; [exact H|]. destruct (cmp_key x y); [reflexivity|discriminate..].
Qed.

Lemma dcmp_opp d x y : dcmp d y x = CompOpp (dcmp d x y).
Proof.
  unfold dcmp. rewrite (cmp_key_opp x y). destruct d; [reflexivity|].
  destruct (cmp_key x y); reflexivity.
Qed.

Lemma dcmp_lt_trans d x y z : dcmp d x y = Lt -> dcmp d y z = Lt -> dcmp d x z = Lt.
Proof.
  destruct d; unfold dcmp; [apply cmp_key_lt_trans|].
  intros H1 H2.
  assert (cmp_key y x = Lt) as H1'
      by (rewrite (cmp_key_opp x y); destruct (cmp_key x y); [discriminate|discriminate|reflexivity]).
  assert (cmp_key z y = Lt) as H2'
      by (rewrite (cmp_key_opp y z); destruct (cmp_key y z); [discriminate|discriminate|reflexivity]).
  pose proof (cmp_key_lt_trans _ _ _ H2' H1') as H3.
  rewrite (cmp_key_opp z x), H3. reflexivity.
Qed.

(** *** key lists *)
Definition same_shape (a b : list keyval) : Prop := map ktag a = map ktag b.

Lemma cmp_keys_refl dirs a : cmp_keys dirs a a = Eq.
Proof.
  revert a; induction dirs as [|d ds IH]; intros [|x xs]; try reflexivity.
  rewrite cmp_keys_cons, dcmp_refl. apply IH.
Qed.

Lemma cmp_keys_opp dirs a b : cmp_keys dirs b a = CompOpp (cmp_keys dirs a b).
Proof.
  revert a b; induction dirs as [|d ds IH]; intros [|x xs] [|y ys]; try reflexivity.
  rewrite !cmp_keys_cons, (dcmp_opp d x y).
  destruct (dcmp d x y); cbn [CompOpp]; [apply IH|reflexivity|reflexivity].
Qed.

Lemma keys_leb_refl dirs a : keys_leb dirs a a = true.
Proof. unfold keys_leb. rewrite cmp_keys_refl. reflexivity. Qed.

Lemma keys_leb_total dirs a b : keys_leb dirs a b = true \/ keys_leb dirs b a = true.
Proof.
  unfold keys_leb. rewrite (cmp_keys_opp dirs a b).
  destruct (cmp_keys dirs a b); cbn [CompOpp]; auto.
Qed.

Lemma cmp_keys_le_trans dirs a b c :
  same_shape a b -> same_shape b c ->
  cmp_keys dirs a b <> Gt -> cmp_keys dirs b c <> Gt -> cmp_keys dirs a c <> Gt.
Proof.
  unfold same_shape.
  revert a b c; induction dirs as [|d ds IH]; intros a b c Hab Hbc; [cbn; congruence|].
  destruct a as [|x xs]; [cbn; congruence|].
  destruct b as [|y ys]; [discriminate|].
  destruct c as [|z zs]; [discriminate|].
  cbn [map] in Hab, Hbc. injection Hab as Hxy Hab. injection Hbc as Hyz Hbc.
  rewrite !cmp_keys_cons.
  destruct (dcmp d x y) eqn:E1.
  - apply dcmp_eq in E1; [|exact Hxy]. subst y.
    destruct (dcmp d x z) eqn:E2; [|congruence|congruence].
    apply IH; assumption.
  - intros _. destruct (dcmp d y z) eqn:E2.
    + apply dcmp_eq in E2; [|exact Hyz]. subst z. rewrite E1. congruence.
    + rewrite (dcmp_lt_trans _ _ _ _ E1 E2). congruence.
    + congruence.
  - congruence.
Qed.

Lemma keys_leb_trans dirs a b c :
  same_shape a b -> same_shape b c ->
  keys_leb dirs a b = true -> keys_leb dirs b c = true -> keys_leb dirs a c = true.
Proof.
  intros Hab Hbc H1 H2. unfold keys_leb in *.
  pose proof (cmp_keys_le_trans dirs a b c Hab Hbc) as H.
  destruct (cmp_keys dirs a b); [| |discriminate];
    (destruct (cmp_keys dirs b c); [| |discriminate]);
    (destruct (cmp_keys dirs a c); [reflexivity|reflexivity|]);
    exfalso; apply H; congruence.
Qed.

(** with one direction per key, [Eq] means equal keys *)
Lemma cmp_keys_eq dirs a b :
  same_shape a b -> length a = length dirs -> cmp_keys dirs a b = Eq -> a = b.
Proof.
  unfold same_shape.
  revert a b; induction dirs as [|d ds IH]; intros [|x xs] [|y ys] Hs Hl; try discriminate;
    try reflexivity.
  cbn [map] in Hs. injection Hs as Hxy Hs. cbn [length] in Hl. injection Hl as Hl.
  rewrite cmp_keys_cons. destruct (dcmp d x y) eqn:E; try discriminate.
  intros H. apply dcmp_eq in E; [|exact Hxy]. subst y. f_equal. apply IH; assumption.
Qed.

Lemma keys_leb_antisym dirs a b :
  same_shape a b -> length a = length dirs ->
  keys_leb dirs a b = true -> keys_leb dirs b a = true -> a = b.
Proof.
  intros Hs Hl H1 H2. apply (cmp_keys_eq dirs); [exact Hs|exact Hl|].
  unfold keys_leb in *. rewrite (cmp_keys_opp dirs a b) in H2.
  destruct (cmp_keys dirs a b); [reflexivity|discriminate H2|discriminate H1].
Qed.

(** ** B. Generic facts about insertion sort *)

(** *** small list helpers *)
Lemma Forall2_refl_on {A} (R : A -> A -> Prop) (l : list A) :
  (forall x, R x x) -> Forall2 R l l.
Proof. intros HR. induction l; constructor; auto. Qed.

Lemma Forall2_sym_gen {A} (R : A -> A -> Prop) (l l' : list A) :
  (forall x y, R x y -> R y x) -> Forall2 R l l' -> Forall2 R l' l.
Proof. intros HR. induction 1; constructor; auto. Qed.

Lemma Forall2_trans_gen {A} (R : A -> A -> Prop) (l1 l2 l3 : list A) :
  (forall x y z, R x y -> R y z -> R x z) ->
  Forall2 R l1 l2 -> Forall2 R l2 l3 -> Forall2 R l1 l3.
Proof.
  intros HR H12. revert l3. induction H12 as [|x y l1 l2 Hxy _ IH]; intros l3 H23.
  - inversion H23; constructor.
  - inversion H23 as [|y' z l2' l3' Hyz H23']; subst. constructor; [eauto|apply IH; exact H23'].
Qed.

Lemma Forall2_same_length {A B} (R : A -> B -> Prop) l l' :
  Forall2 R l l' -> length l = length l'.
Proof. induction 1; cbn [length]; congruence. Qed.

Lemma Forall2_firstn {A B} (R : A -> B -> Prop) n l l' :
  Forall2 R l l' -> Forall2 R (firstn n l) (firstn n l').
Proof.
  intros H. revert n. induction H as [|x y l l' Hxy _ IH]; intros [|n]; cbn [firstn]; constructor; auto.
Qed.

Lemma Forall2_skipn {A B} (R : A -> B -> Prop) n l l' :
  Forall2 R l l' -> Forall2 R (skipn n l) (skipn n l').
Proof.
  intros H. revert n. induction H as [|x y l l' Hxy H IH]; intros [|n]; cbn [skipn];
    try constructor; auto.
Qed.

Lemma Forall2_impl_in {A} (P : A -> Prop) (R R' : A -> A -> Prop) l l' :
  (forall a b, P a -> P b -> R a b -> R' a b) ->
  Forall P l -> Forall P l' -> Forall2 R l l' -> Forall2 R' l l'.
Proof.
  intros HR Hl Hl' H. induction H as [|x y l l' Hxy _ IH]; constructor.
  - apply HR; [exact (Forall_inv Hl)|exact (Forall_inv Hl')|exact Hxy].
  - apply IH; [exact (Forall_inv_tail Hl)|exact (Forall_inv_tail Hl')].
Qed.

Lemma In_firstn {A} (x : A) n l : In x (firstn n l) -> In x l.
Proof. intros H. rewrite <- (firstn_skipn n l). apply in_or_app. left; exact H. Qed.

Lemma In_skipn {A} (x : A) n l : In x (skipn n l) -> In x l.
Proof. intros H. rewrite <- (firstn_skipn n l). apply in_or_app. right; exact H. Qed.

Lemma length_filter_le {A} (p : A -> bool) l : length (filter p l) <= length l.
Proof. induction l as [|x l IH]; cbn [filter length]; [lia|]. destruct (p x); cbn [length]; lia. Qed.

Lemma length_filter_perm {A} (p : A -> bool) l l' :
  Permutation l l' -> length (filter p l) = length (filter p l').
Proof.
  induction 1 as [|x l l' _ IH|x y l|l1 l2 l3 _ IH1 _ IH2]; cbn [filter].
  - reflexivity.
  - destruct (p x); cbn [length]; lia.
  - destruct (p x), (p y); reflexivity.
  - lia.
Qed.

Lemma filter_all_true {A} (p : A -> bool) l :
  (forall x, In x l -> p x = true) -> filter p l = l.
Proof.
  induction l as [|x l IH]; intros H; cbn [filter]; [reflexivity|].
  rewrite (H x (or_introl eq_refl)). f_equal. apply IH. intros y Hy. apply H. right; exact Hy.
Qed.

Lemma length_concat_sum {A} (ls : list (list A)) :
  length (concat ls) = fold_right Nat.add 0 (map (@length A) ls).
Proof.
  induction ls as [|l ls IH]; cbn [concat map fold_right]; [reflexivity|].
  rewrite app_length, IH. reflexivity.
Qed.

Lemma NoDup_app_parts {A} (l1 l2 : list A) : NoDup (l1 ++ l2) -> NoDup l1 /\ NoDup l2.
Proof.
  induction l1 as [|a l1 IH]; cbn [app]; intros H.
  - split; [constructor|exact H].
  - inversion H as [|x l Hn Hd]; subst. destruct (IH Hd) as [H1 H2].
    split; [|exact H2]. constructor; [|exact H1].
    intros Hin. apply Hn, in_or_app. left; exact Hin.
Qed.

Lemma perm4 {A} (a b c d : list A) :
  Permutation ((a ++ b) ++ (c ++ d)) ((b ++ c) ++ (a ++ d)).
Proof.
  rewrite <- !app_assoc. rewrite (app_assoc b c (a ++ d)), (app_assoc b c d).
  rewrite (app_assoc a (b ++ c) d), (app_assoc (b ++ c) a d).
  apply Permutation_app_tail, Permutation_app_comm.
Qed.

Lemma StronglySorted_app_inv {A} (R : A -> A -> Prop) l1 l2 :
  StronglySorted R (l1 ++ l2) ->
  StronglySorted R l1 /\ StronglySorted R l2 /\ (forall x y, In x l1 -> In y l2 -> R x y).
Proof.
  induction l1 as [|a l1 IH]; cbn [app]; intros H.
  - split; [constructor|]. split; [exact H|]. intros x y [].
  - apply StronglySorted_inv in H as [Hs Hf]. destruct (IH Hs) as [H1 [H2 H3]].
    rewrite Forall_app in Hf. destruct Hf as [Hf1 Hf2].
    split; [constructor; assumption|]. split; [exact H2|].
    intros x y [<-|Hx] Hy.
    + rewrite Forall_forall in Hf2. apply Hf2; exact Hy.
    + apply H3; assumption.
Qed.

Lemma StronglySorted_firstn {A} (R : A -> A -> Prop) n l :
  StronglySorted R l -> StronglySorted R (firstn n l).
Proof. intros H. rewrite <- (firstn_skipn n l) in H. apply StronglySorted_app_inv in H. tauto. Qed.

Lemma StronglySorted_skipn {A} (R : A -> A -> Prop) n l :
  StronglySorted R l -> StronglySorted R (skipn n l).
Proof. intros H. rewrite <- (firstn_skipn n l) in H. apply StronglySorted_app_inv in H. tauto. Qed.

(** *** facts that need no assumption about [leb] *)
Section SortAny.
  Context {A : Type} (leb : A -> A -> bool).

  Lemma insert_perm (x : A) l : Permutation (insert leb x l) (x :: l).
  Proof.
    induction l as [|y l IH]; cbn [insert]; [reflexivity|].
    destruct (leb x y); [reflexivity|].
    rewrite IH. apply perm_swap.
  Qed.

  Theorem isort_perm (l : list A) : Permutation (isort leb l) l.
  Proof.
    induction l as [|x l IH]; cbn [isort fold_right]; [reflexivity|].
    fold (isort leb l). rewrite insert_perm, IH. reflexivity.
  Qed.

  Lemma isort_In (x : A) l : In x (isort leb l) <-> In x l.
  Proof.
    split; apply Permutation_in; [apply isort_perm|symmetry; apply isort_perm].
  Qed.

  Lemma isort_length (l : list A) : length (isort leb l) = length l.
  Proof. apply Permutation_length, isort_perm. Qed.

  Lemma isort_cons (x : A) l : isort leb (x :: l) = insert leb x (isort leb l).
  Proof. reflexivity. Qed.

  Lemma isort_app (l1 l2 : list A) :
    isort leb (l1 ++ l2) = fold_right (insert leb) (isort leb l2) l1.
  Proof. unfold isort. apply fold_right_app. Qed.

  Lemma fold_insert_perm (s rest : list A) :
    Permutation (fold_right (insert leb) s rest) (rest ++ s).
  Proof.
    induction rest as [|r rest IH]; cbn [fold_right app]; [reflexivity|].
    rewrite insert_perm, IH. reflexivity.
  Qed.

  Lemma isort_NoDup (l : list A) : NoDup l -> NoDup (isort leb l).
  Proof. apply Permutation_NoDup. symmetry. apply isort_perm. Qed.
End SortAny.

(** two orders that agree on the elements of the list sort it the same way *)
Lemma insert_ext_in {A} (leb1 leb2 : A -> A -> bool) x l :
  (forall y, In y l -> leb1 x y = leb2 x y) -> insert leb1 x l = insert leb2 x l.
Proof.
  induction l as [|y l IH]; intros H; cbn [insert]; [reflexivity|].
  rewrite (H y (or_introl eq_refl)). destruct (leb2 x y); [reflexivity|].
  f_equal. apply IH. intros z Hz. apply H. right; exact Hz.
Qed.

Lemma isort_ext_in {A} (leb1 leb2 : A -> A -> bool) l :
  (forall x y, In x l -> In y l -> leb1 x y = leb2 x y) -> isort leb1 l = isort leb2 l.
Proof.
  induction l as [|x l IH]; intros H; [reflexivity|].
  rewrite !isort_cons. rewrite IH.
  - apply insert_ext_in. intros y Hy. apply H; [left; reflexivity|].
    right. apply (isort_In leb2). exact Hy.
  - intros a b Ha Hb. apply H; right; assumption.
Qed.

(** *** total and transitive [leb] *)
Section SortTotal.
  Context {A : Type} (leb : A -> A -> bool).
  Hypothesis leb_total : forall a b, leb a b = true \/ leb b a = true.
  Hypothesis leb_trans : forall a b c, leb a b = true -> leb b c = true -> leb a c = true.

  Definition lebP (a b : A) : Prop := leb a b = true.
  Definition eqvb (a b : A) : bool := leb a b && leb b a.
  Definition eqv (a b : A) : Prop := eqvb a b = true.
  (** position by position equivalence of two lists (same length) *)
  Definition eqv_list : list A -> list A -> Prop := Forall2 eqv.

  Lemma eqv_iff a b : eqv a b <-> leb a b = true /\ leb b a = true.
  Proof. unfold eqv, eqvb. apply andb_true_iff. Qed.

  Lemma leb_refl a : leb a a = true.
  Proof. destruct (leb_total a a); assumption. Qed.

  Lemma leb_false_flip a b : leb a b = false -> leb b a = true.
  Proof. intros H. destruct (leb_total a b) as [H1|H1]; [congruence|exact H1]. Qed.

  Lemma eqv_refl a : eqv a a.
  Proof. apply eqv_iff. split; apply leb_refl. Qed.

  Lemma eqv_sym a b : eqv a b -> eqv b a.
  Proof. rewrite !eqv_iff. tauto. Qed.

  Lemma eqv_trans a b c : eqv a b -> eqv b c -> eqv a c.
  Proof. rewrite !eqv_iff. intros [H1 H2] [H3 H4]. split; eapply leb_trans; eassumption. Qed.

  Lemma leb_eqv_r x y y' : eqv y y' -> leb x y = leb x y'.
  Proof.
    rewrite eqv_iff. intros [H1 H2].
    destruct (leb x y) eqn:E1, (leb x y') eqn:E2; try reflexivity.
    - rewrite (leb_trans _ _ _ E1 H1) in E2. discriminate.
    - rewrite (leb_trans _ _ _ E2 H2) in E1. discriminate.
  Qed.

  Lemma leb_eqv_l x x' y : eqv x x' -> leb x y = leb x' y.
  Proof.
    rewrite eqv_iff. intros [H1 H2].
    destruct (leb x y) eqn:E1, (leb x' y) eqn:E2; try reflexivity.
    - rewrite (leb_trans _ _ _ H2 E1) in E2. discriminate.
    - rewrite (leb_trans _ _ _ H1 E2) in E1. discriminate.
  Qed.

  Lemma eqv_list_refl l : eqv_list l l.
  Proof. apply Forall2_refl_on, eqv_refl. Qed.

  Lemma eqv_list_sym l l' : eqv_list l l' -> eqv_list l' l.
  Proof. apply Forall2_sym_gen, eqv_sym. Qed.

  Lemma eqv_list_trans l1 l2 l3 : eqv_list l1 l2 -> eqv_list l2 l3 -> eqv_list l1 l3.
  Proof. apply Forall2_trans_gen, eqv_trans. Qed.

  Lemma eqv_list_length l l' : eqv_list l l' -> length l = length l'.
  Proof. apply Forall2_same_length. Qed.

  (** **** sortedness *)
  Lemma insert_sorted x l : StronglySorted lebP l -> StronglySorted lebP (insert leb x l).
  Proof.
    induction l as [|y l IH]; intros Hs; cbn [insert].
    - constructor; constructor.
    - apply StronglySorted_inv in Hs as [Hs Hf].
      destruct (leb x y) eqn:E.
      + constructor; [constructor; assumption|].
        constructor; [exact E|].
        rewrite Forall_forall in *. intros z Hz. eapply leb_trans; [exact E|apply Hf; exact Hz].
      + constructor; [apply IH; exact Hs|].
        rewrite Forall_forall in *. intros z Hz.
        apply (Permutation_in _ (insert_perm leb x l)) in Hz. destruct Hz as [<-|Hz].
        * apply leb_false_flip; exact E.
        * apply Hf; exact Hz.
  Qed.

  Theorem isort_sorted l : StronglySorted lebP (isort leb l).
  Proof.
    induction l as [|x l IH]; [constructor|]. rewrite isort_cons. apply insert_sorted, IH.
  Qed.

  Lemma fold_insert_sorted s rest :
    StronglySorted lebP s -> StronglySorted lebP (fold_right (insert leb) s rest).
  Proof.
    intros Hs. induction rest as [|r rest IH]; cbn [fold_right]; [exact Hs|].
    apply insert_sorted, IH.
  Qed.

  (** sorting a sorted list changes nothing (so the sort is stable on sorted input) *)
  Theorem isort_stable_on_sorted l : StronglySorted lebP l -> isort leb l = l.
  Proof.
    induction l as [|x l IH]; intros Hs; [reflexivity|].
    apply StronglySorted_inv in Hs as [Hs Hf].
    rewrite isort_cons, (IH Hs). destruct l as [|y l]; [reflexivity|].
    cbn [insert]. apply Forall_inv in Hf. unfold lebP in Hf. rewrite Hf. reflexivity.
  Qed.

  (** **** the sorted result depends on the input order only up to [eqv] *)
  Lemma insert_eqv_list x s s' :
    eqv_list s s' -> eqv_list (insert leb x s) (insert leb x s').
  Proof.
    induction 1 as [|y y' s s' Hy Hs IH]; cbn [insert].
    - constructor; [apply eqv_refl|constructor].
    - rewrite (leb_eqv_r x y y' Hy). destruct (leb x y').
      + constructor; [apply eqv_refl|]. constructor; assumption.
      + constructor; assumption.
  Qed.

  Lemma insert_swap x y s :
    eqv_list (insert leb x (insert leb y s)) (insert leb y (insert leb x s)).
  Proof.
    induction s as [|z s IH].
    - cbn [insert]. destruct (leb x y) eqn:Exy, (leb y x) eqn:Eyx.
      + constructor; [apply eqv_iff; split; assumption|].
        constructor; [apply eqv_iff; split; assumption|constructor].
      + apply eqv_list_refl.
      + apply eqv_list_refl.
      + destruct (leb_total x y); congruence.
    - cbn [insert]. destruct (leb y z) eqn:Eyz, (leb x z) eqn:Exz; cbn [insert].
      + destruct (leb x y) eqn:Exy, (leb y x) eqn:Eyx; rewrite ?Exz, ?Eyz.
        * constructor; [apply eqv_iff; split; assumption|].
          constructor; [apply eqv_iff; split; assumption|apply eqv_list_refl].
        * apply eqv_list_refl.
        * apply eqv_list_refl.
        * destruct (leb_total x y); congruence.
      + destruct (leb x y) eqn:Exy.
        * rewrite (leb_trans _ _ _ Exy Eyz) in Exz. discriminate.
        * rewrite Exz, Eyz. apply eqv_list_refl.
      + destruct (leb y x) eqn:Eyx.
        * rewrite (leb_trans _ _ _ Eyx Exz) in Eyz. discriminate.
        * rewrite Exz, Eyz. apply eqv_list_refl.
      + rewrite Exz, Eyz. constructor; [apply eqv_refl|exact IH].
  Qed.

  Theorem isort_perm_eqv l l' : Permutation l l' -> eqv_list (isort leb l) (isort leb l').
  Proof.
    induction 1 as [|x l l' _ IH|x y l|l1 l2 l3 _ IH1 _ IH2].
    - constructor.
    - rewrite !isort_cons. apply insert_eqv_list, IH.
    - rewrite !isort_cons. apply insert_swap.
    - eapply eqv_list_trans; eassumption.
  Qed.

  (** two sorted permutations of each other agree position by position up to [eqv] *)
  Corollary sorted_perm_eqv s s' :
    StronglySorted lebP s -> StronglySorted lebP s' -> Permutation s s' -> eqv_list s s'.
  Proof.
    intros Hs Hs' Hp. rewrite <- (isort_stable_on_sorted s Hs), <- (isort_stable_on_sorted s' Hs').
    apply isort_perm_eqv, Hp.
  Qed.

  (** ** C. The early cut-off *)

  (** in a sorted list the elements [<= x] form a prefix *)
  Lemma sorted_firstn_le x s k :
    StronglySorted lebP s -> k <= length (filter (fun y => leb y x) s) ->
    Forall (fun y => leb y x = true) (firstn k s).
  Proof.
    intros Hs. revert k. induction Hs as [|y s Hs IH Hf]; intros k Hk.
    - rewrite firstn_nil. constructor.
    - destruct k as [|k]; [constructor|]. cbn [firstn].
      assert (leb y x = true) as E.
      { destruct (leb y x) eqn:E; [reflexivity|]. exfalso.
        cbn [filter] in Hk. rewrite E in Hk.
        destruct (filter (fun y => leb y x) s) as [|z f] eqn:Ef; [cbn in Hk; lia|].
        assert (In z (filter (fun y => leb y x) s)) as Hz by (rewrite Ef; left; reflexivity).
        apply filter_In in Hz as [Hz Hzx]. rewrite Forall_forall in Hf.
        rewrite (leb_trans _ _ _ (Hf z Hz) Hzx) in E. discriminate. }
      constructor; [exact E|]. apply IH.
      cbn [filter] in Hk. rewrite E in Hk. cbn [length] in Hk. lia.
  Qed.

  Lemma shift_eqv t x n :
    n <= length t -> Forall (eqv x) (firstn n t) -> eqv_list (firstn n (x :: t)) (firstn n t).
  Proof.
    revert x n. induction t as [|a t IH]; intros x [|n] Hn Hf; try (cbn [firstn]; constructor).
    - cbn in Hn. lia.
    - cbn [firstn] in Hf. exact (Forall_inv Hf).
    - apply IH; [cbn [length] in Hn; lia|].
      cbn [firstn] in Hf. pose proof (Forall_inv Hf) as Hxa.
      assert (Forall (eqv x) (firstn n t)) as Hf'.
      { apply Forall_inv_tail in Hf. rewrite Forall_forall in *. intros z Hz.
        apply Hf. destruct n; [destruct Hz|]. cbn [firstn] in Hz |- *.
        exact Hz. }
      rewrite Forall_forall in *. intros z Hz.
      eapply eqv_trans; [apply eqv_sym; exact Hxa|apply Hf'; exact Hz].
  Qed.

  (** an element with at least [k] elements [<=] it in the sorted list [s] does
      not change the first [k] positions (up to [eqv]) *)
  Lemma insert_drop x s k :
    StronglySorted lebP s -> k <= length (filter (fun y => leb y x) s) ->
    eqv_list (firstn k (insert leb x s)) (firstn k s).
  Proof.
    intros Hs. revert k. induction Hs as [|y s Hs IH Hf]; intros k Hk.
    - cbn in Hk. assert (k = 0) as -> by lia. constructor.
    - destruct k as [|k]; [constructor|].
      cbn [insert]. destruct (leb x y) eqn:E.
      + apply shift_eqv.
        * pose proof (length_filter_le (fun y => leb y x) (y :: s)). lia.
        * pose proof (sorted_firstn_le x (y :: s) (S k) (SSorted_cons y Hs Hf) Hk) as Hle.
          rewrite Forall_forall in *. intros z Hz. apply eqv_iff. split; [|apply Hle; exact Hz].
          apply In_firstn in Hz. destruct Hz as [<-|Hz]; [exact E|].
          eapply leb_trans; [exact E|apply Hf; exact Hz].
      + cbn [firstn]. constructor; [apply eqv_refl|]. apply IH.
        cbn [filter] in Hk. rewrite (leb_false_flip _ _ E) in Hk. cbn [length] in Hk. lia.
  Qed.

  (** inserting elements that each have [k] smaller-or-equal elements in [s0] *)
  Lemma fold_insert_drop k s0 rest :
    StronglySorted lebP s0 ->
    (forall r, In r rest -> k <= length (filter (fun y => leb y r) s0)) ->
    eqv_list (firstn k (fold_right (insert leb) s0 rest)) (firstn k s0).
  Proof.
    intros Hs. induction rest as [|r rest IH]; intros Hr; cbn [fold_right].
    - apply eqv_list_refl.
    - eapply eqv_list_trans; [|apply IH; intros r' Hr'; apply Hr; right; exact Hr'].
      apply insert_drop; [apply fold_insert_sorted; exact Hs|].
      rewrite (length_filter_perm _ _ _ (fold_insert_perm leb s0 rest)).
      rewrite filter_app, app_length.
      pose proof (Hr r (or_introl eq_refl)). lia.
  Qed.

  Lemma concat_split_perm (k : nat) (bs : list (list A)) :
    Permutation (concat bs) (concat (map (skipn k) bs) ++ concat (map (firstn k) bs)).
  Proof.
    induction bs as [|b bs IH]; cbn [concat map]; [reflexivity|].
    transitivity ((firstn k b ++ skipn k b) ++
                  (concat (map (skipn k) bs) ++ concat (map (firstn k) bs))).
    - rewrite firstn_skipn. apply Permutation_app_head, IH.
    - apply perm4.
  Qed.

  Lemma count_concat_ge (p : A -> bool) (f : list A -> list A) b bs :
    In b bs -> length (filter p (f b)) <= length (filter p (concat (map f bs))).
  Proof.
    induction bs as [|c bs IH]; intros Hin; [destruct Hin|].
    cbn [map concat]. rewrite filter_app, app_length. destruct Hin as [->|Hin]; [lia|].
    specialize (IH Hin). lia.
  Qed.

  (** an element behind position [k] of a sorted list has [k] elements [<=] it in front *)
  Lemma skipn_has_k_smaller k b r :
    StronglySorted lebP b -> In r (skipn k b) ->
    length (filter (fun y => leb y r) (firstn k b)) = k.
  Proof.
    intros Hs Hr.
    assert (k < length b) as Hlen.
    { destruct (Nat.lt_ge_cases k (length b)) as [H|H]; [exact H|].
      rewrite (skipn_all2 _ H) in Hr. destruct Hr. }
    rewrite <- (firstn_skipn k b) in Hs. apply StronglySorted_app_inv in Hs as [_ [_ Hs]].
    rewrite filter_all_true; [apply firstn_length_le; lia|].
    intros x Hx. apply Hs; assumption.
  Qed.

  (** THE CUT-OFF THEOREM.  If every list of [bs] is sorted, the first [k]
      positions of the sorted concatenation can be computed from the first [k]
      elements of every list; the result is the same position by position up
      to ties of the order. *)
  Theorem topk_cut (k : nat) (bs : list (list A)) :
    Forall (StronglySorted lebP) bs ->
    eqv_list (firstn k (isort leb (concat (map (firstn k) bs))))
             (firstn k (isort leb (concat bs))).
  Proof.
    intros Hbs. apply eqv_list_sym.
    eapply eqv_list_trans.
    { apply Forall2_firstn. apply isort_perm_eqv. apply (concat_split_perm k). }
    rewrite isort_app. apply fold_insert_drop; [apply isort_sorted|].
    intros r Hr. apply in_concat in Hr as [rb [Hrb Hr]].
    apply in_map_iff in Hrb as [b [<- Hb]].
    rewrite Forall_forall in Hbs.
    rewrite (length_filter_perm _ _ _ (isort_perm leb _)).
    rewrite <- (skipn_has_k_smaller k b r (Hbs b Hb) Hr) at 1.
    apply (count_concat_ge (fun y => leb y r) (firstn k)). exact Hb.
  Qed.

  (** ... and the left side only contains elements of the input (no invention) *)
  Lemma concat_firstn_incl (k : nat) (bs : list (list A)) x :
    In x (concat (map (firstn k) bs)) -> In x (concat bs).
  Proof.
    intros H. apply in_concat in H as [c [Hc Hx]]. apply in_map_iff in Hc as [b [<- Hb]].
    apply in_concat. exists b. split; [exact Hb|]. apply In_firstn in Hx. exact Hx.
  Qed.

  Theorem topk_cut_incl (k : nat) (bs : list (list A)) x :
    In x (firstn k (isort leb (concat (map (firstn k) bs)))) -> In x (concat bs).
  Proof.
    intros H. apply In_firstn in H. apply isort_In in H. apply concat_firstn_incl in H. exact H.
  Qed.

  (** equality of every observation that does not distinguish tied elements *)
  Corollary topk_cut_keys {K} (key : A -> K) (k : nat) (bs : list (list A)) :
    (forall a b, eqv a b -> key a = key b) ->
    Forall (StronglySorted lebP) bs ->
    map key (firstn k (isort leb (concat (map (firstn k) bs)))) =
    map key (firstn k (isort leb (concat bs))).
  Proof.
    intros Hkey Hbs. pose proof (topk_cut k bs Hbs) as H.
    induction H as [|x y l l' Hxy _ IH]; cbn [map]; [reflexivity|].
    rewrite (Hkey x y Hxy), IH. reflexivity.
  Qed.
End SortTotal.

(** *** [leb] transitive only on a decidable class of elements (all we sort) *)
Lemma StronglySorted_impl_in {A} (P : A -> Prop) (R R' : A -> A -> Prop) l :
  (forall a b, P a -> P b -> R a b -> R' a b) ->
  Forall P l -> StronglySorted R l -> StronglySorted R' l.
Proof.
  intros HR Hp Hs. induction Hs as [|x l Hs IH Hf]; constructor.
  - apply IH. exact (Forall_inv_tail Hp).
  - pose proof (Forall_inv Hp) as Hx. apply Forall_inv_tail in Hp.
    rewrite Forall_forall in *. intros y Hy. apply HR; [exact Hx|apply Hp; exact Hy|apply Hf; exact Hy].
Qed.

Lemma Forall_concat_all {A} (P : A -> Prop) (ls : list (list A)) :
  Forall (Forall P) ls -> Forall P (concat ls).
Proof.
  induction 1 as [|l ls Hl _ IH]; cbn [concat]; [constructor|]. apply Forall_app. split; assumption.
Qed.

Section SortOn.
  Context {A : Type} (leb : A -> A -> bool) (pb : A -> bool).
  Hypothesis leb_total : forall a b, leb a b = true \/ leb b a = true.
  Hypothesis leb_trans_on : forall a b c, pb a = true -> pb b = true -> pb c = true ->
    leb a b = true -> leb b c = true -> leb a c = true.

  (** the same order on the class, everything else is put behind it *)
  Definition rleb (a b : A) : bool :=
    match pb a, pb b with
    | true, true => leb a b
    | true, false => true
    | false, true => false
    | false, false => true
    end.

  Definition allp (l : list A) : Prop := Forall (fun a => pb a = true) l.

  Lemma rleb_total a b : rleb a b = true \/ rleb b a = true.
  Proof. unfold rleb. destruct (pb a), (pb b); auto. Qed.

  Lemma rleb_trans a b c : rleb a b = true -> rleb b c = true -> rleb a c = true.
  Proof.
    unfold rleb. destruct (pb a) eqn:Ea, (pb b) eqn:Eb, (pb c) eqn:Ec; try congruence.
    apply leb_trans_on; assumption.
  Qed.

  Lemma rleb_on a b : pb a = true -> pb b = true -> rleb a b = leb a b.
  Proof. unfold rleb. intros -> ->. reflexivity. Qed.

  Lemma isort_rleb l : allp l -> isort rleb l = isort leb l.
  Proof.
    intros H. apply isort_ext_in. intros x y Hx Hy.
    unfold allp in H. rewrite Forall_forall in H. apply rleb_on; auto.
  Qed.

  Lemma allp_isort l : allp l -> allp (isort leb l).
  Proof.
    unfold allp. rewrite !Forall_forall. intros H x Hx. apply H. apply (isort_In leb). exact Hx.
  Qed.

  Theorem isort_sorted_on l : allp l -> StronglySorted (lebP leb) (isort leb l).
  Proof.
    intros Hp. apply StronglySorted_impl_in with (P := fun a => pb a = true) (R := lebP rleb).
    - intros a b Ha Hb H. unfold lebP in *. rewrite rleb_on in H; assumption.
    - apply allp_isort, Hp.
    - rewrite <- (isort_rleb l Hp). apply isort_sorted; [apply rleb_total|apply rleb_trans].
  Qed.

  Lemma sorted_rleb l : allp l -> StronglySorted (lebP leb) l -> StronglySorted (lebP rleb) l.
  Proof.
    intros Hp. apply StronglySorted_impl_in with (P := fun a => pb a = true); [|exact Hp].
    intros a b Ha Hb H. unfold lebP in *. rewrite rleb_on; assumption.
  Qed.

  Theorem topk_cut_on (k : nat) (bs : list (list A)) :
    Forall allp bs -> Forall (StronglySorted (lebP leb)) bs ->
    eqv_list leb (firstn k (isort leb (concat (map (firstn k) bs))))
                 (firstn k (isort leb (concat bs))).
  Proof.
    intros Hp Hs.
    assert (allp (concat bs)) as Hc by (apply Forall_concat_all; exact Hp).
    assert (allp (concat (map (firstn k) bs))) as Hc'.
    { unfold allp in *. rewrite Forall_forall in *. intros x Hx. apply Hc.
      eapply concat_firstn_incl; exact Hx. }
    rewrite <- (isort_rleb _ Hc), <- (isort_rleb _ Hc').
    apply Forall2_impl_in with (P := fun a => pb a = true) (R := eqv rleb).
    - intros a b Ha Hb H. unfold eqv, eqvb in *. rewrite !rleb_on in H by assumption. exact H.
    - rewrite Forall_forall. intros x Hx. apply In_firstn in Hx. apply isort_In in Hx.
      unfold allp in Hc'. rewrite Forall_forall in Hc'. apply Hc'; exact Hx.
    - rewrite Forall_forall. intros x Hx. apply In_firstn in Hx. apply isort_In in Hx.
      unfold allp in Hc. rewrite Forall_forall in Hc. apply Hc; exact Hx.
    - apply topk_cut; [apply rleb_total|apply rleb_trans|].
      rewrite Forall_forall in *. intros b Hb. apply sorted_rleb; [apply Hp|apply Hs]; exact Hb.
  Qed.
End SortOn.

(** the sortedness of the lists is necessary *)
Example topk_cut_needs_sorted :
  exists (k : nat) (bs : list (list nat)),
    ~ eqv_list Nat.leb (firstn k (isort Nat.leb (concat (map (firstn k) bs))))
                       (firstn k (isort Nat.leb (concat bs))).
Proof.
  exists 1, [[3; 1]]. vm_compute. intros H.
  inversion H as [|x y l l' Hxy _]; subst. discriminate Hxy.
Qed.

(** without sorting the cut is exact *)
Lemma firstn_concat_cut {A} (k : nat) (bs : list (list A)) :
  forall j, j <= k -> firstn j (concat (map (firstn k) bs)) = firstn j (concat bs).
Proof.
  induction bs as [|b bs IH]; intros j Hj; cbn [map concat]; [reflexivity|].
  rewrite !firstn_app, firstn_firstn, firstn_length.
  replace (Nat.min j k) with j by lia.
  destruct (Nat.le_gt_cases (length b) k) as [Hb|Hb].
  - replace (Nat.min k (length b)) with (length b) by lia. f_equal. apply IH. lia.
  - replace (j - Nat.min k (length b)) with 0 by lia. replace (j - length b) with 0 by lia.
    reflexivity.
Qed.

Lemma firstn_skipn_firstn {A} a b k (l : list A) :
  a + b <= k -> firstn a (skipn b (firstn k l)) = firstn a (skipn b l).
Proof.
  intros H. rewrite skipn_firstn_comm, firstn_firstn. f_equal. lia.
Qed.

(** ** E. The window *)
Theorem window_length {A} (rq : request) (l : list A) :
  length (window rq l) =
  match rq_limit rq with
  | Some lim => Nat.min (Z.to_nat lim) (length l - Z.to_nat (rq_offset rq))
  | None => length l - Z.to_nat (rq_offset rq)
  end.
Proof.
  unfold window. destruct (rq_limit rq) as [lim|].
  - rewrite firstn_length, skipn_length. reflexivity.
  - apply skipn_length.
Qed.

(** the window is a contiguous segment of the list *)
Theorem window_segment {A} (rq : request) (l : list A) :
  exists pre post, l = pre ++ window rq l ++ post /\
                   length pre = Nat.min (Z.to_nat (rq_offset rq)) (length l).
Proof.
  unfold window. exists (firstn (Z.to_nat (rq_offset rq)) l).
  destruct (rq_limit rq) as [lim|].
  - exists (skipn (Z.to_nat lim) (skipn (Z.to_nat (rq_offset rq)) l)).
    rewrite !firstn_skipn. split; [reflexivity|apply firstn_length].
  - exists []. rewrite app_nil_r, firstn_skipn. split; [reflexivity|apply firstn_length].
Qed.

Theorem window_sublist {A} (rq : request) (l : list A) x : In x (window rq l) -> In x l.
Proof.
  unfold window. destruct (rq_limit rq) as [lim|]; intros H.
  - apply In_firstn in H. apply In_skipn in H. exact H.
  - apply In_skipn in H. exact H.
Qed.

Theorem window_NoDup {A} (rq : request) (l : list A) : NoDup l -> NoDup (window rq l).
Proof.
  intros H. destruct (window_segment rq l) as [pre [post [E _]]]. rewrite E in H.
  apply NoDup_app_parts in H as [_ H]. apply NoDup_app_parts in H as [H _]. exact H.
Qed.

Lemma window_sorted {A} (R : A -> A -> Prop) (rq : request) (l : list A) :
  StronglySorted R l -> StronglySorted R (window rq l).
Proof.
  intros H. unfold window. destruct (rq_limit rq) as [lim|].
  - apply StronglySorted_firstn, StronglySorted_skipn, H.
  - apply StronglySorted_skipn, H.
Qed.

Lemma window_nil_short {A} (rq : request) (l : list A) :
  length l <= Z.to_nat (rq_offset rq) -> window rq l = [].
Proof.
  intros H. unfold window. rewrite (skipn_all2 _ H). destruct (rq_limit rq); [apply firstn_nil|reflexivity].
Qed.

Lemma window_nil_limit {A} (rq : request) (l : list A) lim :
  rq_limit rq = Some lim -> (lim <= 0)%Z -> window rq l = [].
Proof.
  intros E H. unfold window. rewrite E. replace (Z.to_nat lim) with 0 by lia. reflexivity.
Qed.

Lemma window_Forall2_of_firstn {A} (R : A -> A -> Prop) (rq : request) lim k s s' :
  rq_limit rq = Some lim -> Z.to_nat lim + Z.to_nat (rq_offset rq) <= k ->
  Forall2 R (firstn k s) (firstn k s') -> Forall2 R (window rq s) (window rq s').
Proof.
  intros E Hk H. unfold window. rewrite E.
  rewrite <- (firstn_skipn_firstn _ _ k s Hk), <- (firstn_skipn_firstn _ _ k s' Hk).
  apply Forall2_firstn, Forall2_skipn, H.
Qed.

Lemma window_cut_exact {A} (rq : request) lim k (per : list (list A)) :
  rq_limit rq = Some lim -> Z.to_nat lim + Z.to_nat (rq_offset rq) <= k ->
  window rq (concat (map (firstn k) per)) = window rq (concat per).
Proof.
  intros E Hk. unfold window. rewrite E.
  rewrite <- (firstn_skipn_firstn _ _ k (concat (map (firstn k) per)) Hk).
  rewrite <- (firstn_skipn_firstn _ _ k (concat per) Hk).
  rewrite (firstn_concat_cut k per k (Nat.le_refl k)). reflexivity.
Qed.

(** ** D. The query engine: [data_result] against [data_result_spec] *)

(** the order [sort_hits] sorts by *)
Definition hleb (rq : request) (a b : hit) : bool :=
  keys_leb (dirs_of rq) (h_keys a) (h_keys b).

(** the shape of the keys of one request: fixed by the column types of the Sort headers *)
Definition tag_of_dtype (t : dtype) : nat :=
  match t with TInt | TInt64 | TFloat => 0 | TCustVar => 2 | _ => 1 end.
Definition shape_of (rq : request) : list nat :=
  map (fun k => tag_of_dtype (c_type (sk_col k))) (rq_sort rq).
Definition hit_wf (rq : request) (h : hit) : Prop := map ktag (h_keys h) = shape_of rq.
Definition hit_wfb (rq : request) (h : hit) : bool :=
  if list_eq_dec Nat.eq_dec (map ktag (h_keys h)) (shape_of rq) then true else false.

Lemma hit_wfb_iff rq h : hit_wfb rq h = true <-> hit_wf rq h.
Proof.
  unfold hit_wfb, hit_wf. destruct (list_eq_dec Nat.eq_dec _ _) as [e|n]; split; congruence.
Qed.

Lemma hit_wf_allp rq l : Forall (hit_wf rq) l -> allp (hit_wfb rq) l.
Proof. unfold allp. apply Forall_impl. intros h. apply hit_wfb_iff. Qed.

Lemma sort_key_tag schema rq bk td r k :
  ktag (sort_key schema rq bk td r k) = tag_of_dtype (c_type (sk_col k)).
Proof. unfold sort_key. destruct (c_type (sk_col k)); reflexivity. Qed.

(** every row the engine produces for one request has the shape of the request *)
Lemma hits_of_wf schema cfg rq bk : Forall (hit_wf rq) (hits_of schema cfg rq bk).
Proof.
  unfold hits_of. destruct (table_data bk (rq_table rq)) as [td|]; [|constructor].
  rewrite Forall_forall. intros h Hh. apply in_map_iff in Hh as [r [<- _]].
  unfold hit_wf, shape_of. cbn [h_keys]. rewrite map_map. apply map_ext.
  intros k. apply sort_key_tag.
Qed.

Lemma hit_wf_same_shape rq a b : hit_wf rq a -> hit_wf rq b -> same_shape (h_keys a) (h_keys b).
Proof. unfold hit_wf, same_shape. congruence. Qed.

Lemma hit_wf_length rq a : hit_wf rq a -> length (h_keys a) = length (dirs_of rq).
Proof.
  unfold hit_wf, shape_of, dirs_of. intros H. apply (f_equal (@length nat)) in H.
  rewrite !map_length in *. exact H.
Qed.

Lemma hleb_refl rq a : hleb rq a a = true.
Proof. apply keys_leb_refl. Qed.

Lemma hleb_total rq a b : hleb rq a b = true \/ hleb rq b a = true.
Proof. apply keys_leb_total. Qed.

Lemma hleb_trans_on rq a b c :
  hit_wfb rq a = true -> hit_wfb rq b = true -> hit_wfb rq c = true ->
  hleb rq a b = true -> hleb rq b c = true -> hleb rq a c = true.
Proof.
  intros Ha Hb Hc. apply hit_wfb_iff in Ha, Hb, Hc. unfold hleb.
  apply keys_leb_trans; eapply hit_wf_same_shape; eassumption.
Qed.

(** tied rows of one request have equal keys *)
Lemma hleb_eqv_keys rq a b :
  hit_wf rq a -> hit_wf rq b -> eqv (hleb rq) a b -> h_keys a = h_keys b.
Proof.
  intros Ha Hb H. apply eqv_iff in H as [H1 H2].
  apply (keys_leb_antisym (dirs_of rq)); [eapply hit_wf_same_shape; eassumption| |exact H1|exact H2].
  apply (hit_wf_length rq a Ha).
Qed.

Lemma eqv_list_keys rq l l' :
  Forall (hit_wf rq) l -> Forall (hit_wf rq) l' -> eqv_list (hleb rq) l l' ->
  map h_keys l = map h_keys l'.
Proof.
  intros Hl Hl' H. induction H as [|x y l l' Hxy _ IH]; cbn [map]; [reflexivity|].
  rewrite (hleb_eqv_keys rq x y (Forall_inv Hl) (Forall_inv Hl') Hxy).
  rewrite (IH (Forall_inv_tail Hl) (Forall_inv_tail Hl')). reflexivity.
Qed.

(** *** [sort_hits] *)
Lemma sort_hits_nil rq l : rq_sort rq = [] -> sort_hits rq l = l.
Proof. unfold sort_hits. intros ->. reflexivity. Qed.

Lemma sort_hits_cons rq l : rq_sort rq <> [] -> sort_hits rq l = isort (hleb rq) l.
Proof. unfold sort_hits. destruct (rq_sort rq); [congruence|reflexivity]. Qed.

Lemma sort_hits_perm rq l : Permutation (sort_hits rq l) l.
Proof. unfold sort_hits. destruct (rq_sort rq); [reflexivity|apply isort_perm]. Qed.

Lemma sort_hits_length rq l : length (sort_hits rq l) = length l.
Proof. apply Permutation_length, sort_hits_perm. Qed.

Lemma sort_dec rq : rq_sort rq = [] \/ rq_sort rq <> [].
Proof. destruct (rq_sort rq); [left; reflexivity|right; discriminate]. Qed.

Theorem sort_hits_sorted rq l :
  Forall (hit_wf rq) l -> StronglySorted (lebP (hleb rq)) (sort_hits rq l) \/ rq_sort rq = [].
Proof.
  intros Hl. destruct (sort_dec rq) as [E|E]; [right; exact E|left].
  rewrite (sort_hits_cons rq l E).
  apply isort_sorted_on with (pb := hit_wfb rq);
    [apply hleb_total|apply hleb_trans_on|apply hit_wf_allp; exact Hl].
Qed.

(** *** [backend_limit] *)
Lemma backend_limit_some rq k :
  backend_limit rq = Some k ->
  exists l, rq_limit rq = Some l /\ default_sort_order rq = true /\
            (0 < l + rq_offset rq)%Z /\ k = Z.to_nat (l + rq_offset rq).
Proof.
  unfold backend_limit. destruct (rq_limit rq) as [l|]; [|discriminate].
  destruct (default_sort_order rq); [|discriminate]. cbv zeta.
  destruct (Z.leb_spec (l + rq_offset rq) 0) as [H|H]; [discriminate|].
  intros [= <-]. exists l. repeat split; auto.
Qed.

Lemma cut_incl {A} lim (per : list (list A)) x :
  In x (concat (map (cut lim) per)) -> In x (concat per).
Proof.
  destruct lim as [k|].
  - change (map (cut (Some k)) per) with (map (firstn k) per). apply concat_firstn_incl.
  - change (map (cut None) per) with (map (fun l : list A => l) per).
    rewrite map_id. exact (fun H => H).
Qed.

(** *** the cut-off on an arbitrary family of per backend lists

    [per]: one list per backend, each in the request's order and with keys of
    the request's shape.  The window of the merged, cut lists equals the
    window of the merged complete lists position by position up to ties. *)
Theorem cut_window_eqv rq k (per : list (list hit)) :
  backend_limit rq = Some k ->
  (0 <= rq_offset rq)%Z ->
  Forall (Forall (hit_wf rq)) per ->
  Forall (StronglySorted (lebP (hleb rq))) per ->
  eqv_list (hleb rq) (window rq (sort_hits rq (concat (map (cut (Some k)) per))))
                     (window rq (sort_hits rq (concat per))).
Proof.
  intros Hk Hoff Hwf Hs.
  destruct (backend_limit_some rq k Hk) as [l [Hl [_ [Hpos Hkk]]]].
  destruct (Z.le_gt_cases l 0) as [Hl0|Hl0].
  - rewrite !(window_nil_limit rq _ l Hl Hl0). constructor.
  - assert (Z.to_nat l + Z.to_nat (rq_offset rq) <= k) as Hle by lia.
    change (map (cut (Some k)) per) with (map (firstn k) per).
    destruct (sort_dec rq) as [E|E].
    + rewrite !(sort_hits_nil rq _ E). rewrite (window_cut_exact rq l k per Hl Hle).
      apply Forall2_refl_on. intros x. apply eqv_refl. apply hleb_total.
    + rewrite !(sort_hits_cons rq _ E).
      apply (window_Forall2_of_firstn _ rq l k _ _ Hl Hle).
      apply topk_cut_on with (pb := hit_wfb rq).
      * apply hleb_total.
      * apply hleb_trans_on.
      * revert Hwf. apply Forall_impl. intros b. apply hit_wf_allp.
      * exact Hs.
Qed.

(** the same as an equation between the key sequences *)
Corollary cut_window_keys rq k (per : list (list hit)) :
  backend_limit rq = Some k ->
  (0 <= rq_offset rq)%Z ->
  Forall (Forall (hit_wf rq)) per ->
  Forall (StronglySorted (lebP (hleb rq))) per ->
  map h_keys (window rq (sort_hits rq (concat (map (cut (Some k)) per)))) =
  map h_keys (window rq (sort_hits rq (concat per))).
Proof.
  intros Hk Hoff Hwf Hs.
  assert (Forall (hit_wf rq) (concat per)) as Hall by (apply Forall_concat_all; exact Hwf).
  apply (eqv_list_keys rq); [| |apply (cut_window_eqv rq k per Hk Hoff Hwf Hs)].
  - rewrite Forall_forall in *. intros x Hx. apply Hall.
    apply window_sublist in Hx. apply (Permutation_in _ (sort_hits_perm rq _)) in Hx.
    apply (cut_incl (Some k)) in Hx. exact Hx.
  - rewrite Forall_forall in *. intros x Hx. apply Hall.
    apply window_sublist in Hx. apply (Permutation_in _ (sort_hits_perm rq _)) in Hx. exact Hx.
Qed.

(** without Sort header the cut is exact (complete rows, not only keys) *)
Theorem cut_window_unsorted_exact rq k (per : list (list hit)) :
  backend_limit rq = Some k -> (0 <= rq_offset rq)%Z -> rq_sort rq = [] ->
  window rq (sort_hits rq (concat (map (cut (Some k)) per))) =
  window rq (sort_hits rq (concat per)).
Proof.
  intros Hk Hoff E. rewrite !(sort_hits_nil rq _ E).
  destruct (backend_limit_some rq k Hk) as [l [Hl [_ [Hpos Hkk]]]].
  destruct (Z.le_gt_cases l 0) as [Hl0|Hl0].
  - rewrite !(window_nil_limit rq _ l Hl Hl0). reflexivity.
  - change (map (cut (Some k)) per) with (map (firstn k) per).
    apply (window_cut_exact rq l k per Hl). lia.
Qed.

(** a negative offset (rejected by the parser) would break the cut-off:
    [backend_limit] adds it to the limit, [window] ignores it *)
Example cut_needs_nonneg_offset :
  exists rq k (per : list (list hit)),
    backend_limit rq = Some k /\ rq_sort rq = [] /\
    window rq (sort_hits rq (concat (map (cut (Some k)) per))) <>
    window rq (sort_hits rq (concat per)).
Proof.
  exists (mkReq (mkTable [] [] [] [] false false [] []) [] [] [] [] (Some 2%Z) (-1)%Z []
                FmtJSON false false false [] 0).
  exists 1, [[mkHit [KNum 0%Z] []; mkHit [KNum 1%Z] []]].
  split; [reflexivity|]. split; [reflexivity|]. vm_compute. discriminate.
Qed.

(** *** the reported total *)
Definition bks_of (ds : dataset) (rq : request) : list backend :=
  filter (contributes rq) (selected_backends ds rq).
Definition per_of schema cfg ds rq : list (list hit) :=
  map (hits_of schema cfg rq) (bks_of ds rq).
Definition impl_total (rq : request) (per : list (list hit)) : nat :=
  fold_right Nat.add 0 (map (fun h => backend_total rq (backend_limit rq) (length h)) per).

Lemma data_result_unfold schema cfg ds rq :
  data_result schema cfg ds rq =
  if Z.ltb (Z.of_nat (impl_total rq (per_of schema cfg ds rq))) (rq_offset rq)
  then ([], impl_total rq (per_of schema cfg ds rq))
  else (window rq (sort_hits rq (concat (map (cut (backend_limit rq)) (per_of schema cfg ds rq)))),
        impl_total rq (per_of schema cfg ds rq)).
Proof. reflexivity. Qed.

Lemma data_result_spec_unfold schema cfg ds rq :
  data_result_spec schema cfg ds rq =
  (window rq (sort_hits rq (concat (per_of schema cfg ds rq))),
   length (concat (per_of schema cfg ds rq))).
Proof. reflexivity. Qed.

Lemma sum_min_small (k : nat) (ns : list nat) :
  fold_right Nat.add 0 (map (fun n => Nat.min n (S k)) ns) <= k ->
  fold_right Nat.add 0 (map (fun n => Nat.min n (S k)) ns) = fold_right Nat.add 0 ns.
Proof.
  induction ns as [|n ns IH]; cbn [map fold_right]; [reflexivity|].
  intros H. rewrite IH by lia. lia.
Qed.

Lemma impl_total_full rq (per : list (list hit)) :
  backend_limit rq = None \/ rq_format rq = FmtWrapped ->
  impl_total rq per = length (concat per).
Proof.
  intros H. unfold impl_total. rewrite length_concat_sum. f_equal. apply map_ext. intros h.
  unfold backend_total. destruct H as [-> | ->]; [reflexivity|].
  destruct (backend_limit rq); reflexivity.
Qed.

(** when the implementation answers "offset beyond the result" the window of
    the specification is empty as well, although the implementation's total
    can be truncated *)
Lemma impl_total_small rq k (per : list (list hit)) (s : list hit) :
  backend_limit rq = Some k ->
  (Z.of_nat (impl_total rq per) < rq_offset rq)%Z ->
  length s = length (concat per) -> window rq s = [].
Proof.
  intros Hk Hlt Hlen. destruct (backend_limit_some rq k Hk) as [l [Hl [_ [Hpos Hkk]]]].
  destruct (Z.le_gt_cases l 0) as [Hl0|Hl0]; [apply (window_nil_limit rq s l Hl Hl0)|].
  apply window_nil_short. rewrite Hlen.
  destruct (rq_format rq) eqn:Ef.
  - unfold impl_total in Hlt. rewrite Hk in Hlt.
    assert (map (fun h => backend_total rq (Some k) (length h)) per =
            map (fun n => Nat.min n (S k)) (map (@length hit) per)) as E.
    { rewrite map_map. apply map_ext. intros h. unfold backend_total. rewrite Ef. reflexivity. }
    rewrite E in Hlt.
    assert (fold_right Nat.add 0 (map (fun n => Nat.min n (S k)) (map (@length hit) per)) <= k)
      as Hsmall by lia.
    rewrite (sum_min_small k _ Hsmall) in Hlt. rewrite length_concat_sum. lia.
  - rewrite <- (impl_total_full rq per (or_intror Ef)). lia.
Qed.

(** *** C06 *)

(** hypothesis of the cut-off: lmd keeps every backend's rows in primary key
    order and [default_sort_order] says the Sort headers are that order *)
Definition backends_sorted schema cfg ds rq : Prop :=
  forall bk, In bk (bks_of ds rq) ->
             StronglySorted (lebP (hleb rq)) (hits_of schema cfg rq bk).

Lemma per_of_wf schema cfg ds rq : Forall (Forall (hit_wf rq)) (per_of schema cfg ds rq).
Proof.
  unfold per_of. rewrite Forall_forall. intros l Hl. apply in_map_iff in Hl as [bk [<- _]].
  apply hits_of_wf.
Qed.

Lemma per_of_sorted schema cfg ds rq :
  backends_sorted schema cfg ds rq ->
  Forall (StronglySorted (lebP (hleb rq))) (per_of schema cfg ds rq).
Proof.
  intros H. unfold per_of. rewrite Forall_forall. intros l Hl.
  apply in_map_iff in Hl as [bk [<- Hbk]]. apply H, Hbk.
Qed.

Lemma data_result_wf schema cfg ds rq :
  Forall (hit_wf rq) (fst (data_result schema cfg ds rq)).
Proof.
  pose proof (Forall_concat_all _ _ (per_of_wf schema cfg ds rq)) as Hall.
  rewrite data_result_unfold. destruct (Z.ltb _ _); cbn [fst]; [constructor|].
  rewrite Forall_forall in *. intros x Hx. apply Hall.
  apply window_sublist in Hx. apply (Permutation_in _ (sort_hits_perm rq _)) in Hx.
  apply cut_incl in Hx. exact Hx.
Qed.

Lemma data_result_spec_wf schema cfg ds rq :
  Forall (hit_wf rq) (fst (data_result_spec schema cfg ds rq)).
Proof.
  pose proof (Forall_concat_all _ _ (per_of_wf schema cfg ds rq)) as Hall.
  rewrite data_result_spec_unfold. cbn [fst].
  rewrite Forall_forall in *. intros x Hx. apply Hall.
  apply window_sublist in Hx. apply (Permutation_in _ (sort_hits_perm rq _)) in Hx. exact Hx.
Qed.

(** with the cut-off: same rows up to ties, position by position *)
Theorem C06_window_default_order_eqv schema cfg ds rq k :
  backend_limit rq = Some k ->
  (0 <= rq_offset rq)%Z ->
  backends_sorted schema cfg ds rq ->
  eqv_list (hleb rq) (fst (data_result schema cfg ds rq))
                     (fst (data_result_spec schema cfg ds rq)).
Proof.
  intros Hk Hoff Hs. rewrite data_result_unfold, data_result_spec_unfold.
  destruct (Z.ltb_spec (Z.of_nat (impl_total rq (per_of schema cfg ds rq))) (rq_offset rq))
    as [Hlt|Hge]; cbn [fst].
  - rewrite (impl_total_small rq k (per_of schema cfg ds rq) _ Hk Hlt (sort_hits_length rq _)).
    constructor.
  - rewrite Hk. apply cut_window_eqv; [exact Hk|exact Hoff|apply per_of_wf|apply per_of_sorted, Hs].
Qed.

(** ... hence the same key sequence and the same number of rows *)
Theorem C06_window_default_order schema cfg ds rq k :
  backend_limit rq = Some k ->
  (0 <= rq_offset rq)%Z ->
  backends_sorted schema cfg ds rq ->
  map h_keys (fst (data_result schema cfg ds rq)) =
  map h_keys (fst (data_result_spec schema cfg ds rq)) /\
  length (fst (data_result schema cfg ds rq)) = length (fst (data_result_spec schema cfg ds rq)).
Proof.
  intros Hk Hoff Hs.
  pose proof (C06_window_default_order_eqv schema cfg ds rq k Hk Hoff Hs) as H.
  split; [|apply (eqv_list_length _ _ _ H)].
  apply (eqv_list_keys rq); [apply data_result_wf|apply data_result_spec_wf|exact H].
Qed.

(** without Sort header the rows themselves are equal *)
Theorem C06_window_unsorted_exact schema cfg ds rq k :
  backend_limit rq = Some k ->
  (0 <= rq_offset rq)%Z ->
  rq_sort rq = [] ->
  fst (data_result schema cfg ds rq) = fst (data_result_spec schema cfg ds rq).
Proof.
  intros Hk Hoff E. rewrite data_result_unfold, data_result_spec_unfold.
  destruct (Z.ltb_spec (Z.of_nat (impl_total rq (per_of schema cfg ds rq))) (rq_offset rq))
    as [Hlt|Hge]; cbn [fst].
  - rewrite (impl_total_small rq k (per_of schema cfg ds rq) _ Hk Hlt (sort_hits_length rq _)).
    reflexivity.
  - rewrite Hk. apply cut_window_unsorted_exact; assumption.
Qed.

(** no cut-off: the implementation is the specification *)
Theorem C06_window_no_cut schema cfg ds rq :
  backend_limit rq = None ->
  fst (data_result schema cfg ds rq) = fst (data_result_spec schema cfg ds rq).
Proof.
  intros Hn. rewrite data_result_unfold, data_result_spec_unfold.
  rewrite (impl_total_full rq _ (or_introl Hn)). rewrite Hn.
  assert (map (cut None) (per_of schema cfg ds rq) = per_of schema cfg ds rq) as ->
      by exact (map_id _).
  destruct (Z.ltb_spec (Z.of_nat (length (concat (per_of schema cfg ds rq)))) (rq_offset rq))
    as [Hlt|Hge]; cbn [fst]; [|reflexivity].
  symmetry. apply window_nil_short. rewrite sort_hits_length. lia.
Qed.

(** total_count is the number of all matching rows *)
Theorem C06_total schema cfg ds rq :
  backend_limit rq = None \/ rq_format rq = FmtWrapped ->
  snd (data_result schema cfg ds rq) = snd (data_result_spec schema cfg ds rq).
Proof.
  intros H. rewrite data_result_unfold, data_result_spec_unfold.
  destruct (Z.ltb _ _); cbn [snd]; apply impl_total_full; exact H.
Qed.

(** in general the total never exceeds the number of matching rows *)
Theorem C06_total_le schema cfg ds rq :
  snd (data_result schema cfg ds rq) <= snd (data_result_spec schema cfg ds rq).
Proof.
  rewrite data_result_unfold, data_result_spec_unfold.
  assert (impl_total rq (per_of schema cfg ds rq) <= length (concat (per_of schema cfg ds rq))) as H.
  { unfold impl_total. rewrite length_concat_sum.
    induction (per_of schema cfg ds rq) as [|h per IH]; cbn [map fold_right]; [lia|].
    assert (backend_total rq (backend_limit rq) (length h) <= length h) as Hh.
    { unfold backend_total. destruct (backend_limit rq); [|lia]. destruct (rq_format rq); lia. }
    lia. }
  destruct (Z.ltb _ _); cbn [snd]; exact H.
Qed.

(** the rows of the answer are sorted *)
Theorem C06_result_sorted schema cfg ds rq :
  rq_sort rq <> [] ->
  StronglySorted (lebP (hleb rq)) (fst (data_result schema cfg ds rq)).
Proof.
  intros E. rewrite data_result_unfold. destruct (Z.ltb _ _); cbn [fst]; [constructor|].
  apply window_sorted. rewrite (sort_hits_cons rq _ E).
  apply isort_sorted_on with (pb := hit_wfb rq);
    [apply hleb_total|apply hleb_trans_on|apply hit_wf_allp].
  pose proof (Forall_concat_all _ _ (per_of_wf schema cfg ds rq)) as Hall.
  rewrite Forall_forall in *. intros x Hx. apply Hall. apply cut_incl in Hx. exact Hx.
Qed.

(** the rows of the answer are matching rows of the selected backends *)
Theorem C06_result_sublist schema cfg ds rq x :
  In x (fst (data_result schema cfg ds rq)) -> In x (spec_hits schema cfg ds rq).
Proof.
  rewrite data_result_unfold. destruct (Z.ltb _ _); cbn [fst]; [intros []|]. intros Hx.
  apply window_sublist in Hx. apply (Permutation_in _ (sort_hits_perm rq _)) in Hx.
  apply cut_incl in Hx. exact Hx.
Qed.

Print Assumptions str_ltb_trans.
Print Assumptions str_ltb_total.
Print Assumptions keys_leb_refl.
Print Assumptions keys_leb_total.
Print Assumptions keys_leb_trans.
Print Assumptions keys_leb_antisym.
Print Assumptions isort_perm.
Print Assumptions isort_sorted.
Print Assumptions isort_stable_on_sorted.
Print Assumptions isort_perm_eqv.
Print Assumptions topk_cut.
Print Assumptions topk_cut_incl.
Print Assumptions topk_cut_keys.
Print Assumptions topk_cut_on.
Print Assumptions topk_cut_needs_sorted.
Print Assumptions cut_needs_nonneg_offset.
Print Assumptions isort_sorted_on.
Print Assumptions window_length.
Print Assumptions window_segment.
Print Assumptions window_sublist.
Print Assumptions window_NoDup.
Print Assumptions cut_window_eqv.
Print Assumptions cut_window_keys.
Print Assumptions cut_window_unsorted_exact.
Print Assumptions C06_window_default_order_eqv.
Print Assumptions C06_window_default_order.
Print Assumptions C06_window_unsorted_exact.
Print Assumptions C06_window_no_cut.
Print Assumptions C06_total.
Print Assumptions C06_total_le.
Print Assumptions C06_result_sorted.
Print Assumptions C06_result_sublist.
