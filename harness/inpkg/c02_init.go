//go:build verif

package lmd

// c02_init.go - C02: initial synchronisation stores the backend's objects faithfully.
//
// A generated dataset (rows in random order, flavour specific columns and
// livestatus_version, long strings, raw control / non UTF-8 bytes, near-equal and
// hash-colliding string lists, numbers at the int8 / 2^53 edges, Icinga2's 0 for
// empty lists, nulls) is served by the scripted backend through a thin wire
// wrapper (c02Wire) that
//   - records for every table the Columns: header of lmd's initial fetch and the
//     rows it delivered (what the Coq model loads),
//   - re-encodes the reply so that marked bytes travel raw (unescaped control
//     bytes, bytes that are no UTF-8) - encoding/json cannot produce those,
//   - optionally drops the last cell of one row (malformed reply).
// Then the REAL Peer.InitAllTables runs (MaxParallelPeerConnections 1 or 4) and
// every cached table is read back through lmd's query path with all columns the
// model renders. The Coq side (C02/Run.v) compares the answers with
// `query_table (load ...)` and, independently, with the source rows.
//
// Strings of the dataset mark a byte that must travel raw as U+E000+b (private
// use area); everything else is JSON-escaped normally.

import (
	"bufio"
	"bytes"
	"context"
	"encoding/json"
	"fmt"
	"math/big"
	"net"
	"os"
	"path/filepath"
	"strings"
	"sync"
	"unicode/utf8"

	"github.com/OneOfOne/xxhash"
)

type c02Table struct {
	Name string          `json:"name"`
	Cols []string        `json:"cols"`
	Rows [][]interface{} `json:"rows"` // string | number | nil | list of those | list of lists
}

type c02Short struct {
	Table string `json:"table"`
	Row   int    `json:"row"`
}

type c02Input struct {
	Parallel int         `json:"parallel"`
	Flavour  string      `json:"flavour"` // naemon | icinga2 | shinken | plain
	Tables   []*c02Table `json:"tables"`  // rows in the order the backend serves them
	Short    *c02Short   `json:"short,omitempty"`
	RefSeed  uint64      `json:"refseed"` // selects the sampled reference columns of the read back
	RefPct   int         `json:"refpct"`
}

func init() {
	verifRegister("c02init", "C02: InitAllTables against generated datasets, full-column read back vs load model and source rows", c02Main)
}

// ---- raw byte marks -------------------------------------------------------------

const c02RawBase = 0xE000

func c02Raw(b byte) string { return string(rune(c02RawBase + int(b))) }

// c02WireString writes the JSON string literal for a marked string.
func c02WireString(buf *bytes.Buffer, str string) {
	buf.WriteByte('"')
	for _, r := range str {
		switch {
		case r >= c02RawBase && r <= c02RawBase+0xff:
			buf.WriteByte(byte(r - c02RawBase))
		case r == '"':
			buf.WriteString(`\"`)
		case r == '\\':
			buf.WriteString(`\\`)
		case r < 0x20:
			fmt.Fprintf(buf, `\u%04x`, r)
		default:
			buf.WriteRune(r)
		}
	}
	buf.WriteByte('"')
}

// c02Delivered renders what a marked string is on the wire as a Coq str: code points,
// 0x110000+b for a raw byte that is no legal JSON string content.
func c02Delivered(str string) string {
	if str == "" {
		return "[]"
	}
	raw := []byte{}
	rawCtl := []bool{}
	plain := true
	for _, r := range str {
		if r >= c02RawBase && r <= c02RawBase+0xff {
			b := byte(r - c02RawBase)
			raw = append(raw, b)
			rawCtl = append(rawCtl, b < 0x20)
			plain = false

			continue
		}
		var tmp [4]byte
		n := utf8.EncodeRune(tmp[:], r)
		for i := 0; i < n; i++ {
			raw = append(raw, tmp[i])
			rawCtl = append(rawCtl, false)
		}
	}
	if plain {
		return coqStr(str)
	}
	parts := []string{}
	for i := 0; i < len(raw); {
		if rawCtl[i] {
			parts = append(parts, fmt.Sprintf("%d", 0x110000+int(raw[i])))
			i++

			continue
		}
		// a sequence must not run into a raw control byte
		end := i + 1
		for end < len(raw) && end < i+4 && !rawCtl[end] {
			end++
		}
		r, size := utf8.DecodeRune(raw[i:end])
		if r == utf8.RuneError && size <= 1 {
			parts = append(parts, fmt.Sprintf("%d", 0x110000+int(raw[i])))
			i++

			continue
		}
		parts = append(parts, fmt.Sprintf("%d", r))
		i += size
	}

	return "[" + strings.Join(parts, ";") + "]"
}

// ---- wire wrapper around the scripted backend -----------------------------------

type c02Capture struct {
	cols []string
	rows [][]interface{} // decoded with UseNumber, strings still marked
}

type c02Wire struct {
	backend  *vBackend
	addr     string
	listener net.Listener
	mu       sync.Mutex
	captured map[string]*c02Capture
	short    *c02Short
	wg       sync.WaitGroup
	conns    map[net.Conn]bool
	closed   bool
}

func newC02Wire(name string, backend *vBackend, short *c02Short) *c02Wire {
	w := &c02Wire{backend: backend, captured: map[string]*c02Capture{}, short: short, conns: map[net.Conn]bool{}}
	w.addr = filepath.Join(vSockDir(), fmt.Sprintf("%d-%s.wire", os.Getpid(), name))
	os.Remove(w.addr)
	listener, err := net.Listen("unix", w.addr)
	if err != nil {
		panic("c02wire listen: " + err.Error())
	}
	w.listener = listener
	w.wg.Add(1)
	go func() {
		defer w.wg.Done()
		for {
			conn, err := listener.Accept()
			if err != nil {
				return
			}
			w.mu.Lock()
			if w.closed {
				// accepted while Close was running: Close has not seen this connection
				w.mu.Unlock()
				conn.Close()

				return
			}
			w.conns[conn] = true
			w.mu.Unlock()
			w.wg.Add(1)
			go func() {
				defer w.wg.Done()
				w.serve(conn)
				conn.Close()
				w.mu.Lock()
				delete(w.conns, conn)
				w.mu.Unlock()
			}()
		}
	}()

	return w
}

func (w *c02Wire) Close() {
	w.listener.Close()
	w.mu.Lock()
	w.closed = true
	for c := range w.conns {
		c.Close()
	}
	w.mu.Unlock()
	w.wg.Wait()
	os.Remove(w.addr)
}

func (w *c02Wire) serve(conn net.Conn) {
	rd := bufio.NewReaderSize(conn, 1<<16)
	for {
		block, _, err := vReadBlock(rd)
		if err != nil || len(block) == 0 {
			return
		}
		w.backend.mu.Lock()
		w.backend.Queries = append(w.backend.Queries, string(block))
		reply, keepAlive := w.backend.evalBlock(block)
		w.backend.mu.Unlock()
		reply = w.rewrite(block, reply)
		if _, err = conn.Write(reply); err != nil || !keepAlive {
			return
		}
	}
}

// rewrite decodes the evaluator's JSON, records the initial fetch and encodes the rows with raw bytes.
func (w *c02Wire) rewrite(block, reply []byte) []byte {
	lines := strings.Split(strings.TrimSpace(string(block)), "\n")
	table := strings.TrimSpace(strings.TrimPrefix(lines[0], "GET "))
	fixed16 := false
	var cols []string
	plainFetch := true
	for _, l := range lines[1:] {
		switch {
		case strings.HasPrefix(l, "Columns:"):
			cols = strings.Fields(strings.TrimPrefix(l, "Columns:"))
		case strings.HasPrefix(l, "ResponseHeader: fixed16"):
			fixed16 = true
		case strings.HasPrefix(l, "Filter:"), strings.HasPrefix(l, "Stats:"), strings.HasPrefix(l, "Limit:"):
			plainFetch = false
		}
	}
	body := reply
	if fixed16 {
		if len(reply) < 16 || !bytes.HasPrefix(reply, []byte("200")) {
			return reply
		}
		body = reply[16:]
	}
	dec := json.NewDecoder(bytes.NewReader(body))
	dec.UseNumber()
	var rows [][]interface{}
	if err := dec.Decode(&rows); err != nil {
		return reply
	}
	w.mu.Lock()
	if _, seen := w.captured[table]; !seen && plainFetch && table != "columns" && len(cols) > 1 {
		if w.short != nil && w.short.Table == table && w.short.Row < len(rows) && len(rows[w.short.Row]) > 0 {
			row := rows[w.short.Row]
			rows[w.short.Row] = row[:len(row)-1]
		}
		w.captured[table] = &c02Capture{cols: cols, rows: rows}
	}
	w.mu.Unlock()
	var buf bytes.Buffer
	buf.WriteByte('[')
	for i, row := range rows {
		if i > 0 {
			buf.WriteString(",\n")
		}
		c02WireValue(&buf, row)
	}
	buf.WriteString("]\n")
	if fixed16 {
		return append([]byte(fmt.Sprintf("%03d %11d\n", 200, buf.Len())), buf.Bytes()...)
	}

	return buf.Bytes()
}

func c02WireValue(buf *bytes.Buffer, val interface{}) {
	switch v := val.(type) {
	case nil:
		buf.WriteString("null")
	case string:
		c02WireString(buf, v)
	case json.Number:
		buf.WriteString(v.String())
	case []interface{}:
		buf.WriteByte('[')
		for i, e := range v {
			if i > 0 {
				buf.WriteByte(',')
			}
			c02WireValue(buf, e)
		}
		buf.WriteByte(']')
	default:
		out, _ := json.Marshal(v)
		buf.Write(out)
	}
}

// ---- Coq emission of delivered values ----------------------------------------------

// c02Milli converts a decimal JSON number text into milli units (three decimals).
func c02Milli(num string) string {
	neg := strings.HasPrefix(num, "-")
	num = strings.TrimPrefix(num, "-")
	ip, fp := num, ""
	if i := strings.IndexByte(num, '.'); i >= 0 {
		ip, fp = num[:i], num[i+1:]
	}
	if strings.ContainsAny(num, "eE") {
		f, _, err := big.ParseFloat(num, 10, 200, big.ToNearestEven)
		if err != nil {
			return "0"
		}
		f.Mul(f, big.NewFloat(1000))
		i, _ := f.Int(nil)
		if neg {
			i.Neg(i)
		}

		return c02ZText(i.String())
	}
	for len(fp) < 3 {
		fp += "0"
	}
	fp = fp[:3]
	val, ok := new(big.Int).SetString(ip+fp, 10)
	if !ok {
		return "0"
	}
	if neg {
		val.Neg(val)
	}

	return c02ZText(val.String())
}

func c02ZText(z string) string {
	if strings.HasPrefix(z, "-") {
		return "(" + z + ")"
	}

	return z
}

func c02Atom(val interface{}) string {
	switch v := val.(type) {
	case nil:
		return "ANull"
	case string:
		return "AStr " + c02Delivered(v)
	case json.Number:
		return "ANum " + c02Milli(v.String())
	}

	return "ANull"
}

func c02RawTerm(val interface{}) string {
	list, ok := val.([]interface{})
	if !ok {
		return "RAtom (" + c02Atom(val) + ")"
	}
	nested := false
	for _, e := range list {
		if _, isList := e.([]interface{}); isList {
			nested = true
		}
	}
	parts := []string{}
	if !nested {
		for _, e := range list {
			parts = append(parts, c02Atom(e))
		}

		return "RList " + coqList(parts)
	}
	for _, e := range list {
		sub, _ := e.([]interface{})
		inner := []string{}
		for _, a := range sub {
			inner = append(inner, c02Atom(a))
		}
		parts = append(parts, coqList(inner))
	}

	return "RList2 " + coqList(parts)
}

func c02RawDefault(dt DataType) string {
	switch dt {
	case IntCol, Int64Col, FloatCol:
		return "RAtom (ANum 0)"
	case StringListCol, Int64ListCol, ServiceMemberListCol, InterfaceListCol, CustomVarCol:
		return "RList []"
	default:
		return "RAtom (AStr [])"
	}
}

func c02ZeroValue(dt DataType) string {
	switch dt {
	case IntCol, Int64Col:
		return "VInt 0"
	case FloatCol:
		return "VFloat 0"
	case StringListCol:
		return "VStrList []"
	case Int64ListCol:
		return "VIntList []"
	case ServiceMemberListCol, CustomVarCol:
		return "VPairs []"
	case InterfaceListCol:
		return "VRows []"
	default:
		return "VStr []"
	}
}

// ---- which columns the model renders -----------------------------------------------

var c02VirtualOwn = map[string]bool{"custom_variables": true, "peer_key": true, "peer_name": true, "has_long_plugin_output": true,
	"state_order": true, "total_services": true, "members_with_state": true, "last_state_change_order": true}

var c02VirtualRef = map[string]bool{"custom_variables": true, "peer_key": true, "peer_name": true, "has_long_plugin_output": true,
	"state_order": true, "total_services": true}

func c02Modelled(col *Column) bool {
	switch col.StorageType {
	case LocalStore:
		return true
	case VirtualStore:
		return c02VirtualOwn[col.Name]
	case RefStore:
		if col.RefCol == nil {
			return false
		}
		if col.RefCol.StorageType == LocalStore {
			return true
		}

		return col.RefCol.StorageType == VirtualStore && c02VirtualRef[col.RefCol.Name]
	}

	return false
}

// c02QueryColumns lists the read back columns: every column the model renders; in the quick tier the
// reference columns (host_* / service_* copies, the bulk of the answer) are sampled per case (refPct percent).
func c02QueryColumns(table *Table, r *vRand, refPct int) []string {
	res := []string{}
	for _, col := range table.columns {
		if !c02Modelled(col) {
			continue
		}
		if col.StorageType == RefStore && r.intn(100) >= refPct {
			continue
		}
		res = append(res, col.Name)
	}

	return res
}

// ---- running one case ------------------------------------------------------------------

type c02TableObs struct {
	name  string
	req   []string
	rows  []string // Coq terms (width, sparse cells)
	qcols []string
	obs   []string // Coq terms: sparse rows
}

type c02Result struct {
	flags    uint32
	oflags   uint32
	errClass int
	errText  string
	tables   []*c02TableObs
}

func c02Number(num json.Number) interface{} {
	txt := num.String()
	if !strings.ContainsAny(txt, ".eE") {
		if i, err := num.Int64(); err == nil {
			return i
		}
	}
	f, _ := num.Float64()

	return f
}

// c02Cell converts a replay cell (decoded with UseNumber) into what the scripted backend stores.
func c02Cell(val interface{}) interface{} {
	switch v := val.(type) {
	case json.Number:
		return c02Number(v)
	case []interface{}:
		res := make([]interface{}, len(v))
		for i := range v {
			res[i] = c02Cell(v[i])
		}

		return res
	}

	return val
}

var c02FlagColumns = []struct {
	table  string
	column string
	flag   OptionalFlags
}{
	{"status", "localtime", HasLocaltimeColumn},
	{"hosts", "depends_exec", HasDependencyColumn},
	{"hosts", "lmd_last_cache_update", HasLMDLastCacheUpdateColumn},
	{"hosts", "last_update", HasLastUpdateColumn},
	{"hosts", "event_handler", HasEventHandlerColumn},
	{"hosts", "staleness", HasStalenessColumn},
	{"services", "check_freshness", HasCheckFreshnessColumn},
	{"services", "parents", HasServiceParentsColumn},
	{"contacts", "groups", HasContactsGroupColumn},
	{"contacts", "host_notification_commands", HasContactsCommandsColumn},
}

// c02ExpectedFlags is what the flavour should make lmd detect (peer.go:1622-1708).
func c02ExpectedFlags(in *c02Input) uint32 {
	flags := NoFlags
	for _, t := range in.Tables {
		if t.Name == "status" && len(t.Rows) == 0 {
			return 0 // initialisation stops at the status table, nothing is detected
		}
	}
	switch in.Flavour {
	case "naemon":
		flags |= Naemon
	case "icinga2":
		flags |= Icinga2
	case "shinken":
		flags |= Shinken
	}
	if in.Flavour != "icinga2" {
		for _, fc := range c02FlagColumns {
			for _, t := range in.Tables {
				if t.Name != fc.table {
					continue
				}
				for _, c := range t.Cols {
					if c == fc.column {
						flags |= fc.flag
					}
				}
			}
		}
	}

	return uint32(flags)
}

func c02ErrClass(err error) int {
	if err == nil {
		return 0
	}
	msg := err.Error()
	switch {
	case strings.Contains(msg, "len mismatch"):
		return 1
	case strings.Contains(msg, "reference not found"):
		return 2
	case strings.Contains(msg, "not ready yet"):
		return 3
	}

	return 9
}

func c02RunCase(idx int, in *c02Input, intern *c02Intern) (res *c02Result) {
	res = &c02Result{flags: c02ExpectedFlags(in)}
	backend := newVBackend(fmt.Sprintf("c02-%d", idx))
	defer backend.Close()
	dataset := map[string]*vTable{}
	for _, t := range in.Tables {
		tab := &vTable{Cols: append([]string{}, t.Cols...)}
		for _, row := range t.Rows {
			conv := make([]interface{}, len(row))
			for i := range row {
				conv[i] = c02Cell(row[i])
			}
			tab.Rows = append(tab.Rows, conv)
		}
		dataset[t.Name] = tab
	}
	backend.SetDataset(dataset)
	wire := newC02Wire(fmt.Sprintf("c02-%d", idx), backend, in.Short)
	defer wire.Close()

	lmd := verifNewDaemon()
	lmd.Config.MaxParallelPeerConnections = in.Parallel
	peer := vNewPeer(lmd, "c02", []string{wire.addr}, nil)
	defer func() {
		if rec := recover(); rec != nil {
			res.errClass = 8
			res.errText = fmt.Sprintf("panic: %v", rec)
		}
		peer.Stop()
	}()
	err := peer.InitAllTables(context.Background())
	res.errClass = c02ErrClass(err)
	if err != nil {
		res.errText = err.Error()
	}
	res.oflags = peer.flags
	// a copy: fetch goroutines of a parallel initial sync which failed early may still be answered by the wire
	wire.mu.Lock()
	captured := make(map[string]*c02Capture, len(wire.captured))
	for k, v := range wire.captured {
		captured[k] = v
	}
	wire.mu.Unlock()

	refRand := newVRand(in.RefSeed)
	for _, tn := range Objects.UpdateTables {
		table := Objects.Tables[tn]
		cap := captured[tn.String()]
		if cap == nil {
			continue
		}
		obs := &c02TableObs{name: tn.String(), req: cap.cols}
		for _, row := range cap.rows {
			cells := []string{}
			for i, cell := range row {
				dt := StringCol
				if i < len(cap.cols) {
					if col := table.GetColumn(cap.cols[i]); col != nil {
						dt = col.DataType
					}
				}
				term := c02RawTerm(cell)
				if term == c02RawDefault(dt) {
					continue
				}
				cells = append(cells, fmt.Sprintf("R %d (%s)", i, intern.term("raw", term)))
			}
			obs.rows = append(obs.rows, fmt.Sprintf("(%d%%nat, %s)", len(row), coqList(cells)))
		}
		if err == nil {
			obs.qcols = c02QueryColumns(table, refRand, in.RefPct)
			text := fmt.Sprintf("GET %s\nColumns: %s\nOutputFormat: json\n\n", tn.String(), strings.Join(obs.qcols, " "))
			out, qerr := vQuery(lmd, text)
			var rows [][]json.RawMessage
			if qerr != nil || json.Unmarshal(out, &rows) != nil {
				obs.obs = append(obs.obs, "[C 0 (VStr (s \"?query failed\"))]")
			}
			for _, row := range rows {
				cells := []string{}
				for i, cell := range row {
					if i >= len(obs.qcols) {
						break
					}
					dt := table.GetColumn(obs.qcols[i]).DataType
					term := qeCell(dt, cell)
					if term == c02ZeroValue(dt) {
						continue
					}
					cells = append(cells, fmt.Sprintf("C %d (%s)", i, intern.term("value", term)))
				}
				obs.obs = append(obs.obs, coqList(cells))
			}
		}
		res.tables = append(res.tables, obs)
	}

	return res
}

// c02Intern shares identical column lists between the cases of one file (they dominate its size).
type c02Intern struct {
	defs  strings.Builder
	names map[string]string
}

func (n *c02Intern) list(l []string) string {
	term := coqStrList(l)
	if name, ok := n.names[term]; ok {
		return name
	}
	name := fmt.Sprintf("L%d", len(n.names))
	n.names[term] = name
	fmt.Fprintf(&n.defs, "Definition %s : list str := %s.\n", name, term)

	return name
}

// term shares a long cell term (typ = raw | value).
func (n *c02Intern) term(typ, term string) string {
	if len(term) < 64 {
		return term
	}
	key := typ + ":" + term
	if name, ok := n.names[key]; ok {
		return name
	}
	name := fmt.Sprintf("X%d", len(n.names))
	n.names[key] = name
	fmt.Fprintf(&n.defs, "Definition %s : %s := %s.\n", name, typ, term)

	return name
}

func c02Coq(idx int, res *c02Result, in *c02Intern) string {
	var sb strings.Builder
	names := []string{}
	for ti, t := range res.tables {
		name := fmt.Sprintf("c%d_t%d", idx, ti)
		names = append(names, name)
		req, qcols := in.list(t.req), in.list(t.qcols)
		sb.WriteString(in.defs.String())
		in.defs.Reset()
		fmt.Fprintf(&sb, "Definition %s : tcase := mkT %s %s\n  [%s]\n  %s\n  [%s].\n", name, coqStr(t.name), req,
			strings.Join(t.rows, ";\n   "), qcols, strings.Join(t.obs, ";\n   "))
	}
	fmt.Fprintf(&sb, "Definition c%d : case := mkCase %s %s %d %d %d %s.\n", idx, coqStr("c02"), coqStr("c02"), res.flags, res.oflags, res.errClass, coqList(names))

	return sb.String()
}

// ---- generator -------------------------------------------------------------------------

var (
	c02HostPool = []string{"alpha", "Alpha", "ALPHA", "beta", "db.prod", "a.b.c", "x.1", "web01", "Web01", "Zürich", "ÄPFEL", "äpfel", "日本", "gw", "h-1", "h_2", "a", "a b", "zz", "Z"}
	c02SvcPool  = []string{"ping", "Ping", "http", "HTTP", "disk /", "load", "cpu.usage", "Über", "ssh", "a", "B"}
	c02Names    = []string{"n1", "N1", "n.2", "grp", "Grp", "admins", "all", "über", "x y", "k"}
	c02Words    = []string{"", "OK", "ok - all fine", "CRITICAL: disk full", "WARN 80%", "a.b", "Ünïcode ÄÖ", "x|y=1", "line (1) [x]", "quote \" and \\ slash",
		"tab\\tescaped", "日本語テキスト", "user33130", "user131969", "same", "same", "same"}
)

// c02Collision finds two distinct two-element string lists whose joined text has the same xxhash32 (birthday search).
var c02CollisionOnce sync.Once
var c02CollisionA, c02CollisionB []interface{}

func c02Collision() (a, b []interface{}) {
	c02CollisionOnce.Do(func() {
		seen := map[uint32]int{}
		for i := 0; i < 3000000; i++ {
			list := []string{fmt.Sprintf("c%d", i), "x"}
			sum := xxhash.ChecksumString32(strings.Join(list, ListSepChar1))
			if j, ok := seen[sum]; ok {
				c02CollisionA = []interface{}{fmt.Sprintf("c%d", j), "x"}
				c02CollisionB = []interface{}{fmt.Sprintf("c%d", i), "x"}

				return
			}
			seen[sum] = i
		}
	})

	return c02CollisionA, c02CollisionB
}

type c02Gen struct {
	r    *vRand
	hist map[string]int
}

func (g *c02Gen) count(k string) { g.hist[k]++ }

func (g *c02Gen) longString(compressible bool) string {
	n := vPick(g.r, []int{511, 512, 513, 600, 900})
	var sb strings.Builder
	if compressible {
		for sb.Len() < n {
			sb.WriteString(vPick(g.r, []string{"check output line; ", "OK - ", "value=1 "}))
		}
	} else {
		for sb.Len() < n {
			fmt.Fprintf(&sb, "%x", g.r.next())
		}
	}
	str := sb.String()[:n]
	g.count(fmt.Sprintf("string:len=%d", n))
	if compressible {
		g.count("string:compressible>=512")
	} else {
		g.count("string:incompressible>=512")
	}

	return str
}

func (g *c02Gen) str(key bool) string {
	if key {
		return vPick(g.r, c02Words[1:9])
	}
	switch g.r.intn(24) {
	case 0:
		if g.r.chance(1, 2) {
			return g.longString(true)
		}

		return vPick(g.r, c02Words)
	case 1:
		if g.r.chance(1, 2) {
			return g.longString(false)
		}

		return vPick(g.r, c02Words)
	case 2:
		g.count("string:raw-control-byte")

		return "ctl" + c02Raw(byte(1+g.r.intn(31))) + "x" + c02Raw(9) + c02Raw(10) + "end"
	case 3:
		g.count("string:invalid-utf8")

		return vPick(g.r, []string{"bad" + c02Raw(0xff) + "x", c02Raw(0xc3) + "(", "a" + c02Raw(0xed) + c02Raw(0xa0) + c02Raw(0x80) + "b",
			c02Raw(0xff) + c02Raw(0xfe) + "y" + c02Raw(0x80), "trunc" + c02Raw(0xe4) + c02Raw(0xb8), "ok" + c02Raw(0xc3) + c02Raw(0xa4) + "!"})
	case 4:
		g.count("string:DEL")

		return "del" + c02Raw(0x7f) + "x"
	case 5:
		g.count("string:escaped-control")

		return "esc\x01\x1f\ttab\nnl"
	case 6:
		g.count("string:mixed-raw")

		return "m" + c02Raw(0xff) + c02Raw(0x01) + c02Raw(0x7f) + "n" + c02Raw(0x02) + "\x03" + "o"
	}

	return vPick(g.r, c02Words)
}

func (g *c02Gen) strList() interface{} {
	switch g.r.intn(16) {
	case 0:
		g.count("list:empty")

		return []interface{}{}
	case 1:
		g.count("list:[\"\"]")

		return []interface{}{""}
	case 2:
		g.count("list:join-equal [a,b]")

		return []interface{}{"a", "b"}
	case 3:
		g.count("list:join-equal [a\\0b]")

		return []interface{}{"a\x00b"}
	case 4:
		g.count("list:xxhash-collision-A")
		a, _ := c02Collision()

		return a
	case 5:
		g.count("list:xxhash-collision-B")
		_, b := c02Collision()

		return b
	case 6:
		g.count("list:icinga2-zero")

		return int64(0)
	case 7:
		g.count("list:null")

		return nil
	case 8:
		g.count("list:with-null-element")

		return []interface{}{"x", nil, "y"}
	case 9:
		g.count("list:plain-string")

		return vPick(g.r, []string{"", "single"})
	case 10:
		g.count("list:raw-bytes")

		return []interface{}{"l" + c02Raw(0xff), "ok"}
	}
	n := 1 + g.r.intn(3)
	res := []interface{}{}
	for i := 0; i < n; i++ {
		res = append(res, vPick(g.r, []string{"alice", "bob", "Carol", "dave", "omd", "admins", "a", "b"}))
	}
	g.count("list:typical")

	return res
}

func (g *c02Gen) int8Val() interface{} {
	v := vPick(g.r, []interface{}{int64(0), int64(0), int64(1), int64(1), int64(2), int64(3), int64(-1), int64(127), int64(128), int64(-128), int64(-129), int64(255), int64(1000), 2.9, -2.9, nil})
	g.count(fmt.Sprintf("int8:%v", v))

	return v
}

func (g *c02Gen) int64Val() interface{} {
	v := vPick(g.r, []interface{}{int64(0), int64(1), int64(-1), int64(300), int64(1) << 31, (int64(1) << 32) + 1, int64(1700000000), (int64(1) << 53) - 1, int64(1) << 53,
		-(int64(1) << 53), int64(1) << 40, 1.5, nil})
	g.count(fmt.Sprintf("int64:%v", v))

	return v
}

func (g *c02Gen) floatVal() interface{} {
	v := vPick(g.r, []interface{}{int64(0), 0.001, 0.25, 1.5, 123.456, -2.5, int64(1000000), int64(3), nil})

	return v
}

// value generates a cell for a column by lmd's own column type.
func (g *c02Gen) value(col *Column) interface{} {
	switch col.DataType {
	case StringCol, StringLargeCol:
		return g.str(false)
	case IntCol:
		return g.int8Val()
	case Int64Col:
		return g.int64Val()
	case FloatCol:
		return g.floatVal()
	case StringListCol:
		return g.strList()
	case Int64ListCol:
		return vPick(g.r, []interface{}{[]interface{}{}, []interface{}{int64(1)}, []interface{}{int64(5), int64(1) << 40, int64(-3)}, nil, int64(0)})
	case ServiceMemberListCol:
		return vPick(g.r, []interface{}{[]interface{}{}, []interface{}{[]interface{}{"h", "s"}}, []interface{}{[]interface{}{"h", "s"}, []interface{}{"Ü", "x y"}}})
	case InterfaceListCol:
		return vPick(g.r, []interface{}{[]interface{}{}, []interface{}{[]interface{}{int64(0), int64(3600), int64(7200)}}, []interface{}{[]interface{}{"monday", int64(1)}, []interface{}{}}})
	}

	return ""
}

func c02Fetchable(col *Column) bool {
	return col.StorageType == LocalStore && col.FetchType != None
}

// genTable builds a table with the given fixed columns plus a random subset of the other fetchable columns.
func (g *c02Gen) genTable(name string, fixed []string, nRows int, flavourFlags OptionalFlags, fill func(i int, row map[string]interface{})) *c02Table {
	tn, _ := NewTableName(name)
	table := Objects.Tables[tn]
	cols := append([]string{}, fixed...)
	isFixed := map[string]bool{}
	for _, c := range fixed {
		isFixed[c] = true
	}
	density := vPick(g.r, []int{0, 10, 25, 50})
	for _, col := range table.columns {
		if isFixed[col.Name] || !c02Fetchable(col) || col.Name == "localtime" {
			continue
		}
		if col.Optional != NoFlags && col.Optional&flavourFlags == 0 && !g.r.chance(1, 3) {
			continue
		}
		if g.r.intn(100) < density {
			cols = append(cols, col.Name)
		}
	}
	tab := &c02Table{Name: name, Cols: cols, Rows: [][]interface{}{}}
	for i := 0; i < nRows; i++ {
		vals := map[string]interface{}{}
		fill(i, vals)
		row := make([]interface{}, len(cols))
		for ci, cn := range cols {
			if v, ok := vals[cn]; ok {
				row[ci] = v

				continue
			}
			row[ci] = g.value(table.GetColumn(cn))
		}
		tab.Rows = append(tab.Rows, row)
	}
	// random serve order
	for i := len(tab.Rows) - 1; i > 0; i-- {
		j := g.r.intn(i + 1)
		tab.Rows[i], tab.Rows[j] = tab.Rows[j], tab.Rows[i]
	}

	return tab
}

func (g *c02Gen) subset(pool []string, n int) []string {
	if n > len(pool) {
		n = len(pool)
	}
	idx := make([]int, len(pool))
	for i := range idx {
		idx[i] = i
	}
	for i := len(idx) - 1; i > 0; i-- {
		j := g.r.intn(i + 1)
		idx[i], idx[j] = idx[j], idx[i]
	}
	res := []string{}
	for _, i := range idx[:n] {
		res = append(res, pool[i])
	}

	return res
}

func c02Strs(l []string) []interface{} {
	res := make([]interface{}, len(l))
	for i := range l {
		res[i] = l[i]
	}

	return res
}

func (g *c02Gen) gen(refPct int) *c02Input {
	in := &c02Input{RefSeed: g.r.next() % 1000000, RefPct: refPct, Parallel: vPick(g.r, []int{1, 4}), Flavour: vPick(g.r, []string{"naemon", "naemon", "icinga2", "shinken", "plain"})}
	g.count("flavour=" + in.Flavour)
	g.count(fmt.Sprintf("parallel=%d", in.Parallel))
	version := map[string]string{"naemon": "1.4.2-naemon", "icinga2": vPick(g.r, []string{"r2.14.0-1", "2.4.0-icinga2"}), "shinken": "1.4-shinken", "plain": "1.2.8p1"}[in.Flavour]
	flavourFlags := map[string]OptionalFlags{"naemon": Naemon, "icinga2": Icinga2, "shinken": Shinken, "plain": NoFlags}[in.Flavour]

	hosts := g.subset(c02HostPool, g.r.intn(5))
	type svc struct{ host, desc string }
	svcs := []svc{}
	svcOf := map[string][]string{}
	for _, h := range hosts {
		for _, d := range g.subset(c02SvcPool, g.r.intn(3)) {
			if len(svcs) >= 5 {
				break
			}
			svcs = append(svcs, svc{h, d})
			svcOf[h] = append(svcOf[h], d)
		}
	}
	g.count(fmt.Sprintf("hosts=%d", len(hosts)))
	g.count(fmt.Sprintf("services=%d", len(svcs)))
	contacts := g.subset([]string{"alice", "bob", "Carol", "dave", "omd"}, 1+g.r.intn(3))

	status := g.genTable("status", []string{"program_start", "nagios_pid", "livestatus_version", "program_version"}, 1, flavourFlags, func(_ int, row map[string]interface{}) {
		row["program_start"] = int64(1700000000 + g.r.intn(1000))
		row["nagios_pid"] = int64(4000 + g.r.intn(1000))
		row["livestatus_version"] = version
		row["program_version"] = "1.4.2"
	})
	timeperiods := g.genTable("timeperiods", []string{"name", "alias"}, 2, flavourFlags, func(i int, row map[string]interface{}) {
		row["name"] = []string{"24x7", "workhours"}[i]
	})
	contactTab := g.genTable("contacts", []string{"name", "alias", "email"}, len(contacts), flavourFlags, func(i int, row map[string]interface{}) {
		row["name"] = contacts[i]
	})
	cgNames := g.subset(c02Names, g.r.intn(3))
	contactgroups := g.genTable("contactgroups", []string{"name", "alias", "members"}, len(cgNames), flavourFlags, func(i int, row map[string]interface{}) {
		row["name"] = cgNames[i]
		row["members"] = c02Strs(g.subset(contacts, g.r.intn(len(contacts)+1)))
	})
	cmdNames := g.subset([]string{"check_ping", "check-host-alive", "check_dummy", "Check_X"}, 1+g.r.intn(3))
	commands := g.genTable("commands", []string{"name", "line"}, len(cmdNames), flavourFlags, func(i int, row map[string]interface{}) {
		row["name"] = cmdNames[i]
	})
	hostFixed := []string{"name", "alias", "address", "display_name", "state", "has_been_checked", "last_state_change", "contacts", "groups", "custom_variable_names",
		"custom_variable_values", "plugin_output", "long_plugin_output", "num_services", "services"}
	hostTab := g.genTable("hosts", hostFixed, len(hosts), flavourFlags, func(i int, row map[string]interface{}) {
		row["name"] = hosts[i]
		row["state"] = int64(g.r.intn(3))
		row["has_been_checked"] = int64(g.r.intn(2))
		row["last_state_change"] = vPick(g.r, []interface{}{int64(0), int64(1699990000)})
		row["services"] = c02Strs(svcOf[hosts[i]])
		row["num_services"] = int64(len(svcOf[hosts[i]]))
		cvn := g.subset([]string{"FOO", "BAR", "LOC", "TAG"}, g.r.intn(4))
		cvv := []interface{}{}
		for range cvn {
			cvv = append(cvv, vPick(g.r, []string{"1", "x", "Berlin", "", "a b"}))
		}
		if len(cvv) > 0 && g.r.chance(1, 8) {
			cvv = cvv[:len(cvv)-1] // fewer values than names
		}
		row["custom_variable_names"] = c02Strs(cvn)
		row["custom_variable_values"] = cvv
		if g.r.chance(1, 4) {
			row["alias"] = vPick(g.r, []string{"ALIAS " + hosts[i], "Ärger", "MiXed.Case"})
		}
	})
	hgNames := g.subset(c02Names, g.r.intn(4))
	hostgroups := g.genTable("hostgroups", []string{"name", "alias", "members"}, len(hgNames), flavourFlags, func(i int, row map[string]interface{}) {
		row["name"] = hgNames[i]
		members := g.subset(hosts, g.r.intn(len(hosts)+1))
		if g.r.chance(1, 10) {
			members = append(members, "no-such-host")
			g.count("hostgroup:dangling-member")
		}
		row["members"] = c02Strs(members)
	})
	svcFixed := []string{"host_name", "description", "display_name", "state", "has_been_checked", "last_state_change", "contacts", "groups", "custom_variable_names",
		"custom_variable_values", "plugin_output", "long_plugin_output"}
	svcTab := g.genTable("services", svcFixed, len(svcs), flavourFlags, func(i int, row map[string]interface{}) {
		row["host_name"] = svcs[i].host
		row["description"] = svcs[i].desc
		row["state"] = int64(g.r.intn(4))
		row["has_been_checked"] = int64(g.r.intn(2))
		row["last_state_change"] = vPick(g.r, []interface{}{int64(0), int64(1699990000)})
		row["custom_variable_names"] = c02Strs(g.subset([]string{"FOO", "BAR"}, g.r.intn(3)))
		row["custom_variable_values"] = []interface{}{"v1", "v2"}
	})
	sgNames := g.subset(c02Names, g.r.intn(3))
	servicegroups := g.genTable("servicegroups", []string{"name", "alias", "members"}, len(sgNames), flavourFlags, func(i int, row map[string]interface{}) {
		row["name"] = sgNames[i]
		members := []interface{}{}
		for _, sv := range svcs {
			if g.r.chance(1, 2) {
				members = append(members, []interface{}{sv.host, sv.desc})
			}
		}
		if g.r.chance(1, 10) {
			members = append(members, []interface{}{"no-such-host", "svc"})
		}
		row["members"] = members
	})
	idPool := []int64{1, 2, 3, 44, 127, 128, 300, 65536, 1 << 40, 1 << 53}
	mkEntries := func(name string, fixed []string) *c02Table {
		n := 0
		if len(hosts) > 0 {
			n = g.r.intn(4)
		}
		ids := []int64{}
		perm := g.subset([]string{"0", "1", "2", "3", "4", "5", "6", "7", "8", "9"}, n)
		for _, p := range perm {
			ids = append(ids, idPool[int(p[0]-'0')])
		}

		return g.genTable(name, fixed, n, flavourFlags, func(i int, row map[string]interface{}) {
			h := vPick(g.r, hosts)
			row["id"] = ids[i]
			row["host_name"] = h
			row["service_description"] = ""
			row["is_service"] = int64(0)
			switch {
			case len(svcOf[h]) > 0 && g.r.chance(1, 2):
				row["service_description"] = vPick(g.r, svcOf[h])
				row["is_service"] = int64(1)
			case g.r.chance(1, 12):
				row["service_description"] = "no such service"
				g.count(name + ":dangling-service")
			}
		})
	}
	comments := mkEntries("comments", []string{"id", "host_name", "service_description", "author", "comment", "entry_time", "is_service"})
	downtimes := mkEntries("downtimes", []string{"id", "host_name", "service_description", "author", "comment", "start_time", "end_time", "is_service"})
	g.count(fmt.Sprintf("comments=%d", len(comments.Rows)))
	g.count(fmt.Sprintf("downtimes=%d", len(downtimes.Rows)))

	in.Tables = []*c02Table{status, timeperiods, contactTab, contactgroups, commands, hostTab, hostgroups, svcTab, servicegroups, comments, downtimes}

	// malformed replies (about one case in ten)
	switch g.r.intn(30) {
	case 0:
		cand := []*c02Table{}
		for _, t := range in.Tables {
			if len(t.Rows) > 0 && t.Name != "status" {
				cand = append(cand, t)
			}
		}
		if len(cand) > 0 {
			t := vPick(g.r, cand)
			in.Short = &c02Short{Table: t.Name, Row: g.r.intn(len(t.Rows))}
			g.count("malformed:short-row")
		}
	case 1:
		if len(svcTab.Rows) > 0 {
			svcTab.Rows[g.r.intn(len(svcTab.Rows))][0] = "ghost-host"
			g.count("malformed:service-without-host")
		}
	case 2:
		if len(comments.Rows) > 0 {
			comments.Rows[g.r.intn(len(comments.Rows))][1] = "ghost-host"
			g.count("malformed:comment-without-host")
		}
	case 3:
		status.Rows = [][]interface{}{}
		g.count("malformed:no-status-row")
	}

	return in
}

func c02Nontrivial(in *c02Input) bool {
	rows := 0
	for _, t := range in.Tables {
		if t.Name == "hosts" || t.Name == "services" || t.Name == "comments" {
			rows += len(t.Rows)
		}
	}

	return rows >= 2
}

// ---- replay decoding ------------------------------------------------------------------

func c02ReadReplay(path string) []*c02Input {
	buf, err := os.ReadFile(path)
	if err != nil {
		panic(err)
	}
	var wrapper struct {
		Inputs json.RawMessage `json:"inputs"`
	}
	if err = json.Unmarshal(buf, &wrapper); err != nil {
		panic(err)
	}
	dec := json.NewDecoder(bytes.NewReader(wrapper.Inputs))
	dec.UseNumber()
	inputs := []*c02Input{}
	if err = dec.Decode(&inputs); err != nil {
		panic(err)
	}

	return inputs
}

// c02Roundtrip normalises a generated input through JSON so that generated and replayed cases take the same path.
func c02Roundtrip(in *c02Input) *c02Input {
	buf, err := json.Marshal(in)
	if err != nil {
		panic(err)
	}
	dec := json.NewDecoder(bytes.NewReader(buf))
	dec.UseNumber()
	out := &c02Input{}
	if err = dec.Decode(out); err != nil {
		panic(err)
	}

	return out
}

func c02Main(args []string) int {
	flags := verifParseStreamFlags("c02init", args)
	meta := newVMeta("c02init", "generated datasets for all 11 cached tables: fixed key/reference columns plus a random subset (0/10/30/60 %) of every other fetched column of lmd's schema, "+
		"cells by column type from pools with the corner values (see histogram); rows served in random order; flavour by livestatus_version and the columns table; MaxParallelPeerConnections 1|4; "+
		"read back: all local and modelled virtual columns, reference columns all (thorough) or a 30 % sample per case (quick); about 1 in 8 cases malformed (short row, service or comment without host, no status row). non-trivial: at least 2 rows in hosts+services+comments; distinct by input")
	inputs := []*c02Input{}
	gen := &c02Gen{r: newVRand(flags.seed), hist: meta.Histogram}
	if flags.replay != "" {
		inputs = c02ReadReplay(flags.replay)
	} else {
		refPct := 30
		if flags.tier == "thorough" {
			refPct = 100
		}
		for range flags.n {
			inputs = append(inputs, c02Roundtrip(gen.gen(refPct)))
		}
	}
	a, b := c02Collision()
	if a == nil || b == nil {
		fmt.Fprintln(os.Stderr, "c02init: no xxhash32 collision found")

		return 1
	}
	var sb strings.Builder
	sb.WriteString("From LMD Require Import C02.Run.\nOpen Scope N_scope.\nOpen Scope string_scope.\n")
	names := []string{}
	intern := &c02Intern{names: map[string]string{}}
	for i, in := range inputs {
		res := c02RunCase(i, in, intern)
		sb.WriteString(c02Coq(i, res, intern))
		names = append(names, fmt.Sprintf("c%d", i))
		meta.count(fmt.Sprintf("outcome=%d", res.errClass))
		if res.errClass >= 8 {
			fmt.Fprintf(os.Stderr, "c02init: case %d: %s\n", i, res.errText)
		}
		key, _ := json.Marshal(in)
		meta.add(string(key), c02Nontrivial(in), in)
	}
	sb.WriteString("Definition cases : list case := " + coqList(names) + ".\n")
	sb.WriteString("Definition M := Eval vm_compute in mismatches cases.\nPrint M.\n")
	if err := os.WriteFile(flags.out, []byte(sb.String()), 0o644); err != nil {
		panic(err)
	}
	meta.write(flags.meta)

	return 0
}
