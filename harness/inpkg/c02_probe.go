//go:build verif

package lmd

import (
	"fmt"
)

func init() {
	verifRegister("c02probe", "tmp", func(_ []string) int {
		tests := []string{
			"[[\"a\x01b\",1]]",
			"[[\"a\xffb\",1]]",
			"[[\"a\x7fb\",1]]",
			"[[\"a\x7fb\",\"x\x01\"]]",
			"[[\"a\xc3\",1]]",
			"[[\"a\xc3\xc3\xa4\",1]]",
			"[[\"tab\there\",1]]",
			"[[\"nl\nhere\",1]]",
			"[[\"a\\u0001b\",1]]",
			"[[\"a\\qb\",1]]",
			"[[\"\xed\xa0\x80\",1]]",
			"[[\"\xf4\x90\x80\x80\",1]]",
			"[[\"\xc0\x80\",1]]",
			"[[\"a\xff\xfe\x01b\x02\x03c\",9223372036854775807,-9223372036854775808,9007199254740993, 1e3, 1.5, null, true]]",
			"[[\"\\ud800\",1]]",
			"[[\"\\ud83d\\ude00\",1]]",
		}
		for _, t := range tests {
			res, err := NewResultSet([]byte(t))
			fmt.Printf("%q -> %#v err=%v\n", t, res, err)
			if err == nil && len(res) > 0 {
				for _, c := range res[0] {
					if s, ok := c.(string); ok {
						fmt.Printf("    str bytes % x\n", s)
					}
				}
				if len(res[0]) > 2 {
					fmt.Printf("  int64s: %d %d %d\n", interface2int64(res[0][1]), interface2int64(res[0][2]), interface2int64(res[0][3]))
				}
			}
		}
		return 0
	})
}
