//go:build verif

package lmd

// C03 stream `c03compose`: composeTimestampFilter(list, "last_check") of the implementation on generated
// timestamp lists, compared entry by entry with C03.Filter.compose.

import (
	"encoding/json"
	"fmt"
	"os"
	"strconv"
	"strings"
)

type c03ComposeInput struct {
	Ts []int64 `json:"ts"`
}

func init() {
	verifRegister("c03compose", "C03: composeTimestampFilter on generated timestamp lists", c03ComposeMain)
}

// c03ParseEntry renders one string of the result as a list of model lines.
func c03ParseEntry(entry string) string {
	lines := []string{}
	for _, text := range strings.Split(strings.TrimSuffix(entry, "\n"), "\n") {
		fields := strings.Fields(text)
		bad := "LF CExec OLt 0" // does not occur in a correct answer
		switch {
		case len(fields) == 2 && (fields[0] == "And:" || fields[0] == "Or:"):
			num, err := strconv.Atoi(fields[1])
			if err != nil || num < 0 {
				lines = append(lines, bad)

				continue
			}
			if fields[0] == "And:" {
				lines = append(lines, fmt.Sprintf("LAnd %d%%nat", num))
			} else {
				lines = append(lines, fmt.Sprintf("LOr %d%%nat", num))
			}
		case len(fields) == 4 && fields[0] == "Filter:" && fields[1] == "last_check":
			val, err := strconv.ParseInt(fields[3], 10, 64)
			ops := map[string]string{"=": "OEq", ">=": "OGe", "<=": "OLe", "<": "OLt"}
			if err != nil || ops[fields[2]] == "" {
				lines = append(lines, bad)

				continue
			}
			lines = append(lines, fmt.Sprintf("LF CLc %s %s", ops[fields[2]], coqZ(val)))
		default:
			lines = append(lines, bad)
		}
	}

	return coqList(lines)
}

func c03ComposeGen(r *vRand) *c03ComposeInput {
	in := &c03ComposeInput{}
	num := vPick(r, []int{0, 1, 1, 2, 2, 3, 4, 5, 6, 8, 12, 20, 40})
	if r.chance(1, 40) {
		num = 140 + r.intn(40)
	}
	cur := int64(vPick(r, []int{0, 0, 0, 1, 2, 5, 100, 1700000000}))
	if r.chance(1, 50) {
		cur = -1
	}
	for range num {
		in.Ts = append(in.Ts, cur)
		cur += int64(vPick(r, []int{1, 1, 1, 1, 2, 2, 3, 7, 100}))
		switch {
		case r.chance(1, 25):
			cur-- // a duplicate or a step of less than one
		case r.chance(1, 60):
			cur -= int64(r.intn(10)) // unsorted
		}
	}

	return in
}

func c03ComposeMain(args []string) int {
	flags := verifParseStreamFlags("c03compose", args)
	meta := newVMeta("compose", "generated timestamp lists of length 0..180: start 0 (never checked) / small / a real epoch / rarely -1, steps mostly 1 (runs), 2, 3, 7, 100, "+
		"some duplicates and a few unsorted lists; composeTimestampFilter(ts, \"last_check\") entry by entry against Filter.compose. non-trivial: at least 2 timestamps; distinct by input")
	inputs := []*c03ComposeInput{}
	if flags.replay != "" {
		vReadReplay(flags.replay, &inputs)
	} else {
		rnd := newVRand(flags.seed*0x9E3779B97F4A7C15 + 0x0c)
		fixed := [][]int64{{}, {0}, {0, 1}, {0, 5}, {0, 1, 2, 7}, {0, 2, 3}, {1, 3, 5}, {1, 2, 3, 5, 7, 8, 9}, {1, 2, 3}, {5, 5, 6}, {0, 0, 1}}
		for _, ts := range fixed {
			inputs = append(inputs, &c03ComposeInput{Ts: ts})
		}
		for range flags.n {
			inputs = append(inputs, c03ComposeGen(rnd.fork()))
		}
	}
	var sb strings.Builder
	sb.WriteString("From LMD Require Import C03.RunCompose.\nOpen Scope Z_scope.\n")
	names := []string{}
	for i, in := range inputs {
		if in.Ts == nil {
			in.Ts = []int64{}
		}
		out := composeTimestampFilter(in.Ts, "last_check")
		entries := make([]string, 0, len(out))
		for _, entry := range out {
			entries = append(entries, c03ParseEntry(entry))
		}
		sb.WriteString(fmt.Sprintf("Definition c%d : case := mkCase %s %s.\n", i, c03ZList(in.Ts), coqList(entries)))
		names = append(names, fmt.Sprintf("c%d", i))
		meta.count(fmt.Sprintf("entries=%d", min(len(out), 10)))
		if len(in.Ts) > 0 && in.Ts[0] == 0 {
			meta.count("starts with 0")
		}
		key, _ := json.Marshal(in)
		meta.add(string(key), len(in.Ts) >= 2, in)
	}
	sb.WriteString("Definition cases : list case := " + coqList(names) + ".\n")
	sb.WriteString("Definition M := Eval vm_compute in mismatches cases.\nPrint M.\n")
	if err := os.WriteFile(flags.out, []byte(sb.String()), 0o644); err != nil {
		panic(err)
	}
	meta.write(flags.meta)

	return 0
}
