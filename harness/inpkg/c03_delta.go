//go:build verif

package lmd

// C03 stream `c03delta`: a real Peer (vNewPeer + InitAllTables) against a scripted backend
// (vbackend.go) whose hosts and services are mutated by a generated history. Every mutation
// bumps a version counter that is stored in a numeric column (current_notification_number)
// and the generator replicates it into further numeric and string columns, so a torn or
// regressed row is recognisable from the served values alone.
//
// Time is virtual: second v of a history is the timestamp c03Base+v in all backend columns and
// in the from/until arguments of data.UpdateDelta. c03Base is years before the wall clock, so
//   - data.UpdateDelta(from, until) steps use explicit windows,
//   - a due peer.periodicUpdate step reads `from` from Peer.lastUpdate (kept in virtual time) and
//     uses the wall clock as upper window bound, which is beyond every backend stamp
//     (the model gets `until` = c03Far); afterwards lastUpdate is snapped to the virtual now,
//   - a periodicUpdate step that is not due is run with lastUpdate shifted next to the wall clock
//     and restored afterwards,
//   - the 60 s test of updateFullScan is driven by shifting lastFullHostUpdate/lastFullServiceUpdate
//     next to the wall clock before every step (virtual age kept), and reading back whether the
//     step stored a new value.
// After EVERY step: GET hosts / GET services / GET timeperiods through lmd (vQuery).

import (
	"context"
	"encoding/json"
	"fmt"
	"math"
	"os"
	"regexp"
	"sort"
	"strconv"
	"strings"
	"sync"
	"time"
)

const (
	c03Base = 1700000000
	c03Far  = 1000000000 // virtual `until` of a periodicUpdate step (the wall clock)
)

type c03Obj struct {
	Lc   int   `json:"lc"` // virtual seconds
	St   int   `json:"st"`
	Scan []int `json:"scan"` // scheduled_downtime_depth acknowledged active_checks_enabled notifications_enabled modified_attributes
	Nc   int   `json:"nc"`
	Ints []int `json:"ints"` // state current_attempt last_state_change latency in_check_period
	Strs []int `json:"strs"` // plugin_output long_plugin_output perf_data check_source modified_attributes_list custom_variable_values
	Exec int   `json:"exec"`
	Tps  []int `json:"tps"` // check_period, notification_period (index into the timeperiods)
}

type c03Event struct {
	Kind  string `json:"kind"` // mut delta tick resume cmd tpflip tprefresh
	Svc   bool   `json:"svc,omitempty"`
	K     int    `json:"k,omitempty"`
	T     int    `json:"t,omitempty"`
	Check bool   `json:"check,omitempty"`
	Stamp bool   `json:"stamp,omitempty"`
	Scan  []int  `json:"scan,omitempty"`
	Nc    int    `json:"nc,omitempty"`
	Ints  []int  `json:"ints,omitempty"`
	Strs  []int  `json:"strs,omitempty"`
	Exec  int    `json:"exec,omitempty"`
	From  int    `json:"from,omitempty"`  // delta: 0 = no window
	Until int    `json:"until,omitempty"` // delta
	Now   int    `json:"now,omitempty"`   // tick
	Ab    string `json:"ab,omitempty"`    // delta/tick: "" start status hosts services
	P     int    `json:"p,omitempty"`     // tpflip
	N     int    `json:"n,omitempty"`     // tprefresh: 0 no error, n+1: connection fails after n answered queries
}

type c03Input struct {
	Cache    bool       `json:"cache"`
	LU       bool       `json:"lu"`
	Sync     bool       `json:"sync"`
	Off      int        `json:"off"`
	Interval int        `json:"interval"`
	T0       int        `json:"t0"`
	Hosts    []c03Obj   `json:"hosts"`
	Svcs     []c03Obj   `json:"svcs"`
	Tps      []int      `json:"tps"`
	// Order: in which order the backend keeps (and therefore answers) its hosts and services:
	// "" primary key order, "reversed", "shuffled" (a new permutation before every step, from OrderSeed)
	Order     string     `json:"order,omitempty"`
	OrderSeed int        `json:"order_seed,omitempty"`
	Events    []c03Event `json:"events"`
}

type c03Row struct {
	lc, st   int64
	scan     []int64
	nc, ver  int64
	ints     []int64
	strs     []int64
	exec     int64
	parseErr bool
}

type c03Obs struct {
	hosts, svcs []c03Row
	tps         []int64
	windows     []int64 // lower, upper bound of every delta fetch of a complete update run; [-1]: not compared
}

var c03ScanCols = []string{"scheduled_downtime_depth", "acknowledged", "active_checks_enabled", "notifications_enabled", "modified_attributes"}
var c03IntCols = []string{"state", "current_attempt", "last_state_change", "latency", "in_check_period"}
var c03StrCols = []string{"plugin_output", "long_plugin_output", "perf_data", "check_source", "modified_attributes_list", "custom_variable_values"}
var c03TpNames = []string{"24x7", "workhours", "weekend"}

func init() {
	verifRegister("c03delta", "C03: delta updates / full scan / aborts of a real peer against a mutating scripted backend", c03Main)
}

func c03Abs(v int) float64 {
	if v == 0 {
		return 0
	}

	return float64(c03Base + v)
}

func c03StrVal(col string, v int) interface{} {
	txt := "v" + strconv.Itoa(v)
	switch col {
	case "modified_attributes_list", "custom_variable_values":
		return []interface{}{txt}
	default:
		return txt
	}
}

func c03HostName(i int) string { return fmt.Sprintf("h%02d", i) }

func c03SvcKey(in *c03Input, k int) []string {
	nh, ns := len(in.Hosts), len(in.Svcs)

	return []string{c03HostName(k * nh / ns), fmt.Sprintf("s%02d", k)}
}

// c03RowValues are the dynamic cells of an object (without the version).
func c03RowValues(o *c03Obj) map[string]interface{} {
	vals := map[string]interface{}{
		"last_check":   c03Abs(o.Lc),
		"next_check":   c03Abs(o.Nc),
		"is_executing": float64(o.Exec),
	}
	for i, col := range c03ScanCols {
		vals[col] = float64(o.Scan[i])
	}
	for i, col := range c03IntCols {
		vals[col] = float64(o.Ints[i])
	}
	for i, col := range c03StrCols {
		vals[col] = c03StrVal(col, o.Strs[i])
	}

	return vals
}

func c03Table(in *c03Input, svc bool) *vTable {
	cols := []string{}
	if svc {
		cols = append(cols, "host_name", "description")
	} else {
		cols = append(cols, "name", "alias", "address")
	}
	cols = append(cols, "check_command", "check_period", "notification_period", "custom_variable_names",
		"last_check", "next_check", "is_executing", "current_notification_number")
	cols = append(cols, c03ScanCols...)
	cols = append(cols, c03IntCols...)
	cols = append(cols, c03StrCols...)
	if in.LU {
		cols = append(cols, "last_update")
	}
	if in.Cache {
		cols = append(cols, "lmd_last_cache_update")
	}
	tab := &vTable{Cols: cols}
	objs := in.Hosts
	if svc {
		objs = in.Svcs
	}
	for k := range objs {
		o := &objs[k]
		vals := c03RowValues(o)
		vals["current_notification_number"] = float64(0)
		vals["check_command"] = "check_dummy"
		vals["check_period"] = c03TpNames[o.Tps[0]]
		vals["notification_period"] = c03TpNames[o.Tps[1]]
		vals["custom_variable_names"] = []interface{}{"VER"}
		vals["last_update"] = c03Abs(o.St)
		vals["lmd_last_cache_update"] = c03Abs(o.St)
		if svc {
			key := c03SvcKey(in, k)
			vals["host_name"], vals["description"] = key[0], key[1]
		} else {
			vals["name"], vals["alias"], vals["address"] = c03HostName(k), "alias "+c03HostName(k), "127.0.0.1"
		}
		row := make([]interface{}, len(cols))
		for i, col := range cols {
			row[i] = vals[col]
		}
		tab.Rows = append(tab.Rows, row)
	}

	return tab
}

func c03Decode(val interface{}) (int64, bool) {
	if list, ok := val.([]interface{}); ok {
		if len(list) != 1 {
			return -1, false
		}
		val = list[0]
	}
	txt, ok := val.(string)
	if !ok || !strings.HasPrefix(txt, "v") {
		return -1, false
	}
	num, err := strconv.ParseInt(txt[1:], 10, 64)
	if err != nil {
		return -1, false
	}

	return num, true
}

func c03Time(val interface{}) int64 {
	num := int64(math.Round(vToFloat(val)))
	if num == 0 {
		return 0
	}

	return num - c03Base
}

// c03Get reads all modelled dynamic columns of a table through lmd.
func c03Get(lmd *Daemon, in *c03Input, svc bool) ([]c03Row, error) {
	table, keys := "hosts", []string{"name"}
	if svc {
		table, keys = "services", []string{"host_name", "description"}
	}
	cols := append([]string{}, keys...)
	cols = append(cols, "last_check", "next_check", "is_executing", "current_notification_number")
	cols = append(cols, c03ScanCols...)
	cols = append(cols, c03IntCols...)
	cols = append(cols, c03StrCols...)
	if in.LU {
		cols = append(cols, "last_update")
	}
	out, err := vQuery(lmd, "GET "+table+"\nColumns: "+strings.Join(cols, " ")+"\nOutputFormat: json\n\n")
	if err != nil {
		return nil, err
	}
	var raw [][]interface{}
	if err = json.Unmarshal(out, &raw); err != nil {
		return nil, fmt.Errorf("%w in %s", err, out)
	}
	n := len(in.Hosts)
	if svc {
		n = len(in.Svcs)
	}
	rows := make([]c03Row, n)
	seen := make([]bool, n)
	for _, cells := range raw {
		if len(cells) != len(cols) {
			return nil, fmt.Errorf("short row %v", cells)
		}
		idx := -1
		for k := range n {
			if svc {
				key := c03SvcKey(in, k)
				if cells[0] == key[0] && cells[1] == key[1] {
					idx = k
				}
			} else if cells[0] == c03HostName(k) {
				idx = k
			}
		}
		if idx < 0 || seen[idx] {
			return nil, fmt.Errorf("unexpected or duplicate object %v", cells[:len(keys)])
		}
		seen[idx] = true
		pos := len(keys)
		row := c03Row{}
		row.lc = c03Time(cells[pos])
		row.nc = c03Time(cells[pos+1])
		row.exec = int64(vToFloat(cells[pos+2]))
		row.ver = int64(vToFloat(cells[pos+3]))
		pos += 4
		for range c03ScanCols {
			row.scan = append(row.scan, int64(vToFloat(cells[pos])))
			pos++
		}
		for range c03IntCols {
			row.ints = append(row.ints, int64(math.Round(vToFloat(cells[pos]))))
			pos++
		}
		for range c03StrCols {
			num, ok := c03Decode(cells[pos])
			if !ok {
				row.parseErr = true
			}
			row.strs = append(row.strs, num)
			pos++
		}
		if in.LU {
			row.st = c03Time(cells[pos])
		}
		rows[idx] = row
	}
	for k := range n {
		if !seen[k] {
			return nil, fmt.Errorf("object %d missing in GET %s", k, table)
		}
	}

	return rows, nil
}

func c03GetTps(lmd *Daemon, in *c03Input) ([]int64, error) {
	out, err := vQuery(lmd, "GET timeperiods\nColumns: name in\nOutputFormat: json\n\n")
	if err != nil {
		return nil, err
	}
	var raw [][]interface{}
	if err = json.Unmarshal(out, &raw); err != nil {
		return nil, err
	}
	res := make([]int64, len(in.Tps))
	for i := range res {
		res[i] = -1
	}
	for _, cells := range raw {
		for i := range in.Tps {
			if len(cells) == 2 && cells[0] == c03TpNames[i] {
				res[i] = int64(vToFloat(cells[1]))
			}
		}
	}

	return res, nil
}

// c03Runner drives one peer through one history.
type c03Runner struct {
	in      *c03Input
	lmd     *Daemon
	peer    *Peer
	backend *vBackend
	ver     [2][]int // version counters per table
	vlu     int      // Peer.lastUpdate in virtual seconds (0 = never), read back from the peer after every step
	foreign bool     // Peer.lastUpdate holds a value outside the virtual time domain (left as lmd wrote it)
	windows []int64  // window bounds of the delta fetches the backend received in the current step
	vlf     [2]int   // lastFullHostUpdate / lastFullServiceUpdate in virtual seconds (0 = never)
	notes   []string
}

func (r *c03Runner) note(format string, args ...interface{}) {
	r.notes = append(r.notes, fmt.Sprintf(format, args...))
}

// readLastUpdate takes Peer.lastUpdate as lmd left it: the next window starts where lmd's own bookkeeping says.
func (r *c03Runner) readLastUpdate() {
	val := r.peer.lastUpdate.Get()
	switch {
	case val == 0:
		r.vlu, r.foreign = 0, false
	case val > c03Base-1000000 && val < c03Base+50000000 && val == math.Floor(val):
		r.vlu, r.foreign = int(val)-c03Base, false
	default:
		r.foreign = true
	}
}

var c03WindowRe = regexp.MustCompile(`Filter: (last_check|last_update|lmd_last_cache_update) >= (-?\d+)\nFilter: (last_check|last_update|lmd_last_cache_update) < (-?\d+)\n`)

// collectWindows reads the window bounds of the hosts/services delta fetches out of the backend's query log.
func (r *c03Runner) collectWindows(before int) {
	log := r.backend.QueryLog()
	r.windows = []int64{}
	for _, query := range log[min(before, len(log)):] {
		if !strings.HasPrefix(query, "GET hosts\n") && !strings.HasPrefix(query, "GET services\n") {
			continue
		}
		match := c03WindowRe.FindStringSubmatch(query)
		if match == nil || match[1] != match[3] {
			continue
		}
		lower, _ := strconv.ParseInt(match[2], 10, 64)
		upper, _ := strconv.ParseInt(match[4], 10, 64)
		r.windows = append(r.windows, c03Rel(lower), c03Rel(upper))
	}
}

// c03Rel: a backend side timestamp in virtual seconds; what is next to the wall clock is reported as 0 ("now").
func c03Rel(abs int64) int64 {
	if math.Abs(float64(abs)-currentUnixTime()) < 100000 {
		return 0
	}

	return abs - c03Base
}

func (r *c03Runner) fullFields() [2]*atomicFloat64 {
	return [2]*atomicFloat64{&r.peer.lastFullHostUpdate, &r.peer.lastFullServiceUpdate}
}

// prepareScan places lastFull*Update next to the wall clock so that their age is the virtual age;
// returns the values written. Stays clear of the wall clock second boundary.
func (r *c03Runner) prepareScan(vnow int) [2]float64 {
	// only an age next to MinFullScanInterval depends on the wall clock second: stay in the first half of it then
	limit := 0.97
	for i := range r.vlf {
		if age := vnow - r.vlf[i]; r.vlf[i] != 0 && age >= MinFullScanInterval-2 && age <= MinFullScanInterval+2 {
			limit = 0.5
		}
	}
	for {
		if frac := currentUnixTime() - math.Floor(currentUnixTime()); frac < limit {
			break
		}
		time.Sleep(20 * time.Millisecond)
	}
	sec := math.Floor(currentUnixTime())
	set := [2]float64{}
	for i, field := range r.fullFields() {
		if r.vlf[i] != 0 {
			set[i] = sec + 0.5 - float64(vnow-r.vlf[i])
		}
		field.Set(set[i])
	}

	return set
}

func (r *c03Runner) afterScan(vnow int, set [2]float64) {
	for i, field := range r.fullFields() {
		if field.Get() != set[i] {
			r.vlf[i] = vnow
		}
	}
}

func (r *c03Runner) scanDue(vnow, table int) bool {
	return r.vlf[table] == 0 || vnow-r.vlf[table] > MinFullScanInterval
}

// armAbort makes the backend refuse connections after the queries that precede the abort point.
func (r *c03Runner) armAbort(ab string, vnow int) (expectQueries int) {
	qh, qs := 1, 1
	if r.scanDue(vnow, 0) {
		qh = 2
	}
	if r.scanDue(vnow, 1) {
		qs = 2
	}
	switch ab {
	case "":
		return -1
	case "start":
		expectQueries = 0
	case "status":
		expectQueries = 1
	case "hosts":
		expectQueries = 1 + qh
	case "services":
		expectQueries = 1 + qh + qs
	default:
		panic("c03: unknown abort point " + ab)
	}
	r.backend.FailAfter(expectQueries, vModeRefuse)

	return expectQueries
}

// reorder puts the rows of the backend's hosts and services tables into the order of this step:
// a real core answers in its internal order, which need not be the primary key order lmd sorts by.
func (r *c03Runner) reorder(step int) {
	if r.in.Order == "" {
		return
	}
	r.backend.WithLock(func() {
		for ti, name := range []string{"hosts", "services"} {
			tab := r.backend.Table(name)
			if tab == nil {
				continue
			}
			nkeys := 1 + ti
			sort.SliceStable(tab.Rows, func(i, j int) bool {
				for c := range nkeys {
					a, b := vKeyText(tab.Rows[i][c]), vKeyText(tab.Rows[j][c])
					if a != b {
						return a < b
					}
				}

				return false
			})
			num := len(tab.Rows)
			switch r.in.Order {
			case "reversed":
				for i, j := 0, num-1; i < j; i, j = i+1, j-1 {
					tab.Rows[i], tab.Rows[j] = tab.Rows[j], tab.Rows[i]
				}
			default:
				rnd := newVRand(uint64(r.in.OrderSeed)*7919 + uint64(step+1)*31 + uint64(ti))
				for i := num - 1; i > 0; i-- {
					j := rnd.intn(i + 1)
					tab.Rows[i], tab.Rows[j] = tab.Rows[j], tab.Rows[i]
				}
			}
		}
	})
}

func (r *c03Runner) mutate(ev *c03Event) {
	table, t := "hosts", 0
	key := []string{c03HostName(ev.K)}
	if ev.Svc {
		table, t = "services", 1
		key = c03SvcKey(r.in, ev.K)
	}
	r.ver[t][ev.K]++
	obj := c03Obj{Scan: ev.Scan, Nc: ev.Nc, Ints: ev.Ints, Strs: ev.Strs, Exec: ev.Exec}
	vals := c03RowValues(&obj)
	delete(vals, "last_check")
	if ev.Check {
		vals["last_check"] = c03Abs(ev.T)
	}
	if ev.Stamp {
		if r.in.LU {
			vals["last_update"] = c03Abs(ev.T)
		}
		if r.in.Cache {
			vals["lmd_last_cache_update"] = c03Abs(ev.T)
		}
	}
	vals["current_notification_number"] = float64(r.ver[t][ev.K])
	r.backend.WithLock(func() {
		tab, row := r.backend.findRow(table, key)
		if row < 0 {
			panic("c03: no such object")
		}
		for col, val := range vals {
			tab.Rows[row][tab.colIndex(col)] = val
		}
	})
}

func (r *c03Runner) step(ctx context.Context, ev *c03Event) {
	peer := r.peer
	r.backend.SetMode(vModeOK)
	r.windows = []int64{-1} // no complete update run in this step: nothing to compare
	switch ev.Kind {
	case "mut":
		r.mutate(ev)
	case "delta":
		data := peer.data.Load()
		if data == nil {
			r.note("no data")

			return
		}
		set := r.prepareScan(ev.Until)
		expect := r.armAbort(ev.Ab, ev.Until)
		before := r.backend.QueryCount()
		err := data.UpdateDelta(ctx, c03Abs(ev.From), c03Abs(ev.Until))
		if ev.Ab == "" {
			r.collectWindows(before)
		}
		r.finishAbort(ev.Ab, expect, before, err)
		r.afterScan(ev.Until, set)
		r.readLastUpdate() // no correction: the next periodicUpdate starts its window where UpdateDelta left lastUpdate
	case "tick":
		due := r.foreign || r.vlu == 0 || ev.Now-r.vlu >= r.in.Interval
		for time.Now().Second() == 59 && time.Now().Nanosecond() > 400e6 {
			time.Sleep(50 * time.Millisecond)
		}
		peer.lastTimeperiodUpdateMinute.Store(int32(time.Now().Minute()))
		if !due {
			kept := peer.lastUpdate.Get()
			shifted := currentUnixTime() - float64(ev.Now-r.vlu) + 0.3
			peer.lastUpdate.Set(shifted)
			before := r.backend.QueryCount()
			ok, err := peer.periodicUpdate(ctx)
			if ok || err != nil || r.backend.QueryCount() != before || peer.lastUpdate.Get() != shifted {
				r.note("periodicUpdate ran although not due")
			}
			peer.lastUpdate.Set(kept)

			return
		}
		set := r.prepareScan(ev.Now)
		expect := r.armAbort(ev.Ab, ev.Now)
		before := r.backend.QueryCount()
		kept := peer.lastUpdate.Get()
		ok, err := peer.periodicUpdate(ctx)
		if !ok && !r.foreign {
			r.note("periodicUpdate did not run although due")
		}
		if ev.Ab == "" {
			r.collectWindows(before)
		}
		r.finishAbort(ev.Ab, expect, before, err)
		r.afterScan(ev.Now, set)
		// periodicUpdate writes the wall clock (its `now`): that instant is the virtual second ev.Now
		if val := peer.lastUpdate.Get(); val != kept && math.Abs(val-currentUnixTime()) < 1000 {
			peer.lastUpdate.Set(c03Abs(ev.Now))
		}
		r.readLastUpdate()
	case "resume":
		// ResumeFromIdle (what the first client query does to an idling peer): timeperiods, then
		// UpdateDelta(lastUpdate, wall clock); a peer that is not up only schedules its next update
		set := r.prepareScan(ev.Now)
		before := r.backend.QueryCount()
		kept := peer.lastUpdate.Get()
		peer.idling.Store(true)
		if err := peer.ResumeFromIdle(ctx); err != nil {
			r.note("ResumeFromIdle: %s", err)
		}
		r.collectWindows(before)
		r.afterScan(ev.Now, set)
		// wall clock values written by lmd (now, or now - UpdateInterval) are moved to the virtual now
		if val := peer.lastUpdate.Get(); val != kept && math.Abs(val-currentUnixTime()) < 1000 {
			peer.lastUpdate.Set(c03Abs(ev.Now) - math.Round(currentUnixTime()-val))
		}
		r.readLastUpdate()
	case "cmd":
		if err := peer.SendCommands(ctx, []string{"COMMAND [1] VERIF_NOOP"}); err != nil {
			r.note("command failed: %s", err)
		}
		r.readLastUpdate()
		for i, field := range r.fullFields() {
			if field.Get() == 0 {
				r.vlf[i] = 0
			}
		}
	case "tpflip":
		name := c03TpNames[ev.P]
		cur := vToFloat(r.backend.Cell("timeperiods", []string{name}, "in"))
		r.backend.SetCell("timeperiods", []string{name}, "in", 1-cur)
	case "tprefresh":
		data := peer.data.Load()
		if data == nil {
			r.note("no data")

			return
		}
		if ev.N > 0 {
			r.backend.FailAfter(ev.N-1, vModeRefuse)
		}
		err := peer.periodicTimeperiodsUpdate(ctx, data)
		if ev.N > 0 {
			r.settle()
		}
		r.backend.SetMode(vModeOK)
		if (err != nil) != (ev.N > 0) {
			r.note("tprefresh: error %v with n=%d", err, ev.N)
		}
	default:
		panic("c03: unknown event " + ev.Kind)
	}
}

// c03Settle: the scripted backend switches to "refuse" from its connection goroutine after the last answered
// reply; give that a moment before the mode is reset, so that it cannot land in the next step.
func (r *c03Runner) settle() {
	time.Sleep(3 * time.Millisecond)
	r.backend.SetMode(vModeOK)
}

func (r *c03Runner) finishAbort(ab string, expect, before int, err error) {
	got := r.backend.QueryCount() - before
	if ab != "" {
		r.settle()
	}
	r.backend.SetMode(vModeOK)
	if ab == "" {
		if err != nil {
			r.note("update failed without fault: %s", err)
		}

		return
	}
	if err == nil {
		r.note("update succeeded despite fault %s", ab)
	}
	if got != expect && got != expect+1 { // the refused query may already have been logged
		r.note("abort point %s: %d queries answered, expected %d", ab, got, expect)
	}
}

func c03RunCase(idx int, in *c03Input) (obs []c03Obs, notes []string) {
	ctx := context.Background()
	lmd := verifNewDaemon()
	lmd.Config.UpdateOffset = int64(in.Off)
	lmd.Config.UpdateInterval = int64(in.Interval)
	lmd.Config.SyncIsExecuting = in.Sync
	lmd.Config.FullUpdateInterval = 0
	lmd.Config.BackendKeepAlive = false
	lmd.Config.IdleTimeout = 100000
	lmd.Config.StaleBackendTimeout = 100000
	lmd.Config.ConnectTimeout = 5
	lmd.Config.NetTimeout = 10

	backend := newVBackend(fmt.Sprintf("c03-%d", idx))
	defer backend.Close()
	ds := vDefaultDataset(newVRand(303), 0, 0)
	tps := ds["timeperiods"]
	tps.Rows = tps.Rows[:0]
	for i, val := range in.Tps {
		tps.Rows = append(tps.Rows, []interface{}{c03TpNames[i], c03TpNames[i], float64(val), []interface{}{}, []interface{}{}, []interface{}{},
			[]interface{}{}, []interface{}{}, []interface{}{}, []interface{}{}, float64(i)})
	}
	ds["hosts"] = c03Table(in, false)
	ds["services"] = c03Table(in, true)
	ds["comments"].Rows = nil
	ds["downtimes"].Rows = nil
	backend.SetDataset(ds)

	peer := vNewPeer(lmd, "p", []string{backend.Addr()}, nil)
	run := &c03Runner{in: in, lmd: lmd, peer: peer, backend: backend}
	run.ver[0] = make([]int, len(in.Hosts))
	run.ver[1] = make([]int, len(in.Svcs))
	run.reorder(-1)
	if err := peer.InitAllTables(ctx); err != nil {
		return nil, []string{"InitAllTables: " + err.Error()}
	}
	if peer.HasFlag(HasLastUpdateColumn) != in.LU || peer.HasFlag(HasLMDLastCacheUpdateColumn) != in.Cache {
		run.note("flavour flags not detected as configured")
	}
	run.vlu = in.T0
	run.vlf = [2]int{in.T0, in.T0}
	peer.lastUpdate.Set(c03Abs(in.T0))

	for ei := range in.Events {
		run.reorder(ei)
		run.step(ctx, &in.Events[ei])
		o := c03Obs{}
		var err error
		if o.hosts, err = c03Get(lmd, in, false); err != nil {
			run.note("GET hosts: %s", err)
		}
		if o.svcs, err = c03Get(lmd, in, true); err != nil {
			run.note("GET services: %s", err)
		}
		if o.tps, err = c03GetTps(lmd, in); err != nil {
			run.note("GET timeperiods: %s", err)
		}
		o.windows = run.windows
		obs = append(obs, o)
	}

	return obs, run.notes
}

// ---- Coq emission ---------------------------------------------------------------------

func c03ZList(l []int64) string {
	parts := make([]string, 0, len(l))
	for _, v := range l {
		parts = append(parts, coqZ(v))
	}

	return coqList(parts)
}

func c03Ints(l []int) []int64 {
	res := make([]int64, 0, len(l))
	for _, v := range l {
		res = append(res, int64(v))
	}

	return res
}

func c03RowFlat(row *c03Row) []int64 {
	flat := []int64{row.lc, row.st}
	flat = append(flat, row.scan...)
	flat = append(flat, row.nc, row.ver)
	flat = append(flat, row.ints...)
	flat = append(flat, row.strs...)

	return append(flat, row.exec)
}

func c03RowsCoq(rows []c03Row) string {
	parts := make([]string, 0, len(rows))
	for i := range rows {
		parts = append(parts, c03ZList(c03RowFlat(&rows[i])))
	}

	return coqList(parts)
}

func c03ObjsCoq(objs []c03Obj) string {
	parts := make([]string, 0, len(objs))
	for i := range objs {
		o := &objs[i]
		row := c03Row{lc: int64(o.Lc), st: int64(o.St), scan: c03Ints(o.Scan), nc: int64(o.Nc), ints: c03Ints(o.Ints), strs: c03Ints(o.Strs), exec: int64(o.Exec)}
		parts = append(parts, fmt.Sprintf("(%s, [%d%%nat;%d%%nat])", c03ZList(c03RowFlat(&row)), o.Tps[0], o.Tps[1]))
	}

	return coqList(parts)
}

func c03AbortCoq(ab string) string {
	switch ab {
	case "":
		return "AbNo"
	case "start", "status":
		return "AbStatus"
	case "hosts":
		return "AbHosts"
	default:
		return "AbServices"
	}
}

func c03Coq(idx int, in *c03Input, obs []c03Obs, fixed bool) string {
	events := make([]string, 0, len(in.Events))
	for i := range in.Events {
		ev := &in.Events[i]
		switch ev.Kind {
		case "mut":
			rest := c03Ints(ev.Scan)
			rest = append(rest, int64(ev.Nc))
			rest = append(rest, c03Ints(ev.Ints)...)
			rest = append(rest, c03Ints(ev.Strs)...)
			rest = append(rest, int64(ev.Exec))
			events = append(events, fmt.Sprintf("xM %s %d%%nat %d %s %s %s", coqBool(ev.Svc), ev.K, ev.T, coqBool(ev.Check), coqBool(ev.Stamp), c03ZList(rest)))
		case "delta":
			events = append(events, fmt.Sprintf("xD %d %d %s", ev.From, ev.Until, c03AbortCoq(ev.Ab)))
		case "tick":
			events = append(events, fmt.Sprintf("xT %d %s", ev.Now, c03AbortCoq(ev.Ab)))
		case "resume":
			events = append(events, fmt.Sprintf("xR %d", ev.Now))
		case "cmd":
			events = append(events, "ECmd")
		case "tpflip":
			events = append(events, fmt.Sprintf("ETpFlip %d%%nat", ev.P))
		default:
			events = append(events, fmt.Sprintf("ETpRefresh %d%%nat", ev.N))
		}
	}
	os := make([]string, 0, len(obs))
	prev := ""
	for i := range obs {
		cur := fmt.Sprintf("Some (%s, %s, %s)", c03RowsCoq(obs[i].hosts), c03RowsCoq(obs[i].svcs), c03ZList(obs[i].tps))
		if cur == prev {
			os = append(os, "None")
		} else {
			os = append(os, cur)
		}
		prev = cur
	}

	wins := make([]string, 0, len(obs))
	for i := range obs {
		wins = append(wins, c03ZList(obs[i].windows))
	}

	return fmt.Sprintf("Definition c%d : case := xCase (mkCfg %s %s %s %d %d %s) %d %s %s %s %s %s %s.\n", idx,
		coqBool(in.Cache), coqBool(in.LU), coqBool(in.Sync), in.Off, in.Interval, coqBool(fixed), in.T0,
		c03ObjsCoq(in.Hosts), c03ObjsCoq(in.Svcs), c03ZList(c03Ints(in.Tps)), coqList(events), coqList(os), coqList(wins))
}

// c03CodeIsRepaired: the model is compared with the pinned behaviour of prepareDataUpdateSet
// (numbers-only update when last_check is unchanged and the backend has no last_update column).
// Set to true when the repair proposed in notes/C03.md has been applied to /repo.
const c03CodeIsRepaired = false

func c03Main(args []string) int {
	flags := verifParseStreamFlags("c03delta", args)
	meta := newVMeta("delta", c03Rule)
	inputs := []*c03Input{}
	if flags.replay != "" {
		vReadReplay(flags.replay, &inputs)
	} else {
		rnd := newVRand(flags.seed*0x9E3779B97F4A7C15 + 0x03)
		for i := range flags.n {
			if i == flags.n-1 && flags.n >= 20 {
				inputs = append(inputs, c03GenBig(rnd.fork()))

				continue
			}
			inputs = append(inputs, c03Gen(rnd.fork(), i))
		}
	}
	results := make([][]c03Obs, len(inputs))
	notes := make([][]string, len(inputs))
	var wg sync.WaitGroup
	jobs := make(chan int)
	for range 8 {
		wg.Add(1)
		go func() {
			defer wg.Done()
			for i := range jobs {
				if len(inputs[i].Hosts) == 0 || len(inputs[i].Svcs) == 0 {
					inputs[i].Events = nil // not an input of this stream (replay file of another one)

					continue
				}
				results[i], notes[i] = c03RunCase(i, inputs[i])
			}
		}()
	}
	for i := range inputs {
		jobs <- i
	}
	close(jobs)
	wg.Wait()

	var sb strings.Builder
	sb.WriteString("From LMD Require Import C03.Run.\nOpen Scope Z_scope.\n")
	names := []string{}
	for i, in := range inputs {
		sb.WriteString(c03Coq(i, in, results[i], c03CodeIsRepaired))
		names = append(names, fmt.Sprintf("c%d", i))
		c03Stats(meta, in, results[i], notes[i])
	}
	sb.WriteString("Definition cases : list case := " + coqList(names) + ".\n")
	sb.WriteString("Definition M := Eval vm_compute in mismatches cases.\nPrint M.\n")
	if err := os.WriteFile(flags.out, []byte(sb.String()), 0o644); err != nil {
		panic(err)
	}
	meta.write(flags.meta)

	return 0
}
