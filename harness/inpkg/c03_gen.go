//go:build verif

package lmd

import (
	"encoding/json"
	"fmt"
)

const c03Rule = "generated histories (<= 40 events, 2..12 objects split over hosts and services, 2..3 timeperiods) on one peer: backend mutation of one object " +
	"(check result: last_check and the change stamp move, strings and numbers get the new version; attribute change: scanned ints change, strings stay; " +
	"running check: is_executing=1; silent change: no stamp at all), data.UpdateDelta(from, until) with explicit windows (mostly contiguous, some gaps/overlaps/from=0), " +
	"periodicUpdate steps (due and not due) and ResumeFromIdle steps whose window starts at the lastUpdate lmd itself stored, connection error at the start / after the status / hosts / services query, a command (ScheduleImmediateUpdate, forceFull), " +
	"timeperiod flips and refreshes (with errors); the virtual clock advances by 0..70 s between events so that the 60 s full scan is due and not due; " +
	"flavours: lmd_last_cache_update+last_update, last_update, last_check only, lmd_last_cache_update only x SyncIsExecuting on/off x UpdateOffset {1,3,5} x UpdateInterval {3,7}; " +
	"one history per run has 150+ hosts whose acknowledgements only the full scan can find (timestamp filter cut at 149, second scan for the rest); " +
	"the backend keeps its rows in primary key / reversed / per step shuffled order; 1 in 6 objects was never checked (last_check 0) and mostly changes without a check; " +
	"bursts change every object of a table inside one window (filtered answer as long as the table); 12% of the histories are of class D19 (strings change without last_check on a backend without last_update). non-trivial: the served rows changed at least twice; distinct by input"

type c03GenState struct {
	r       *vRand
	in      *c03Input
	clock   int
	glu     int // expected Peer.lastUpdate
	d19     bool
	cur     [2][]c03Obj
	ver     [2][]int
	lastMut [2][]int
	pending map[int]bool
}

func c03CopyInts(l []int) []int { return append([]int{}, l...) }

func (g *c03GenState) advance() {
	g.clock += vPick(g.r, []int{0, 0, 0, 1, 1, 1, 2, 3, 4, 5, 8, 20, 61, 70})
}

func (g *c03GenState) abort() string {
	if g.r.chance(3, 4) {
		return ""
	}

	return vPick(g.r, []string{"start", "status", "hosts", "hosts", "services", "services"})
}

func (g *c03GenState) mut() {
	r := g.r
	t := 0
	if len(g.cur[1]) > 0 && r.chance(1, 2) {
		t = 1
	}
	k := r.intn(len(g.cur[t]))
	obj := &g.cur[t][k]
	ev := c03Event{Kind: "mut", Svc: t == 1, K: k, Scan: c03CopyInts(obj.Scan), Nc: obj.Nc, Ints: c03CopyInts(obj.Ints),
		Strs: c03CopyInts(obj.Strs), Exec: obj.Exec, Stamp: true}
	nv := g.ver[t][k] + 1
	kind := r.intn(100)
	if obj.Lc == 0 && r.chance(2, 3) {
		kind = 55 + r.intn(25) // a never-checked object is acknowledged, gets a downtime, ... and stays unchecked
	}
	if !g.d19 && g.clock <= g.lastMut[t][k] {
		// outside class D19 an object does not change twice within one second
		g.clock = g.lastMut[t][k] + 1
	}
	ev.T = g.clock
	switch {
	case kind < 55: // check result
		ev.Check = true
		ev.Nc = g.clock + vPick(r, []int{60, 300})
		ev.Ints[0] = r.intn(4)
		ev.Ints[1] = nv
		ev.Ints[2] = nv * 7
		ev.Ints[3] = nv % 50
		for i := range ev.Strs {
			ev.Strs[i] = nv
		}
		ev.Exec = 0
		if r.chance(1, 6) {
			ev.Scan[r.intn(2)] = r.intn(3)
		}
	case kind < 80: // acknowledgement, downtime, enabled flags, modified attributes
		switch r.intn(4) {
		case 0:
			ev.Scan[0] = (ev.Scan[0] + 1) % 3
		case 1:
			ev.Scan[1] = 1 - ev.Scan[1]
		case 2:
			which := 2 + r.intn(2)
			ev.Scan[which] = 1 - ev.Scan[which]
			ev.Scan[4] = nv
		default:
			ev.Scan[4] = nv
		}
		ev.Ints[1] = nv
		if g.d19 {
			ev.Strs[4] = nv // modified_attributes_list
			if r.chance(1, 2) {
				ev.Strs[5] = nv // custom_variable_values
			}
		}
	case kind < 92: // a check starts / is reaped without a result
		ev.Exec = 1 - ev.Exec
		if r.chance(1, 3) {
			ev.Stamp = false
		}
	default: // silent change (e.g. in_check_period follows the timeperiod)
		ev.Stamp = false
		ev.Ints[4] = 1 - ev.Ints[4]
	}
	if g.d19 && r.chance(1, 4) {
		ev.Stamp = r.chance(1, 2)
	}
	if ev.Check {
		obj.Lc = ev.T
	}
	if ev.Stamp {
		obj.St = ev.T
	}
	obj.Scan, obj.Nc, obj.Ints, obj.Strs, obj.Exec = c03CopyInts(ev.Scan), ev.Nc, c03CopyInts(ev.Ints), c03CopyInts(ev.Strs), ev.Exec
	g.ver[t][k] = nv
	g.lastMut[t][k] = ev.T
	g.in.Events = append(g.in.Events, ev)
}

// burst: every object of one table gets a check result, then a window that contains all of them
// (the filtered answer has as many rows as the table).
func (g *c03GenState) burst() {
	r := g.r
	t := r.intn(2)
	for k := range g.cur[t] {
		if g.clock <= g.lastMut[t][k] {
			g.clock = g.lastMut[t][k] + 1
		}
	}
	for k := range g.cur[t] {
		obj := &g.cur[t][k]
		nv := g.ver[t][k] + 1
		ev := c03Event{Kind: "mut", Svc: t == 1, K: k, T: g.clock, Check: true, Stamp: true, Scan: c03CopyInts(obj.Scan), Nc: g.clock + 60,
			Ints: []int{r.intn(4), nv, nv * 7, nv % 50, obj.Ints[4]}, Strs: []int{nv, nv, nv, nv, nv, nv}}
		obj.Lc, obj.St, obj.Nc, obj.Ints, obj.Strs, obj.Exec = ev.T, ev.T, ev.Nc, c03CopyInts(ev.Ints), c03CopyInts(ev.Strs), 0
		g.ver[t][k] = nv
		g.lastMut[t][k] = ev.T
		g.in.Events = append(g.in.Events, ev)
	}
	g.clock += g.in.Off + 1 + r.intn(3)
	if g.glu != 0 && r.chance(3, 4) {
		g.in.Events = append(g.in.Events, c03Event{Kind: "delta", From: g.glu, Until: g.clock})
		g.glu = g.clock
	} else {
		g.tick()
	}
}

func (g *c03GenState) delta(forceOK bool) {
	r := g.r
	ev := c03Event{Kind: "delta", From: g.glu, Until: g.clock}
	switch k := r.intn(20); {
	case forceOK:
	case k == 0:
		ev.From = 0
	case k == 1 && g.glu > 10:
		ev.From = g.glu - 1 - r.intn(5)
	case k == 2:
		ev.From = g.glu + 1 + r.intn(3)
	case k == 3:
		ev.Until = g.clock + 1 + r.intn(3)
	}
	if ev.Until < ev.From {
		ev.Until = ev.From
	}
	if !forceOK {
		ev.Ab = g.abort()
	}
	if ev.Ab == "" {
		g.glu = ev.Until
	}
	if ev.Until > g.clock {
		g.clock = ev.Until
	}
	g.in.Events = append(g.in.Events, ev)
}

func (g *c03GenState) tick() {
	ev := c03Event{Kind: "tick", Now: g.clock, Ab: g.abort()}
	if g.glu == 0 || g.clock-g.glu >= g.in.Interval {
		g.glu = g.clock
	}
	g.in.Events = append(g.in.Events, ev)
}

// resume: ResumeFromIdle at the current clock; lastUpdate afterwards = now (up) or now - UpdateInterval (warning)
func (g *c03GenState) resume() {
	g.in.Events = append(g.in.Events, c03Event{Kind: "resume", Now: g.clock})
	g.glu = g.clock
	g.pending = map[int]bool{}
}

func c03NewObj(r *vRand, t0, ntp int) c03Obj {
	lc := t0 - 1 - r.intn(300)
	if r.chance(1, 6) {
		lc = 0 // never checked
	}

	return c03Obj{
		Lc: lc, St: lc + r.intn(t0-lc), Nc: lc + 300,
		Scan: []int{r.intn(2), r.intn(2), 1, 1, 0},
		Ints: []int{r.intn(4), 1, 3, 0, 1},
		Strs: []int{0, 0, 0, 0, 0, 0},
		Exec: 0,
		Tps:  []int{r.intn(ntp), r.intn(ntp)},
	}
}

func c03Gen(r *vRand, _ int) *c03Input {
	in := &c03Input{Off: vPick(r, []int{1, 3, 3, 5}), Interval: vPick(r, []int{3, 7}), T0: 1000, Sync: r.chance(1, 2)}
	switch k := r.intn(20); {
	case k < 5:
		in.Cache, in.LU = true, true
	case k < 11:
		in.LU = true
	case k < 18:
	default:
		in.Cache = true
	}
	in.Order = vPick(r, []string{"", "reversed", "reversed", "shuffled", "shuffled"})
	in.OrderSeed = r.intn(1000)
	ntp := 2 + r.intn(2)
	for range ntp {
		in.Tps = append(in.Tps, r.intn(2))
	}
	total := 2 + r.intn(11)
	nh := 1 + r.intn(total-1)
	for range nh {
		in.Hosts = append(in.Hosts, c03NewObj(r, in.T0, ntp))
	}
	for range total - nh {
		in.Svcs = append(in.Svcs, c03NewObj(r, in.T0, ntp))
	}
	g := &c03GenState{r: r, in: in, clock: in.T0, glu: in.T0, d19: r.chance(12, 100), pending: map[int]bool{}}
	for t, objs := range [][]c03Obj{in.Hosts, in.Svcs} {
		for i := range objs {
			o := objs[i]
			o.Scan, o.Ints, o.Strs = c03CopyInts(o.Scan), c03CopyInts(o.Ints), c03CopyInts(o.Strs)
			g.cur[t] = append(g.cur[t], o)
			g.ver[t] = append(g.ver[t], 0)
			g.lastMut[t] = append(g.lastMut[t], in.T0-1)
		}
	}
	n := 8 + r.intn(29)
	tail := r.chance(1, 3)
	for len(in.Events) < n {
		if r.chance(1, 2) {
			g.advance()
		}
		switch k := r.intn(100); {
		case k < 7 && len(g.cur[0])+len(g.cur[1]) <= 8:
			g.burst()
		case k < 45:
			g.mut()
		case k < 68:
			g.delta(false)
		case k < 79:
			g.tick()
		case k < 82:
			g.resume()
		case k < 85:
			in.Events = append(in.Events, c03Event{Kind: "cmd"})
			g.glu = 0
		case k < 91:
			p := r.intn(ntp)
			in.Events = append(in.Events, c03Event{Kind: "tpflip", P: p})
			g.pending[p] = !g.pending[p]
		default:
			changed := 0
			for _, on := range g.pending {
				if on {
					changed++
				}
			}
			ev := c03Event{Kind: "tprefresh"}
			if r.chance(1, 3) {
				ev.N = 1 + r.intn(2)
				if changed == 1 && r.chance(1, 2) {
					ev.N = 3
				}
			}
			if ev.N != 1 {
				g.pending = map[int]bool{}
			}
			in.Events = append(in.Events, ev)
		}
	}
	if tail {
		// the backend is quiet now: cycles whose full scan runs
		for range 1 + r.intn(2) {
			g.clock += 61 + r.intn(20)
			g.delta(true)
		}
	}

	return in
}

// c03GenBig: more than 150 hosts with pairwise non-adjacent last_check values are acknowledged on a backend
// without last_update (the window never sees them), so that the full scan has to cut its timestamp filter
// (missedTimestampMaxFilter) and needs a second scan, more than 60 s later, for the rest.
func c03GenBig(r *vRand) *c03Input {
	in := &c03Input{Off: 3, Interval: 7, T0: 1000, Sync: r.chance(1, 2), Tps: []int{1, 0}, Order: vPick(r, []string{"", "reversed"})}
	nh := 158 + r.intn(30)
	for i := range nh {
		obj := c03NewObj(r, in.T0, 2)
		obj.Lc = 100 + 3*i + r.intn(2)
		if i == 0 && r.chance(2, 3) {
			obj.Lc = 0 // the list of missed timestamps starts with "never checked"
		}
		obj.St = obj.Lc
		obj.Nc = obj.Lc + 300
		in.Hosts = append(in.Hosts, obj)
	}
	in.Svcs = append(in.Svcs, c03NewObj(r, in.T0, 2))
	for i := range nh {
		if i >= 154 && r.chance(1, 4) {
			continue
		}
		obj := &in.Hosts[i]
		scan := c03CopyInts(obj.Scan)
		scan[1] = 1 - scan[1]
		in.Events = append(in.Events, c03Event{Kind: "mut", K: i, T: 1001 + r.intn(3), Stamp: true, Scan: scan, Nc: obj.Nc,
			Ints: []int{obj.Ints[0], 2, 3, 0, 1}, Strs: c03CopyInts(obj.Strs)})
	}
	t1 := 1005
	in.Events = append(in.Events, c03Event{Kind: "delta", From: 1000, Until: t1})
	t2 := t1 + 58 + r.intn(10)
	in.Events = append(in.Events, c03Event{Kind: "delta", From: t1, Until: t2})
	t3 := t2 + 20 + r.intn(30)
	in.Events = append(in.Events, c03Event{Kind: "delta", From: t2, Until: t3})
	t4 := t3 + 25 + r.intn(40)
	in.Events = append(in.Events, c03Event{Kind: "delta", From: t3, Until: t4})
	t5 := t4 + 61
	in.Events = append(in.Events, c03Event{Kind: "delta", From: t4, Until: t5})

	return in
}

// c03ClassD19: a backend without last_update on which the strings of an object change while its last_check stays.
func c03ClassD19(in *c03Input) bool {
	if in.LU {
		return false
	}
	for t, objs := range [][]c03Obj{in.Hosts, in.Svcs} {
		for k := range objs {
			lc := objs[k].Lc
			seen := map[int]string{lc: fmt.Sprint(objs[k].Strs)}
			for i := range in.Events {
				ev := &in.Events[i]
				if ev.Kind != "mut" || ev.Svc != (t == 1) || ev.K != k {
					continue
				}
				if ev.Check {
					lc = ev.T
				}
				strs := fmt.Sprint(ev.Strs)
				if old, ok := seen[lc]; ok && old != strs {
					return true
				}
				seen[lc] = strs
			}
		}
	}

	return false
}

func c03Stats(meta *vMeta, in *c03Input, obs []c03Obs, notes []string) {
	flavour := "last_check"
	switch {
	case in.Cache && in.LU:
		flavour = "lmd_last_cache_update+last_update"
	case in.LU:
		flavour = "last_update"
	case in.Cache:
		flavour = "lmd_last_cache_update"
	}
	meta.count("flavour=" + flavour)
	meta.count(fmt.Sprintf("sync_is_executing=%v", in.Sync))
	meta.count("backend answer order=" + map[string]string{"": "primary key"}[in.Order] + in.Order)
	for _, objs := range [][]c03Obj{in.Hosts, in.Svcs} {
		for i := range objs {
			if objs[i].Lc == 0 {
				meta.count("objects never checked (last_check 0)")
			}
		}
	}
	if n := len(in.Hosts) + len(in.Svcs); n > 12 {
		meta.count("objects>150 (timestamp filter cut)")
	} else {
		meta.count(fmt.Sprintf("objects=%d", n))
	}
	if c03ClassD19(in) {
		meta.count("class=D19")
	}
	for i := range in.Events {
		ev := &in.Events[i]
		meta.count("event=" + ev.Kind)
		if ev.Ab != "" {
			meta.count("abort=" + ev.Ab)
		}
		if ev.Kind == "tprefresh" && ev.N > 0 {
			meta.count("abort=tprefresh")
		}
	}
	for _, n := range notes {
		meta.count("note=" + n)
	}
	changes := 0
	prev := ""
	for i := range obs {
		cur := fmt.Sprint(obs[i])
		if i > 0 && cur != prev {
			changes++
		}
		prev = cur
		for _, rows := range [][]c03Row{obs[i].hosts, obs[i].svcs} {
			for j := range rows {
				if rows[j].parseErr {
					meta.count("served string not decodable")
				}
			}
		}
	}
	key, _ := json.Marshal(in)
	meta.add(string(key), changes >= 2, in)
}
