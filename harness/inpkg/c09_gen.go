//go:build verif

package lmd

// C09, translator part: the panic / no-panic dispatch matrix.
//
// `lmdverif gen` builds a real Daemon from a small fixed dataset (two backends
// of different flavours, so optional columns are missing on one of them) and
// MEASURES for every table x every column x every usage kind what the request
// path does: ok, bad request, panic <site> or hang. The domain is finite and
// enumerated completely, the result is printed as coq/theories/Gen/Dispatch.v.
// The theorems in coq/theories/C09 are about this generated table, so a new
// panic site or a new column type whose getter panics breaks a proof
// obligation on the next run and is named there.
//
// How a probe is observed: request text -> NewRequest(ParseOptimize) ->
// ExpandRequestedBackends -> NewResponse -> Buffer, in a goroutine under
// recover() with a deadline. lmd answers non-virtual tables in per-peer
// goroutines that end in logPanicExitPeer (log + os.Exit): their panics are
// caught through the logger - the probe process installs a log writer that
// recognises the handlers' "Panic: <details>" line, records <details> for the
// running probe and ends the panicking goroutine with runtime.Goexit()
// (factorlog unlocks its mutex in a defer), so the process survives. Should a
// probe kill the process anyway (a goroutine without handler, a fatal runtime
// error) the parent records "process exit" for the probe that was running and
// restarts the child behind it. Panic entries are data: they are printed into
// the matrix like every other outcome.

import (
	"bufio"
	"bytes"
	"context"
	"encoding/json"
	"fmt"
	"os"
	"os/exec"
	"path/filepath"
	"regexp"
	"runtime"
	"sort"
	"strings"
	"sync"
	"time"
)

func init() {
	verifGenExtra["Dispatch.v"] = c09GenDispatch
	verifRegister("c09probe", "C09: run the dispatch probes [from,to) in this process, one JSON result per line", c09ProbeMain)
	verifRegister("c09matrix", "C09: print Gen/Dispatch.v only (debugging)", func(_ []string) int {
		fmt.Print(c09GenDispatch())

		return 0
	})
}

// ---- usage kinds -----------------------------------------------------------------

// c09FilterOps: one representative of each operator class (Coq constructor, spelling).
var c09FilterOps = [][2]string{{"OpEq", "="}, {"OpRe", "~"}, {"OpReI", "~~"}, {"OpLt", "<"}, {"OpGe", ">="}, {"OpNotGe", "!>="}, {"OpEqI", "=~"}}

var c09Aggs = [][2]string{{"ASum", "sum"}, {"AAvg", "avg"}, {"AMin", "min"}, {"AMax", "max"}}

// c09Usage is one usage kind of a column: the Coq term and the header lines it contributes.
type c09Usage struct {
	Coq string
	// lines builds the header lines for the column (argument: column name, typical argument, regex argument)
	lines func(col, arg, re string) []string
	wait  bool // evaluated like Peer.waitcondition does (no 200 ms polling)
}

func c09Usages() []c09Usage {
	res := []c09Usage{
		{Coq: "UColJson", lines: func(col, _, _ string) []string { return []string{"Columns: " + col, "OutputFormat: json"} }},
		{Coq: "UColWrapped", lines: func(col, _, _ string) []string { return []string{"Columns: " + col, "OutputFormat: wrapped_json"} }},
	}
	for _, op := range c09FilterOps {
		for _, empty := range []bool{true, false} {
			res = append(res, c09Usage{Coq: fmt.Sprintf("(UFilter %s %s)", op[0], coqBool(empty)), lines: func(col, arg, re string) []string {
				val := arg
				if op[1] == "~" || op[1] == "~~" {
					val = re
				}
				if empty {
					val = ""
				}
				if col == "custom_variables" || strings.HasSuffix(col, "_custom_variables") {
					// custom variable filters name the variable first
					if empty {
						val = "FOO"
					} else {
						val = "FOO " + val
					}
				}

				return []string{strings.TrimRight(fmt.Sprintf("Filter: %s %s %s", col, op[1], val), " ")}
			}})
		}
	}
	for _, agg := range c09Aggs {
		res = append(res, c09Usage{Coq: "(UStatsAgg " + agg[0] + ")", lines: func(col, _, _ string) []string { return []string{"Stats: " + agg[1] + " " + col} }})
	}
	res = append(res,
		c09Usage{Coq: "UStatsCounter", lines: func(col, arg, _ string) []string { return []string{"Stats: " + col + " = " + arg} }},
		c09Usage{Coq: "UGroupKey", lines: func(col, _, _ string) []string { return []string{"Columns: " + col, "Stats: state != 9999"} }},
		c09Usage{Coq: "(USort false)", lines: func(col, _, _ string) []string { return []string{"Columns: " + col, "Sort: " + c09SortArg(col) + " asc"} }},
		c09Usage{Coq: "(USort true)", lines: func(col, _, _ string) []string { return []string{"Columns: " + col, "Sort: " + c09SortArg(col) + " desc"} }},
		c09Usage{Coq: "UWaitCond", wait: true, lines: func(col, arg, _ string) []string {
			return []string{"WaitTrigger: all", "WaitTimeout: 1", "WaitCondition: " + col + " = " + arg}
		}},
	)

	return res
}

func c09SortArg(col string) string {
	if col == "custom_variables" || col == "host_custom_variables" {
		return col + " FOO"
	}

	return col
}

// c09TypicalArg is the non-empty argument used for a column of the given type.
func c09TypicalArg(col *Column) string {
	switch col.DataType {
	case IntCol, Int64Col, FloatCol, Int64ListCol:
		return "1"
	case CustomVarCol:
		return "1"
	case StringListCol:
		return "linux"
	default:
		return "alpha"
	}
}

const c09RegexArg = "^[a1].*"

// c09UnknownColumn stands for every column name the table does not know (GetColumnWithFallback).
const c09UnknownColumn = "verif_no_such_column"

// ---- request level shapes ----------------------------------------------------------

type c09Shape struct {
	Name  string
	Lines []string
	Wait  bool // goes through Peer.WaitCondition: its goroutine outlives the request (polls every 200 ms)
}

// c09Shapes lists the request-level shapes probed for every table; key is the table's first column.
func c09Shapes(table *Table) []c09Shape {
	key := table.columns[0].Name
	col := "Columns: " + key
	existing := "alpha"
	switch table.name {
	case TableServices:
		existing = "alpha;ping"
	case TableHostgroups:
		existing = "linux"
	case TableContacts:
		existing = "alice"
	default:
	}
	shapes := []c09Shape{
		{Name: "all_columns_json", Lines: []string{"OutputFormat: json"}},
		{Name: "all_columns_wrapped", Lines: []string{"OutputFormat: wrapped_json"}},
		{Name: "all_columns_stats", Lines: []string{"Stats: state != 9999", "OutputFormat: wrapped_json"}},
		{Name: "format_python", Lines: []string{col, "OutputFormat: python"}},
		{Name: "format_python3", Lines: []string{col, "OutputFormat: python3"}},
		{Name: "format_unknown", Lines: []string{col, "OutputFormat: xml"}},
		{Name: "column_headers", Lines: []string{col, "ColumnHeaders: on", "ResponseHeader: fixed16"}},
		{Name: "limit_0", Lines: []string{col, "Limit: 0"}},
		{Name: "limit_max", Lines: []string{col, "Limit: 9223372036854775807"}},
		{Name: "limit_max_offset_1", Lines: []string{col, "Limit: 9223372036854775807", "Offset: 1"}},
		{Name: "limit_max_offset_max", Lines: []string{col, "Limit: 9223372036854775807", "Offset: 9223372036854775807", "OutputFormat: wrapped_json"}},
		{Name: "limit_overflow", Lines: []string{col, "Limit: 9223372036854775808"}},
		{Name: "limit_negative", Lines: []string{col, "Limit: -1"}},
		{Name: "offset_1", Lines: []string{col, "Offset: 1"}},
		{Name: "offset_beyond", Lines: []string{col, "Offset: 1000000"}},
		{Name: "offset_max_wrapped", Lines: []string{col, "Offset: 9223372036854775807", "OutputFormat: wrapped_json"}},
		{Name: "offset_negative", Lines: []string{col, "Offset: -5"}},
		{Name: "limit_1_offset_1_sorted", Lines: []string{col, "Sort: " + c09SortArg(key) + " desc", "Limit: 1", "Offset: 1"}},
		{Name: "sort_unknown_column", Lines: []string{col, "Sort: " + c09UnknownColumn + " asc"}},
		{Name: "sort_bad_direction", Lines: []string{col, "Sort: " + key + " sideways"}},
		{Name: "sort_empty", Lines: []string{col, "Sort:"}},
		{Name: "negate_empty_stack", Lines: []string{col, "Negate:"}},
		{Name: "and_short_stack", Lines: []string{col, "Filter: " + key + " !=", "And: 5"}},
		{Name: "or_negative", Lines: []string{col, "Filter: " + key + " !=", "Or: -1"}},
		{Name: "statsand_short_stack", Lines: []string{"Stats: " + key + " !=", "StatsAnd: 3"}},
		{Name: "statsnegate_empty", Lines: []string{"StatsNegate:"}},
		{Name: "stats_group_negate", Lines: []string{"Stats: " + key + " !=", "Stats: " + key + " = x", "StatsOr: 2", "StatsNegate:"}},
		{Name: "filter_bad_operator", Lines: []string{col, "Filter: " + key + " <> 1"}},
		{Name: "filter_one_word", Lines: []string{col, "Filter: " + key}},
		{Name: "filter_bad_regex", Lines: []string{col, "Filter: " + key + " ~ ([a"}},
		{Name: "unknown_header", Lines: []string{col, "Frobnicate: 1"}},
		{Name: "header_without_colon", Lines: []string{col, "Limit 5"}},
		{Name: "backends_unknown", Lines: []string{col, "Backends: nosuchbackend"}},
		{Name: "backends_one", Lines: []string{col, "Backends: id1"}},
		{Name: "authuser", Lines: []string{col, "AuthUser: alice"}},
		{Name: "authuser_empty", Lines: []string{col, "AuthUser:"}},
		{Name: "keepalive_fixed16", Lines: []string{col, "KeepAlive: on", "ResponseHeader: fixed16"}},
		{Name: "responseheader_unknown", Lines: []string{col, "ResponseHeader: fixed32"}},
		{Name: "waittimeout_0", Lines: []string{col, "WaitTimeout: 0"}},
		{Name: "waittimeout_text", Lines: []string{col, "WaitTimeout: soon"}},
	}
	// aggregates inside stats groups, groups of wait conditions
	num := key
	for _, c := range table.columns {
		if (c.DataType == IntCol || c.DataType == Int64Col || c.DataType == FloatCol) && c.StorageType == LocalStore && c.Optional == NoFlags {
			num = c.Name

			break
		}
	}
	shapes = append(shapes,
		c09Shape{Name: "stats_agg_statsand_1", Lines: []string{"Stats: sum " + num, "StatsAnd: 1"}},
		c09Shape{Name: "stats_agg_statsor_2", Lines: []string{"Stats: " + key + " !=", "Stats: avg " + num, "StatsOr: 2"}},
		c09Shape{Name: "stats_agg_nested_group", Lines: []string{"Stats: " + key + " !=", "Stats: " + key + " = x", "StatsAnd: 2", "Stats: max " + num, "StatsOr: 2"}},
		c09Shape{Name: "stats_agg_negate", Lines: []string{"Stats: min " + num, "StatsNegate:"}},
		c09Shape{Name: "stats_agg_group_key", Lines: []string{col, "Stats: sum " + num, "Stats: " + key + " !="}},
		c09Shape{Name: "stats_agg_unknown_column", Lines: []string{"Stats: sum " + c09UnknownColumn}},
		c09Shape{Name: "stats_statsand_0", Lines: []string{"StatsAnd: 0"}},
		c09Shape{Name: "filter_groups_nested", Lines: []string{col, "Filter: " + key + " !=", "Filter: " + key + " = x", "Or: 2", "Negate:", "Filter: " + key + " ~ .", "And: 2", "Negate:"}},
		c09Shape{Name: "waitcondition_and_2", Wait: true, Lines: []string{col, "WaitTrigger: all", "WaitCondition: " + key + " !=", "WaitCondition: " + key + " = x", "WaitConditionAnd: 2", "WaitTimeout: 100"}},
		c09Shape{Name: "waitcondition_or_2_object", Wait: true, Lines: []string{col, "WaitTrigger: all", "WaitObject: " + existing, "WaitCondition: " + key + " !=", "WaitCondition: " + key + " = x", "WaitConditionOr: 2", "WaitTimeout: 100"}},
		c09Shape{Name: "waitcondition_and_0", Wait: true, Lines: []string{col, "WaitTrigger: all", "WaitConditionAnd: 0", "WaitTimeout: 100"}},
	)
	// arguments that are no numbers / no lists where the column wants one
	for _, arg := range [][2]string{{"text", "abc"}, {"hex", "0x10"}, {"huge", "1e999"}, {"nan", "NaN"}, {"minus", "-9223372036854775809"}, {"spaces", "  7  "}} {
		shapes = append(shapes,
			c09Shape{Name: "filter_number_" + arg[0], Lines: []string{col, "Filter: " + num + " = " + arg[1]}},
			c09Shape{Name: "filter_number_ge_" + arg[0], Lines: []string{col, "Filter: " + num + " >= " + arg[1]}},
			c09Shape{Name: "stats_number_" + arg[0], Lines: []string{"Stats: " + num + " != " + arg[1]}},
		)
	}
	for _, trig := range []string{"all", "check", "state", "log", "downtime", "comment", "command", "program", "nosuchtrigger"} {
		shapes = append(shapes, c09Shape{Name: "waittrigger_" + trig, Wait: true, Lines: []string{col, "WaitTrigger: " + trig, "WaitTimeout: 100"}})
	}
	objects := [][2]string{{"missing", "foo"}, {"missing_semicolon", "foo;bar"}, {"only_semicolon", ";"}, {"existing", existing}, {"existing_host_only", "alpha"}}
	for _, obj := range objects {
		shapes = append(shapes,
			c09Shape{Name: "waitobject_" + obj[0], Wait: true, Lines: []string{col, "WaitTrigger: all", "WaitObject: " + obj[1], "WaitTimeout: 100"}},
			c09Shape{Name: "waitobject_" + obj[0] + "_cond", Wait: true, Lines: []string{col, "WaitTrigger: all", "WaitObject: " + obj[1], "WaitCondition: " + key + " !=", "WaitTimeout: 100"}},
			c09Shape{Name: "waitobject_" + obj[0] + "_cond_negate", Wait: true, Lines: []string{col, "WaitTrigger: all", "WaitObject: " + obj[1], "WaitCondition: " + key + " !=", "WaitConditionNegate:", "WaitTimeout: 100"}},
		)
	}
	shapes = append(shapes, c09Shape{Name: "waitobject_without_trigger", Lines: []string{col, "WaitObject: foo", "WaitTimeout: 1"}})
	// a condition that is not met makes Peer.waitcondition refresh the table from the backend 200 ms later
	shapes = append(shapes,
		c09Shape{Name: "waitcondition_unmet", Wait: true, Lines: []string{col, "WaitTrigger: all", "WaitCondition: " + key + " = verif-no-such-value", "WaitTimeout: 100"}},
		c09Shape{Name: "waitcondition_unmet_object", Wait: true, Lines: []string{col, "WaitTrigger: all", "WaitObject: " + existing, "WaitCondition: " + key + " = verif-no-such-value", "WaitTimeout: 100"}},
		c09Shape{Name: "waitcondition_met_negate", Wait: true, Lines: []string{col, "WaitTrigger: all", "WaitCondition: " + key + " !=", "WaitConditionNegate:", "WaitTimeout: 100"}},
	)

	return shapes
}

// ---- probe list ----------------------------------------------------------------------

type c09Probe struct {
	Table string
	Col   string // "" for shapes
	Usage string // Coq term
	Text  string
	Wait  bool // per column WaitCondition: evaluated directly
	Shape bool
	Sett  bool // shape through Peer.WaitCondition: own daemon, settle afterwards
}

// c09Tables are the tables of the matrix (aliases once, as in Gen/Schema.v; the pass-through
// table log belongs to C16).
func c09Tables() []*Table {
	res := []*Table{}
	for _, tn := range genTableNames() {
		table := Objects.Tables[tn]
		if table.name != tn || table.passthroughOnly {
			continue
		}
		res = append(res, table)
	}

	return res
}

func c09RequestText(table string, lines []string) string {
	return "GET " + table + "\n" + strings.Join(lines, "\n") + "\n\n"
}

func c09Probes() []*c09Probe {
	probes := []*c09Probe{}
	usages := c09Usages()
	for _, table := range c09Tables() {
		tname := table.name.String()
		cols := make([]*Column, 0, len(table.columns)+1)
		cols = append(cols, table.columns...)
		cols = append(cols, &Column{Name: c09UnknownColumn, DataType: StringCol})
		for _, col := range cols {
			for i := range usages {
				us := &usages[i]
				probes = append(probes, &c09Probe{Table: tname, Col: col.Name, Usage: us.Coq, Wait: us.wait,
					Text: c09RequestText(tname, us.lines(col.Name, c09TypicalArg(col), c09RegexArg))})
			}
		}
	}
	// request level shapes behind the columns, those that leave a polling goroutine behind at the very end
	for pass := 0; pass < 2; pass++ {
		for _, table := range c09Tables() {
			tname := table.name.String()
			for _, sh := range c09Shapes(table) {
				if (pass == 1) != sh.Wait {
					continue
				}
				probes = append(probes, &c09Probe{Table: tname, Usage: "(UShape " + coqStr(sh.Name) + ")", Shape: true, Sett: sh.Wait,
					Text: c09RequestText(tname, sh.Lines)})
			}
		}
	}

	return probes
}

// ---- dataset -------------------------------------------------------------------------------

// c09Dataset is the fixed dataset of the probes: backend 1 is a Naemon core, backend 2 a plain one
// (so all optional columns are missing there), backend 3 has every optional flag; all with at least
// three hosts and three services, host alpha with service ping exists on backend 1.
func c09Dataset() *qeDataset {
	ds := &qeDataset{}
	pick := func(idx int, want func(bk *qeBackend) bool) *qeBackend {
		for seed := uint64(1); seed < 400000; seed++ {
			bk := qeGenBackend(newVRand(seed*7919+uint64(idx)), idx, 5)
			hosts, services := bk.table("hosts"), bk.table("services")
			if len(hosts.Rows) < 3 || len(services.Rows) < 3 || len(bk.table("comments").Rows) < 2 || len(bk.table("downtimes").Rows) < 2 {
				continue
			}
			// host and service comments / downtimes: referenced columns are read with and without their reference
			both := func(t *qeTable) bool {
				kinds := map[int64]bool{}
				for _, row := range t.Rows {
					kinds[row[t.col("is_service")].(int64)] = true
				}

				return kinds[0] && kinds[1]
			}
			if !both(bk.table("comments")) || !both(bk.table("downtimes")) {
				continue
			}
			if want(bk) {
				return bk
			}
		}
		panic("c09: no suitable dataset found")
	}
	hasFlag := func(bk *qeBackend, flag string) bool {
		for _, f := range bk.Flags {
			if f == flag {
				return true
			}
		}

		return false
	}
	ds.Backends = append(ds.Backends, pick(1, func(bk *qeBackend) bool {
		if !hasFlag(bk, "Naemon") {
			return false
		}
		for _, row := range bk.table("services").Rows {
			if row[0] == "alpha" && row[1] == "ping" {
				return true
			}
		}

		return false
	}))
	// a backend may send fewer custom variable values than names: host alpha / its service ping carry variable FOO
	// (the one the probes ask for) without a value
	for _, tn := range []string{"hosts", "services"} {
		tab := ds.Backends[0].table(tn)
		for _, row := range tab.Rows {
			if row[0] == "alpha" {
				row[tab.col("custom_variable_names")] = []string{"BAR", "FOO"}
				row[tab.col("custom_variable_values")] = []string{"x"}

				break
			}
		}
	}
	ds.Backends = append(ds.Backends, pick(2, func(bk *qeBackend) bool { return len(bk.Flags) == 0 }))
	// backend 3 claims every optional feature: each optional column is read from its slot on this one
	// (and through the missing-column path on backend 2)
	all := pick(3, func(bk *qeBackend) bool { return len(bk.Flags) == 0 })
	for _, opt := range OptionalFlagsStrings {
		switch opt.flag {
		case MultiBackend, LMDSub, HTTPSub:
		default:
			all.Flags = append(all.Flags, opt.name)
		}
	}
	ds.Backends = append(ds.Backends, all)

	return ds
}

var c09LoadMu sync.Mutex

func c09Load() *Daemon { return c09LoadLane(-1) }

// c09LoadLane: lane >= 0 names the backends c09lane<lane>-<i>, so that a panic logged by logPanicExitPeer
// (which prefixes the peer's name) is attributed to the probe running in that lane.
func c09LoadLane(lane int) *Daemon {
	c09LoadMu.Lock()
	defer c09LoadMu.Unlock()
	dir := filepath.Join(verifEnv("VERIF_SOCKDIR", "/verif/work/sock"), fmt.Sprintf("c09gen-%d-%d", os.Getpid(), qeLoadCounter.Add(1)))
	ds := c09Dataset()
	if lane >= 0 {
		for i, bk := range ds.Backends {
			bk.Name = fmt.Sprintf("c09lane%d-%d", lane, i+1)
		}
	}
	lmd, err := qeLoad(ds, dir)
	if err != nil {
		panic("c09: cannot load the probe dataset: " + err.Error())
	}

	return lmd
}

// ---- observing one probe ----------------------------------------------------------------------

// c09Capture is the log writer of the probe process.
type c09Capture struct {
	mu    sync.Mutex
	panic string
	lanes map[int]string // panics of daemons whose peers are named c09lane<N>-...
}

var (
	c09Cap        = &c09Capture{lanes: map[int]string{}}
	c09RePanicLog = regexp.MustCompile(`Panic:\s*(.*)`)
	c09ReLane     = regexp.MustCompile(`\[c09lane(\d+)-`)
	c09ReAddr     = regexp.MustCompile(`0x[0-9a-fA-F]+|\(\*[^)]*\)\(nil\)`)
)

func (c *c09Capture) Write(buf []byte) (int, error) {
	if m := c09RePanicLog.FindSubmatch(buf); m != nil {
		c.mu.Lock()
		if lm := c09ReLane.FindSubmatch(buf); lm != nil {
			// logPanicExitPeer prefixes its lines with the peer's name: the daemon of a lane
			lane := 0
			fmt.Sscanf(string(lm[1]), "%d", &lane)
			if c.lanes[lane] == "" {
				c.lanes[lane] = string(m[1])
			}
		} else if c.panic == "" {
			c.panic = string(m[1])
		}
		c.mu.Unlock()
		// the handler would go on to os.Exit: end this goroutine instead (deferred calls still run)
		runtime.Goexit()
	}

	return len(buf), nil
}

func (c *c09Capture) take() string {
	c.mu.Lock()
	defer c.mu.Unlock()
	txt := c.panic
	c.panic = ""

	return txt
}

func (c *c09Capture) takeLane(lane int) string {
	c.mu.Lock()
	defer c.mu.Unlock()
	txt := c.lanes[lane]
	delete(c.lanes, lane)

	return txt
}

func c09InstallCapture() {
	InitLogging(&Config{LogLevel: "error", LogFile: "stderr"})
	log.SetOutput(c09Cap)
}

// c09Site normalises a panic text: printable ASCII, no addresses, bounded length.
func c09Site(txt string) string {
	txt = c09ReAddr.ReplaceAllString(txt, "ADDR")
	var sb strings.Builder
	for _, r := range txt {
		switch {
		case r == '"':
			sb.WriteByte('\'')
		case r >= 0x20 && r < 0x7f:
			sb.WriteRune(r)
		default:
			sb.WriteByte(' ')
		}
	}
	txt = strings.Join(strings.Fields(sb.String()), " ")
	// strip the ANSI colour remains of the log formatter
	txt = strings.TrimSuffix(txt, "[0m")
	if len(txt) > 110 {
		txt = txt[:110]
	}

	return strings.TrimSpace(txt)
}

type c09Outcome struct {
	Kind string `json:"k"` // ok | bad | panic | hang
	Site string `json:"s,omitempty"`
}

const c09ProbeDeadline = 5 * time.Second

// c09IdleGoroutines is the number of goroutines of the probe process while no probe runs.
var c09IdleGoroutines = 1

// c09Observe runs one request text against the daemon like a client connection would.
// lane >= 0: the daemon was loaded for that lane (c09LoadLane), other lanes run at the same time.
func c09Observe(lmd *Daemon, probe *c09Probe, lane int) c09Outcome {
	done := make(chan c09Outcome, 1)
	go func() {
		out := c09Outcome{Kind: "ok"}
		defer func() {
			if r := recover(); r != nil {
				out = c09Outcome{Kind: "panic", Site: c09Site(fmt.Sprintf("%v", r))}
			}
			done <- out
		}()
		ctx := context.Background()
		req, _, err := NewRequest(ctx, lmd, bufio.NewReader(strings.NewReader(probe.Text)), lmd.defaultReqestParseOption)
		if err != nil || req == nil {
			out.Kind = "bad"

			return
		}
		if err = req.ExpandRequestedBackends(); err != nil {
			out.Kind = "bad"

			return
		}
		if probe.Wait {
			// the first evaluation of Peer.waitcondition (peer.go), without its polling sleeps
			for _, id := range lmd.PeerMapOrder {
				peer := lmd.PeerMap[id]
				store, serr := peer.GetDataStore(req.Table)
				if serr != nil {
					continue
				}
				if req.WaitObject != "" {
					if obj, ok := store.GetWaitObject(req); ok {
						for i := range req.WaitCondition {
							obj.MatchFilter(req.WaitCondition[i], false)
						}
					}
				} else {
					peer.waitConditionTableMatches(store, req.WaitCondition)
				}
			}

			return
		}
		res, _, err := NewResponse(ctx, req, nil)
		if err != nil {
			out.Kind = "bad"

			return
		}
		var buf *bytes.Buffer
		buf, err = res.Buffer()
		if err != nil {
			out.Kind = "bad"

			return
		}
		if req.ResponseFixed16 {
			// the header line is written by send(); nothing else to do here
			_ = buf
		}
		if res.code != 200 {
			out.Kind = "bad"
		}
	}()
	var out c09Outcome
	select {
	case out = <-done:
	case <-time.After(c09ProbeDeadline):
		out = c09Outcome{Kind: "hang", Site: "no answer within the probe deadline"}
	}
	if lane >= 0 {
		// Peer.WaitCondition evaluates in a goroutine of its own that outlives the request: it polls every
		// 200 ms and may refresh the table from the backend then
		time.Sleep(WaitTimeoutCheckInterval + 250*time.Millisecond)
		if txt := c09Cap.takeLane(lane); txt != "" && out.Kind != "hang" {
			out = c09Outcome{Kind: "panic", Site: c09Site(txt)}
		}

		return out
	}
	if out.Kind != "hang" {
		// a panicking per-peer goroutine signals its WaitGroup before its handler logs: wait until all
		// goroutines of this probe are gone, so that a panic is never attributed to the next probe
		// (runtime.NumGoroutine is only approximate while goroutines start or end: several readings in a row)
		calm := 0
		for spin := 0; calm < 6 && spin < 1500; spin++ {
			if runtime.NumGoroutine() > c09IdleGoroutines {
				calm = 0
				time.Sleep(25 * time.Microsecond)
			} else {
				calm++
				runtime.Gosched()
			}
		}
		if calm < 6 {
			// a goroutine of this probe stays behind (blocked for good): it is part of the idle level from now on,
			// the following probes must not wait for it again
			if os.Getenv("VERIF_C09_DEBUG") != "" {
				buf := make([]byte, 1<<16)
				fmt.Fprintf(os.Stderr, "c09probe: goroutines left behind by %s %s %s\n%s\n", probe.Table, probe.Col, probe.Usage, buf[:runtime.Stack(buf, true)])
			}
			c09IdleGoroutines = runtime.NumGoroutine()
		}
	}
	if txt := c09Cap.take(); txt != "" && out.Kind != "hang" {
		out = c09Outcome{Kind: "panic", Site: c09Site(txt)}
	}

	return out
}

// c09CanaryOK checks that the daemon still serves the dataset.
func c09CanaryOK(lmd *Daemon, want int) bool {
	out, err := vQuery(lmd, "GET hosts\nColumns: name\nOutputFormat: json\n\n")
	if err != nil {
		return false
	}
	var rows [][]interface{}
	if json.Unmarshal(out, &rows) != nil {
		return false
	}

	return len(rows) == want
}

// c09ProbeMain: `c09probe from to` runs the probes [from,to); prints "B i" before and "R i json" after each.
func c09ProbeMain(args []string) int {
	from, to := 0, 0
	if len(args) >= 2 {
		fmt.Sscanf(args[0], "%d", &from)
		fmt.Sscanf(args[1], "%d", &to)
	}
	probes := c09Probes()
	if to <= 0 || to > len(probes) {
		to = len(probes)
	}
	c09InstallCapture()
	out := bufio.NewWriterSize(os.Stdout, 1<<16)
	defer out.Flush()
	var lmd *Daemon
	hosts := 0
	for _, bk := range c09Dataset().Backends {
		hosts += len(bk.table("hosts").Rows)
	}
	fresh := 0
	hangs := 0
	checkCanary := func(i int) bool {
		if lmd != nil && !c09CanaryOK(lmd, hosts) {
			probe := probes[i]
			fmt.Fprintf(os.Stderr, "c09probe: the probe daemon does not serve its dataset any more after probe %d (%s %s %s)\n", i, probe.Table, probe.Col, probe.Usage)

			return false
		}

		return true
	}
	var outMu sync.Mutex
	emit := func(format string, a ...interface{}) {
		outMu.Lock()
		fmt.Fprintf(out, format, a...)
		out.Flush()
		outMu.Unlock()
	}
	skip := map[int]bool{}
	for _, f := range strings.Split(os.Getenv("VERIF_C09_SKIP"), ",") {
		idx := -1
		if n, _ := fmt.Sscanf(f, "%d", &idx); n == 1 {
			skip[idx] = true
		}
	}
	settled := []int{}
	lastSeq := -1
	for i := from; i < to; i++ {
		probe := probes[i]
		if skip[i] {
			continue
		}
		if probe.Sett {
			settled = append(settled, i)

			continue
		}
		if lmd == nil {
			lmd = c09Load()
			fresh = 0
			time.Sleep(time.Millisecond)
			c09IdleGoroutines = runtime.NumGoroutine()
		}
		fresh++
		if txt := c09Cap.take(); txt != "" && i > from {
			// logged after the previous probe had been observed: it belongs to that one
			buf, _ := json.Marshal(c09Outcome{Kind: "panic", Site: c09Site(txt)})
			emit("C %d %s\n", i-1, buf)
		}
		emit("B %d\n", i)
		if hangs >= 3 {
			// every further probe would cost the deadline again
			buf, _ := json.Marshal(c09Outcome{Kind: "hang", Site: "not run: earlier probes of this process got no answer"})
			emit("R %d %s\n", i, buf)

			continue
		}
		res := c09Observe(lmd, probe, -1)
		lastSeq = i
		if res.Kind == "hang" {
			hangs++
		}
		switch {
		case res.Kind == "hang":
			lmd = nil
		case fresh >= 2000 || i == to-1 || probes[i+1].Sett || skip[i+1]:
			if !checkCanary(i) {
				return 3
			}
			lmd = nil
		}
		buf, _ := json.Marshal(res)
		emit("R %d %s\n", i, buf)
	}
	if txt := c09Cap.take(); txt != "" && lastSeq >= 0 {
		buf, _ := json.Marshal(c09Outcome{Kind: "panic", Site: c09Site(txt)})
		emit("C %d %s\n", lastSeq, buf)
	}
	// requests that go through Peer.WaitCondition: each on a daemon of its own (the lingering goroutine tries to
	// refresh from the non-existing backend), many at the same time, 450 ms of settling each
	var laneWg sync.WaitGroup
	next := make(chan int, len(settled))
	for _, i := range settled {
		next <- i
	}
	close(next)
	for lane := 0; lane < 24 && lane < len(settled); lane++ {
		laneWg.Add(1)
		go func(lane int) {
			defer laneWg.Done()
			prev := -1
			late := func() {
				// logged after the lane's previous probe had been observed (an overloaded machine): it belongs to that one
				if txt := c09Cap.takeLane(lane); txt != "" && prev >= 0 {
					buf, _ := json.Marshal(c09Outcome{Kind: "panic", Site: c09Site(txt)})
					emit("C %d %s\n", prev, buf)
				}
			}
			for i := range next {
				late()
				emit("B %d\n", i)
				res := c09Observe(c09LoadLane(lane), probes[i], lane)
				buf, _ := json.Marshal(res)
				emit("R %d %s\n", i, buf)
				prev = i
			}
			time.Sleep(150 * time.Millisecond)
			late()
		}(lane)
	}
	laneWg.Wait()
	// stragglers that could not be attributed
	time.Sleep(50 * time.Millisecond)
	if txt := c09Cap.take(); txt != "" {
		buf, _ := json.Marshal(c09Outcome{Kind: "panic", Site: c09Site(txt)})
		emit("L %s\n", buf)
	}
	emit("END\n")

	return 0
}

// c09RunProbesInChildren distributes the probe list over worker processes.
func c09RunProbesInChildren(probes []*c09Probe) (results []c09Outcome, late []c09Outcome) {
	results = make([]c09Outcome, len(probes))
	workers := runtime.NumCPU()
	if workers > 12 {
		workers = 12
	}
	if workers < 1 {
		workers = 1
	}
	// contiguous chunks of about equal cost (a probe with a daemon of its own and 280 ms of settling, 24 at a time, costs about 30 plain ones)
	cost := func(p *c09Probe) int {
		if p.Sett {
			return 30
		}

		return 1
	}
	total := 0
	for _, p := range probes {
		total += cost(p)
	}
	bounds := []int{0}
	acc := 0
	for i, p := range probes {
		acc += cost(p)
		if acc >= total/workers && len(bounds) < workers {
			bounds = append(bounds, i+1)
			acc = 0
		}
	}
	bounds = append(bounds, len(probes))
	var wg sync.WaitGroup
	var mu sync.Mutex
	fail := ""
	for w := 0; w+1 < len(bounds); w++ {
		from, to := bounds[w], bounds[w+1]
		if from >= to {
			continue
		}
		wg.Add(1)
		go func(from, to int) {
			defer wg.Done()
			restarts := 0
			done := map[int]bool{}
			for {
				// the probes of the range that still have no result
				first, skip := -1, []string{}
				for i := from; i < to; i++ {
					switch {
					case !done[i] && first < 0:
						first = i
					case done[i] && first >= 0:
						skip = append(skip, fmt.Sprintf("%d", i))
					}
				}
				if first < 0 {
					return
				}
				cmd := exec.Command(os.Args[0], "c09probe", fmt.Sprintf("%d", first), fmt.Sprintf("%d", to))
				var stdout, stderr bytes.Buffer
				cmd.Stdout, cmd.Stderr = &stdout, &stderr
				cmd.Env = append(os.Environ(), "VERIF_LOGLEVEL=off", "VERIF_C09_SKIP="+strings.Join(skip, ","))
				err := cmd.Run()
				inflight, ended := map[int]bool{}, false
				for _, line := range strings.Split(stdout.String(), "\n") {
					switch {
					case strings.HasPrefix(line, "B "):
						idx := -1
						fmt.Sscanf(line, "B %d", &idx)
						inflight[idx] = true
					case strings.HasPrefix(line, "R "):
						parts := strings.SplitN(line, " ", 3)
						idx := -1
						fmt.Sscanf(parts[1], "%d", &idx)
						var res c09Outcome
						if len(parts) == 3 && idx >= from && idx < to && json.Unmarshal([]byte(parts[2]), &res) == nil {
							mu.Lock()
							results[idx] = res
							mu.Unlock()
							delete(inflight, idx)
							done[idx] = true
						}
					case strings.HasPrefix(line, "C "):
						parts := strings.SplitN(line, " ", 3)
						idx := -1
						fmt.Sscanf(parts[1], "%d", &idx)
						var res c09Outcome
						if len(parts) == 3 && idx >= 0 && idx < len(results) && json.Unmarshal([]byte(parts[2]), &res) == nil {
							mu.Lock()
							if results[idx].Kind == "ok" || results[idx].Kind == "bad" {
								results[idx] = res
							}
							mu.Unlock()
						}
					case strings.HasPrefix(line, "L "):
						var res c09Outcome
						if json.Unmarshal([]byte(line[2:]), &res) == nil {
							mu.Lock()
							late = append(late, res)
							mu.Unlock()
						}
					case line == "END":
						ended = true
					}
				}
				if ended && err == nil {
					return
				}
				code := -1
				if cmd.ProcessState != nil {
					code = cmd.ProcessState.ExitCode()
				}
				if len(inflight) == 0 || code == 3 || restarts > 400 {
					mu.Lock()
					fail = fmt.Sprintf("c09probe child failed (exit %d) outside a probe: %s", code, c09Tail(stderr.String()))
					mu.Unlock()

					return
				}
				// the process died during the probes in flight (one, except for the WaitCondition shapes which
				// run several at a time): that is their outcome
				mu.Lock()
				for idx := range inflight {
					if idx >= from && idx < to {
						results[idx] = c09Outcome{Kind: "panic", Site: c09Site(fmt.Sprintf("process exit %d: %s", code, c09DeathLine(stderr.String())))}
						done[idx] = true
					}
				}
				mu.Unlock()
				restarts++
			}
		}(from, to)
	}
	wg.Wait()
	if fail != "" {
		panic(fail)
	}

	return results, late
}

func c09Tail(txt string) string {
	if len(txt) > 1500 {
		txt = txt[len(txt)-1500:]
	}

	return txt
}

// c09DeathLine picks the line of a dead process' stderr that says why it died.
func c09DeathLine(txt string) string {
	lines := strings.Split(txt, "\n")
	for _, l := range lines {
		if strings.HasPrefix(l, "panic:") || strings.HasPrefix(l, "fatal error:") || strings.Contains(l, "Panic:") {
			return l
		}
	}
	for i := len(lines) - 1; i >= 0; i-- {
		if strings.TrimSpace(lines[i]) != "" {
			return lines[i]
		}
	}

	return "no message"
}

// ---- emission ------------------------------------------------------------------------------------

func (o c09Outcome) coq() string {
	switch o.Kind {
	case "ok":
		return "K"
	case "bad":
		return "B"
	case "hang":
		return "OHang"
	}

	return "(OPanic " + coqStr(o.Site) + ")"
}

// c09PanicProbeFile is where gen leaves the request texts of all non-ok/bad entries for stream c09robust.
func c09PanicProbeFile() string {
	return filepath.Join(verifEnv("VERIF_WORKDIR", "/verif/work"), "c09_panic_probes.json")
}

func c09GenDispatch() string {
	probes := c09Probes()
	results, late := c09RunProbesInChildren(probes)
	var sb strings.Builder
	sb.WriteString("(* GENERATED on every run by `lmdverif gen` (harness/inpkg/c09_gen.go): the dispatch matrix of the request path,\n")
	sb.WriteString("   measured on a real Daemon for every table x column x usage kind (K = answered, B = bad request). Do not edit. *)\n")
	sb.WriteString("From LMD Require Import Base.Str C09.Types.\nOpen Scope N_scope.\nOpen Scope string_scope.\n")
	sb.WriteString("Notation K := OOk (only parsing).\nNotation B := OBad (only parsing).\n\n")
	type colKey struct{ table, col string }
	order := []colKey{}
	perCol := map[colKey][]string{}
	tables := []string{}
	seenTable := map[string]bool{}
	bad := []map[string]string{}
	counts := map[string]int{}
	for i, probe := range probes {
		key := colKey{probe.Table, probe.Col}
		if _, ok := perCol[key]; !ok {
			order = append(order, key)
		}
		if !seenTable[probe.Table] {
			seenTable[probe.Table] = true
			tables = append(tables, probe.Table)
		}
		res := results[i]
		if res.Kind == "" {
			res = c09Outcome{Kind: "panic", Site: "probe was not run"}
		}
		counts[res.Kind]++
		perCol[key] = append(perCol[key], fmt.Sprintf("(%s, %s)", probe.Usage, res.coq()))
		if res.Kind != "ok" && res.Kind != "bad" {
			bad = append(bad, map[string]string{"table": probe.Table, "column": probe.Col, "usage": probe.Usage, "outcome": res.Kind + " " + res.Site, "request": probe.Text})
		}
	}
	for i, res := range late {
		// a panic that was logged after its request had been answered: kept as an entry of its own
		key := colKey{"*", ""}
		if _, ok := perCol[key]; !ok {
			order = append(order, key)
			tables = append(tables, "*")
		}
		perCol[key] = append(perCol[key], fmt.Sprintf("(UShape %s, %s)", coqStr(fmt.Sprintf("late_%d", i)), res.coq()))
		counts[res.Kind]++
		bad = append(bad, map[string]string{"table": "*", "column": "", "usage": "late", "outcome": res.Kind + " " + res.Site, "request": ""})
	}
	tnames := []string{}
	for ti, table := range tables {
		cnames := []string{}
		ci := 0
		for _, key := range order {
			if key.table != table {
				continue
			}
			name := fmt.Sprintf("d_%d_%d", ti, ci)
			ci++
			fmt.Fprintf(&sb, "Definition %s : centry := (%s, [%s]).\n", name, coqStr(key.col), strings.Join(perCol[key], "; "))
			cnames = append(cnames, name)
		}
		tname := fmt.Sprintf("dt_%d", ti)
		fmt.Fprintf(&sb, "Definition %s : tentry := (%s, %s).\n\n", tname, coqStr(table), coqList(cnames))
		tnames = append(tnames, tname)
	}
	sb.WriteString("Definition matrix : list tentry := " + coqList(tnames) + ".\n\n")
	keys := make([]string, 0, len(counts))
	for k := range counts {
		keys = append(keys, k)
	}
	sort.Strings(keys)
	sb.WriteString("(* entries:")
	for _, k := range keys {
		fmt.Fprintf(&sb, " %s=%d", k, counts[k])
	}
	fmt.Fprintf(&sb, " total=%d *)\n", len(probes)+len(late))
	if buf, err := json.MarshalIndent(bad, "", " "); err == nil {
		_ = os.WriteFile(c09PanicProbeFile(), buf, 0o644)
	}

	return sb.String()
}

// ---- confirming an entry with a real exit -----------------------------------------------------

func init() {
	verifRegister("c09confirm", "C09: run one request text (stdin) against the probe daemon WITHOUT catching anything: a panic ends this process like it ends lmd", c09ConfirmMain)
}

// c09ConfirmMain answers the request on stdin through NewRequest/NewResponse/Buffer with lmd's own
// panic handlers in place; exit status 0 = answered or rejected, anything else = the daemon would be gone.
func c09ConfirmMain(_ []string) int {
	InitLogging(&Config{LogLevel: verifEnv("VERIF_LOGLEVEL", "error"), LogFile: "stderr"})
	text, _ := readAllStdin()
	lmd := c09Load()
	obs := make(chan string, 1)
	go func() {
		defer lmd.logPanicExit()
		ctx := context.Background()
		req, _, err := NewRequest(ctx, lmd, bufio.NewReader(strings.NewReader(text)), lmd.defaultReqestParseOption)
		if err != nil || req == nil {
			obs <- fmt.Sprintf("bad request: %v", err)

			return
		}
		if err = req.ExpandRequestedBackends(); err != nil {
			obs <- fmt.Sprintf("bad request: %v", err)

			return
		}
		res, _, err := NewResponse(ctx, req, nil)
		if err != nil {
			obs <- fmt.Sprintf("error response: %v", err)

			return
		}
		buf, err := res.Buffer()
		if err != nil {
			obs <- fmt.Sprintf("error response: %v", err)

			return
		}
		obs <- fmt.Sprintf("answered (%d): %.200s", res.code, buf.String())
	}()
	select {
	case txt := <-obs:
		// Peer.WaitCondition goroutines poll every 200 ms
		if strings.Contains(text, "WaitTrigger") {
			time.Sleep(600 * time.Millisecond)
		}
		// a panic handler of a per-peer goroutine may still be on its way to os.Exit
		time.Sleep(400 * time.Millisecond)
		fmt.Println(txt)
	case <-time.After(10 * time.Second):
		fmt.Println("no answer within 10s")

		return 4
	}

	return 0
}

func readAllStdin() (string, error) {
	var sb strings.Builder
	rd := bufio.NewReader(os.Stdin)
	for {
		line, err := rd.ReadString('\n')
		sb.WriteString(line)
		if err != nil {
			break
		}
	}

	return sb.String(), nil
}
