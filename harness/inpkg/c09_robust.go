//go:build verif

package lmd

// C09, stream "robust": what a theorem about the dispatch model cannot exhibit
// - process exit, deadlock, unbounded wait, out of memory, panics inside
// third-party decoders.
//
// An lmd WORKER child process (`lmdverif c09worker`: real unix socket
// listener, real peers, started under `ulimit -v`) is fed with generated
// requests over its socket and wired to two scripted backends that live in
// this (the driver's) process and can be told to misbehave for one query.
// Updates of the worker's peers are driven through its stdin ("UPDATE kind
// peer" runs the step of Peer.updateLoop in a goroutine that ends in
// logPanicExitPeer, exactly like the loop itself; timestamps are shifted, no
// sleeping for tickers).
//
// Observed per case: the worker is still alive, the request was answered or
// the connection closed within the watchdog deadline (2 s), and a canary query
// (`GET hosts / Columns: name` over the socket) is answered correctly
// afterwards. For structured requests the response code is compared with the
// dispatch model ([handle] over the generated matrix), for backend faults the
// outcome of the update step with the reply path model ([ingest]).

import (
	"bufio"
	"bytes"
	"context"
	"encoding/hex"
	"encoding/json"
	"fmt"
	"io"
	"net"
	"os"
	"os/exec"
	"path/filepath"
	"regexp"
	"sort"
	"strings"
	"sync"
	"sync/atomic"
	"syscall"
	"time"
)

func init() {
	verifRegister("c09robust", "C09: requests and backend faults against an lmd worker process", c09RobustMain)
	verifRegister("c09text", "C09: print the request texts of a replay file", c09TextMain)
	verifRegister("c09worker", "C09: the lmd worker process (listener + peers, update steps on stdin)", c09WorkerMain)
}

const (
	c09Watchdog     = 2 * time.Second
	c09StepDeadline = 4 * time.Second
	c09MemLimitKB   = 2 * 1024 * 1024 // ulimit -v of the worker
)

// ---- input -----------------------------------------------------------------------------------

type c09Item struct {
	U string `json:"u"` // usage kind as Coq term, e.g. "(UFilter OpEq true)"
	C string `json:"c"` // column name ("" for shapes)
}

type c09Fault struct {
	Step  string `json:"step"`  // init | delta | full
	Table string `json:"table"` // the first GET on this table (containing Match) during the step gets the faulty reply
	Match string `json:"match"`
	Mode  string `json:"mode"`
	Arg   int    `json:"arg"`
}

type c09Input struct {
	Kind  string    `json:"kind"` // struct | raw | backend
	Table string    `json:"table,omitempty"`
	Items []c09Item `json:"items,omitempty"`
	Lines []string  `json:"lines,omitempty"` // raw: header lines; joined with \n
	Hex   string    `json:"hex,omitempty"`   // raw: bytes appended behind the lines
	Long  []int     `json:"long,omitempty"`  // raw: [line index, repeat count, ...] a line is blown up by repeating its last word
	NoEnd bool      `json:"no_end,omitempty"`
	Fault *c09Fault `json:"fault,omitempty"`
}

// ---- the misbehaving backend --------------------------------------------------------------------

type c09Backend struct {
	inner *vBackend
	addr  string
	ln    net.Listener
	mu    sync.Mutex
	fault *c09Fault // armed fault, disarmed by its first use
	used  *c09FaultUse
	conns map[net.Conn]bool
	wg    sync.WaitGroup
}

// c09FaultUse records what was sent for the armed fault.
type c09FaultUse struct {
	Query  string
	Reply  []byte
	Width  int
	Strict bool
}

func newC09Backend(name string, seed uint64) *c09Backend {
	inner := &vBackend{name: name, daemon: verifNewDaemon(), tables: map[string]*vTable{}, conns: map[net.Conn]bool{}, failAfter: -1}
	inner.SetDataset(vDefaultDataset(newVRand(seed), 3, 7))
	// fewer custom variable values than names on one host and one service
	inner.SetCell("hosts", []string{"vhost2"}, "custom_variable_names", []interface{}{"SITE", "FOO"})
	inner.SetCell("services", []string{"vhost2", "vsvc1"}, "custom_variable_names", []interface{}{"BAR", "FOO"})
	inner.SetCell("services", []string{"vhost2", "vsvc1"}, "custom_variable_values", []interface{}{"x"})
	bk := &c09Backend{inner: inner, conns: map[net.Conn]bool{}, addr: filepath.Join(vSockDir(), fmt.Sprintf("%d-c09%s.sock", os.Getpid(), name))}
	os.Remove(bk.addr)
	ln, err := net.Listen("unix", bk.addr)
	if err != nil {
		panic("c09 backend listen: " + err.Error())
	}
	bk.ln = ln
	bk.wg.Add(1)
	go func() {
		defer bk.wg.Done()
		for {
			conn, aerr := ln.Accept()
			if aerr != nil {
				return
			}
			bk.mu.Lock()
			bk.conns[conn] = true
			bk.mu.Unlock()
			bk.wg.Add(1)
			go func() {
				defer bk.wg.Done()
				bk.serve(conn)
				conn.Close()
				bk.mu.Lock()
				delete(bk.conns, conn)
				bk.mu.Unlock()
			}()
		}
	}()

	return bk
}

func (b *c09Backend) Close() {
	b.ln.Close()
	b.mu.Lock()
	for c := range b.conns {
		c.Close()
	}
	b.mu.Unlock()
	b.wg.Wait()
	os.Remove(b.addr)
}

func (b *c09Backend) arm(f *c09Fault) {
	b.mu.Lock()
	defer b.mu.Unlock()
	b.fault = f
	b.used = nil
}

func (b *c09Backend) disarm() *c09FaultUse {
	b.mu.Lock()
	defer b.mu.Unlock()
	b.fault = nil
	used := b.used
	b.used = nil

	return used
}

func (b *c09Backend) serve(conn net.Conn) {
	rd := bufio.NewReaderSize(conn, 1<<16)
	for {
		block, _, err := vReadBlock(rd)
		if err != nil || len(block) == 0 {
			return
		}
		if bytes.HasPrefix(block, []byte("COMMAND ")) {
			// what Naemon does: no reply, close
			return
		}
		b.inner.mu.Lock()
		reply, keepAlive := b.inner.evalBlock(block)
		b.inner.mu.Unlock()
		b.mu.Lock()
		fault := b.fault
		text := string(block)
		if fault != nil && strings.HasPrefix(text, "GET "+fault.Table+"\n") && strings.Contains(text, fault.Match) {
			b.fault = nil
			var strict bool
			reply, strict = c09ApplyFault(fault, reply)
			// the answer to GET columns only sets optional flags, its failure does not fail the step
			strict = strict && fault.Table != "columns"
			b.used = &c09FaultUse{Query: text, Reply: reply, Width: c09RequestWidth(text), Strict: strict}
			keepAlive = false
		}
		b.mu.Unlock()
		if _, err = conn.Write(reply); err != nil || !keepAlive {
			return
		}
	}
}

// c09RequestWidth is the number of cells a reply row must have: requested columns, else stats.
func c09RequestWidth(query string) int {
	cols, stats := 0, 0
	for _, line := range strings.Split(query, "\n") {
		switch {
		case strings.HasPrefix(line, "Columns:"):
			cols += len(strings.Fields(line[len("Columns:"):]))
		case strings.HasPrefix(line, "Stats:"):
			stats++
		}
	}
	if cols > 0 {
		return cols
	}

	return stats
}

var c09BadHeaders = []string{
	"vbackend garbage", "200 -0000000005\n", "2000000000000 12", "200          1 2\n", "\xff\xff\xff\xff\xff\xff\xff\xff\xff\xff\xff\xff\xff\xff\xff\xff",
	"200 99999999999\n", "99999999999999 1\n", "200 12", "", "200\t\t\t\t\t\t\t\t\t\t\t\t\n", "999999999999999\n", "200            \n", "+200          5\n",
	"200 9223372036854775807\n"[:16], "20099999999999 9\n"[:16], "                \n"[:16],
}

var c09BadBodies = []string{
	"[[1,2,", `{"x":1}`, "nonsense", "[[1,2]]garbage", "[[\"a\x00b\"]]\x00\x00", "[", "]", "[[],", "[[\"\\u12\"]]", "[[tru]]", "\x00\x01\x02\x03", "[[1]]]]]]", `[["a" "b"]]`,
	"", "null", "[null]", "[1,2,3]", `["a","b"]`, "[[[[[[[[[[[[[[[[[[[[[[[[[[[[[[[[",
}

// c09ApplyFault rewrites a correct fixed16 reply; strict = the reply path model predicts the outcome of the step.
func c09ApplyFault(f *c09Fault, reply []byte) ([]byte, bool) {
	frame := func(code int, body []byte) []byte {
		return append([]byte(fmt.Sprintf("%03d %11d\n", code, len(body))), body...)
	}
	if len(reply) < 16 {
		return reply, false
	}
	body := reply[16:]
	var rows [][]interface{}
	_ = json.Unmarshal(body, &rows)
	reencode := func() []byte {
		buf, err := json.Marshal(rows)
		if err != nil {
			return body
		}

		return append(buf, '\n')
	}
	pick := func() int {
		if len(rows) == 0 {
			return -1
		}

		return ((f.Arg % len(rows)) + len(rows)) % len(rows)
	}
	switch f.Mode {
	case "width_short":
		if i := pick(); i >= 0 && len(rows[i]) > 0 {
			rows[i] = rows[i][:len(rows[i])-1]
		}

		return frame(200, reencode()), true
	case "width_short_all":
		for i := range rows {
			if len(rows[i]) > 0 {
				rows[i] = rows[i][:len(rows[i])-1]
			}
		}

		return frame(200, reencode()), true
	case "width_long":
		if i := pick(); i >= 0 {
			rows[i] = append(rows[i], "extra")
		}

		return frame(200, reencode()), true
	case "width_empty_row":
		if i := pick(); i >= 0 {
			rows[i] = []interface{}{}
		}

		return frame(200, reencode()), true
	case "width_one_cell":
		for i := range rows {
			if len(rows[i]) > 1 {
				rows[i] = rows[i][:1]
			}
		}

		return frame(200, reencode()), true
	case "extra_rows":
		if len(rows) > 0 {
			for k := 0; k < 1+f.Arg%3; k++ {
				rows = append(rows, rows[len(rows)-1])
			}
		}

		return frame(200, reencode()), false
	case "no_rows":
		return frame(200, []byte("[]\n")), false
	case "types":
		for i := range rows {
			for j := range rows[i] {
				switch (i + j + f.Arg) % 7 {
				case 0:
					rows[i][j] = "abc"
				case 1:
					rows[i][j] = 1e300
				case 2:
					rows[i][j] = []interface{}{[]interface{}{1, "x"}, "y", nil}
				case 3:
					rows[i][j] = nil
				case 4:
					rows[i][j] = map[string]interface{}{"k": []interface{}{1}}
				case 5:
					rows[i][j] = -12345678901234567890.0
				default:
					rows[i][j] = true
				}
			}
		}

		return frame(200, reencode()), false
	case "types_keep_keys":
		// primary keys stay, everything else changes its type
		for i := range rows {
			for j := range rows[i] {
				if j < 2 {
					continue
				}
				switch (i + j + f.Arg) % 5 {
				case 0:
					rows[i][j] = "abc"
				case 1:
					rows[i][j] = []interface{}{"l", 1, nil}
				case 2:
					rows[i][j] = nil
				case 3:
					rows[i][j] = json.Number("1e999")
				default:
					rows[i][j] = map[string]interface{}{}
				}
			}
		}

		return frame(200, reencode()), false
	case "invalid_utf8":
		txt := bytes.Replace(reencode(), []byte(`"`), []byte("\"\xff\xfe"), 1+f.Arg%3)

		return frame(200, txt), true
	case "truncate":
		cut := len(body) / 2
		if f.Arg%3 == 1 {
			cut = 0
		}
		if f.Arg%3 == 2 && len(body) > 0 {
			cut = len(body) - 1
		}

		return append([]byte(fmt.Sprintf("%03d %11d\n", 200, len(body))), body[:cut]...), true
	case "oversize_body":
		// the header announces less than what follows
		less := 1 + f.Arg%5
		if less > len(body) {
			less = len(body)
		}

		return append([]byte(fmt.Sprintf("%03d %11d\n", 200, len(body)-less)), body...), true
	case "header_huge":
		return append([]byte("200 99999999999\n"), body...), true
	case "header_bad":
		hdr := c09BadHeaders[((f.Arg%len(c09BadHeaders))+len(c09BadHeaders))%len(c09BadHeaders)]

		return append([]byte(hdr), body...), true
	case "code":
		codes := []int{400, 404, 500, 502, 0, 999, 201}
		code := codes[((f.Arg%len(codes))+len(codes))%len(codes)]
		msg := []byte("Table 'foo' does not exist.\n")
		if f.Arg%2 == 1 {
			msg = body
		}

		return frame(code, msg), true
	case "invalid_json":
		txt := c09BadBodies[((f.Arg%len(c09BadBodies))+len(c09BadBodies))%len(c09BadBodies)]

		return frame(200, []byte(txt)), true
	case "deep_nesting":
		depth := 20000 * (1 + f.Arg%5)
		txt := "[[" + strings.Repeat("[", depth) + strings.Repeat("]", depth) + "]]\n"

		return frame(200, []byte(txt)), false
	case "big_numbers":
		txt := bytes.ReplaceAll(reencode(), []byte(",0,"), []byte(",123456789012345678901234567890123456789012345678901234567890,"))
		txt = bytes.ReplaceAll(txt, []byte(",1,"), []byte(",-1e999,"))

		return frame(200, txt), false
	}

	return reply, true
}

// c09DecodeWidths is what lmd's own decoders make of the body it reads (nil = rejected).
func c09DecodeWidths(body []byte) []int {
	if len(body) == 0 || (body[0] != '{' && body[0] != '[') {
		return nil
	}
	res, err := NewResultSet(body)
	if err != nil {
		return nil
	}
	widths := make([]int, 0, len(res))
	for _, row := range res {
		widths = append(widths, len(row))
	}

	return widths
}

// ---- the worker process -----------------------------------------------------------------------------

// c09WorkerMain: args = listen socket, then id=backend socket pairs. Control lines on stdin:
// "UPDATE init|delta|full|tick <peer>" -> "DONE ok|err <text>", "QUIT".
func c09WorkerMain(args []string) int {
	InitLogging(&Config{LogLevel: verifEnv("VERIF_LOGLEVEL", "error"), LogFile: "stderr"})
	if len(args) < 2 {
		fmt.Fprintln(os.Stderr, "usage: c09worker <listen socket> <id=backend socket>...")

		return 2
	}
	lmd := verifNewDaemon()
	lmd.Config.Listen = []string{args[0]}
	lmd.Config.NetTimeout = 5
	lmd.Config.ConnectTimeout = 2
	lmd.defaultReqestParseOption = ParseOptimize
	lmd.initializeListeners()
	if waitTimeout(context.Background(), lmd.waitGroupInit, 5*time.Second) {
		fmt.Fprintln(os.Stderr, "c09worker: listener does not come up")

		return 2
	}
	ctx := context.Background()
	peers := map[string]*Peer{}
	for _, spec := range args[1:] {
		parts := strings.SplitN(spec, "=", 2)
		peer := vNewPeer(lmd, parts[0], []string{parts[1]}, nil)
		peers[parts[0]] = peer
	}
	out := bufio.NewWriter(os.Stdout)
	var outMu sync.Mutex
	say := func(format string, a ...interface{}) {
		outMu.Lock()
		fmt.Fprintf(out, format+"\n", a...)
		out.Flush()
		outMu.Unlock()
	}
	step := func(peer *Peer, kind string) {
		done := make(chan error, 1)
		go func() {
			// what Peer.Start wraps around updateLoop
			defer logPanicExitPeer(peer)
			var err error
			now := currentUnixTime()
			switch kind {
			case "init":
				err = peer.InitAllTables(ctx)
			case "delta":
				data := peer.data.Load()
				if data == nil {
					err = peer.InitAllTables(ctx)

					break
				}
				// a minute has passed, full scans are due
				peer.lastFullHostUpdate.Set(now - 2*MinFullScanInterval)
				peer.lastFullServiceUpdate.Set(now - 2*MinFullScanInterval)
				err = data.UpdateDelta(ctx, now-60, now)
			case "full":
				data := peer.data.Load()
				if data == nil {
					err = peer.InitAllTables(ctx)

					break
				}
				err = data.UpdateFull(ctx, Objects.UpdateTables)
			default: // tick: the state machine of the loop itself
				peer.lastUpdate.Set(now - 3600)
				peer.lastFullUpdate.Set(now - 3600) // beyond BrokenPeerGraceTimeSeconds
				peer.lastFullHostUpdate.Set(now - 3600)
				peer.lastFullServiceUpdate.Set(now - 3600)
				_, err = peer.periodicUpdate(ctx)
			}
			done <- peer.initTablesIfRestartRequiredError(ctx, err)
		}()
		err := <-done
		if err != nil {
			say("DONE err %s", strings.ReplaceAll(err.Error(), "\n", " "))
		} else {
			say("DONE ok")
		}
	}
	for _, id := range lmd.PeerMapOrder {
		step(peers[id], "init")
	}
	say("READY")
	rd := bufio.NewReader(os.Stdin)
	for {
		line, err := rd.ReadString('\n')
		fields := strings.Fields(line)
		if len(fields) >= 3 && fields[0] == "UPDATE" && peers[fields[2]] != nil {
			step(peers[fields[2]], fields[1])
		} else if len(fields) >= 1 && fields[0] == "QUIT" {
			return 0
		}
		if err != nil {
			return 0
		}
	}
}

// c09Worker is the driver's handle on the worker process.
type c09Worker struct {
	cmd    *exec.Cmd
	sock   string
	stdin  io.WriteCloser
	lines  chan string
	exited chan struct{}
	dying  atomic.Bool
	errMu  sync.Mutex
	errBuf []string
	stderr sync.WaitGroup
}

var c09ReUnsupported = regexp.MustCompile(`(unsupported \w+): .*`)

var c09ReDeath = regexp.MustCompile(`Panic:|^panic:|fatal error:|^runtime: |POTENTIAL DEADLOCK`)

func c09StartWorker(backends []*c09Backend) *c09Worker {
	wk := &c09Worker{sock: filepath.Join(vSockDir(), fmt.Sprintf("%d-c09w.sock", os.Getpid())), lines: make(chan string, 64), exited: make(chan struct{})}
	os.Remove(wk.sock)
	args := []string{"c09worker", wk.sock}
	for i, bk := range backends {
		args = append(args, fmt.Sprintf("id%d=%s", i+1, bk.addr))
	}
	quoted := make([]string, 0, len(args)+1)
	for _, a := range append([]string{os.Args[0]}, args...) {
		quoted = append(quoted, "'"+strings.ReplaceAll(a, "'", `'\''`)+"'")
	}
	// the worker runs under an address space limit: an allocation of what a reply header announces fails there
	wk.cmd = exec.Command("/bin/sh", "-c", fmt.Sprintf("ulimit -v %d; exec %s", c09MemLimitKB, strings.Join(quoted, " ")))
	wk.cmd.Env = append(os.Environ(), "VERIF_LOGLEVEL=error", "GOGC=50")
	wk.cmd.SysProcAttr = &syscall.SysProcAttr{Pdeathsig: syscall.SIGKILL}
	var err error
	wk.stdin, err = wk.cmd.StdinPipe()
	if err != nil {
		panic(err)
	}
	stdout, err := wk.cmd.StdoutPipe()
	if err != nil {
		panic(err)
	}
	stderr, err := wk.cmd.StderrPipe()
	if err != nil {
		panic(err)
	}
	if err = wk.cmd.Start(); err != nil {
		panic("c09: cannot start the worker: " + err.Error())
	}
	go func() {
		sc := bufio.NewScanner(stdout)
		sc.Buffer(make([]byte, 1<<16), 1<<22)
		for sc.Scan() {
			wk.lines <- sc.Text()
		}
	}()
	wk.stderr.Add(1)
	go func() {
		defer wk.stderr.Done()
		sc := bufio.NewScanner(stderr)
		sc.Buffer(make([]byte, 1<<16), 1<<24)
		for sc.Scan() {
			line := sc.Text()
			if c09ReDeath.MatchString(line) {
				wk.dying.Store(true)
			}
			wk.errMu.Lock()
			if len(wk.errBuf) < 400 {
				if len(line) > 300 {
					line = line[:300]
				}
				wk.errBuf = append(wk.errBuf, line)
			}
			wk.errMu.Unlock()
		}
	}()
	go func() {
		wk.stderr.Wait()
		_ = wk.cmd.Wait()
		close(wk.exited)
	}()
	// one DONE per peer, then READY
	deadline := time.After(20 * time.Second)
	for {
		select {
		case line := <-wk.lines:
			if line == "READY" {
				return wk
			}
		case <-wk.exited:
			panic("c09: the worker died while starting: " + wk.deathNote())
		case <-deadline:
			wk.kill()
			panic("c09: the worker did not become ready: " + wk.deathNote())
		}
	}
}

func (w *c09Worker) deathNote() string {
	w.errMu.Lock()
	defer w.errMu.Unlock()
	for _, l := range w.errBuf {
		if c09ReDeath.MatchString(l) {
			return l
		}
	}
	if len(w.errBuf) > 0 {
		return w.errBuf[len(w.errBuf)-1]
	}

	return "(nothing on stderr)"
}

func (w *c09Worker) alive() bool {
	select {
	case <-w.exited:
		return false
	default:
		return !w.dying.Load()
	}
}

// settled waits for a dying worker to be gone; returns whether it is (still) alive.
func (w *c09Worker) settled() bool {
	time.Sleep(1500 * time.Microsecond)
	if w.alive() {
		return true
	}
	select {
	case <-w.exited:
	case <-time.After(5 * time.Second):
		w.kill()
	}

	return false
}

func (w *c09Worker) kill() {
	if w.cmd.Process != nil {
		_ = w.cmd.Process.Kill()
	}
	select {
	case <-w.exited:
	case <-time.After(3 * time.Second):
	}
	os.Remove(w.sock)
}

func (w *c09Worker) stop() {
	fmt.Fprintf(w.stdin, "QUIT\n")
	w.stdin.Close()
	select {
	case <-w.exited:
	case <-time.After(2 * time.Second):
		w.kill()
	}
	os.Remove(w.sock)
}

// update runs one update step; res: "ok", "err", "hang" or "dead".
func (w *c09Worker) update(kind, peer string) string {
	if _, err := fmt.Fprintf(w.stdin, "UPDATE %s %s\n", kind, peer); err != nil {
		return "dead"
	}
	select {
	case line := <-w.lines:
		if strings.HasPrefix(line, "DONE ok") {
			return "ok"
		}

		return "err"
	case <-w.exited:
		return "dead"
	case <-time.After(c09StepDeadline):
		if !w.alive() {
			return "dead"
		}

		return "hang"
	}
}

var c09ReFixed16 = regexp.MustCompile(`^(\d{3}) +(\d+)\n`)

// request sends the payload like a client, closes its write side and reads until the daemon closes.
// obs: "resp" (code: fixed16 code, 0 = answer without header), "closed", "hang", "dead".
func (w *c09Worker) request(payload []byte) (obs string, code int, body []byte) {
	conn, err := net.DialTimeout("unix", w.sock, time.Second)
	if err != nil {
		return "dead", 0, nil
	}
	defer conn.Close()
	deadline := time.Now().Add(c09Watchdog)
	_ = conn.SetDeadline(deadline)
	wdone := make(chan struct{})
	go func() {
		defer close(wdone)
		_, _ = conn.Write(payload)
		if uc, ok := conn.(*net.UnixConn); ok {
			_ = uc.CloseWrite()
		}
	}()
	data, rerr := io.ReadAll(io.LimitReader(conn, 64<<20))
	<-wdone
	if rerr != nil {
		var nerr net.Error
		if ok := asNetTimeout(rerr, &nerr); ok {
			return "hang", 0, data
		}
	}
	if m := c09ReFixed16.FindSubmatch(data); m != nil && len(data) >= 16 {
		fmt.Sscanf(string(m[1]), "%d", &code)

		return "resp", code, data[16:]
	}
	if len(data) > 0 {
		return "resp", 0, data
	}

	return "closed", 0, nil
}

func asNetTimeout(err error, target *net.Error) bool {
	if ne, ok := err.(net.Error); ok && ne.Timeout() {
		*target = ne

		return true
	}

	return false
}

const c09CanaryQuery = "GET hosts\nColumns: name\nOutputFormat: json\nResponseHeader: fixed16\n\n"

// canary: the daemon answers another client correctly.
func (w *c09Worker) canary(want []string) bool {
	obs, code, body := w.request([]byte(c09CanaryQuery))
	if os.Getenv("VERIF_C09_DEBUG") != "" {
		fmt.Fprintf(os.Stderr, "c09robust: canary: %s %d %.300s\n", obs, code, body)
	}
	if obs != "resp" || code != 200 {
		return false
	}
	var rows [][]string
	if json.Unmarshal(body, &rows) != nil {
		return false
	}
	got := make([]string, 0, len(rows))
	for _, r := range rows {
		if len(r) != 1 {
			return false
		}
		got = append(got, r[0])
	}
	sort.Strings(got)

	return strings.Join(got, "\x00") == strings.Join(want, "\x00")
}

// ---- building request texts --------------------------------------------------------------------------

// c09ItemLines are the header lines of one (usage, column) pair, exactly those of the matrix probe.
func c09ItemLines(table *Table, it c09Item) ([]string, bool) {
	if strings.HasPrefix(it.U, "(UShape ") {
		for _, sh := range c09Shapes(table) {
			if "(UShape "+coqStr(sh.Name)+")" == it.U {
				return sh.Lines, true
			}
		}

		return nil, false
	}
	usages := c09Usages()
	for i := range usages {
		if usages[i].Coq == it.U {
			col := table.GetColumn(it.C)
			if col == nil {
				col = &Column{Name: it.C, DataType: StringCol}
			}

			return usages[i].lines(it.C, c09TypicalArg(col), c09RegexArg), true
		}
	}

	return nil, false
}

func c09StructText(in *c09Input) (string, bool) {
	tn, err := NewTableName(in.Table)
	if err != nil {
		return "", false
	}
	table := Objects.Tables[tn]
	lines := []string{}
	for _, it := range in.Items {
		if it.C != "" && strings.ContainsAny(it.C, " \n\r\t:") {
			return "", false
		}
		ls, ok := c09ItemLines(table, it)
		if !ok {
			return "", false
		}
		lines = append(lines, ls...)
	}
	// short waits only, and the code must be visible
	for i, l := range lines {
		if strings.HasPrefix(l, "WaitTimeout: 1") {
			lines[i] = "WaitTimeout: 20"
		}
	}
	lines = append(lines, "ResponseHeader: fixed16")

	return c09RequestText(table.name.String(), lines), true
}

func c09RawPayload(in *c09Input) []byte {
	lines := append([]string{}, in.Lines...)
	for k := 0; k+1 < len(in.Long); k += 2 {
		idx, rep := in.Long[k], in.Long[k+1]
		if idx >= 0 && idx < len(lines) && rep > 0 && rep <= 4<<20 {
			words := strings.Fields(lines[idx])
			last := "x"
			if len(words) > 0 {
				last = words[len(words)-1]
			}
			if len(last)*rep > 8<<20 {
				rep = (8 << 20) / len(last)
			}
			lines[idx] += strings.Repeat(last, rep)
		}
	}
	var buf bytes.Buffer
	for _, l := range lines {
		buf.WriteString(l)
		buf.WriteByte('\n')
	}
	if raw, err := hex.DecodeString(in.Hex); err == nil {
		buf.Write(raw)
	}
	if !in.NoEnd {
		buf.WriteByte('\n')
	}

	return buf.Bytes()
}

// ---- generators -----------------------------------------------------------------------------------------

type c09Gen struct {
	rnd    *vRand
	tables []*Table
	usages []c09Usage
}

func (g *c09Gen) column(table *Table) string {
	if g.rnd.chance(1, 12) {
		return vPick(g.rnd, []string{c09UnknownColumn, "nosuch", "state_", "name2"})
	}

	return vPick(g.rnd, table.columns).Name
}

func (g *c09Gen) genStruct() *c09Input {
	table := vPick(g.rnd, g.tables)
	in := &c09Input{Kind: "struct", Table: table.name.String()}
	if g.rnd.chance(1, 6) {
		sh := vPick(g.rnd, c09Shapes(table))
		in.Items = []c09Item{{U: "(UShape " + coqStr(sh.Name) + ")"}}

		return in
	}
	isStats := g.rnd.chance(1, 3)
	wrapped := g.rnd.chance(1, 3)
	classes := []string{"col", "filter", "sort", "wait", "filter", "col"}
	if isStats {
		classes = []string{"stats", "filter", "stats", "wait", "stats"}
	}
	n := 1 + g.rnd.intn(5)
	for len(in.Items) < n {
		class := vPick(g.rnd, classes)
		us := vPick(g.rnd, g.usages)
		if c09UsageClass(us.Coq) != class || (class == "col" && (us.Coq == "UColWrapped") != wrapped) {
			continue
		}
		in.Items = append(in.Items, c09Item{U: us.Coq, C: g.column(table)})
	}

	return in
}

// c09UsageClass: col | sort | stats | filter | wait | shape.
func c09UsageClass(u string) string {
	switch {
	case u == "UColJson" || u == "UColWrapped":
		return "col"
	case strings.HasPrefix(u, "(USort"):
		return "sort"
	case strings.HasPrefix(u, "(UStatsAgg") || u == "UStatsCounter" || u == "UGroupKey":
		return "stats"
	case strings.HasPrefix(u, "(UShape"):
		return "shape"
	case strings.HasPrefix(u, "(UFilter"):
		return "filter"
	case u == "UWaitCond":
		return "wait"
	}

	return "other"
}

var (
	c09Numbers = []string{"0", "-1", "1", "9223372036854775807", "9223372036854775808", "-9223372036854775808", "-9223372036854775809", "18446744073709551616",
		"1e999", "-1e999", "NaN", "Inf", "0x10", "1.5", "00000000000000000001", "99999999999999999999999999999999999999", "+5", " 7", "1e-400", "2147483648", "4294967296"}
	c09Regexes = []string{"([a", "a{100000}", "(?P<n", "*", "a**", "\\", "[z-a]", "(?i", "(a|b", "a{2,1}", "\\p{Foo}", "(((((((((((((((((((((((((((((a)))))))))))))))))))))))))))))",
		strings.Repeat("(a*)*", 40), strings.Repeat("a?", 300) + strings.Repeat("a", 300), "\xff\xfe", "^$", ".*.*.*.*.*.*.*.*x"}
	c09NumHeaders = []string{"Limit", "Offset", "WaitTimeout", "And", "Or", "StatsAnd", "StatsOr", "WaitConditionAnd", "WaitConditionOr"}
	c09Triggers   = []string{"all", "check", "state", "log", "downtime", "comment", "command", "program", "", "bogus", "ALL"}
	c09Objects    = []string{"foo", "foo;bar", ";", ";;", "vhost1", "vhost1;vsvc1", "vhost1;", ";vsvc1", "vhost1;vsvc1;x", "", " ", "\xff", strings.Repeat("a", 5000)}
)

func (g *c09Gen) genRaw() *c09Input {
	table := vPick(g.rnd, g.tables)
	tname := table.name.String()
	key := table.columns[0].Name
	col := g.column(table)
	in := &c09Input{Kind: "raw"}
	switch g.rnd.intn(14) {
	case 0: // binary garbage
		n := 1 + g.rnd.intn(300)
		buf := make([]byte, n)
		for i := range buf {
			buf[i] = byte(g.rnd.intn(256))
		}
		if g.rnd.chance(1, 2) {
			in.Lines = []string{"GET " + tname}
		}
		in.Hex = hex.EncodeToString(buf)
		in.NoEnd = g.rnd.chance(1, 2)
	case 1: // truncated request
		full := "GET " + tname + "\nColumns: " + key + "\nFilter: " + col + " = 1\nSort: " + key + " asc\nLimit: 10\nOutputFormat: wrapped_json\nResponseHeader: fixed16\n"
		cut := g.rnd.intn(len(full))
		in.Hex = hex.EncodeToString([]byte(full[:cut]))
		in.NoEnd = true
	case 2: // very long lines
		in.Lines = []string{"GET " + tname, "Columns: " + key, vPick(g.rnd, []string{"Filter: " + col + " = a", "Columns: " + key + " ", "Filter: " + col + " ~ a", "AuthUser: u", "Backends: b", "Sort: " + key, "Frob: x"})}
		in.Long = []int{2, vPick(g.rnd, []int{70000, 300000, 1100000, 4100000})}
	case 3: // many lines
		in.Lines = []string{"GET " + tname, "Columns: " + key}
		n := vPick(g.rnd, []int{50, 400, 3000})
		line := vPick(g.rnd, []string{"Filter: " + col + " != x", "Stats: " + col + " != x", "Columns: " + col, "Negate:", "Sort: " + key + " asc", "WaitCondition: " + key + " != x"})
		for i := 0; i < n; i++ {
			in.Lines = append(in.Lines, line)
		}
		if g.rnd.chance(1, 2) {
			in.Lines = append(in.Lines, fmt.Sprintf("%s: %d", vPick(g.rnd, []string{"And", "Or", "StatsAnd", "StatsOr"}), n))
		}
	case 4: // huge / negative numbers
		in.Lines = []string{"GET " + tname, "Columns: " + key, "Filter: " + key + " != x", "Filter: " + key + " != y", "Stats: " + key + " != z"}
		for k := 0; k < 1+g.rnd.intn(3); k++ {
			in.Lines = append(in.Lines, vPick(g.rnd, c09NumHeaders)+": "+vPick(g.rnd, c09Numbers))
		}
		in.Lines = append(in.Lines, "OutputFormat: "+vPick(g.rnd, []string{"json", "wrapped_json", "python", "python3"}))
	case 5: // numbers as filter arguments
		in.Lines = []string{"GET " + tname, "Columns: " + key}
		for k := 0; k < 1+g.rnd.intn(3); k++ {
			in.Lines = append(in.Lines, "Filter: "+g.column(table)+" "+vPick(g.rnd, []string{"=", "!=", "<", "<=", ">", ">=", "!>=", "~", "~~", "=~", "!=~", "!~", "!~~"})+" "+vPick(g.rnd, c09Numbers))
		}
	case 6: // invalid regular expressions
		in.Lines = []string{"GET " + tname, "Columns: " + key, "Filter: " + col + " " + vPick(g.rnd, []string{"~", "~~", "!~", "!~~"}) + " " + vPick(g.rnd, c09Regexes)}
		if g.rnd.chance(1, 2) {
			in.Lines = append(in.Lines, "Stats: "+col+" ~ "+vPick(g.rnd, c09Regexes))
		}
	case 7, 8: // Wait* forms
		in.Lines = []string{"GET " + tname, "Columns: " + key, "WaitTimeout: " + vPick(g.rnd, []string{"1", "50", "150", "300"})}
		if g.rnd.chance(4, 5) {
			in.Lines = append(in.Lines, "WaitTrigger: "+vPick(g.rnd, c09Triggers))
		}
		if g.rnd.chance(3, 4) {
			in.Lines = append(in.Lines, "WaitObject: "+vPick(g.rnd, c09Objects))
		}
		for k := 0; k < g.rnd.intn(3); k++ {
			in.Lines = append(in.Lines, "WaitCondition: "+g.column(table)+" "+vPick(g.rnd, []string{"=", "!=", "<", ">=", "~", "=~"})+" "+vPick(g.rnd, []string{"", "1", "a", "([a"}))
		}
		if g.rnd.chance(1, 4) {
			in.Lines = append(in.Lines, "WaitConditionNegate:")
		}
		if g.rnd.chance(1, 4) {
			in.Lines = append(in.Lines, vPick(g.rnd, []string{"WaitConditionAnd: 2", "WaitConditionOr: 2", "WaitConditionAnd: 0"}))
		}
	case 9: // first line variants
		in.Lines = []string{vPick(g.rnd, []string{"GET", "GET ", "GET  " + tname, "get " + tname, "GET " + tname + " extra", "GET nosuchtable", "GET " + strings.ToUpper(tname), "PUT " + tname,
			"GET " + tname + "\r", "COMMAND", "COMMAND [abc] X", "COMMAND [1700000000] SCHEDULE_FORCED_HOST_CHECK;vhost1;1700000000", "GET hosts\x00", "\x00", "GET log"}), "Columns: " + key}
	case 10: // several requests on one connection
		one := []string{"GET " + tname, "Columns: " + key, "KeepAlive: on", "ResponseHeader: fixed16", ""}
		for k := 0; k < 2+g.rnd.intn(4); k++ {
			in.Lines = append(in.Lines, one...)
		}
		in.Lines = append(in.Lines, "GET "+tname, "Stats: "+key+" !=", "KeepAlive: "+vPick(g.rnd, []string{"on", "off", "maybe"}))
	case 11: // header syntax
		in.Lines = []string{"GET " + tname, vPick(g.rnd, []string{"Columns", ":", ": x", "Columns:", "Columns:" + key, "Filter:", "Filter: " + key, "Filter: " + key + " =", "Stats:", "Stats: sum", "Stats: sum " + key + " extra",
			"Sort: " + key + " asc extra more", "Sort: custom_variables", "Sort: custom_variables FOO", "Sort: host_custom_variables A B C D", "OutputFormat:", "ResponseHeader:", "AuthUser: \xff\xfe", "Backends:", "Backends: id1 id1 id1 nosuch",
			"Localtime: 17", "KeepAlive:", "ColumnHeaders: perhaps", "StatsNegate:", "WaitConditionNegate: 5", "Negate: 3", "And:", "Or: x", "Filter: custom_variables", "Filter: custom_variables =", "Filter: custom_variables ~ ", "Stats: avg custom_variables"})}
	case 12: // pass-through table with a dead end
		in.Lines = []string{"GET log", "Columns: time type", "Filter: time >= 0", "Limit: " + vPick(g.rnd, c09Numbers)}
	default: // mixed valid headers in random order, duplicates
		in.Lines = []string{"GET " + tname}
		pool := []string{"Columns: " + key, "Columns: " + col, "Filter: " + col + " !=", "Or: 1", "And: 1", "Negate:", "Stats: " + col + " !=", "StatsAnd: 1", "StatsNegate:", "Sort: " + col + " desc", "Limit: 1", "Offset: 3",
			"OutputFormat: wrapped_json", "OutputFormat: json", "ColumnHeaders: on", "ResponseHeader: fixed16", "AuthUser: admin", "Backends: id2", "KeepAlive: on", "Stats: sum " + col, "Stats: max " + key}
		for k := 0; k < 2+g.rnd.intn(8); k++ {
			in.Lines = append(in.Lines, vPick(g.rnd, pool))
		}
	}

	return in
}

var c09FaultModes = []string{"width_short", "width_short_all", "width_long", "width_empty_row", "width_one_cell", "extra_rows", "no_rows", "types", "types_keep_keys", "invalid_utf8",
	"truncate", "oversize_body", "header_huge", "header_bad", "code", "invalid_json", "deep_nesting", "big_numbers"}

// c09FaultTargets: (step, table, match) of the queries one update step sends.
var c09FaultTargets = [][3]string{
	{"init", "status", ""}, {"init", "hosts", ""}, {"init", "services", ""}, {"init", "comments", ""}, {"init", "downtimes", ""}, {"init", "hostgroups", ""},
	{"init", "servicegroups", ""}, {"init", "contacts", ""}, {"init", "timeperiods", ""}, {"init", "commands", ""}, {"init", "contactgroups", ""}, {"init", "columns", ""},
	{"delta", "status", ""}, {"delta", "hosts", "Columns: last_check"}, {"delta", "hosts", "Filter: last_check"}, {"delta", "services", "Columns: last_check"}, {"delta", "services", "Filter: last_check"},
	{"delta", "comments", "Stats:"}, {"delta", "downtimes", "Stats:"},
	{"full", "status", ""}, {"full", "hosts", ""}, {"full", "services", ""}, {"full", "hostgroups", ""}, {"full", "servicegroups", ""}, {"full", "timeperiods", ""}, {"full", "contacts", ""},
}

func (g *c09Gen) genBackend() *c09Input {
	tgt := vPick(g.rnd, c09FaultTargets)
	mode := vPick(g.rnd, c09FaultModes)
	for tgt[1] == "status" && mode == "extra_rows" {
		// more than one status row turns the peer into a federation of sub peers (MultiBackend): outside the model
		mode = vPick(g.rnd, c09FaultModes)
	}

	return &c09Input{Kind: "backend", Fault: &c09Fault{Step: tgt[0], Table: tgt[1], Match: tgt[2], Mode: mode, Arg: g.rnd.intn(40)}}
}

// ---- running cases -------------------------------------------------------------------------------------

type c09Obs struct {
	Obs    string // resp | closed | hang | dead | ok | err
	Code   int
	Alive  bool
	Canary bool
	Use    *c09FaultUse
	Note   string
	// Lingers: the request may have left a polling goroutine behind
	Lingers bool
}

type c09Driver struct {
	backends []*c09Backend
	worker   *c09Worker
	hosts    []string
}

func (d *c09Driver) ensureWorker() {
	if d.worker != nil && d.worker.alive() {
		return
	}
	if d.worker != nil {
		d.worker.kill()
	}
	d.worker = c09StartWorker(d.backends)
	// every case meets a daemon that has already served a client (replays of single cases included)
	if !d.worker.canary(d.hosts) {
		panic("c09: a fresh worker does not answer the canary query: " + d.worker.deathNote())
	}
}

func (d *c09Driver) finish(obs *c09Obs, in *c09Input) {
	wk := d.worker
	obs.Alive = wk.settled()
	if obs.Alive && in.Kind == "backend" {
		// the backend answers correctly again: the next turn of the update loop brings the peer back
		// (a peer left in state warning makes commands wait for the loop, which only runs on demand here)
		wk.update("tick", "id1")
		obs.Alive = wk.settled()
	}
	if obs.Alive {
		obs.Canary = wk.canary(d.hosts)
		if !obs.Canary && in.Kind == "backend" && (obs.Use == nil || !obs.Use.Strict) {
			// a reply with other values (types, rows) was accepted as the backend's data: static columns come back with the next rebuild
			wk.update("init", "id1")
			obs.Canary = wk.canary(d.hosts)
		}
		for try := 0; try < 3 && !obs.Canary && wk.alive(); try++ {
			// a failed backend may be out for a grace time: let the loop repair it, then ask again
			for i := range d.backends {
				wk.update("tick", fmt.Sprintf("id%d", i+1))
			}
			obs.Canary = wk.canary(d.hosts)
		}
		obs.Alive = wk.settled()
	}
	if !obs.Alive {
		obs.Note = wk.deathNote()
	}
}

// c09Lingers: Peer.WaitCondition evaluates in a goroutine that polls every 200 ms and may outlive its request.
func c09Lingers(payload []byte) bool {
	return bytes.Contains(bytes.ToLower(payload), []byte("waittrigger"))
}

// c09LingerTime is how long such a goroutine can act after its request has been answered.
const c09LingerTime = WaitTimeoutCheckInterval + 80*time.Millisecond

// run observes one case. careful: wait until a lingering WaitCondition goroutine has acted before judging.
func (d *c09Driver) run(in *c09Input, careful bool) *c09Obs {
	d.ensureWorker()
	obs := &c09Obs{}
	wk := d.worker
	switch in.Kind {
	case "struct", "raw":
		var payload []byte
		if in.Kind == "struct" {
			text, ok := c09StructText(in)
			if !ok {
				obs.Obs = "invalid"

				return obs
			}
			payload = []byte(text)
		} else {
			payload = c09RawPayload(in)
		}
		obs.Obs, obs.Code, _ = wk.request(payload)
		obs.Lingers = c09Lingers(payload)
		if obs.Lingers && careful {
			time.Sleep(c09LingerTime)
		}
	case "backend":
		if in.Fault == nil {
			obs.Obs = "invalid"

			return obs
		}
		bk := d.backends[0]
		bk.arm(in.Fault)
		obs.Obs = wk.update(in.Fault.Step, "id1")
		obs.Use = bk.disarm()
		if os.Getenv("VERIF_C09_DEBUG") != "" && obs.Use != nil {
			fmt.Fprintf(os.Stderr, "c09robust: step %s: faulty reply to %q: %q\n", obs.Obs, obs.Use.Query, obs.Use.Reply[:min(len(obs.Use.Reply), 600)])
		}
		if obs.Obs == "hang" {
			// the step goroutine is stuck: nothing more can be asked of this worker
			wk.kill()
			obs.Note = "update step did not return"

			return obs
		}
	default:
		obs.Obs = "invalid"

		return obs
	}
	d.finish(obs, in)

	return obs
}

func (d *c09Driver) close() {
	if d.worker != nil {
		if d.worker.alive() {
			d.worker.stop()
		} else {
			d.worker.kill()
		}
	}
	for _, bk := range d.backends {
		bk.Close()
	}
}

// ---- Coq emission ----------------------------------------------------------------------------------------

func c09CoqBytes(buf []byte) string {
	parts := make([]string, 0, len(buf))
	for _, c := range buf {
		parts = append(parts, fmt.Sprintf("%d", c))
	}

	return "[" + strings.Join(parts, ";") + "]"
}

func c09CoqCase(idx int, in *c09Input, obs *c09Obs) string {
	kind := "KRaw"
	switch in.Kind {
	case "struct":
		items := make([]string, 0, len(in.Items))
		for _, it := range in.Items {
			items = append(items, fmt.Sprintf("(%s, %s)", it.U, coqStr(it.C)))
		}
		kind = fmt.Sprintf("(KStruct %s %s)", coqStr(in.Table), coqList(items))
	case "backend":
		if obs.Use == nil {
			kind = "KBackendUnused"

			break
		}
		reply := obs.Use.Reply
		hdr := reply
		if len(hdr) > 16 {
			hdr = hdr[:16]
		}
		rest := reply[len(hdr):]
		dec := "None"
		// what lmd reads as body: the announced number of bytes, as far as they arrive
		if m := reResponseHeader.FindStringSubmatch(string(hdr[:min(len(hdr), 15)])); len(m) == 3 && len(hdr) == 16 {
			var size int64
			fmt.Sscanf(m[2], "%d", &size)
			body := rest
			if size >= 0 && size < int64(len(body)) {
				body = body[:size]
			}
			if widths := c09DecodeWidths(body); widths != nil {
				parts := make([]string, 0, len(widths))
				for _, wd := range widths {
					parts = append(parts, fmt.Sprintf("%d%%nat", wd))
				}
				dec = "(Some " + coqList(parts) + ")"
			}
		}
		kind = fmt.Sprintf("(KBackend %s %s %d %s %d%%nat)", coqBool(obs.Use.Strict), c09CoqBytes(hdr), len(rest), dec, obs.Use.Width)
	}
	var ob string
	switch obs.Obs {
	case "resp":
		ob = fmt.Sprintf("(ObsResp %d)", obs.Code)
	case "closed":
		ob = "ObsClosed"
	case "ok":
		ob = "(ObsUpdate false)"
	case "err":
		ob = "(ObsUpdate true)"
	case "hang":
		ob = "ObsHang"
	default:
		ob = "ObsDead"
	}

	return fmt.Sprintf("Definition c%d : case := mkCase %s %s %s %s.\n", idx, kind, ob, coqBool(obs.Alive), coqBool(obs.Canary))
}

// c09MatrixPanicCases turns the panic / no-answer entries `gen` found into requests for the worker.
func c09MatrixPanicCases(limit int) []*c09Input {
	buf, err := os.ReadFile(c09PanicProbeFile())
	if err != nil {
		return nil
	}
	var entries []map[string]string
	if json.Unmarshal(buf, &entries) != nil {
		return nil
	}
	res := []*c09Input{}
	seen := map[string]bool{}
	// first one request per distinct panic text (different defects first), then one per (table, usage, text)
	for pass := 0; pass < 2; pass++ {
		for _, e := range entries {
			if e["table"] == "*" {
				continue
			}
			// "unsupported type: StringCol" and "unsupported type: StringListCol" are one defect
			key := c09ReUnsupported.ReplaceAllString(e["outcome"], "$1")
			if pass == 1 {
				key = e["table"] + "|" + e["usage"] + "|" + e["outcome"]
			}
			if seen[key] {
				continue
			}
			seen[key] = true
			seen[e["table"]+"|"+e["usage"]+"|"+e["outcome"]] = true
			if len(res) < limit {
				res = append(res, &c09Input{Kind: "struct", Table: e["table"], Items: []c09Item{{U: e["usage"], C: e["column"]}}})
			}
		}
	}

	return res
}

// c09TextMain prints what the inputs of a replay file send to the daemon.
func c09TextMain(args []string) int {
	if len(args) < 1 {
		fmt.Fprintln(os.Stderr, "usage: c09text <replay.json>")

		return 2
	}
	inputs := []*c09Input{}
	vReadReplay(args[0], &inputs)
	for i, in := range inputs {
		fmt.Printf("--- input %d (%s)\n", i, in.Kind)
		switch in.Kind {
		case "struct":
			text, ok := c09StructText(in)
			if !ok {
				fmt.Println("(ill-formed)")

				continue
			}
			fmt.Print(text)
		case "raw":
			payload := c09RawPayload(in)
			if len(payload) > 4000 {
				fmt.Printf("%q ... (%d bytes)\n", payload[:4000], len(payload))
			} else {
				fmt.Printf("%q\n", payload)
			}
		case "backend":
			buf, _ := json.Marshal(in.Fault)
			fmt.Printf("update step with a faulty reply: %s\n", buf)
		}
	}

	return 0
}

func c09RobustMain(args []string) int {
	flags := verifParseStreamFlags("c09robust", args)
	meta := newVMeta("robust", "an lmd worker process (unix socket listener, two peers, ulimit -v 2 GB) is fed 55% structured requests from the dispatch matrix' domain "+
		"(1..5 header lines: table x column x usage kind, or one request level shape; first of all the panic entries of the current matrix, if any), 30% raw requests "+
		"(binary garbage, truncation, lines up to 8 MB, thousands of lines, huge/negative numbers, invalid regexes, Wait* forms with short timeouts, several requests per connection, header syntax) "+
		"and 15% update steps (init/delta/full) against a scripted backend that answers one query with a faulty reply (wrong width, wrong types, truncated/oversized body, huge or malformed fixed16 header, "+
		"error code, invalid JSON/UTF-8, deep nesting). Watchdog 2 s per request, canary query after every case. non-trivial: every case; distinct by input")
	inputs := []*c09Input{}
	if flags.replay != "" {
		vReadReplay(flags.replay, &inputs)
	} else {
		gen := &c09Gen{rnd: newVRand(flags.seed ^ 0xC09), tables: c09Tables(), usages: c09Usages()}
		inputs = append(inputs, c09MatrixPanicCases(12)...)
		for i := 0; i < flags.n; i++ {
			switch r := gen.rnd.intn(100); {
			case r < 55:
				inputs = append(inputs, gen.genStruct())
			case r < 85:
				inputs = append(inputs, gen.genRaw())
			default:
				inputs = append(inputs, gen.genBackend())
			}
		}
	}
	if flags.replay == "" {
		// blocks of 150 cases, the update steps at the end of their block: a backend case has to wait until the
		// WaitCondition goroutines of earlier requests are gone (280 ms), once per block instead of once per case
		for from := 0; from < len(inputs); from += 150 {
			block := inputs[from:min(from+150, len(inputs))]
			sort.SliceStable(block, func(a, b int) bool { return block[a].Kind != "backend" && block[b].Kind == "backend" })
		}
	}
	drv := &c09Driver{backends: []*c09Backend{newC09Backend("b1", 11), newC09Backend("b2", 12)}}
	defer drv.close()
	drv.hosts = []string{"vhost1", "vhost1", "vhost2", "vhost2", "vhost3", "vhost3"}

	var sb strings.Builder
	sb.WriteString("From LMD Require Import C09.Run.\nOpen Scope N_scope.\nOpen Scope string_scope.\n")
	names := []string{}
	// Observations. A request with WaitTrigger can end the daemon up to 280 ms after it was answered: when the
	// worker dies with such requests still lingering, they and everything since are observed again one by one,
	// each followed by that time (replays are always observed this way).
	careful := flags.replay != ""
	observed := make([]*c09Obs, len(inputs))
	lingerIdx, lingerAt := -1, time.Time{}
	redo := func(from, to int) {
		for j := from; j <= to; j++ {
			observed[j] = drv.run(inputs[j], true)
		}
	}
	failures := 0
	for i, in := range inputs {
		if failures >= 6 {
			// a daemon that dies or hangs again and again: the cases so far say enough (a hang costs its deadline each time)
			fmt.Fprintf(os.Stderr, "c09robust: %d cases ended with a dead or hung worker, not running the remaining %d cases\n", failures, len(inputs)-i)
			inputs = inputs[:i]
			observed = observed[:i]

			break
		}
		if lingerIdx >= 0 && time.Since(lingerAt) > c09LingerTime+100*time.Millisecond {
			lingerIdx = -1
		}
		if in.Kind == "backend" && lingerIdx >= 0 {
			// a lingering WaitCondition goroutine refreshes its table from the backend: it must not take the faulty reply
			if rest := c09LingerTime - time.Since(lingerAt); rest > 0 {
				time.Sleep(rest)
			}
			if drv.worker != nil && !drv.worker.settled() {
				redo(lingerIdx, i-1)
			}
			lingerIdx = -1
		}
		observed[i] = drv.run(in, careful)
		if !careful && !observed[i].Alive && observed[i].Obs != "invalid" && lingerIdx >= 0 {
			redo(lingerIdx, i)
			lingerIdx = -1

			continue
		}
		if observed[i].Obs != "invalid" && (!observed[i].Alive || observed[i].Obs == "hang") {
			failures++
		}
		if observed[i].Lingers && !careful {
			if lingerIdx < 0 {
				lingerIdx = i
			}
			lingerAt = time.Now()
		}
	}
	if lingerIdx >= 0 && !careful {
		time.Sleep(c09LingerTime)
		if drv.worker != nil && !drv.worker.settled() {
			redo(lingerIdx, len(inputs)-1)
		}
	}
	for i, in := range inputs {
		obs := observed[i]
		if obs.Note != "" {
			buf, _ := json.Marshal(in)
			if len(buf) > 400 {
				buf = buf[:400]
			}
			fmt.Fprintf(os.Stderr, "c09robust: case %d: %s: %s\n", i, obs.Note, buf)
		}
		if obs.Obs == "invalid" {
			// ill-formed replay candidate: counts as agreement
			sb.WriteString(fmt.Sprintf("Definition c%d : case := mkCase KRaw ObsClosed true true.\n", i))
		} else {
			sb.WriteString(c09CoqCase(i, in, obs))
		}
		names = append(names, fmt.Sprintf("c%d", i))
		meta.count("kind=" + in.Kind)
		meta.count("obs=" + obs.Obs)
		if obs.Obs == "resp" {
			meta.count(fmt.Sprintf("code=%d", obs.Code))
		}
		switch in.Kind {
		case "struct":
			for _, it := range in.Items {
				meta.count("usage=" + strings.Trim(strings.SplitN(it.U, " ", 2)[0], "()"))
			}
			meta.count("table=" + in.Table)
		case "backend":
			if in.Fault != nil {
				meta.count("fault=" + in.Fault.Mode)
				meta.count("step=" + in.Fault.Step)
				if obs.Use == nil {
					meta.count("fault-not-reached")
				}
			}
		}
		if !obs.Alive && obs.Obs != "invalid" {
			meta.count("worker-died")
		}
		buf, _ := json.Marshal(in)
		meta.add(string(buf), true, in)
	}
	sb.WriteString("Definition cases : list case := " + coqList(names) + ".\n")
	sb.WriteString("Definition M := Eval vm_compute in mismatches cases.\nPrint M.\n")
	if err := os.WriteFile(flags.out, []byte(sb.String()), 0o644); err != nil {
		panic(err)
	}
	meta.write(flags.meta)

	return 0
}
